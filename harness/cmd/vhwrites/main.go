// Command vhwrites is the C18 translator: it loads package
// github.com/amzn/ion-go/ion from $VERIF_REPO (default /repo), builds SSA
// (golang.org/x/tools/go/ssa) and lists every instruction that can write state
// shared between independent Readers / Writers / Encoders / Decoders /
// Marshal / Unmarshal calls.  The list is emitted as the Coq file
// coq/Conc/SharedWrites.v (Definition shared_writes) and as JSON.
//
// What counts as shared state
//
//	G  package-level variables of any package (ssa.Global) and everything
//	   reachable from them by loads,
//	T  objects of the shared struct types sst, bogusSST, basicCatalog, lst
//	   (lst is exempt while it is the embedded field of a symbolTableBuilder
//	   inside a symbolTableBuilder method: that is the builder's private table),
//	   and every slice / map / pointer loaded from a field of such an object.
//
// What counts as a write
//
//	Store, MapUpdate, builtin append/copy/delete/clear whose target has origin
//	"shared"; additionally (rule E, alias escape) a slice/map/pointer with
//	origin "shared" that leaves the analysis' sight: stored into a non-shared
//	object, passed to a callee without SSA body in package ion (external,
//	interface method, closure), returned from an externally callable function,
//	sent on a channel; and (rule GO) any go statement of the package (the model
//	assumes the library itself starts no goroutine).
//
// Alias approximation (TRUSTED, see lib/props/c18.py TRUSTED_EXTRA)
//
//	origin(v) in {fresh < unknown < shared}:
//	  fresh   = allocated in this function body (Alloc/MakeMap/MakeSlice/...),
//	            or loaded from a fresh object (field-sensitive, flow-insensitive:
//	            the origins of the values stored into that field, or into the whole
//	            object, in the same function are joined in; a by-value copy of an
//	            unknown shared-type object counts as shared), or a parameter of a package-private
//	            function all of whose call sites pass fresh values (this is what
//	            makes basicCatalog.add, called only from NewCatalog, a constructor),
//	            or the result of a package function returning fresh values;
//	  shared  = G or T above;
//	  unknown = everything else (parameters of externally callable functions,
//	            results of external / interface calls, channel receives).
//	A FieldAddr on a shared struct type is shared unless its base is fresh
//	(type-based rule: an unknown *sst is assumed to be a published table).
//	Objects of every other type with unknown origin are assumed private to the
//	Reader/Writer/Encoder/Decoder that owns them (that is the property's
//	"distinct Readers, Writers ..." hypothesis, not something checked here).
//	init functions are skipped (they run before any goroutine of the client).
package main

import (
	"encoding/json"
	"flag"
	"fmt"
	"go/token"
	"go/types"
	"os"
	"sort"
	"strings"

	"golang.org/x/tools/go/packages"
	"golang.org/x/tools/go/ssa"
	"golang.org/x/tools/go/ssa/ssautil"
)

const ionPath = "github.com/amzn/ion-go/ion"

var sharedTypeNames = map[string]bool{"sst": true, "bogusSST": true, "basicCatalog": true, "lst": true}

type kind int

const (
	fresh kind = iota
	unknown
	shared
)

func (k kind) String() string { return [...]string{"fresh", "unknown", "shared"}[k] }

type origin struct {
	k    kind
	desc string
}

func join(a, b origin) origin {
	if b.k > a.k {
		return b
	}
	return a
}

type entry struct {
	Func string `json:"func"`
	Rule string `json:"rule"`
	Desc string `json:"desc"`
	Pos  string `json:"pos"`
}

type globalInfo struct {
	Name    string   `json:"name"`
	Type    string   `json:"type"`
	Readers []string `json:"readers"`
	Writers []string `json:"writers"`
}

type analysis struct {
	prog      *ssa.Program
	pkg       *ssa.Package
	fset      *token.FileSet
	funcs     []*ssa.Function
	closed    map[*ssa.Function]bool
	paramOrig map[*ssa.Function][]origin
	retOrig   map[*ssa.Function][]origin
	closures  map[*ssa.Function][]*ssa.MakeClosure // anonymous fn -> creation sites
	memo      map[ssa.Value]origin
	visiting  map[ssa.Value]bool
	entries   []entry
	stats     map[string]int
}

func isInit(fn *ssa.Function) bool {
	for f := fn; f != nil; f = f.Parent() {
		if f.Name() == "init" || strings.HasPrefix(f.Name(), "init#") {
			if f.Signature.Recv() == nil {
				return true
			}
		}
	}
	return false
}

func deref(t types.Type) types.Type {
	if p, ok := t.Underlying().(*types.Pointer); ok {
		return p.Elem()
	}
	return t
}

func namedIon(t types.Type) string {
	if n, ok := types.Unalias(t).(*types.Named); ok && n.Obj().Pkg() != nil && n.Obj().Pkg().Path() == ionPath {
		return n.Obj().Name()
	}
	return ""
}

func isSharedStruct(t types.Type) bool { return sharedTypeNames[namedIon(t)] }

// container: a value through which memory can be written and whose aliasing rule E follows.
// Not followed (TRUSTED as immutable / safe for concurrent use): interface values (error
// sentinels such as io.EOF, reflect.Type, the symbol-table and catalog interfaces whose dynamic
// types are covered by rule T) and pointers to named types of other packages
// (*time.Location, *base64.Encoding).  An interface made from a container in the same
// function (MakeInterface) is looked through by the caller.
func isContainer(t types.Type) bool {
	switch u := t.Underlying().(type) {
	case *types.Slice, *types.Map, *types.Chan:
		return true
	case *types.Pointer:
		if isSharedStruct(u.Elem()) {
			return false
		}
		if n, ok := types.Unalias(u.Elem()).(*types.Named); ok && n.Obj().Pkg() != nil && n.Obj().Pkg().Path() != ionPath {
			return false
		}
		return true
	}
	return false
}

func recvNamed(fn *ssa.Function) string {
	for f := fn; f != nil; f = f.Parent() {
		if r := f.Signature.Recv(); r != nil {
			return namedIon(deref(r.Type()))
		}
	}
	return ""
}

func (a *analysis) pos(p token.Pos, fn *ssa.Function) string {
	if !p.IsValid() {
		p = fn.Pos()
	}
	q := a.fset.Position(p)
	f := q.Filename
	if i := strings.LastIndex(f, "/ion/"); i >= 0 {
		f = "ion/" + f[i+5:]
	}
	return fmt.Sprintf("%s:%d", f, q.Line)
}

func (a *analysis) fname(fn *ssa.Function) string { return fn.RelString(a.pkg.Pkg) }

func (a *analysis) add(fn *ssa.Function, rule, desc string, p token.Pos) {
	a.entries = append(a.entries, entry{a.fname(fn), rule, desc, a.pos(p, fn)})
}

// ---------------------------------------------------------------------------
// origin of a value
// ---------------------------------------------------------------------------
func (a *analysis) origin(v ssa.Value) origin {
	if o, ok := a.memo[v]; ok {
		return o
	}
	if a.visiting[v] {
		return origin{fresh, ""} // bottom on cycles (phi loops)
	}
	a.visiting[v] = true
	o := a.origin1(v)
	delete(a.visiting, v)
	a.memo[v] = o
	return o
}

func (a *analysis) loadedFrom(addr ssa.Value) origin {
	o := a.origin(addr)
	switch o.k {
	case shared:
		return origin{shared, "loaded from " + o.desc}
	case unknown:
		return o
	}
	// fresh: join the origins of what this function stores into the same field of the same object
	res := origin{fresh, ""}
	if fa, ok := addr.(*ssa.FieldAddr); ok {
		if fn := fa.Parent(); fn != nil {
			for _, b := range fn.Blocks {
				for _, in := range b.Instrs {
					if st, ok := in.(*ssa.Store); ok {
						if fb, ok := st.Addr.(*ssa.FieldAddr); ok && fb.X == fa.X && fb.Field == fa.Field {
							res = join(res, a.origin(st.Val))
						}
						if st.Addr == fa.X { // whole-object store, e.g. c := *s
							res = join(res, a.origin(st.Val))
						}
					}
				}
			}
		}
	}
	return res
}

func (a *analysis) origin1(v ssa.Value) origin {
	switch x := v.(type) {
	case *ssa.Global:
		return origin{shared, "package-level variable " + x.Pkg.Pkg.Name() + "." + x.Name()}
	case *ssa.Alloc, *ssa.MakeMap, *ssa.MakeSlice, *ssa.MakeChan, *ssa.MakeClosure, *ssa.Const, *ssa.Function, *ssa.Builtin:
		return origin{fresh, ""}
	case *ssa.FieldAddr:
		st := deref(x.X.Type())
		base := a.origin(x.X)
		if isSharedStruct(st) {
			if namedIon(st) == "lst" && recvNamed(x.Parent()) == "symbolTableBuilder" {
				if outer, ok := x.X.(*ssa.FieldAddr); ok && namedIon(deref(outer.X.Type())) == "symbolTableBuilder" {
					a.stats["builder-exempt lst field addresses"]++
					return base // the builder's own embedded table
				}
			}
			if base.k == fresh {
				return base
			}
			fld := st.Underlying().(*types.Struct).Field(x.Field).Name()
			return origin{shared, "field " + namedIon(st) + "." + fld + " of a shared-type object"}
		}
		return base
	case *ssa.Field:
		return a.origin(x.X)
	case *ssa.IndexAddr:
		return a.origin(x.X)
	case *ssa.Index:
		return a.origin(x.X)
	case *ssa.Slice:
		return a.origin(x.X)
	case *ssa.UnOp:
		if x.Op == token.MUL {
			o := a.loadedFrom(x.X)
			if isSharedStruct(x.Type()) && o.k == unknown {
				// a by-value copy of a (possibly published) shared-type object: its slices and maps alias the original
				return origin{shared, "copy of a shared-type object (" + namedIon(x.Type()) + ")"}
			}
			return o
		}
		if x.Op == token.ARROW {
			return origin{unknown, "channel receive"}
		}
		return origin{fresh, ""}
	case *ssa.Lookup:
		o := a.origin(x.X)
		if o.k == shared {
			return origin{shared, "element of " + o.desc}
		}
		return o
	case *ssa.Phi:
		o := origin{fresh, ""}
		for _, e := range x.Edges {
			o = join(o, a.origin(e))
		}
		return o
	case *ssa.Parameter:
		fn := x.Parent()
		if po, ok := a.paramOrig[fn]; ok {
			for i, p := range fn.Params {
				if p == x {
					return po[i]
				}
			}
		}
		return origin{unknown, "parameter " + x.Name()}
	case *ssa.FreeVar:
		fn := x.Parent()
		idx := -1
		for i, fv := range fn.FreeVars {
			if fv == x {
				idx = i
			}
		}
		sites := a.closures[fn]
		if idx < 0 || len(sites) == 0 {
			return origin{unknown, "free variable " + x.Name()}
		}
		o := origin{fresh, ""}
		for _, mc := range sites {
			o = join(o, a.origin(mc.Bindings[idx]))
		}
		return o
	case *ssa.Call:
		if callee := x.Call.StaticCallee(); callee != nil {
			if ro, ok := a.retOrig[callee]; ok && len(ro) == 1 {
				return ro[0]
			}
		}
		if b, ok := x.Call.Value.(*ssa.Builtin); ok && b.Name() == "append" {
			// result may be the first argument's backing array
			return a.origin(x.Call.Args[0])
		}
		return origin{unknown, "call result"}
	case *ssa.Extract:
		switch t := x.Tuple.(type) {
		case *ssa.Call:
			if callee := t.Call.StaticCallee(); callee != nil {
				if ro, ok := a.retOrig[callee]; ok && x.Index < len(ro) {
					return ro[x.Index]
				}
			}
			return origin{unknown, "call result"}
		case *ssa.TypeAssert:
			return a.origin(t.X)
		case *ssa.Lookup:
			return a.origin(t)
		case *ssa.Next:
			if r, ok := t.Iter.(*ssa.Range); ok {
				o := a.origin(r.X)
				if o.k == shared {
					return origin{shared, "element of " + o.desc}
				}
				return o
			}
		case *ssa.UnOp:
			return a.origin(t)
		}
		return origin{unknown, "tuple component"}
	case *ssa.TypeAssert:
		return a.origin(x.X)
	case *ssa.ChangeType:
		return a.origin(x.X)
	case *ssa.ChangeInterface:
		return a.origin(x.X)
	case *ssa.MakeInterface:
		return a.origin(x.X)
	case *ssa.SliceToArrayPointer:
		return a.origin(x.X)
	case *ssa.Convert:
		// string <-> []byte/[]rune conversions allocate; numeric conversions carry no pointer;
		// unsafe.Pointer conversions keep the origin
		if _, ok := x.Type().Underlying().(*types.Slice); ok {
			return origin{fresh, ""}
		}
		return a.origin(x.X)
	case *ssa.BinOp:
		return origin{fresh, ""}
	}
	return origin{unknown, fmt.Sprintf("%T", v)}
}

// ---------------------------------------------------------------------------
// interprocedural summaries (parameters of package-private functions, results)
// ---------------------------------------------------------------------------
func (a *analysis) computeClosed() {
	// method names that can be reached through an interface
	ifaceMethods := map[string]bool{}
	addIface := func(t types.Type) {
		if it, ok := t.Underlying().(*types.Interface); ok {
			for i := 0; i < it.NumMethods(); i++ {
				ifaceMethods[it.Method(i).Name()] = true
			}
		}
	}
	for _, m := range a.pkg.Members {
		if t, ok := m.(*ssa.Type); ok {
			addIface(t.Type())
		}
	}
	taken := map[*ssa.Function]bool{}
	for _, fn := range a.funcs {
		for _, b := range fn.Blocks {
			for _, in := range b.Instrs {
				if c, ok := in.(ssa.CallInstruction); ok && c.Common().IsInvoke() {
					ifaceMethods[c.Common().Method.Name()] = true
				}
				rands := in.Operands(nil)
				for i, r := range rands {
					if r == nil || *r == nil {
						continue
					}
					if c, ok := in.(ssa.CallInstruction); ok && !c.Common().IsInvoke() && i == 0 {
						continue // callee position
					}
					if f, ok := (*r).(*ssa.Function); ok {
						if _, isMC := in.(*ssa.MakeClosure); isMC && i == 0 {
							continue // closures: handled as open functions with bound free variables
						}
						taken[f] = true
					}
				}
				if mc, ok := in.(*ssa.MakeClosure); ok {
					f := mc.Fn.(*ssa.Function)
					a.closures[f] = append(a.closures[f], mc)
				}
			}
		}
	}
	for _, fn := range a.funcs {
		obj := fn.Object()
		if obj == nil || obj.Exported() || taken[fn] || fn.Parent() != nil {
			continue
		}
		if fn.Signature.Recv() != nil && ifaceMethods[fn.Name()] {
			continue
		}
		a.closed[fn] = true
	}
}

func (a *analysis) summaries() {
	callSites := map[*ssa.Function]int{}
	for _, fn := range a.funcs {
		for _, b := range fn.Blocks {
			for _, in := range b.Instrs {
				if c, ok := in.(ssa.CallInstruction); ok {
					if callee := c.Common().StaticCallee(); callee != nil {
						callSites[callee]++
					}
				}
			}
		}
	}
	for _, fn := range a.funcs {
		if a.closed[fn] && callSites[fn] > 0 {
			po := make([]origin, len(fn.Params))
			a.paramOrig[fn] = po // bottom = fresh
		}
		if fn.Pkg == a.pkg {
			a.retOrig[fn] = make([]origin, fn.Signature.Results().Len())
		}
	}
	for iter := 0; iter < 50; iter++ {
		a.memo = map[ssa.Value]origin{}
		changed := false
		for _, fn := range a.funcs {
			for _, b := range fn.Blocks {
				for _, in := range b.Instrs {
					if c, ok := in.(ssa.CallInstruction); ok {
						callee := c.Common().StaticCallee()
						if po, ok := a.paramOrig[callee]; ok && callee != nil {
							for i, arg := range c.Common().Args {
								if i < len(po) {
									n := join(po[i], a.origin(arg))
									if n.k != po[i].k {
										po[i] = n
										changed = true
									}
								}
							}
						}
					}
					if r, ok := in.(*ssa.Return); ok {
						ro := a.retOrig[fn]
						for i, res := range r.Results {
							if i < len(ro) {
								n := join(ro[i], a.origin(res))
								if n.k != ro[i].k {
									ro[i] = n
									changed = true
								}
							}
						}
					}
				}
			}
		}
		a.stats["summary iterations"] = iter + 1
		if !changed {
			break
		}
	}
	a.memo = map[ssa.Value]origin{}
}

// ---------------------------------------------------------------------------
// the walk
// ---------------------------------------------------------------------------
func (a *analysis) open(fn *ssa.Function) bool { return !a.closed[fn] }

func (a *analysis) escapes(fn *ssa.Function, v ssa.Value, how string, p token.Pos) {
	t := v.Type()
	if mi, ok := v.(*ssa.MakeInterface); ok {
		t = mi.X.Type()
	}
	if !isContainer(t) {
		return
	}
	if o := a.origin(v); o.k == shared {
		a.add(fn, "E", fmt.Sprintf("alias escape: %s of type %s, %s, %s", valueKind(t), types.TypeString(t, types.RelativeTo(a.pkg.Pkg)), o.desc, how), p)
	}
}

func valueKind(t types.Type) string {
	switch t.Underlying().(type) {
	case *types.Slice:
		return "slice"
	case *types.Map:
		return "map"
	case *types.Pointer:
		return "pointer"
	case *types.Chan:
		return "channel"
	case *types.Interface:
		return "interface value"
	}
	return "value"
}

func (a *analysis) checkWrite(fn *ssa.Function, target ssa.Value, what string, p token.Pos) {
	a.stats["write instructions examined"]++
	o := a.origin(target)
	a.stats["writes with origin "+o.k.String()]++
	if o.k == shared {
		rule := "T"
		if strings.Contains(o.desc, "package-level variable") {
			rule = "G"
		}
		a.add(fn, rule, what+"; target: "+o.desc, p)
	}
}

func (a *analysis) walk() {
	for _, fn := range a.funcs {
		if isInit(fn) {
			a.stats["functions skipped (init)"]++
			continue
		}
		a.stats["functions walked"]++
		for _, b := range fn.Blocks {
			for _, in := range b.Instrs {
				a.stats["instructions walked"]++
				switch x := in.(type) {
				case *ssa.Store:
					a.checkWrite(fn, x.Addr, "Store", x.Pos())
					// rule E: a shared container stored outside the shared types
					if fa, ok := x.Addr.(*ssa.FieldAddr); !(ok && isSharedStruct(deref(fa.X.Type()))) {
						a.escapes(fn, x.Val, "stored into a location that is not a field of a shared type", x.Pos())
					}
				case *ssa.MapUpdate:
					a.checkWrite(fn, x.Map, "MapUpdate", x.Pos())
					a.escapes(fn, x.Value, "stored as a map value", x.Pos())
				case *ssa.Send:
					a.escapes(fn, x.X, "sent on a channel", x.Pos())
				case *ssa.Go:
					a.add(fn, "GO", "go statement: the library starts a goroutine (not covered by the interleaving model)", x.Pos())
				case *ssa.Return:
					if a.open(fn) {
						for _, r := range x.Results {
							a.escapes(fn, r, "returned from an externally callable function", x.Pos())
						}
					}
				}
				if c, ok := in.(ssa.CallInstruction); ok {
					cc := c.Common()
					if b, ok := cc.Value.(*ssa.Builtin); ok {
						switch b.Name() {
						case "append":
							if len(cc.Args) > 0 {
								a.checkWrite(fn, cc.Args[0], "append (may write the spare capacity of the backing array)", in.Pos())
							}
						case "copy", "delete", "clear":
							if len(cc.Args) > 0 {
								a.checkWrite(fn, cc.Args[0], "builtin "+b.Name(), in.Pos())
							}
						}
						continue
					}
					callee := cc.StaticCallee()
					if callee != nil && callee.Pkg == a.pkg && callee.Blocks != nil && callee.Parent() == nil && a.closed[callee] {
						continue // parameters tracked precisely
					}
					if callee != nil && callee.Pkg == a.pkg && callee.Blocks != nil && callee.Parent() == nil {
						// open package function: its body is walked with unknown parameters, which
						// keeps rule T (type-based) but loses rule G / derived containers: treat as escape
						for _, arg := range cc.Args {
							a.escapes(fn, arg, "passed to "+a.fname(callee)+" (parameters analysed as unknown)", in.Pos())
						}
						continue
					}
					how := "passed to a callee outside the analysis"
					if cc.IsInvoke() {
						how = "passed to interface method " + cc.Method.Name()
					} else if callee != nil {
						how = "passed to " + callee.String()
					}
					for _, arg := range cc.Args {
						a.escapes(fn, arg, how, in.Pos())
					}
					if cc.IsInvoke() {
						a.escapes(fn, cc.Value, "receiver of interface method "+cc.Method.Name(), in.Pos())
					}
				}
			}
		}
	}
}

// ---------------------------------------------------------------------------
// package-level variables: who reads / writes them
// ---------------------------------------------------------------------------
func (a *analysis) globals() []globalInfo {
	type rw struct{ r, w map[string]bool }
	m := map[*ssa.Global]*rw{}
	for _, fn := range a.funcs {
		for _, b := range fn.Blocks {
			for _, in := range b.Instrs {
				for _, r := range in.Operands(nil) {
					if r == nil || *r == nil {
						continue
					}
					g, ok := (*r).(*ssa.Global)
					if !ok {
						continue
					}
					e := m[g]
					if e == nil {
						e = &rw{map[string]bool{}, map[string]bool{}}
						m[g] = e
					}
					if st, ok := in.(*ssa.Store); ok && st.Addr == g {
						e.w[a.fname(fn)] = true
					} else {
						e.r[a.fname(fn)] = true
					}
				}
			}
		}
	}
	var out []globalInfo
	keys := func(s map[string]bool) []string {
		r := []string{}
		for k := range s {
			r = append(r, k)
		}
		sort.Strings(r)
		return r
	}
	for g, e := range m {
		out = append(out, globalInfo{g.Pkg.Pkg.Name() + "." + g.Name(),
			types.TypeString(deref(g.Type()), types.RelativeTo(a.pkg.Pkg)), keys(e.r), keys(e.w)})
	}
	// globals never referenced by a walked function still exist
	for _, mem := range a.pkg.Members {
		if g, ok := mem.(*ssa.Global); ok && m[g] == nil {
			out = append(out, globalInfo{"ion." + g.Name(), types.TypeString(deref(g.Type()), types.RelativeTo(a.pkg.Pkg)), []string{}, []string{}})
		}
	}
	sort.Slice(out, func(i, j int) bool { return out[i].Name < out[j].Name })
	return out
}

// ---------------------------------------------------------------------------
func coqString(s string) string {
	var b strings.Builder
	for _, r := range s {
		switch {
		case r == '"':
			b.WriteString(`""`)
		case r < 32 || r > 126:
			b.WriteByte('?')
		default:
			b.WriteRune(r)
		}
	}
	return `"` + b.String() + `"`
}

func coqComment(s string) string {
	s = strings.ReplaceAll(s, "(*", "( *")
	s = strings.ReplaceAll(s, "*)", "* )")
	return strings.ReplaceAll(s, `"`, "'")
}

func main() {
	coqOut := flag.String("coq", "", "write Conc/SharedWrites.v here")
	jsonOut := flag.String("json", "", "write the JSON report here ('-' = stdout)")
	flag.Parse()
	repo := os.Getenv("VERIF_REPO")
	if repo == "" {
		repo = "/repo"
	}
	cfg := &packages.Config{Mode: packages.LoadAllSyntax, Dir: repo, Tests: false, Env: os.Environ()}
	pkgs, err := packages.Load(cfg, ionPath)
	if err != nil {
		fmt.Fprintln(os.Stderr, "vhwrites: load:", err)
		os.Exit(2)
	}
	if len(pkgs) != 1 || packages.PrintErrors(pkgs) > 0 {
		fmt.Fprintln(os.Stderr, "vhwrites: package ion does not load / type-check")
		os.Exit(2)
	}
	prog, spkgs := ssautil.AllPackages(pkgs, ssa.InstantiateGenerics)
	prog.Build()
	a := &analysis{prog: prog, pkg: spkgs[0], fset: pkgs[0].Fset,
		closed: map[*ssa.Function]bool{}, paramOrig: map[*ssa.Function][]origin{}, retOrig: map[*ssa.Function][]origin{},
		closures: map[*ssa.Function][]*ssa.MakeClosure{}, memo: map[ssa.Value]origin{}, visiting: map[ssa.Value]bool{},
		stats: map[string]int{}}
	// whole-package walk: every declared function and method of package ion with a body, and
	// every function literal inside them (over-approximates "reachable from the exported API")
	for fn := range ssautil.AllFunctions(prog) {
		root := fn
		for root.Parent() != nil {
			root = root.Parent()
		}
		if root.Pkg == a.pkg && fn.Blocks != nil && (fn.Synthetic == "" || fn.Name() == "init") {
			a.funcs = append(a.funcs, fn)
		}
	}
	sort.Slice(a.funcs, func(i, j int) bool {
		if a.funcs[i].String() != a.funcs[j].String() {
			return a.funcs[i].String() < a.funcs[j].String()
		}
		return a.funcs[i].Pos() < a.funcs[j].Pos()
	})
	a.computeClosed()
	a.summaries()
	a.walk()
	sort.Slice(a.entries, func(i, j int) bool {
		x, y := a.entries[i], a.entries[j]
		if x.Func != y.Func {
			return x.Func < y.Func
		}
		if x.Pos != y.Pos {
			return x.Pos < y.Pos
		}
		return x.Desc < y.Desc
	})
	// de-duplicate
	var ents []entry
	for i, e := range a.entries {
		if i == 0 || e != a.entries[i-1] {
			ents = append(ents, e)
		}
	}
	gl := a.globals()
	var freshParams []string
	for fn, po := range a.paramOrig {
		for i, o := range po {
			if o.k == fresh && isSharedStruct(deref(fn.Params[i].Type())) {
				freshParams = append(freshParams, a.fname(fn)+" parameter "+fn.Params[i].Name())
			}
		}
	}
	sort.Strings(freshParams)

	if *coqOut != "" {
		var b strings.Builder
		b.WriteString("(* GENERATED by harness/cmd/vhwrites on every check run -- do not edit.\n")
		b.WriteString("   Every instruction of package ion (outside init) that can write state shared between\n")
		b.WriteString("   independent readers / writers / marshal calls: (function, rule + description + position).\n")
		b.WriteString("   Rules: G package-level variable, T object of a shared type (sst, bogusSST, basicCatalog, lst),\n")
		b.WriteString("   E alias escape of a shared slice/map/pointer, GO goroutine started by the library.\n\n")
		fmt.Fprintf(&b, "   functions walked: %d, instructions: %d, write instructions examined: %d\n",
			a.stats["functions walked"], a.stats["instructions walked"], a.stats["write instructions examined"])
		b.WriteString("   constructor-only parameters of shared type (all call sites pass fresh objects):\n")
		for _, s := range freshParams {
			b.WriteString("     " + coqComment(s) + "\n")
		}
		b.WriteString("   package-level variables (readers outside init / writers):\n")
		for _, g := range gl {
			fmt.Fprintf(&b, "     %s : %s  read by [%s] written by [%s]\n", coqComment(g.Name), coqComment(g.Type),
				coqComment(strings.Join(g.Readers, ", ")), coqComment(strings.Join(g.Writers, ", ")))
		}
		b.WriteString("*)\nFrom Coq Require Import List String.\nImport ListNotations.\nOpen Scope string_scope.\n\n")
		b.WriteString("Definition shared_writes : list (string * string) :=\n  [")
		for i, e := range ents {
			if i > 0 {
				b.WriteString(";")
			}
			fmt.Fprintf(&b, "\n    (%s, %s)", coqString(e.Func), coqString("["+e.Rule+"] "+e.Desc+" at "+e.Pos))
		}
		if len(ents) > 0 {
			b.WriteString("\n  ")
		}
		b.WriteString("].\n")
		old, _ := os.ReadFile(*coqOut)
		if string(old) != b.String() {
			if err := os.WriteFile(*coqOut, []byte(b.String()), 0o644); err != nil {
				fmt.Fprintln(os.Stderr, "vhwrites:", err)
				os.Exit(2)
			}
		}
	}
	rep := map[string]interface{}{"entries": ents, "globals": gl, "stats": a.stats, "fresh_params": freshParams, "repo": repo}
	if ents == nil {
		rep["entries"] = []entry{}
	}
	js, _ := json.MarshalIndent(rep, "", " ")
	switch *jsonOut {
	case "":
	case "-":
		fmt.Println(string(js))
	default:
		if err := os.WriteFile(*jsonOut, js, 0o644); err != nil {
			fmt.Fprintln(os.Stderr, "vhwrites:", err)
			os.Exit(2)
		}
	}
	fmt.Printf("vhwrites: %d shared-write entries\n", len(ents))
}
