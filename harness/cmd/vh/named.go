package main

import (
	"fmt"
	"strings"

	"github.com/amzn/ion-go/ion"
)

// Named (defined) non-struct types as Unmarshal targets: reflect.StructOf-built types cannot express them, so they
// are declared here.  unmnamed <case> x<ion text>  ->  ok <printed value> | err   (a panic is "panic", from main.go)
type (
	nKey   string
	nByte  byte
	nInt   int16
	nStr   string
	nBytes []byte
	nFloat float32
	nBool  bool
	nList  []nInt
	nMap   map[nKey]nInt
)

type nStruct struct {
	K nKey             `ion:"k"`
	M map[nKey]nStr    `ion:"m"`
	A [3]nByte         `ion:"a"`
	L []nInt           `ion:"l"`
	B nBytes           `ion:"b"`
	F nFloat           `ion:"f"`
	O nBool            `ion:"o"`
	P *nInt            `ion:"p"`
	X map[nKey][]nByte `ion:"x"`
}

func init() {
	register("unmnamed", func(a []string) string {
		if len(a) != 2 {
			return "badinput"
		}
		data, ok := unx(a[1])
		if !ok {
			return "badinput"
		}
		var err error
		var out string
		switch a[0] {
		case "mapkey":
			var m map[nKey]int
			err = ion.Unmarshal(data, &m)
			out = fmt.Sprint(m)
		case "mapnamed":
			var m nMap
			err = ion.Unmarshal(data, &m)
			out = fmt.Sprint(m)
		case "bytearr":
			var v [3]nByte
			err = ion.Unmarshal(data, &v)
			out = fmt.Sprint(v)
		case "bytes":
			var v nBytes
			err = ion.Unmarshal(data, &v)
			out = fmt.Sprint([]byte(v))
		case "byteslice":
			var v []nByte
			err = ion.Unmarshal(data, &v)
			out = fmt.Sprint(v)
		case "int":
			var v nInt
			err = ion.Unmarshal(data, &v)
			out = fmt.Sprint(v)
		case "list":
			var v nList
			err = ion.Unmarshal(data, &v)
			out = fmt.Sprint(v)
		case "str":
			var v nStr
			err = ion.Unmarshal(data, &v)
			out = fmt.Sprintf("%q", string(v))
		case "float":
			var v nFloat
			err = ion.Unmarshal(data, &v)
			out = fmt.Sprint(v)
		case "bool":
			var v nBool
			err = ion.Unmarshal(data, &v)
			out = fmt.Sprint(v)
		case "struct":
			var v nStruct
			err = ion.Unmarshal(data, &v)
			p := "nil"
			if v.P != nil {
				p = fmt.Sprint(*v.P)
			}
			out = fmt.Sprintf("%q|%v|%v|%v|%v|%v|%v|%s|%v", string(v.K), v.M, v.A, v.L, []byte(v.B), v.F, v.O, p, v.X)
		default:
			return "badinput"
		}
		if err != nil {
			return "err"
		}
		return "ok " + strings.Replace(out, " ", "_", -1)
	})
}
