package main

import (
	"errors"
	"fmt"
	"io"
	"math"
	"runtime"
	"strconv"
	"strings"

	"github.com/amzn/ion-go/ion"
)

// srcReader delivers its bytes in chunks of the given size (0 = all at once) and then
// either io.EOF or a persistent failure.
type srcReader struct {
	data    []byte
	pos     int
	chunk   int
	ioerr   bool
	withEOF bool // return the last data together with io.EOF
	splitAt int  // > 0: deliver data[:splitAt] then the rest (two reads)
}

var errSrc = errors.New("source failure")

func (s *srcReader) Read(p []byte) (int, error) {
	if s.pos >= len(s.data) {
		if s.ioerr {
			return 0, errSrc
		}
		return 0, io.EOF
	}
	n := len(p)
	if s.chunk > 0 && n > s.chunk {
		n = s.chunk
	}
	if s.splitAt > 0 && s.pos < s.splitAt && n > s.splitAt-s.pos {
		n = s.splitAt - s.pos
	}
	if n > len(s.data)-s.pos {
		n = len(s.data) - s.pos
	}
	copy(p, s.data[s.pos:s.pos+n])
	s.pos += n
	if s.withEOF && s.pos >= len(s.data) && !s.ioerr {
		return n, io.EOF
	}
	return n, nil
}

func showTok(t *ion.SymbolToken) string {
	if t == nil {
		return "nil"
	}
	if t.Text != nil {
		return fmt.Sprintf("k%x.%d", []byte(*t.Text), t.LocalSID)
	}
	return fmt.Sprintf("u.%d", t.LocalSID)
}

func canonFloat(f float64) uint64 {
	if math.IsNaN(f) {
		return 0x7FF8000000000000
	}
	return math.Float64bits(f)
}

func showDecimal(d *ion.Decimal) string {
	co, ex := d.CoEx()
	nz := 0
	if ion.VerifDecimalNegZero(d) {
		nz = 1
	}
	return fmt.Sprintf("D%se%dz%d", co.String(), ex, nz)
}

func showTimestamp(t *ion.Timestamp) string {
	dt := t.GetDateTime()
	_, off := dt.Zone()
	return fmt.Sprintf("T%d,%d,%d,%d,%d,%d,%d,%d,%d,%d,%d", dt.Year(), int(dt.Month()), dt.Day(), dt.Hour(),
		dt.Minute(), dt.Second(), dt.Nanosecond(), off/60, t.GetTimezoneKind(), t.GetPrecision(),
		t.GetNumberOfFractionalSeconds())
}

// rop applies one navigation call and returns its token.
func rop(r ion.Reader, op string) string {
	switch op {
	case "N":
		if r.Next() {
			return "T"
		}
		return "F"
	case "SI":
		if r.StepIn() == nil {
			return "ok"
		}
		return "err"
	case "SO":
		if r.StepOut() == nil {
			return "ok"
		}
		return "err"
	case "TY":
		return fmt.Sprintf("y%d", r.Type())
	case "NU":
		if r.IsNull() {
			return "n1"
		}
		return "n0"
	case "IS":
		if r.IsInStruct() {
			return "s1"
		}
		return "s0"
	case "ER":
		if r.Err() != nil {
			return "e1"
		}
		return "e0"
	case "AN":
		as, err := r.Annotations()
		if err != nil {
			return "err"
		}
		var sb strings.Builder
		sb.WriteString("a[")
		for i := range as {
			sb.WriteString(showTok(&as[i]))
			sb.WriteString(";")
		}
		sb.WriteString("]")
		return sb.String()
	case "FN":
		t, err := r.FieldName()
		if err != nil {
			return "err"
		}
		return showTok(t)
	case "BO":
		v, err := r.BoolValue()
		if err != nil {
			return "err"
		}
		if v == nil {
			return "nil"
		}
		if *v {
			return "b1"
		}
		return "b0"
	case "SZ":
		v, err := r.IntSize()
		if err != nil {
			return "err"
		}
		return fmt.Sprintf("z%d", v)
	case "IV":
		v, err := r.IntValue()
		if err != nil {
			return "err"
		}
		if v == nil {
			return "nil"
		}
		return fmt.Sprintf("I%d", *v)
	case "I6":
		v, err := r.Int64Value()
		if err != nil {
			return "err"
		}
		if v == nil {
			return "nil"
		}
		return fmt.Sprintf("I%d", *v)
	case "BI":
		v, err := r.BigIntValue()
		if err != nil {
			return "err"
		}
		if v == nil {
			return "nil"
		}
		return "I" + v.String()
	case "FL":
		v, err := r.FloatValue()
		if err != nil {
			return "err"
		}
		if v == nil {
			return "nil"
		}
		return fmt.Sprintf("F%d", canonFloat(*v))
	case "DE":
		v, err := r.DecimalValue()
		if err != nil {
			return "err"
		}
		if v == nil {
			return "nil"
		}
		return showDecimal(v)
	case "TS":
		v, err := r.TimestampValue()
		if err != nil {
			return "err"
		}
		if v == nil {
			return "nil"
		}
		return showTimestamp(v)
	case "ST":
		v, err := r.StringValue()
		if err != nil {
			return "err"
		}
		if v == nil {
			return "nil"
		}
		return "S" + xhex([]byte(*v))
	case "SY":
		v, err := r.SymbolValue()
		if err != nil {
			return "err"
		}
		return showTok(v)
	case "BY":
		v, err := r.ByteValue()
		if err != nil {
			return "err"
		}
		if v == nil {
			return "nil"
		}
		return "B" + xhex(v)
	}
	return "badop"
}

func accessorOf(t ion.Type) string {
	switch t {
	case ion.BoolType:
		return "BO"
	case ion.IntType:
		return "BI"
	case ion.FloatType:
		return "FL"
	case ion.DecimalType:
		return "DE"
	case ion.TimestampType:
		return "TS"
	case ion.SymbolType:
		return "SY"
	case ion.StringType:
		return "ST"
	case ion.ClobType, ion.BlobType:
		return "BY"
	}
	return ""
}

// traverse is the plain full traversal, mirrored by BinReader.traverse in the model.
func traverse(r ion.Reader, maxSteps int) (toks []string) {
	defer func() {
		if rec := recover(); rec != nil {
			toks = append(toks, "panic")
		}
	}()
	depth := 0
	for steps := 0; ; steps++ {
		if steps > maxSteps {
			toks = append(toks, "outoffuel")
			return
		}
		t := rop(r, "N")
		toks = append(toks, t)
		if t == "F" {
			if depth == 0 {
				break
			}
			t2 := rop(r, "SO")
			toks = append(toks, t2)
			if t2 != "ok" {
				break
			}
			depth--
			continue
		}
		toks = append(toks, rop(r, "FN"), rop(r, "AN"), rop(r, "TY"), rop(r, "NU"))
		if r.IsNull() {
			continue
		}
		if a := accessorOf(r.Type()); a != "" {
			toks = append(toks, rop(r, a))
			continue
		}
		t5 := rop(r, "SI")
		toks = append(toks, t5)
		if t5 == "ok" {
			depth++
		}
	}
	for _, o := range []string{"ER", "N", "ER", "N", "ER"} {
		toks = append(toks, rop(r, o))
	}
	return
}

func newSrc(a []string) (*srcReader, []string, bool) {
	if len(a) < 2 {
		return nil, nil, false
	}
	b, ok := unx(a[1])
	if !ok {
		return nil, nil, false
	}
	return &srcReader{data: b, ioerr: a[0] == "1"}, a[2:], true
}

func init() {
	// brd <ioerr> x<bytes> <ops...>: run a navigation program on a Reader over the bytes
	register("brd", func(a []string) string {
		src, ops, ok := newSrc(a)
		if !ok {
			return "badinput"
		}
		var toks []string
		func() {
			defer func() {
				if rec := recover(); rec != nil {
					toks = append(toks, "panic")
				}
			}()
			r := ion.NewReader(src)
			for _, o := range ops {
				toks = append(toks, rop(r, o))
			}
		}()
		return strings.Join(toks, " ")
	})
	// bchunk <chunksize> <withEOF> <ioerr> x<bytes>: plain full traversal with a chunking source
	register("bchunk", func(a []string) string {
		if len(a) < 4 {
			return "badinput"
		}
		src, _, ok := newSrc(a[2:])
		if strings.HasPrefix(a[0], "s") {
			k, err := strconv.Atoi(a[0][1:])
			if err != nil {
				return "badinput"
			}
			src.splitAt = k
			a[0] = "0"
		}
		cs, ok2 := argU(a, 0)
		if !ok || !ok2 {
			return "badinput"
		}
		src.chunk = int(cs)
		src.withEOF = a[1] == "1"
		return strings.Join(traverse(ion.NewReader(src), 4*len(src.data)+16), " ")
	})
	// balloc <ioerr> x<bytes>: bytes allocated by a plain full traversal (runtime.MemStats.TotalAlloc delta)
	register("balloc", func(a []string) string {
		src, _, ok := newSrc(a)
		if !ok {
			return "badinput"
		}
		var m0, m1 runtime.MemStats
		runtime.GC()
		runtime.ReadMemStats(&m0)
		toks := traverse(ion.NewReader(src), 4*len(src.data)+16)
		runtime.ReadMemStats(&m1)
		last := ""
		if len(toks) > 0 {
			last = toks[len(toks)-1]
		}
		return fmt.Sprintf("ok %d %s", m1.TotalAlloc-m0.TotalAlloc, last)
	})
	// btrav <ioerr> x<bytes>: plain full traversal
	register("btrav", func(a []string) string {
		src, _, ok := newSrc(a)
		if !ok {
			return "badinput"
		}
		toks := traverse(ion.NewReader(src), 4*len(src.data)+16)
		return strings.Join(toks, " ")
	})
}
