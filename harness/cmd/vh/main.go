// Command vh is the Go side of the /verif correspondence check: it reads one
// request line per case from stdin, runs the real ion-go code, and prints one
// response line per case in the same canonical syntax as the extracted model.
package main

import (
	"bufio"
	"encoding/hex"
	"fmt"
	"math/big"
	"os"
	"strconv"
	"strings"
)

type handler func(args []string) string

var handlers = map[string]handler{}

func register(name string, h handler) { handlers[name] = h }

func xhex(b []byte) string { return "x" + hex.EncodeToString(b) }

func unx(s string) ([]byte, bool) {
	if len(s) == 0 || s[0] != 'x' {
		return nil, false
	}
	b, err := hex.DecodeString(s[1:])
	return b, err == nil
}

func argU(args []string, i int) (uint64, bool) {
	if i >= len(args) {
		return 0, false
	}
	v, err := strconv.ParseUint(args[i], 10, 64)
	return v, err == nil
}

func argI(args []string, i int) (int64, bool) {
	if i >= len(args) {
		return 0, false
	}
	v, err := strconv.ParseInt(args[i], 10, 64)
	return v, err == nil
}

func argBig(args []string, i int) (*big.Int, bool) {
	if i >= len(args) {
		return nil, false
	}
	return new(big.Int).SetString(args[i], 10)
}

func argX(args []string, i int) ([]byte, bool) {
	if i >= len(args) {
		return nil, false
	}
	return unx(args[i])
}

func runLine(line string) (out string) {
	defer func() {
		if r := recover(); r != nil {
			out = "panic"
			if os.Getenv("VH_PANIC_DETAIL") != "" {
				out = fmt.Sprintf("panic %q", fmt.Sprint(r))
			}
		}
	}()
	toks := strings.Fields(line)
	if len(toks) == 0 {
		return "badinput"
	}
	h, ok := handlers[toks[0]]
	if !ok {
		return "badinput"
	}
	return h(toks[1:])
}

func main() {
	in := bufio.NewReaderSize(os.Stdin, 1<<20)
	out := bufio.NewWriterSize(os.Stdout, 1<<20)
	defer out.Flush()
	n := 0
	for {
		line, err := in.ReadString('\n')
		if len(line) > 0 {
			line = strings.TrimRight(line, "\r\n")
			fmt.Fprintln(out, runLine(line))
			n++
			// flush per line so that a fatal crash loses only the current case
			out.Flush()
		}
		if err != nil {
			break
		}
	}
}
