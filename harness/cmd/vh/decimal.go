package main

import (
	"fmt"
	"math/big"
	"strconv"

	"github.com/amzn/ion-go/ion"
)

// argDec reads <coefficient> <exponent:int32> <negzero:0|1> starting at args[i]
// and builds the value with ion.NewDecimal.
func argDec(a []string, i int) (*ion.Decimal, bool) {
	if i+2 >= len(a) {
		return nil, false
	}
	n, ok := new(big.Int).SetString(a[i], 10)
	if !ok {
		return nil, false
	}
	e, err := strconv.ParseInt(a[i+1], 10, 32)
	if err != nil {
		return nil, false
	}
	if a[i+2] != "0" && a[i+2] != "1" {
		return nil, false
	}
	return ion.NewDecimal(n, int32(e), a[i+2] == "1"), true
}

func outDec(d *ion.Decimal) string {
	n, e := d.CoEx()
	z := 0
	if ion.VerifDecimalIsNegZero(d) {
		z = 1
	}
	return fmt.Sprintf("ok %s %d %d", n.String(), e, z)
}

func decBin(f func(a, b *ion.Decimal) string) handler {
	return func(a []string) string {
		x, ok1 := argDec(a, 0)
		y, ok2 := argDec(a, 3)
		if !ok1 || !ok2 {
			return "badinput"
		}
		return f(x, y)
	}
}

func decUn(f func(a *ion.Decimal) string) handler {
	return func(a []string) string {
		x, ok := argDec(a, 0)
		if !ok {
			return "badinput"
		}
		return f(x)
	}
}

func decUnK(f func(a *ion.Decimal, k int) string) handler {
	return func(a []string) string {
		x, ok := argDec(a, 0)
		k, ok2 := argI(a, 3)
		if !ok || !ok2 {
			return "badinput"
		}
		return f(x, int(k))
	}
}

func init() {
	register("dec_add", decBin(func(a, b *ion.Decimal) string { return outDec(a.Add(b)) }))
	register("dec_sub", decBin(func(a, b *ion.Decimal) string { return outDec(a.Sub(b)) }))
	register("dec_mul", decBin(func(a, b *ion.Decimal) string { return outDec(a.Mul(b)) }))
	register("dec_cmp", decBin(func(a, b *ion.Decimal) string { return fmt.Sprintf("ok %d", a.Cmp(b)) }))
	register("dec_equal", decBin(func(a, b *ion.Decimal) string {
		if a.Equal(b) {
			return "ok 1"
		}
		return "ok 0"
	}))
	register("dec_neg", decUn(func(a *ion.Decimal) string { return outDec(a.Neg()) }))
	register("dec_abs", decUn(func(a *ion.Decimal) string { return outDec(a.Abs()) }))
	register("dec_sign", decUn(func(a *ion.Decimal) string { return fmt.Sprintf("ok %d", a.Sign()) }))
	register("dec_coex", decUn(func(a *ion.Decimal) string { return outDec(a) }))
	register("dec_shl", decUnK(func(a *ion.Decimal, k int) string { return outDec(a.ShiftL(k)) }))
	register("dec_shr", decUnK(func(a *ion.Decimal, k int) string { return outDec(a.ShiftR(k)) }))
	register("dec_trunc", decUnK(func(a *ion.Decimal, k int) string { return outDec(a.Truncate(k)) }))
	register("dec_upscale", func(a []string) string {
		x, ok := argDec(a, 0)
		if !ok || len(a) < 4 {
			return "badinput"
		}
		k, err := strconv.ParseInt(a[3], 10, 32)
		if err != nil {
			return "badinput"
		}
		return outDec(ion.VerifDecimalUpscale(x, int32(k)))
	})
	register("dec_truncint", decUn(func(a *ion.Decimal) string {
		v, err := ion.VerifDecimalTrunc(a)
		if err != nil {
			return "err"
		}
		return fmt.Sprintf("ok %d", v)
	}))
	register("dec_format", decUn(func(a *ion.Decimal) string { return "ok " + xhex([]byte(a.String())) }))
	register("dec_parse", func(a []string) string {
		b, ok := argX(a, 0)
		if !ok {
			return "badinput"
		}
		d, err := ion.ParseDecimal(string(b))
		if err != nil {
			return "err"
		}
		return outDec(d)
	})
}
