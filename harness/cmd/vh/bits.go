package main

import (
	"fmt"

	"github.com/amzn/ion-go/ion"
)

func init() {
	register("uintlen", func(a []string) string {
		v, ok := argU(a, 0)
		if !ok {
			return "badinput"
		}
		return fmt.Sprintf("ok %d", ion.VerifUintLen(v))
	})
	register("appenduint", func(a []string) string {
		v, ok := argU(a, 0)
		if !ok {
			return "badinput"
		}
		return "ok " + xhex(ion.VerifAppendUint(nil, v))
	})
	register("intlen", func(a []string) string {
		v, ok := argI(a, 0)
		if !ok {
			return "badinput"
		}
		return fmt.Sprintf("ok %d", ion.VerifIntLen(v))
	})
	register("appendint", func(a []string) string {
		v, ok := argI(a, 0)
		if !ok {
			return "badinput"
		}
		return "ok " + xhex(ion.VerifAppendInt(nil, v))
	})
	register("bigintlen", func(a []string) string {
		v, ok := argBig(a, 0)
		if !ok {
			return "badinput"
		}
		return fmt.Sprintf("ok %d", ion.VerifBigIntLen(v))
	})
	register("appendbigint", func(a []string) string {
		v, ok := argBig(a, 0)
		if !ok {
			return "badinput"
		}
		return "ok " + xhex(ion.VerifAppendBigInt(nil, v))
	})
	register("varuintlen", func(a []string) string {
		v, ok := argU(a, 0)
		if !ok {
			return "badinput"
		}
		return fmt.Sprintf("ok %d", ion.VerifVarUintLen(v))
	})
	register("appendvaruint", func(a []string) string {
		v, ok := argU(a, 0)
		if !ok {
			return "badinput"
		}
		return "ok " + xhex(ion.VerifAppendVarUint(nil, v))
	})
	register("varintlen", func(a []string) string {
		v, ok := argI(a, 0)
		if !ok {
			return "badinput"
		}
		return fmt.Sprintf("ok %d", ion.VerifVarIntLen(v))
	})
	register("appendvarint", func(a []string) string {
		v, ok := argI(a, 0)
		if !ok {
			return "badinput"
		}
		return "ok " + xhex(ion.VerifAppendVarInt(nil, v))
	})
	register("taglen", func(a []string) string {
		v, ok := argU(a, 0)
		if !ok {
			return "badinput"
		}
		return fmt.Sprintf("ok %d", ion.VerifTagLen(v))
	})
	register("appendtag", func(a []string) string {
		c, ok1 := argU(a, 0)
		l, ok2 := argU(a, 1)
		if !ok1 || !ok2 || c > 255 {
			return "badinput"
		}
		return "ok " + xhex(ion.VerifAppendTag(nil, byte(c), l))
	})
	register("readvaruint", func(a []string) string {
		m, ok1 := argU(a, 0)
		b, ok2 := argX(a, 1)
		if !ok1 || !ok2 {
			return "badinput"
		}
		v, l, pos, err := ion.VerifReadVarUintLen(b, m)
		if err != nil {
			return "err"
		}
		return fmt.Sprintf("ok %d %d %s", v, l, xhex(b[pos:]))
	})
	register("readvarint", func(a []string) string {
		m, ok1 := argU(a, 0)
		b, ok2 := argX(a, 1)
		if !ok1 || !ok2 {
			return "badinput"
		}
		v, s, l, pos, err := ion.VerifReadVarIntLen(b, m)
		if err != nil {
			return "err"
		}
		neg := 0
		if s < 0 {
			neg = 1
		}
		return fmt.Sprintf("ok %d %d %d %s", v, neg, l, xhex(b[pos:]))
	})
	register("readsignmag", func(a []string) string {
		b, ok := argX(a, 0)
		if !ok {
			return "badinput"
		}
		v, err := ion.VerifReadBigInt(b)
		if err != nil {
			return "err"
		}
		return "ok " + v.String()
	})
}
