package main

import (
	"bytes"

	"github.com/amzn/ion-go/ion"
	"context"
	"fmt"
	"io/ioutil"
	"os"
	"os/exec"
	"strings"
	"syscall"
	"time"
)

// K12: the REAL built ion-go binary (path in $VH_IONGO) run as a subprocess.
//
//	cli <format> <file|stdin> x<input bytes>
//	  -> ok <exit status> x<output> x<error report>
//	  -> crash <exit status | signal name | timeout> x<tail of stderr>
//
// file  : ion-go process -f <format> -o <tmp out> -e <tmp report> <tmp in>
// file2 : the same, but <tmp out> and <tmp report> already exist and hold 8 KiB of older content
// stdin : ion-go process -f <format> -e <tmp report>   (input on stdin, output on stdout)
// "crash" = killed by a signal, timed out, or a Go panic / fatal error trace on stderr.
func init() {
	register("cli", func(a []string) string {
		if len(a) >= 3 && a[1] == "files" {
			return cliFiles(a[0], a[2:])
		}
		if len(a) != 3 || (a[1] != "file" && a[1] != "file2" && a[1] != "stdin") {
			return "badinput"
		}
		in, ok := unx(a[2])
		if !ok {
			return "badinput"
		}
		bin := os.Getenv("VH_IONGO")
		if bin == "" {
			return "badinput"
		}
		dir, err := ioutil.TempDir(os.TempDir(), "vhcli")
		if err != nil {
			return "badinput"
		}
		defer os.RemoveAll(dir)
		inf, outf, errf := dir+"/in.ion", dir+"/out", dir+"/report"

		ctx, cancel := context.WithTimeout(context.Background(), 20*time.Second)
		defer cancel()
		var cmd *exec.Cmd
		var stdout, stderr bytes.Buffer
		if a[1] == "file" || a[1] == "file2" {
			if err := ioutil.WriteFile(inf, in, 0600); err != nil {
				return "badinput"
			}
			if a[1] == "file2" {
				stale := bytes.Repeat([]byte("stale_content 12345 \"left over\"\n"), 256)
				if ioutil.WriteFile(outf, stale, 0600) != nil || ioutil.WriteFile(errf, stale, 0600) != nil {
					return "badinput"
				}
			}
			cmd = exec.CommandContext(ctx, bin, "process", "-f", a[0], "-o", outf, "-e", errf, inf)
		} else {
			cmd = exec.CommandContext(ctx, bin, "process", "--output-format", a[0], "--error-report", errf)
			cmd.Stdin = bytes.NewReader(in)
		}
		cmd.Stdout = &stdout
		cmd.Stderr = &stderr
		// thousands of short-lived runs: keep the Go runtime of each from starting 16 threads and a collector
		cmd.Env = append(os.Environ(), "GOMAXPROCS=1", "GOGC=off")
		runErr := cmd.Run()

		tail := func() string {
			b := stderr.Bytes()
			// keep the head of the trace: it names the panic
			if len(b) > 300 {
				b = b[:300]
			}
			return xhex(b)
		}
		if ctx.Err() != nil {
			return "crash timeout " + tail()
		}
		status := 0
		if runErr != nil {
			ee, isExit := runErr.(*exec.ExitError)
			if !isExit {
				return "badinput"
			}
			if ws, ok := ee.Sys().(syscall.WaitStatus); ok && ws.Signaled() {
				return fmt.Sprintf("crash %s %s", strings.Replace(ws.Signal().String(), " ", "_", -1), tail())
			}
			status = ee.ExitCode()
		}
		se := stderr.String()
		if strings.Contains(se, "panic:") || strings.Contains(se, "fatal error:") || strings.Contains(se, "goroutine ") {
			return fmt.Sprintf("crash %d %s", status, tail())
		}
		var out []byte
		if a[1] == "file" || a[1] == "file2" {
			out, _ = ioutil.ReadFile(outf)
			// anything the command printed itself (usage text after an error) is kept visible
			out = append(out, stdout.Bytes()...)
		} else {
			out = stdout.Bytes()
		}
		rep, _ := ioutil.ReadFile(errf)
		return fmt.Sprintf("ok %d %s %s", status, xhex(out), xhex(rep))
	})
}

// cliFiles: ion-go process -f <format> -o <tmp out> -e <tmp report> <tmp in 0> <tmp in 1> ...  (several input files
// on one command line; each part is written to its own file exactly as given, e.g. text without a final newline)
//
//	cli <format> files x<part> x<part> ...  -> ok <exit status> x<output> x<error report> | crash ...
func cliFiles(format string, parts []string) string {
	bin := os.Getenv("VH_IONGO")
	if bin == "" {
		return "badinput"
	}
	dir, err := ioutil.TempDir(os.TempDir(), "vhcli")
	if err != nil {
		return "badinput"
	}
	defer os.RemoveAll(dir)
	outf, errf := dir+"/out", dir+"/report"
	args := []string{"process", "-f", format, "-o", outf, "-e", errf}
	for i, p := range parts {
		b, ok := unx(p)
		if !ok {
			return "badinput"
		}
		inf := fmt.Sprintf("%s/in%d.ion", dir, i)
		if err := ioutil.WriteFile(inf, b, 0600); err != nil {
			return "badinput"
		}
		args = append(args, inf)
	}
	ctx, cancel := context.WithTimeout(context.Background(), 20*time.Second)
	defer cancel()
	cmd := exec.CommandContext(ctx, bin, args...)
	var stdout, stderr bytes.Buffer
	cmd.Stdout = &stdout
	cmd.Stderr = &stderr
	cmd.Env = append(os.Environ(), "GOMAXPROCS=1", "GOGC=off")
	runErr := cmd.Run()
	se := stderr.Bytes()
	if len(se) > 300 {
		se = se[:300]
	}
	if ctx.Err() != nil {
		return "crash timeout " + xhex(se)
	}
	status := 0
	if runErr != nil {
		ee, isExit := runErr.(*exec.ExitError)
		if !isExit {
			return "badinput"
		}
		if ws, ok := ee.Sys().(syscall.WaitStatus); ok && ws.Signaled() {
			return fmt.Sprintf("crash %s %s", strings.Replace(ws.Signal().String(), " ", "_", -1), xhex(se))
		}
		status = ee.ExitCode()
	}
	if s := stderr.String(); strings.Contains(s, "panic:") || strings.Contains(s, "fatal error:") || strings.Contains(s, "goroutine ") {
		return fmt.Sprintf("crash %d %s", status, xhex(se))
	}
	out, _ := ioutil.ReadFile(outf)
	out = append(out, stdout.Bytes()...)
	rep, _ := ioutil.ReadFile(errf)
	return fmt.Sprintf("ok %d %s %s", status, xhex(out), xhex(rep))
}

// ctraverse is reader.go's plain traversal with one more observation: for a non-null int the token of
// IntSize ("z1" Int32, "z2" Int64, "z3" BigInt) precedes the value, because process.go switches on it.
func ctraverse(r ion.Reader, maxSteps int) (toks []string) {
	defer func() {
		if rec := recover(); rec != nil {
			toks = append(toks, "panic")
		}
	}()
	depth := 0
	for steps := 0; ; steps++ {
		if steps > maxSteps {
			toks = append(toks, "outoffuel")
			return
		}
		t := rop(r, "N")
		toks = append(toks, t)
		if t == "F" {
			if depth == 0 {
				break
			}
			t2 := rop(r, "SO")
			toks = append(toks, t2)
			if t2 != "ok" {
				break
			}
			depth--
			continue
		}
		toks = append(toks, rop(r, "FN"), rop(r, "AN"), rop(r, "TY"), rop(r, "NU"))
		if r.IsNull() {
			continue
		}
		if r.Type() == ion.IntType {
			toks = append(toks, rop(r, "SZ"))
		}
		if a := accessorOf(r.Type()); a != "" {
			toks = append(toks, rop(r, a))
			continue
		}
		t5 := rop(r, "SI")
		toks = append(toks, t5)
		if t5 == "ok" {
			depth++
		}
	}
	for _, o := range []string{"ER", "N", "ER", "N", "ER"} {
		toks = append(toks, rop(r, o))
	}
	return
}

func init() {
	// ctrav <ioerr> x<bytes>: the observation process.go works from
	register("ctrav", func(a []string) string {
		src, _, ok := newSrc(a)
		if !ok {
			return "badinput"
		}
		return strings.Join(ctraverse(ion.NewReader(src), 4*len(src.data)+16), " ")
	})
}

