package main

import (
	"bufio"
	"errors"
	"fmt"
	"io"
	"strconv"
	"strings"
)

// K13b: the real bufio.Reader over a source that delivers its bytes in scheduled chunks and then its final error.
//
//	bufio <e|f> <0|1> x<bytes> <k> <size>*k <ops...>      (see coq/Drv/DrvBufio.v)
type schedSrc struct {
	data  []byte
	sizes []int
	fin   error
	with  bool
}

var errSrcFail = errors.New("source failure")

func (s *schedSrc) Read(p []byte) (int, error) {
	if len(s.data) == 0 {
		return 0, s.fin
	}
	want := len(s.data)
	if len(s.sizes) > 0 {
		want = s.sizes[0]
		s.sizes = s.sizes[1:]
	}
	n := len(p)
	if want < n {
		n = want
	}
	if len(s.data) < n {
		n = len(s.data)
	}
	copy(p, s.data[:n])
	s.data = s.data[n:]
	if len(s.data) == 0 && s.with {
		return n, s.fin
	}
	return n, nil
}

func errTok(err error) string {
	switch err {
	case nil:
		return "-"
	case io.EOF:
		return "eof"
	case errSrcFail:
		return "fail"
	case bufio.ErrBufferFull:
		return "full"
	case io.ErrUnexpectedEOF:
		return "ueof"
	case io.ErrNoProgress:
		return "noprog"
	}
	return "other"
}

func init() {
	register("bufio", func(a []string) string {
		if len(a) < 4 {
			return "badinput"
		}
		data, ok := unx(a[2])
		k, err := strconv.Atoi(a[3])
		if !ok || err != nil || k < 0 || len(a) < 4+k {
			return "badinput"
		}
		src := &schedSrc{data: data, fin: io.EOF, with: a[1] == "1"}
		if a[0] == "f" {
			src.fin = errSrcFail
		}
		for _, t := range a[4 : 4+k] {
			n, err := strconv.Atoi(t)
			if err != nil || n < 1 {
				return "badinput"
			}
			src.sizes = append(src.sizes, n)
		}
		br := bufio.NewReader(src)
		out := []string{"ok"}
		ops := a[4+k:]
		for i := 0; i < len(ops); i++ {
			if ops[i] == "rb" {
				c, err := br.ReadByte()
				if err != nil {
					out = append(out, "E"+errTok(err))
				} else {
					out = append(out, fmt.Sprintf("b%d", c))
				}
				continue
			}
			if i+1 >= len(ops) {
				return "badinput"
			}
			n, err := strconv.Atoi(ops[i+1])
			if err != nil || n < 0 {
				return "badinput"
			}
			switch ops[i] {
			case "pk":
				d, err := br.Peek(n)
				out = append(out, xhex(d)+":"+errTok(err))
			case "ds":
				m, err := br.Discard(n)
				out = append(out, fmt.Sprintf("n%d:%s", m, errTok(err)))
			case "rf":
				buf := make([]byte, n)
				m, err := io.ReadFull(br, buf)
				out = append(out, xhex(buf[:m])+":"+errTok(err))
			default:
				return "badinput"
			}
			i++
		}
		return strings.Join(out, " ")
	})
}
