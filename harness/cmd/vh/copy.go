package main

import (
	"bytes"
	"fmt"

	"github.com/amzn/ion-go/ion"
)

// copyLoop is the documented copy loop (README "Reading and Writing", generalised to every type):
// field name, annotations, then the value, recursing into containers.
func copyLoop(in ion.Reader, out ion.Writer) error {
	for in.Next() {
		name, err := in.FieldName()
		if err != nil {
			return err
		}
		if name != nil {
			if err := out.FieldName(*name); err != nil {
				return err
			}
		}
		an, err := in.Annotations()
		if err != nil {
			return err
		}
		if len(an) > 0 {
			if err := out.Annotations(an...); err != nil {
				return err
			}
		}
		t := in.Type()
		if in.IsNull() {
			if err := out.WriteNullType(t); err != nil {
				return err
			}
			continue
		}
		switch t {
		case ion.BoolType:
			v, err := in.BoolValue()
			if err != nil {
				return err
			}
			err = out.WriteBool(*v)
			if err != nil {
				return err
			}
		case ion.IntType:
			sz, err := in.IntSize()
			if err != nil {
				return err
			}
			if sz == ion.BigInt {
				v, err := in.BigIntValue()
				if err != nil {
					return err
				}
				if err := out.WriteBigInt(v); err != nil {
					return err
				}
			} else {
				v, err := in.Int64Value()
				if err != nil {
					return err
				}
				if err := out.WriteInt(*v); err != nil {
					return err
				}
			}
		case ion.FloatType:
			v, err := in.FloatValue()
			if err != nil {
				return err
			}
			if err := out.WriteFloat(*v); err != nil {
				return err
			}
		case ion.DecimalType:
			v, err := in.DecimalValue()
			if err != nil {
				return err
			}
			if err := out.WriteDecimal(v); err != nil {
				return err
			}
		case ion.TimestampType:
			v, err := in.TimestampValue()
			if err != nil {
				return err
			}
			if err := out.WriteTimestamp(*v); err != nil {
				return err
			}
		case ion.SymbolType:
			v, err := in.SymbolValue()
			if err != nil {
				return err
			}
			if err := out.WriteSymbol(*v); err != nil {
				return err
			}
		case ion.StringType:
			v, err := in.StringValue()
			if err != nil {
				return err
			}
			if err := out.WriteString(*v); err != nil {
				return err
			}
		case ion.ClobType:
			v, err := in.ByteValue()
			if err != nil {
				return err
			}
			if err := out.WriteClob(v); err != nil {
				return err
			}
		case ion.BlobType:
			v, err := in.ByteValue()
			if err != nil {
				return err
			}
			if err := out.WriteBlob(v); err != nil {
				return err
			}
		case ion.ListType, ion.SexpType, ion.StructType:
			if err := in.StepIn(); err != nil {
				return err
			}
			switch t {
			case ion.ListType:
				err = out.BeginList()
			case ion.SexpType:
				err = out.BeginSexp()
			default:
				err = out.BeginStruct()
			}
			if err != nil {
				return err
			}
			if err := copyLoop(in, out); err != nil {
				return err
			}
			if err := in.StepOut(); err != nil {
				return err
			}
			switch t {
			case ion.ListType:
				err = out.EndList()
			case ion.SexpType:
				err = out.EndSexp()
			default:
				err = out.EndStruct()
			}
			if err != nil {
				return err
			}
		default:
			return fmt.Errorf("unexpected type %v", t)
		}
	}
	return in.Err()
}

func init() {
	// copycat <text|pretty|binary> x<source bytes> <shared table descriptors...>: the same with a catalog on the reader
	register("copycat", func(a []string) string {
		if len(a) < 2 {
			return "badinput"
		}
		src, ok := unx(a[1])
		if !ok {
			return "badinput"
		}
		c := &stCur{a: a[2:]}
		sts := c.shareds()
		if !c.done() {
			return "badinput"
		}
		var buf bytes.Buffer
		var w ion.Writer
		switch a[0] {
		case "text":
			w = ion.NewTextWriter(&buf)
		case "pretty":
			w = ion.NewTextWriterOpts(&buf, ion.TextWriterPretty)
		case "binary":
			w = ion.NewBinaryWriter(&buf)
		default:
			return "badinput"
		}
		if err := copyLoop(ion.NewReaderCat(bytes.NewReader(src), ion.NewCatalog(sts...)), w); err != nil {
			return "err loop"
		}
		if err := w.Finish(); err != nil {
			return "err finish"
		}
		return "ok " + xhex(buf.Bytes())
	})
	// copy <text|pretty|binary> x<source bytes>: reader -> writer with the documented loop
	register("copy", func(a []string) string {
		if len(a) < 2 {
			return "badinput"
		}
		src, ok := unx(a[1])
		if !ok {
			return "badinput"
		}
		var buf bytes.Buffer
		var w ion.Writer
		switch a[0] {
		case "text":
			w = ion.NewTextWriter(&buf)
		case "pretty":
			w = ion.NewTextWriterOpts(&buf, ion.TextWriterPretty)
		case "binary":
			w = ion.NewBinaryWriter(&buf)
		default:
			return "badinput"
		}
		if err := copyLoop(ion.NewReaderBytes(src), w); err != nil {
			return "err loop"
		}
		if err := w.Finish(); err != nil {
			return "err finish"
		}
		return "ok " + xhex(buf.Bytes())
	})
}
