package main

import (
	"fmt"
	"math/big"
	"runtime"

	"github.com/amzn/ion-go/ion"
)

type c06Struct struct {
	A int               `ion:"a"`
	B string            `ion:"b"`
	C []int             `ion:"c"`
	D map[string]string `ion:"d"`
	E *c06Struct        `ion:"e"`
	F interface{}       `ion:"f"`
	G []byte            `ion:"g"`
	H float32           `ion:"h"`
	I *ion.Decimal      `ion:"i"`
	J ion.Timestamp     `ion:"j"`
	K *big.Int          `ion:"k"`
	L [3]int8           `ion:"l"`
}

func c06Target(kind string) interface{} {
	switch kind {
	case "int":
		return new(int)
	case "int8":
		return new(int8)
	case "uint64":
		return new(uint64)
	case "string":
		return new(string)
	case "bool":
		return new(bool)
	case "float32":
		return new(float32)
	case "bytes":
		return new([]byte)
	case "slice":
		return new([]interface{})
	case "ints":
		return new([]int)
	case "map":
		return new(map[string]interface{})
	case "struct":
		return new(c06Struct)
	case "iface":
		return new(interface{})
	case "ptr":
		return new(*int)
	case "decimal":
		return new(*ion.Decimal)
	case "timestamp":
		return new(ion.Timestamp)
	case "bigint":
		return new(big.Int)
	case "array":
		return new([4]int)
	case "symtok":
		return new(ion.SymbolToken)
	}
	return nil
}

func init() {
	// decany <ioerr> x<bytes>: Decoder.Decode until it stops; answers the number of values and how it ended
	register("decany", func(a []string) string {
		src, _, ok := newSrc(a)
		if !ok {
			return "badinput"
		}
		d := ion.NewDecoder(ion.NewReader(src))
		n := 0
		for n < 4*len(src.data)+16 {
			_, err := d.Decode()
			if err == ion.ErrNoInput {
				return fmt.Sprintf("ok %d end", n)
			}
			if err != nil {
				return fmt.Sprintf("ok %d err", n)
			}
			n++
		}
		return fmt.Sprintf("ok %d nostop", n)
	})
	// unm <target> x<bytes>: ion.Unmarshal into a target of the given kind
	register("unm", func(a []string) string {
		if len(a) < 2 {
			return "badinput"
		}
		b, ok := unx(a[1])
		t := c06Target(a[0])
		if !ok || t == nil {
			return "badinput"
		}
		if err := ion.Unmarshal(b, t); err != nil {
			return "err"
		}
		return "ok"
	})
	// memtrav x<bytes>: TotalAlloc of traversal + Decode + Unmarshal(struct) over the bytes
	register("memtrav", func(a []string) string {
		if len(a) < 1 {
			return "badinput"
		}
		b, ok := unx(a[0])
		if !ok {
			return "badinput"
		}
		var m0, m1 runtime.MemStats
		runtime.GC()
		runtime.ReadMemStats(&m0)
		traverse(ion.NewReaderBytes(b), 4*len(b)+16)
		d := ion.NewDecoder(ion.NewReaderBytes(b))
		for i := 0; i < 4*len(b)+16; i++ {
			if _, err := d.Decode(); err != nil {
				break
			}
		}
		_ = ion.Unmarshal(b, new(c06Struct))
		runtime.ReadMemStats(&m1)
		grow := uint64(0)
		if m1.HeapSys > m0.HeapSys {
			grow = m1.HeapSys - m0.HeapSys
		}
		return fmt.Sprintf("ok %d %d", grow, m1.TotalAlloc-m0.TotalAlloc)
	})
}
