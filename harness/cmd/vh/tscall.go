package main

import (
	"strconv"
	"strings"
	"time"

	"github.com/amzn/ion-go/ion"
)

// parseTS builds a Timestamp from "y,mo,d,h,mi,s,ns,offmin,kind,prec,nfrac" (local fields).
func parseTS(s string) (ion.Timestamp, bool) {
	p := strings.Split(s, ",")
	if len(p) != 11 {
		return ion.Timestamp{}, false
	}
	var v [11]int
	for i, x := range p {
		n, err := strconv.Atoi(x)
		if err != nil {
			return ion.Timestamp{}, false
		}
		v[i] = n
	}
	loc := time.UTC
	if v[8] == 2 {
		loc = time.FixedZone("fixed", v[7]*60)
	}
	dt := time.Date(v[0], time.Month(v[1]), v[2], v[3], v[4], v[5], v[6], loc)
	return ion.NewTimestampWithFractionalSeconds(dt, ion.TimestampPrecision(v[9]), ion.TimezoneKind(v[8]), uint8(v[10])), true
}

func init() {
	// TS <fields> <len> x<body>: the Go side uses the fields; len/body are for the model
	extraCalls["TS"] = func(rest []string) (wcall, int, bool) {
		if len(rest) < 3 {
			return nil, 0, false
		}
		ts, ok := parseTS(rest[0])
		if !ok {
			return nil, 0, false
		}
		return func(w ion.Writer) error { return w.WriteTimestamp(ts) }, 3, true
	}
}
