package main

// Commands of component K6 (symbol tables); syntax documented in coq/Drv/DrvSymtab.v.

import (
	"bytes"
	"strconv"
	"strings"

	"github.com/amzn/ion-go/ion"
)

type stCur struct {
	a   []string
	pos int
	bad bool
}

func (c *stCur) peek() string {
	if c.pos < len(c.a) {
		return c.a[c.pos]
	}
	return ""
}

func (c *stCur) next() string {
	if c.pos < len(c.a) {
		c.pos++
		return c.a[c.pos-1]
	}
	c.bad = true
	return ""
}

func (c *stCur) lit(s string) {
	if c.next() != s {
		c.bad = true
	}
}

func stDecOnly(t string, allowNeg bool) bool {
	if allowNeg && strings.HasPrefix(t, "-") {
		t = t[1:]
	}
	if t == "" {
		return false
	}
	for _, ch := range t {
		if ch < '0' || ch > '9' {
			return false
		}
	}
	return true
}

func (c *stCur) u64() uint64 {
	t := c.next()
	if !stDecOnly(t, false) {
		c.bad = true
		return 0
	}
	v, err := strconv.ParseUint(t, 10, 64)
	if err != nil {
		c.bad = true
	}
	return v
}

func (c *stCur) i64() int64 {
	t := c.next()
	if !stDecOnly(t, true) {
		c.bad = true
		return 0
	}
	v, err := strconv.ParseInt(t, 10, 64)
	if err != nil {
		c.bad = true
	}
	return v
}

func (c *stCur) count() int {
	v := c.u64()
	if v >= 100000 {
		c.bad = true
		return 0
	}
	return int(v)
}

func (c *stCur) x() string {
	b, ok := unx(c.next())
	if !ok {
		c.bad = true
	}
	return string(b)
}

func (c *stCur) xs() []string {
	n := c.count()
	out := make([]string, 0, n)
	for i := 0; i < n && !c.bad; i++ {
		out = append(out, c.x())
	}
	return out
}

func (c *stCur) u64s() []uint64 {
	n := c.count()
	out := make([]uint64, 0, n)
	for i := 0; i < n && !c.bad; i++ {
		out = append(out, c.u64())
	}
	return out
}

// ids are arbitrary integers (kept as decimal strings, judged per query)
func (c *stCur) ids() []string {
	n := c.count()
	out := make([]string, 0, n)
	for i := 0; i < n && !c.bad; i++ {
		t := c.next()
		if !stDecOnly(t, true) {
			c.bad = true
		}
		out = append(out, t)
	}
	return out
}

func (c *stCur) shared() ion.SharedSymbolTable {
	k := c.next()
	var t ion.SharedSymbolTable
	switch k {
	case "S":
		name := c.x()
		ver := c.i64()
		syms := c.xs()
		t = ion.NewSharedSymbolTable(name, int(ver), syms)
	case "B":
		name := c.x()
		ver := c.i64()
		m := c.u64()
		t = ion.VerifNewBogusSST(name, int(ver), m)
	default:
		c.bad = true
		return nil
	}
	adj := c.u64s()
	if c.bad {
		return nil
	}
	for _, m := range adj {
		t = t.Adjust(m)
	}
	return t
}

func (c *stCur) shareds() []ion.SharedSymbolTable {
	var out []ion.SharedSymbolTable
	for !c.bad && (c.peek() == "S" || c.peek() == "B") {
		out = append(out, c.shared())
	}
	return out
}

func (c *stCur) probes() ([]string, []string) {
	c.lit("P")
	ps := c.xs()
	c.lit("Q")
	ids := c.ids()
	return ps, ids
}

func (c *stCur) done() bool { return !c.bad && c.pos == len(c.a) }

func stOptX(s string, ok bool) string {
	if !ok {
		return "n"
	}
	return xhex([]byte(s))
}

func stTok(tk ion.SymbolToken, err error) string {
	if err != nil {
		return "e 0"
	}
	t := "n"
	if tk.Text != nil {
		t = xhex([]byte(*tk.Text))
	}
	return t + " " + strconv.FormatInt(tk.LocalSID, 10)
}

// parse a decimal string that may exceed 64 bits; reports which views exist
func stIDViews(t string) (u uint64, uok bool, i int64, iok bool) {
	uu, err := strconv.ParseUint(t, 10, 64)
	if err == nil {
		u, uok = uu, true
	}
	ii, err := strconv.ParseInt(t, 10, 64)
	if err == nil {
		i, iok = ii, true
	}
	return
}

func stDumpLst(sb *strings.Builder, t ion.SymbolTable, ps []string, ids []string) {
	sb.WriteString("M " + strconv.FormatUint(t.MaxID(), 10))
	imps := t.Imports()
	sb.WriteString(" I " + strconv.Itoa(len(imps)))
	for _, i := range imps {
		sb.WriteString(" " + xhex([]byte(i.Name())) + " " + strconv.Itoa(i.Version()) + " " + strconv.FormatUint(i.MaxID(), 10))
	}
	syms := t.Symbols()
	sb.WriteString(" Y " + strconv.Itoa(len(syms)))
	for _, s := range syms {
		sb.WriteString(" " + xhex([]byte(s)))
	}
	for _, p := range ps {
		sb.WriteString(" t " + xhex([]byte(p)))
		id, ok := t.FindByName(p)
		if ok {
			sb.WriteString(" " + strconv.FormatUint(id, 10))
		} else {
			sb.WriteString(" n")
		}
		ft := t.Find(p)
		if ft == nil {
			sb.WriteString(" n")
		} else if ft.Text == nil || ft.LocalSID != ion.SymbolIDUnknown || ft.Source != nil {
			sb.WriteString(" ?")
		} else {
			sb.WriteString(" " + xhex([]byte(*ft.Text)))
		}
		tk, err := ion.NewSymbolToken(t, p)
		if err != nil || tk.Text == nil || *tk.Text != p {
			sb.WriteString(" e")
		} else {
			sb.WriteString(" " + strconv.FormatInt(tk.LocalSID, 10))
		}
		sb.WriteString(" " + stTok(ion.VerifNewSymbolTokenAuto(t, p)))
	}
	for _, d := range ids {
		sb.WriteString(" d " + d)
		u, uok, i, iok := stIDViews(d)
		if uok {
			s, ok := t.FindByID(u)
			sb.WriteString(" " + stOptX(s, ok))
		} else {
			sb.WriteString(" -")
		}
		if iok {
			sb.WriteString(" " + stTok(ion.NewSymbolTokenBySID(t, i)))
		} else {
			sb.WriteString(" - 0")
		}
	}
}

func stShared(sb *strings.Builder, x ion.SharedSymbolTable) {
	if x == nil {
		sb.WriteString(" n")
		return
	}
	c := x.MaxID()
	if c > 16 {
		c = 16
	}
	sb.WriteString(" " + xhex([]byte(x.Name())) + " " + strconv.Itoa(x.Version()) + " " +
		strconv.FormatUint(x.MaxID(), 10) + " " + strconv.FormatUint(c, 10))
	for i := uint64(1); i <= c; i++ {
		s, ok := x.FindByID(i)
		sb.WriteString(" " + stOptX(s, ok))
	}
}

func init() {
	register("lst", func(a []string) string {
		c := &stCur{a: a}
		imps := c.shareds()
		c.lit("L")
		syms := c.xs()
		ps, ids := c.probes()
		if !c.done() {
			return "badinput"
		}
		t := ion.NewLocalSymbolTable(imps, syms)
		sb := &strings.Builder{}
		sb.WriteString("ok ")
		stDumpLst(sb, t, ps, ids)
		return sb.String()
	})
	register("builder", func(a []string) string {
		c := &stCur{a: a}
		imps := c.shareds()
		c.lit("A")
		a1 := c.xs()
		c.lit("A")
		a2 := c.xs()
		ps, ids := c.probes()
		if !c.done() {
			return "badinput"
		}
		b := ion.NewSymbolTableBuilder(imps...)
		sb := &strings.Builder{}
		sb.WriteString("ok ")
		for _, x := range a1 {
			id, added := b.Add(x)
			sb.WriteString("a " + strconv.FormatUint(id, 10) + " " + stB2s(added) + " ")
		}
		built := b.Build()
		for _, x := range a2 {
			id, added := b.Add(x)
			sb.WriteString("b " + strconv.FormatUint(id, 10) + " " + stB2s(added) + " ")
		}
		stDumpLst(sb, built, ps, ids)
		sb.WriteString(" Z ")
		stDumpLst(sb, b, ps, ids)
		return sb.String()
	})
	register("sst", func(a []string) string {
		c := &stCur{a: a}
		x := c.shared()
		ps, ids := c.probes()
		if !c.done() {
			return "badinput"
		}
		sb := &strings.Builder{}
		sb.WriteString("ok " + xhex([]byte(x.Name())) + " " + strconv.Itoa(x.Version()) + " M " +
			strconv.FormatUint(x.MaxID(), 10) + " Y")
		if x.MaxID() <= 64 {
			syms := x.Symbols()
			sb.WriteString(" " + strconv.Itoa(len(syms)))
			for _, s := range syms {
				sb.WriteString(" " + xhex([]byte(s)))
			}
		} else {
			sb.WriteString(" -")
		}
		for _, p := range ps {
			sb.WriteString(" t " + xhex([]byte(p)))
			id, ok := x.FindByName(p)
			if ok {
				sb.WriteString(" " + strconv.FormatUint(id, 10))
			} else {
				sb.WriteString(" n")
			}
			ft := x.Find(p)
			if ft == nil {
				sb.WriteString(" n")
			} else if ft.Text == nil || ft.LocalSID != ion.SymbolIDUnknown || ft.Source != nil {
				sb.WriteString(" ?")
			} else {
				sb.WriteString(" " + xhex([]byte(*ft.Text)))
			}
		}
		for _, d := range ids {
			sb.WriteString(" d " + d)
			u, uok, _, _ := stIDViews(d)
			if uok {
				s, ok := x.FindByID(u)
				sb.WriteString(" " + stOptX(s, ok))
			} else {
				sb.WriteString(" -")
			}
		}
		return sb.String()
	})
	register("catalog", func(a []string) string {
		c := &stCur{a: a}
		ssts := c.shareds()
		if c.bad {
			return "badinput"
		}
		cat := ion.NewCatalog(ssts...)
		sb := &strings.Builder{}
		switch c.next() {
		case "E":
			name := c.x()
			ver := c.i64()
			if !c.done() {
				return "badinput"
			}
			sb.WriteString("ok")
			stShared(sb, cat.FindExact(name, int(ver)))
		case "T":
			name := c.x()
			if !c.done() {
				return "badinput"
			}
			sb.WriteString("ok")
			stShared(sb, cat.FindLatest(name))
		case "R":
			name := c.x()
			ver := c.i64()
			m := c.i64()
			if !c.done() {
				return "badinput"
			}
			// an import struct {name:.., version:.., max_id:..} in binary Ion, read back
			buf := &bytes.Buffer{}
			w := ion.NewBinaryWriter(buf)
			stMust(w.BeginStruct())
			stMust(w.FieldName(ion.NewSymbolTokenFromString("name")))
			stMust(w.WriteString(name))
			stMust(w.FieldName(ion.NewSymbolTokenFromString("version")))
			stMust(w.WriteInt(ver))
			stMust(w.FieldName(ion.NewSymbolTokenFromString("max_id")))
			stMust(w.WriteInt(m))
			stMust(w.EndStruct())
			stMust(w.Finish())
			r := ion.NewReaderBytes(buf.Bytes())
			if !r.Next() {
				return "harnesserror"
			}
			imp, err := ion.VerifReadImport(r, cat)
			if err != nil {
				return "err"
			}
			sb.WriteString("ok")
			stShared(sb, imp)
		default:
			return "badinput"
		}
		return sb.String()
	})
	register("symident", func(a []string) string {
		c := &stCur{a: a}
		x := c.x()
		if !c.done() {
			return "badinput"
		}
		sid, ok := ion.VerifSymbolIdentifier(x)
		return "ok " + strconv.FormatInt(sid, 10) + " " + stB2s(ok)
	})
}

func stMust(err error) {
	if err != nil {
		panic("harness: " + err.Error())
	}
}

func stB2s(b bool) string {
	if b {
		return "1"
	}
	return "0"
}
