package main

// Commands of components K7 (reader with a catalog) and K8 (binary writer with shared or
// fixed tables); syntax documented in coq/Drv/DrvSymctx.v.

import (
	"strings"

	"github.com/amzn/ion-go/ion"
)

func splitDD(a []string) ([]string, []string, bool) {
	for i, t := range a {
		if t == "--" {
			return a[:i], a[i+1:], true
		}
	}
	return nil, nil, false
}

func init() {
	// cattrav <ioerr> x<bytes> <desc>*
	register("cattrav", func(a []string) string {
		src, rest, ok := newSrc(a)
		if !ok {
			return "badinput"
		}
		c := &stCur{a: rest}
		sts := c.shareds()
		if !c.done() {
			return "badinput"
		}
		r := ion.NewReaderCat(src, ion.NewCatalog(sts...))
		return strings.Join(traverse(r, 4*len(src.data)+17), " ")
	})
	// catsys <ioerr> x<bytes> <desc>*: the same input through ion.System{Catalog}: NewReaderBytes (full traversal),
	// Unmarshal into an interface{} and into a struct, UnmarshalString; answers "ok"/"err" per API (a panic is "panic")
	register("catsys", func(a []string) string {
		src, rest, ok := newSrc(a)
		if !ok {
			return "badinput"
		}
		c := &stCur{a: rest}
		sts := c.shareds()
		if !c.done() {
			return "badinput"
		}
		sys := ion.System{Catalog: ion.NewCatalog(sts...)}
		out := []string{}
		tr := traverse(sys.NewReaderBytes(src.data), 4*len(src.data)+17)
		out = append(out, "trav:"+tr[len(tr)-1])
		tr2 := traverse(sys.NewReaderString(string(src.data)), 4*len(src.data)+17)
		out = append(out, "travs:"+tr2[len(tr2)-1])
		tr3 := traverse(sys.NewReader(src), 4*len(src.data)+17)
		out = append(out, "travr:"+tr3[len(tr3)-1])
		var v interface{}
		if err := sys.Unmarshal(src.data, &v); err != nil {
			out = append(out, "unm:err")
		} else {
			out = append(out, "unm:ok")
		}
		var st struct {
			A interface{} `ion:"a"`
			B *ion.SymbolToken
		}
		if err := sys.UnmarshalString(string(src.data), &st); err != nil {
			out = append(out, "unms:err")
		} else {
			out = append(out, "unms:ok")
		}
		return strings.Join(out, " ")
	})
	// bwsh <budget|-> <desc>* -- <calls...>
	register("bwsh", func(a []string) string {
		if len(a) < 1 {
			return "badinput"
		}
		bud, ok := parseBudget(a[0])
		tb, cl, ok2 := splitDD(a[1:])
		if !ok || !ok2 {
			return "badinput"
		}
		c := &stCur{a: tb}
		sts := c.shareds()
		calls, ok3 := parseCalls(cl)
		if !c.done() || !ok3 {
			return "badinput"
		}
		f := &failWriter{budget: bud}
		res, p := "", -1
		func() {
			defer func() {
				if r := recover(); r != nil {
					p = 0
				}
			}()
			w := ion.NewBinaryWriter(f, sts...)
			p = -2
			res, p = driveWriter(w, calls)
		}()
		return outDrive(f, res, p)
	})
	// bwlsh <budget|-> <desc>* L <n> <sym-hex>*n -- <calls...>
	register("bwlsh", func(a []string) string {
		if len(a) < 1 {
			return "badinput"
		}
		bud, ok := parseBudget(a[0])
		tb, cl, ok2 := splitDD(a[1:])
		if !ok || !ok2 {
			return "badinput"
		}
		c := &stCur{a: tb}
		sts := c.shareds()
		c.lit("L")
		locals := c.xs()
		calls, ok3 := parseCalls(cl)
		if !c.done() || !ok3 {
			return "badinput"
		}
		f := &failWriter{budget: bud}
		w := ion.NewBinaryWriterLST(f, ion.NewLocalSymbolTable(sts, locals))
		res, p := driveWriter(w, calls)
		return outDrive(f, res, p)
	})
	// bwlshb <budget|-> <desc>* L <n> <sym-hex>*n X <m> <sym-hex>*m -- <calls...>
	// the fixed table is builder.Build() taken before the X texts are added to the same builder
	register("bwlshb", func(a []string) string {
		if len(a) < 1 {
			return "badinput"
		}
		bud, ok := parseBudget(a[0])
		tb, cl, ok2 := splitDD(a[1:])
		if !ok || !ok2 {
			return "badinput"
		}
		c := &stCur{a: tb}
		sts := c.shareds()
		c.lit("L")
		locals := c.xs()
		c.lit("X")
		extra := c.xs()
		calls, ok3 := parseCalls(cl)
		if !c.done() || !ok3 {
			return "badinput"
		}
		bld := ion.NewSymbolTableBuilder(sts...)
		for _, s := range locals {
			bld.Add(s)
		}
		fixed := bld.Build()
		for _, s := range extra {
			bld.Add(s)
		}
		f := &failWriter{budget: bud}
		w := ion.NewBinaryWriterLST(f, fixed)
		res, p := driveWriter(w, calls)
		_ = bld.Build()
		return outDrive(f, res, p)
	})
}
