package main

import (
	"bytes"
	"fmt"
	"time"

	"github.com/amzn/ion-go/ion"
)

// Commands of component K9 (timestamps); see coq/Drv/DrvTimestamp.v for the syntax.

func tsFields(t ion.Timestamp) string {
	dt := t.GetDateTime()
	_, off := dt.Zone()
	return fmt.Sprintf("ok %d %d %d %d %d %d %d %d %d %d %d",
		dt.Year(), int(dt.Month()), dt.Day(), dt.Hour(), dt.Minute(), dt.Second(), dt.Nanosecond(),
		off/60, uint8(t.GetTimezoneKind()), uint8(t.GetPrecision()), t.GetNumberOfFractionalSeconds())
}

// tsOfArgs builds a Timestamp with the public constructors from
// <ctor> year month day hour minute second nsec offset-minutes kind precision nfrac.
func tsOfArgs(a []string) (ion.Timestamp, bool) {
	if len(a) != 12 {
		return ion.Timestamp{}, false
	}
	var v [12]int64
	for i := range v {
		x, ok := argI(a, i)
		if !ok {
			return ion.Timestamp{}, false
		}
		v[i] = x
	}
	loc := time.UTC
	if v[8] != 0 {
		loc = time.FixedZone("", int(v[8])*60)
	}
	dt := time.Date(int(v[1]), time.Month(v[2]), int(v[3]), int(v[4]), int(v[5]), int(v[6]), int(v[7]), loc)
	prec := ion.TimestampPrecision(0)
	if v[10] >= 1 && v[10] <= 6 {
		prec = ion.TimestampPrecision(v[10])
	}
	kind := ion.TimezoneUnspecified
	if v[9] == 1 {
		kind = ion.TimezoneUTC
	} else if v[9] == 2 {
		kind = ion.TimezoneLocal
	}
	switch v[0] {
	case 1:
		return ion.NewTimestamp(dt, prec, kind), true
	case 2:
		return ion.NewDateTimestamp(dt, prec), true
	}
	return ion.NewTimestampWithFractionalSeconds(dt, prec, kind, uint8(uint64(v[11])%256)), true
}

func init() {
	register("ts_parse", func(a []string) string {
		b, ok := argX(a, 0)
		if !ok {
			return "badinput"
		}
		t, err := ion.ParseTimestamp(string(b))
		if err != nil {
			return "err"
		}
		return tsFields(t)
	})
	register("ts_format", func(a []string) string {
		t, ok := tsOfArgs(a)
		if !ok {
			return "badinput"
		}
		return "ok " + xhex([]byte(t.String()))
	})
	register("ts_write", func(a []string) string {
		t, ok := tsOfArgs(a)
		if !ok {
			return "badinput"
		}
		buf := bytes.Buffer{}
		w := ion.NewBinaryWriter(&buf)
		if err := w.WriteTimestamp(t); err != nil {
			return "err"
		}
		if err := w.Finish(); err != nil {
			return "err"
		}
		out := buf.Bytes()
		if len(out) < 4 {
			return "err"
		}
		return "ok " + xhex(out[4:])
	})
	register("ts_read", func(a []string) string {
		b, ok := argX(a, 0)
		if !ok {
			return "badinput"
		}
		r := ion.NewReaderBytes(append([]byte{0xE0, 0x01, 0x00, 0xEA}, b...))
		if !r.Next() {
			return "err"
		}
		if r.Type() != ion.TimestampType {
			return "err"
		}
		t, err := r.TimestampValue()
		if err != nil {
			return "err"
		}
		if t == nil {
			return "null"
		}
		return tsFields(*t)
	})
}
