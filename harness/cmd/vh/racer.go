package main

// racer — support (not proof) for C18.
//
//	racer <ngoroutines> <iterations> <seed>  ->  ok <digest> | mismatch g=<goroutine> iter=<i> kind=<k> ...
//
// N goroutines each run an independent, seeded workload (goroutine g uses PRNG seed
// seed*1000003+g and owns every Reader / Writer / Encoder / Decoder / buffer it touches)
// while sharing two SharedSymbolTables, one Catalog, ion.V1SystemSymbolTable and the Go
// struct types handed to Marshal / Unmarshal.  Each iteration's output bytes are hashed.
// The concurrent phase runs FIRST (so that any lazily filled package-level cache is still
// cold while the goroutines race), then the very same workloads run one after the other on
// the main goroutine, and the per-iteration hashes are compared.  Built with -race
// (harness/vh_race) a data race aborts the process with "DATA RACE" on stderr
// (GORACE=halt_on_error=1), which lib/vlib.py reports as "fatal race".

import (
	"bytes"
	"crypto/sha256"
	"encoding/hex"
	"fmt"
	"hash/fnv"
	"math/big"
	"math/rand"
	"os"
	"strconv"
	"strings"
	"sync"
	"time"

	"github.com/amzn/ion-go/ion"
)

type rcInner struct {
	A int    `ion:"a"`
	B string `ion:"b,omitempty"`
	C []byte `ion:"c"`
}

type rcRec struct {
	ID    int64          `ion:"id"`
	Name  string         `ion:"name"`
	Sym   string         `ion:"sym,symbol"`
	F     float64        `ion:"f"`
	Ok    bool           `ion:"ok"`
	Tags  []string       `ion:"tags"`
	In    rcInner        `ion:"inner"`
	P     *rcInner       `ion:"p,omitempty"`
	D     *ion.Decimal   `ion:"d"`
	T     *ion.Timestamp `ion:"t"`
	Big   *big.Int       `ion:"big"`
	Blob  []byte         `ion:"blob"`
	Clob  []byte         `ion:"clob,clob"`
	Nums  []int          `ion:"nums"`
	Inner []rcInner      `ion:"inners"`
}

type rcWide struct {
	Version int               `ion:"version"`
	Symbols []string          `ion:"symbols"`
	MaxID   uint64            `ion:"max_id"`
	Imports []rcInner         `ion:"imports"`
	Extra   map[string]string `ion:"extra,omitempty"`
	U8      uint8             `ion:"u8"`
	I32     int32             `ion:"i32"`
	F32     float32           `ion:"f32"`
}

type rcEnv struct {
	sst1, sst2 ion.SharedSymbolTable
	cat        ion.Catalog
	words      []string
}

func newRcEnv() *rcEnv {
	words := []string{"id", "name", "sym", "f", "ok", "tags", "inner", "p", "d", "t", "big", "blob", "clob", "nums",
		"inners", "a", "b", "c", "alpha", "beta", "gamma", "delta", "version", "symbols", "max_id", "imports", "extra",
		"u8", "i32", "f32"}
	more := append(append([]string{}, words...), "epsilon", "zeta", "eta", "theta")
	e := &rcEnv{words: more}
	e.sst1 = ion.NewSharedSymbolTable("racer", 1, words)
	e.sst2 = ion.NewSharedSymbolTable("racer", 2, more)
	e.cat = ion.NewCatalog(e.sst1, e.sst2)
	return e
}

func rcWord(r *rand.Rand, e *rcEnv) string {
	if r.Intn(4) == 0 {
		return "local_" + strconv.Itoa(r.Intn(50)) // not in any shared table
	}
	return e.words[r.Intn(len(e.words))]
}

func rcBytes(r *rand.Rand, n int) []byte {
	b := make([]byte, r.Intn(n+1))
	for i := range b {
		b[i] = byte(r.Intn(256))
	}
	return b
}

func rcMakeRec(r *rand.Rand, e *rcEnv) *rcRec {
	rec := &rcRec{ID: r.Int63() - r.Int63(), Name: rcWord(r, e) + " \"q\"\n", Sym: rcWord(r, e),
		F: float64(r.Intn(1<<20)) / 64, Ok: r.Intn(2) == 0}
	for i := r.Intn(4); i > 0; i-- {
		rec.Tags = append(rec.Tags, rcWord(r, e))
	}
	rec.In = rcInner{A: r.Intn(1000) - 500, B: rcWord(r, e), C: rcBytes(r, 8)}
	if r.Intn(2) == 0 {
		rec.P = &rcInner{A: r.Intn(70000), C: rcBytes(r, 3)}
	}
	rec.D = ion.NewDecimal(big.NewInt(r.Int63n(1<<40)-(1<<39)), int32(r.Intn(12)-6), false)
	ts := ion.NewTimestamp(time.Date(1970+r.Intn(80), time.Month(1+r.Intn(12)), 1+r.Intn(28), r.Intn(24), r.Intn(60), r.Intn(60), 0, time.UTC),
		ion.TimestampPrecisionSecond, ion.TimezoneUTC)
	rec.T = &ts
	rec.Big = new(big.Int).Lsh(big.NewInt(r.Int63()), uint(r.Intn(80)))
	rec.Blob = rcBytes(r, 20)
	rec.Clob = []byte(rcWord(r, e))
	for i := r.Intn(5); i > 0; i-- {
		rec.Nums = append(rec.Nums, r.Intn(1<<16)-(1<<15))
	}
	for i := r.Intn(3); i > 0; i-- {
		rec.Inner = append(rec.Inner, rcInner{A: i, B: rcWord(r, e), C: rcBytes(r, 2)})
	}
	return rec
}

func rcMakeWide(r *rand.Rand, e *rcEnv) *rcWide {
	w := &rcWide{Version: r.Intn(9), MaxID: uint64(r.Int63()), U8: uint8(r.Intn(256)), I32: int32(r.Int31() - r.Int31()), F32: float32(r.Intn(4096)) / 8}
	for i := r.Intn(5); i > 0; i-- {
		w.Symbols = append(w.Symbols, rcWord(r, e))
	}
	for i := r.Intn(3); i > 0; i-- {
		w.Imports = append(w.Imports, rcInner{A: r.Intn(9), B: rcWord(r, e)})
	}
	if r.Intn(2) == 0 {
		w.Extra = map[string]string{rcWord(r, e): rcWord(r, e)}
	}
	return w
}

func rcErr(out *bytes.Buffer, tag string, err error) bool {
	if err != nil {
		out.WriteString("<" + tag + ":err>")
		return true
	}
	return false
}

// dump renders everything a full traversal observes.
func rcDump(rd ion.Reader, out *bytes.Buffer, depth int) {
	for rd.Next() {
		if fn, err := rd.FieldName(); err == nil && fn != nil {
			if fn.Text != nil {
				out.WriteString(*fn.Text + ":")
			} else {
				fmt.Fprintf(out, "$%d:", fn.LocalSID)
			}
		}
		if as, err := rd.Annotations(); err == nil {
			for _, a := range as {
				if a.Text != nil {
					out.WriteString(*a.Text + "::")
				} else {
					fmt.Fprintf(out, "$%d::", a.LocalSID)
				}
			}
		}
		t := rd.Type()
		if rd.IsNull() {
			out.WriteString("null." + t.String() + " ")
			continue
		}
		switch t {
		case ion.BoolType:
			v, err := rd.BoolValue()
			if !rcErr(out, "bool", err) {
				fmt.Fprintf(out, "%v ", *v)
			}
		case ion.IntType:
			v, err := rd.BigIntValue()
			if !rcErr(out, "int", err) {
				out.WriteString(v.String() + " ")
			}
		case ion.FloatType:
			v, err := rd.FloatValue()
			if !rcErr(out, "float", err) {
				out.WriteString(strconv.FormatFloat(*v, 'g', -1, 64) + " ")
			}
		case ion.DecimalType:
			v, err := rd.DecimalValue()
			if !rcErr(out, "decimal", err) {
				out.WriteString(v.String() + " ")
			}
		case ion.TimestampType:
			v, err := rd.TimestampValue()
			if !rcErr(out, "ts", err) {
				out.WriteString(v.String() + " ")
			}
		case ion.SymbolType:
			v, err := rd.SymbolValue()
			if !rcErr(out, "symbol", err) {
				if v.Text != nil {
					out.WriteString("'" + *v.Text + "' ")
				} else {
					fmt.Fprintf(out, "$%d ", v.LocalSID)
				}
			}
		case ion.StringType:
			v, err := rd.StringValue()
			if !rcErr(out, "string", err) {
				out.WriteString(strconv.Quote(*v) + " ")
			}
		case ion.ClobType, ion.BlobType:
			v, err := rd.ByteValue()
			if !rcErr(out, "lob", err) {
				out.WriteString(hex.EncodeToString(v) + " ")
			}
		case ion.ListType, ion.SexpType, ion.StructType:
			out.WriteString(t.String() + "(")
			if !rcErr(out, "stepin", rd.StepIn()) {
				if depth < 20 {
					rcDump(rd, out, depth+1)
				}
				rcErr(out, "stepout", rd.StepOut())
			}
			out.WriteString(") ")
		}
	}
	rcErr(out, "reader", rd.Err())
}

// rcWriteDoc drives any Writer with a seeded call sequence using symbols from the shared tables.
func rcWriteDoc(r *rand.Rand, e *rcEnv, w ion.Writer, out *bytes.Buffer) {
	n := 1 + r.Intn(3)
	for i := 0; i < n; i++ {
		if r.Intn(2) == 0 {
			rcErr(out, "annot", w.Annotation(ion.NewSymbolTokenFromString(rcWord(r, e))))
		}
		rcErr(out, "begin", w.BeginStruct())
		for j := r.Intn(6); j > 0; j-- {
			rcErr(out, "field", w.FieldName(ion.NewSymbolTokenFromString(rcWord(r, e))))
			switch r.Intn(8) {
			case 0:
				rcErr(out, "w", w.WriteSymbolFromString(rcWord(r, e)))
			case 1:
				rcErr(out, "w", w.WriteInt(r.Int63()-r.Int63()))
			case 2:
				rcErr(out, "w", w.WriteString(rcWord(r, e)))
			case 3:
				rcErr(out, "w", w.BeginList())
				for k := r.Intn(4); k > 0; k-- {
					rcErr(out, "w", w.WriteSymbolFromString(rcWord(r, e)))
				}
				rcErr(out, "w", w.EndList())
			case 4:
				rcErr(out, "w", w.WriteBlob(rcBytes(r, 12)))
			case 5:
				rcErr(out, "w", w.WriteNullType(ion.Type(1+r.Intn(12))))
			case 6:
				rcErr(out, "w", w.WriteFloat(float64(r.Intn(1000))/8))
			case 7:
				rcErr(out, "w", w.WriteDecimal(ion.NewDecimalInt(int64(r.Intn(100000)))))
			}
		}
		rcErr(out, "end", w.EndStruct())
	}
	rcErr(out, "finish", w.Finish())
}

const rcKinds = 7

// one iteration of the workload: returns the kind and appends the observable bytes to out
func rcIter(r *rand.Rand, e *rcEnv, out *bytes.Buffer) int {
	kind := r.Intn(rcKinds)
	switch kind {
	case 0: // MarshalText / UnmarshalString / MarshalText over shared struct types
		rec := rcMakeRec(r, e)
		b, err := ion.MarshalText(rec)
		rcErr(out, "mt", err)
		out.Write(b)
		var back rcRec
		rcErr(out, "us", ion.UnmarshalString(string(b), &back))
		b2, err := ion.MarshalText(&back)
		rcErr(out, "mt2", err)
		out.Write(b2)
	case 1: // MarshalBinary with a shared table / Unmarshal with it
		rec := rcMakeRec(r, e)
		b, err := ion.MarshalBinary(rec, e.sst1)
		rcErr(out, "mb", err)
		out.Write(b)
		var back rcRec
		rcErr(out, "u", ion.Unmarshal(b, &back, e.sst1))
		b2, err := ion.MarshalText(&back)
		rcErr(out, "mt", err)
		out.Write(b2)
	case 2: // binary Writer over a shared table, Reader over the shared catalog
		var buf bytes.Buffer
		sst := e.sst1
		if r.Intn(2) == 0 {
			sst = e.sst2
		}
		rcWriteDoc(r, e, ion.NewBinaryWriter(&buf, sst), out)
		out.Write(buf.Bytes())
		rcDump(ion.NewReaderCat(bytes.NewReader(buf.Bytes()), e.cat), out, 0)
	case 3: // text Writer (compact / pretty, with and without shared table) then text Reader
		var buf bytes.Buffer
		var w ion.Writer
		switch r.Intn(3) {
		case 0:
			w = ion.NewTextWriter(&buf)
		case 1:
			w = ion.NewTextWriter(&buf, e.sst2)
		default:
			w = ion.NewTextWriterOpts(&buf, ion.TextWriterPretty, e.sst1)
		}
		rcWriteDoc(r, e, w, out)
		out.Write(buf.Bytes())
		rcDump(ion.NewReaderCat(strings.NewReader(buf.String()), e.cat), out, 0)
	case 4: // the shared objects' own API, hits and misses
		for k := 0; k < 6; k++ {
			s := rcWord(r, e)
			id, ok := e.sst1.FindByName(s)
			fmt.Fprintf(out, "%d%v,", id, ok)
			tok := e.sst2.Find(s)
			fmt.Fprintf(out, "%v,", tok != nil)
			txt, ok := e.sst2.FindByID(uint64(r.Intn(40)))
			fmt.Fprintf(out, "%s%v,", txt, ok)
			id, ok = ion.V1SystemSymbolTable.FindByName(s)
			fmt.Fprintf(out, "%d%v,", id, ok)
		}
		adj := e.sst2.Adjust(uint64(r.Intn(45)))
		fmt.Fprintf(out, "%d %d;", adj.MaxID(), len(adj.Symbols()))
		if x := e.cat.FindExact("racer", 1+r.Intn(3)); x != nil {
			fmt.Fprintf(out, "%s/%d/%d;", x.Name(), x.Version(), x.MaxID())
		}
		fmt.Fprintf(out, "%d;", e.cat.FindLatest("racer").Version())
		lst := ion.NewLocalSymbolTable([]ion.SharedSymbolTable{e.sst1}, []string{rcWord(r, e), "zz"})
		id, ok := lst.FindByName(rcWord(r, e))
		fmt.Fprintf(out, "%d%v %d;", id, ok, lst.MaxID())
		bld := ion.NewSymbolTableBuilder(e.sst2)
		for k := 0; k < 3; k++ {
			id, ok := bld.Add(rcWord(r, e))
			fmt.Fprintf(out, "%d%v,", id, ok)
		}
		out.WriteString(bld.Build().String())
		if r.Intn(8) == 0 {
			out.WriteString(e.sst1.String())
		}
	case 5: // Encoder / Decoder over the shared table and catalog
		var buf bytes.Buffer
		enc := ion.NewBinaryEncoder(&buf, e.sst2)
		rcErr(out, "e1", enc.Encode(rcMakeWide(r, e)))
		rcErr(out, "e2", enc.Encode(rcMakeRec(r, e)))
		rcErr(out, "ef", enc.Finish())
		out.Write(buf.Bytes())
		dec := ion.NewDecoder(ion.NewReaderCat(bytes.NewReader(buf.Bytes()), e.cat))
		var wd rcWide
		rcErr(out, "d1", dec.DecodeTo(&wd))
		var rec rcRec
		rcErr(out, "d2", dec.DecodeTo(&rec))
		b, err := ion.MarshalText(&wd)
		rcErr(out, "mt", err)
		out.Write(b)
		b, err = ion.MarshalText(&rec)
		rcErr(out, "mt", err)
		out.Write(b)
	case 6: // text Encoder / Decoder, second struct type
		var buf bytes.Buffer
		enc := ion.NewTextEncoder(&buf)
		wide := rcMakeWide(r, e)
		rcErr(out, "e", enc.Encode(wide))
		rcErr(out, "ef", enc.Finish())
		out.Write(buf.Bytes())
		var wd rcWide
		rcErr(out, "d", ion.NewTextDecoder(bytes.NewReader(buf.Bytes())).DecodeTo(&wd))
		b, err := ion.MarshalBinary(&wd, e.sst1, e.sst2)
		rcErr(out, "mb", err)
		out.Write(b)
	}
	return kind
}

var rcDebug = os.Getenv("VH_RACER_DEBUG") != ""

type rcResult struct {
	hashes []uint64
	kinds  []int
}

func rcWorkload(e *rcEnv, g, iters int, seed int64) (res rcResult) {
	r := rand.New(rand.NewSource(seed*1000003 + int64(g)))
	res.hashes = make([]uint64, iters)
	res.kinds = make([]int, iters)
	var out bytes.Buffer
	for i := 0; i < iters; i++ {
		out.Reset()
		func() {
			defer func() {
				if x := recover(); x != nil {
					out.WriteString("<panic>")
					res.kinds[i] = -1
				}
			}()
			res.kinds[i] = rcIter(r, e, &out)
		}()
		if rcDebug && g == 0 && i < 40 {
			fmt.Fprintf(os.Stderr, "iter %d kind %d: %q\n", i, res.kinds[i], out.String())
		}
		h := fnv.New64a()
		h.Write(out.Bytes())
		res.hashes[i] = h.Sum64()
	}
	return res
}

func init() {
	register("racer", func(args []string) string {
		n, ok1 := argU(args, 0)
		iters, ok2 := argU(args, 1)
		seed, ok3 := argI(args, 2)
		if !ok1 || !ok2 || !ok3 || n == 0 || n > 1024 || iters > 10000000 {
			return "badinput"
		}
		e := newRcEnv()
		par := make([]rcResult, n)
		var wg sync.WaitGroup
		start := make(chan struct{})
		for g := 0; g < int(n); g++ {
			wg.Add(1)
			go func(g int) {
				defer wg.Done()
				<-start
				par[g] = rcWorkload(e, g, int(iters), seed)
			}(g)
		}
		close(start)
		wg.Wait()
		all := sha256.New()
		for g := 0; g < int(n); g++ {
			seq := rcWorkload(e, g, int(iters), seed)
			for i := range seq.hashes {
				if seq.hashes[i] != par[g].hashes[i] || seq.kinds[i] != par[g].kinds[i] {
					return fmt.Sprintf("mismatch g=%d iter=%d kind=%d alone=%016x concurrent=%016x", g, i, seq.kinds[i], seq.hashes[i], par[g].hashes[i])
				}
				fmt.Fprintf(all, "%016x", seq.hashes[i])
			}
		}
		return "ok " + hex.EncodeToString(all.Sum(nil))[:32]
	})
}
