package main

import (
	"bytes"
	"errors"
	"fmt"
	"math"
	"math/big"
	"strconv"
	"strings"

	"github.com/amzn/ion-go/ion"
)

// failWriter accepts a fixed number of Write calls and then fails every write.
type failWriter struct {
	buf    bytes.Buffer
	budget int // -1 = unlimited
	writes int
}

var errSink = errors.New("sink failure")

func (f *failWriter) Write(p []byte) (int, error) {
	if f.budget == 0 {
		return 0, errSink
	}
	if f.budget > 0 {
		f.budget--
	}
	f.writes++
	return f.buf.Write(p)
}

func parseTok(t string) (ion.SymbolToken, bool) {
	p := strings.Split(t, ",")
	if len(p) != 3 || p[0] != "tk" {
		return ion.SymbolToken{}, false
	}
	sid, err := strconv.ParseInt(p[2], 10, 64)
	if err != nil {
		return ion.SymbolToken{}, false
	}
	if p[1] == "-" {
		return ion.SymbolToken{LocalSID: sid}, true
	}
	b, ok := unx(p[1])
	if !ok {
		return ion.SymbolToken{}, false
	}
	s := string(b)
	return ion.SymbolToken{Text: &s, LocalSID: sid}, true
}

// lobArena hands the lob payloads of one call sequence to the Writer the way a caller that cuts one buffer into
// consecutive chunks does: every payload is a sub-slice of ONE backing array, so its capacity extends over the
// payloads that follow (and a 64-byte sentinel after the last).  A Writer that appends to or retains-and-grows a
// caller's slice then corrupts a later payload (the values decoded from the output differ from the calls) or the
// sentinel (reported by intact()).
type lobArena struct {
	parts [][]byte
	buf   []byte
	offs  []int
}

func (a *lobArena) add(b []byte) int {
	a.parts = append(a.parts, b)
	a.buf = nil
	return len(a.parts) - 1
}

func (a *lobArena) build() {
	a.buf = nil
	a.offs = nil
	for _, p := range a.parts {
		a.offs = append(a.offs, len(a.buf))
		a.buf = append(a.buf, p...)
	}
	a.offs = append(a.offs, len(a.buf))
	for i := 0; i < 64; i++ {
		a.buf = append(a.buf, 0xA5)
	}
}

func (a *lobArena) get(k int) []byte {
	if a.buf == nil {
		a.build()
	}
	return a.buf[a.offs[k]:a.offs[k+1]]
}

// intact reports whether the sentinel behind the last payload is untouched
func (a *lobArena) intact() bool {
	if a.buf == nil {
		return true
	}
	for _, c := range a.buf[a.offs[len(a.offs)-1]:] {
		if c != 0xA5 {
			return false
		}
	}
	return true
}

var arena = &lobArena{}

// one parsed writer call: a closure applying it to a Writer
type wcall func(w ion.Writer) error

// parseCalls turns the call tokens of the line protocol into closures.
func parseCalls(ts []string) ([]wcall, bool) {
	var out []wcall
	ar := &lobArena{}
	arena = ar
	i := 0
	next := func() (string, bool) {
		if i >= len(ts) {
			return "", false
		}
		i++
		return ts[i-1], true
	}
	for i < len(ts) {
		c, _ := next()
		switch c {
		case "FN", "AN", "SYM":
			a, ok := next()
			tk, ok2 := parseTok(a)
			if !ok || !ok2 {
				return nil, false
			}
			switch c {
			case "FN":
				out = append(out, func(w ion.Writer) error { return w.FieldName(tk) })
			case "AN":
				out = append(out, func(w ion.Writer) error { return w.Annotation(tk) })
			default:
				out = append(out, func(w ion.Writer) error { return w.WriteSymbol(tk) })
			}
		case "ANS":
			a, ok := next()
			n, err := strconv.Atoi(a)
			if !ok || err != nil {
				return nil, false
			}
			var tks []ion.SymbolToken
			for k := 0; k < n; k++ {
				a, ok := next()
				tk, ok2 := parseTok(a)
				if !ok || !ok2 {
					return nil, false
				}
				tks = append(tks, tk)
			}
			out = append(out, func(w ion.Writer) error { return w.Annotations(tks...) })
		case "NULL":
			out = append(out, func(w ion.Writer) error { return w.WriteNull() })
		case "NT":
			a, ok := next()
			n, err := strconv.ParseUint(a, 10, 8)
			if !ok || err != nil {
				return nil, false
			}
			out = append(out, func(w ion.Writer) error { return w.WriteNullType(ion.Type(n)) })
		case "BOOL":
			a, ok := next()
			if !ok {
				return nil, false
			}
			v := a != "0"
			out = append(out, func(w ion.Writer) error { return w.WriteBool(v) })
		case "INT":
			a, ok := next()
			v, err := strconv.ParseInt(a, 10, 64)
			if !ok || err != nil {
				return nil, false
			}
			out = append(out, func(w ion.Writer) error { return w.WriteInt(v) })
		case "UINT":
			a, ok := next()
			v, err := strconv.ParseUint(a, 10, 64)
			if !ok || err != nil {
				return nil, false
			}
			out = append(out, func(w ion.Writer) error { return w.WriteUint(v) })
		case "BIG":
			a, ok := next()
			if !ok {
				return nil, false
			}
			if a == "nil" {
				out = append(out, func(w ion.Writer) error { return w.WriteBigInt(nil) })
			} else {
				v, ok := new(big.Int).SetString(a, 10)
				if !ok {
					return nil, false
				}
				out = append(out, func(w ion.Writer) error { return w.WriteBigInt(v) })
			}
		case "FLOAT":
			a, ok := next()
			v, err := strconv.ParseUint(a, 10, 64)
			if !ok || err != nil {
				return nil, false
			}
			f := math.Float64frombits(v)
			out = append(out, func(w ion.Writer) error { return w.WriteFloat(f) })
		case "DEC":
			a, ok := next()
			if !ok {
				return nil, false
			}
			if a == "nil" {
				out = append(out, func(w ion.Writer) error { return w.WriteDecimal(nil) })
				break
			}
			e, ok1 := next()
			z, ok2 := next()
			co, ok3 := new(big.Int).SetString(a, 10)
			ex, err := strconv.ParseInt(e, 10, 32)
			if !ok1 || !ok2 || !ok3 || err != nil {
				return nil, false
			}
			d := ion.NewDecimal(co, int32(ex), z != "0")
			out = append(out, func(w ion.Writer) error { return w.WriteDecimal(d) })
		case "SFS", "STR", "CLOB", "BLOB":
			a, ok := next()
			b, ok2 := unx(a)
			if !ok || !ok2 {
				return nil, false
			}
			switch c {
			case "SFS":
				out = append(out, func(w ion.Writer) error { return w.WriteSymbolFromString(string(b)) })
			case "STR":
				out = append(out, func(w ion.Writer) error { return w.WriteString(string(b)) })
			case "CLOB":
				k := ar.add(b)
				out = append(out, func(w ion.Writer) error { return w.WriteClob(ar.get(k)) })
			default:
				k := ar.add(b)
				out = append(out, func(w ion.Writer) error { return w.WriteBlob(ar.get(k)) })
			}
		case "BL":
			out = append(out, func(w ion.Writer) error { return w.BeginList() })
		case "EL":
			out = append(out, func(w ion.Writer) error { return w.EndList() })
		case "BS":
			out = append(out, func(w ion.Writer) error { return w.BeginSexp() })
		case "ES":
			out = append(out, func(w ion.Writer) error { return w.EndSexp() })
		case "BT":
			out = append(out, func(w ion.Writer) error { return w.BeginStruct() })
		case "ET":
			out = append(out, func(w ion.Writer) error { return w.EndStruct() })
		case "FIN":
			out = append(out, func(w ion.Writer) error { return w.Finish() })
		default:
			if h, ok := extraCalls[c]; ok {
				cl, used, ok := h(ts[i:])
				if !ok {
					return nil, false
				}
				i += used
				out = append(out, cl)
				break
			}
			return nil, false
		}
	}
	return out, true
}

// extraCalls lets other files add call kinds (e.g. timestamps).
var extraCalls = map[string]func(rest []string) (wcall, int, bool){}

// driveWriter applies every call, recording "1"/"0" per call; a panic stops the run.
func driveWriter(w ion.Writer, calls []wcall) (results string, panicAt int) {
	panicAt = -1
	var sb strings.Builder
	for i, c := range calls {
		ok, pan := func() (ok bool, pan bool) {
			defer func() {
				if r := recover(); r != nil {
					pan = true
				}
			}()
			return c(w) == nil, false
		}()
		if pan {
			return sb.String(), i
		}
		if ok {
			sb.WriteByte('1')
		} else {
			sb.WriteByte('0')
		}
	}
	return sb.String(), -1
}

func parseBudget(s string) (int, bool) {
	if s == "-" {
		return -1, true
	}
	n, err := strconv.Atoi(s)
	return n, err == nil
}

func outDrive(f *failWriter, results string, panicAt int) string {
	if panicAt >= 0 {
		return fmt.Sprintf("panic %d r%s", panicAt, results)
	}
	if !arena.intact() {
		// the Writer wrote into the caller's memory behind a lob payload: never what the model answers
		return fmt.Sprintf("ok r%s %s %d caller-memory-overwritten", results, xhex(f.buf.Bytes()), f.writes)
	}
	return fmt.Sprintf("ok r%s %s %d", results, xhex(f.buf.Bytes()), f.writes)
}

func init() {
	register("bw", func(a []string) string {
		if len(a) < 1 {
			return "badinput"
		}
		bud, ok := parseBudget(a[0])
		calls, ok2 := parseCalls(a[1:])
		if !ok || !ok2 {
			return "badinput"
		}
		f := &failWriter{budget: bud}
		w := ion.NewBinaryWriter(f)
		res, p := driveWriter(w, calls)
		return outDrive(f, res, p)
	})
	register("bwl", func(a []string) string {
		if len(a) < 2 {
			return "badinput"
		}
		bud, ok := parseBudget(a[0])
		n, err := strconv.Atoi(a[1])
		if !ok || err != nil || len(a) < 2+n {
			return "badinput"
		}
		var locals []string
		for _, t := range a[2 : 2+n] {
			b, ok := unx(t)
			if !ok {
				return "badinput"
			}
			locals = append(locals, string(b))
		}
		calls, ok2 := parseCalls(a[2+n:])
		if !ok2 {
			return "badinput"
		}
		f := &failWriter{budget: bud}
		w := ion.NewBinaryWriterLST(f, ion.NewLocalSymbolTable(nil, locals))
		res, p := driveWriter(w, calls)
		return outDrive(f, res, p)
	})
}
