package main

// marshal.go — Go side of component K11 (reflection-based Marshal / Unmarshal).
// Types and values arrive as descriptor tokens (syntax in coq/Drv/DrvMarshal.v); the
// harness builds real reflect.Types (declared named types when the descriptor matches one
// of declaredTypes, reflect.StructOf/SliceOf/... otherwise) and real values, runs the
// ion-go code and prints the result in the same token syntax.

import (
	"bytes"
	"encoding/hex"
	"fmt"
	"math"
	"math/big"
	"reflect"
	"strconv"
	"strings"
	"time"
	"unsafe"

	"github.com/amzn/ion-go/ion"
)

var (
	tsType   = reflect.TypeOf(ion.Timestamp{})
	decType  = reflect.TypeOf(ion.Decimal{})
	bigType  = reflect.TypeOf(big.Int{})
	timeType = reflect.TypeOf(time.Time{})
	symType  = reflect.TypeOf(ion.SymbolToken{})
)

// ---------------------------------------------------------------------------
// declared named types (every kind x tag option); looked up by descriptor
// ---------------------------------------------------------------------------
type DRenamed struct {
	A int    `ion:"a"`
	B string `ion:"bee"`
}
type DOmitInts struct {
	A int8    `ion:",omitempty"`
	B uint16  `ion:",omitempty"`
	C uint64  `ion:"c,omitempty"`
	D float32 `ion:",omitempty"`
	E float64 `ion:",omitempty"`
	F bool    `ion:",omitempty"`
	G uintptr `ion:",omitempty"`
}
type DOmitColl struct {
	S  string            `ion:",omitempty"`
	L  []int             `ion:",omitempty"`
	B  []byte            `ion:",omitempty"`
	M  map[string]int    `ion:",omitempty"`
	P  *int              `ion:",omitempty"`
	I  interface{}       `ion:",omitempty"`
	A0 [0]int            `ion:",omitempty"`
	A2 [2]int            `ion:",omitempty"`
	St struct{ X int }   `ion:",omitempty"`
	MM map[string][]byte `ion:"mm,omitempty"`
}
type DHints struct {
	Sym  string   `ion:",symbol"`
	Clob []byte   `ion:",clob"`
	Sexp []int    `ion:",sexp"`
	SymL []string `ion:"syms,symbol"`
	SxS  []string `ion:",sexp,symbol"`
}
type DAnnInt struct {
	V int
	A []ion.SymbolToken `ion:",annotations"`
}
type DAnnIface struct {
	A []ion.SymbolToken `ion:",annotations"`
	V interface{}
}
type DAnnStr struct {
	V string
	A []string `ion:",annotations"`
}
type DAnnOnly struct {
	A []ion.SymbolToken `ion:",annotations"`
}
type DAnnList struct {
	V []int             `ion:"v"`
	A []ion.SymbolToken `ion:"a,annotations"`
}
type DAnnStruct struct {
	V DRenamed
	A []ion.SymbolToken `ion:",annotations"`
}
type DInner struct {
	X int
	Y string `ion:"y"`
}
type dinner struct {
	X int
	Z string
}
type DEmbed struct {
	DInner
	W int
}
type DEmbedPtr struct {
	*DInner
	W int
}
type DEmbedUnexp struct {
	dinner
	W int
}
type DEmbedUnexpPtr struct {
	*dinner
	W int
}
type DEmbedUnexpTagged struct {
	dinner `ion:"inner"`
	W      int
}
type DEmbedUnexpPtrTagged struct {
	*dinner `ion:"inner"`
	W       int
}
type DEmbedDec struct {
	*ion.Decimal
	big.Int
	N int
}
type DAnnAny struct {
	V int
	A interface{} `ion:",annotations"`
}
type DEmbedTagged struct {
	DInner `ion:"inner"`
	W      int
}
type DUnexported struct {
	A int
	b int
	C string
}
type DDash struct {
	A int `ion:"-"`
	B int `ion:"-,"`
	C int
}
type DDupNames struct {
	A int `ion:"x"`
	B int `ion:"x"`
}
type DDupEmbed struct {
	DInner
	X int
}
type DNestedPtr struct {
	P  *int
	PP **int
	PS *DInner
	PL *[]int
}
type DMaps struct {
	M  map[string]int
	MS map[string]DInner
	MP map[string]*int
	MI map[string]interface{}
}
type DArrays struct {
	B4 [4]byte
	I3 [3]int16
	S2 [2]string
	N  [2][2]int
}
type DIfaces struct {
	A interface{}
	B []interface{}
}
type DSpecial struct {
	T  ion.Timestamp
	D  *ion.Decimal
	BP *big.Int
	B  big.Int
}
type DSpecial2 struct {
	D  ion.Decimal
	TM time.Time
	Y  ion.SymbolToken
	YP *ion.SymbolToken
}
type DCase struct {
	Foo int
	FOO int `ion:"FOO"`
	bar int
	Baz int `ion:"baz"`
}
type DAllInts struct {
	A int8
	B int16
	C int32
	D int64
	E int
	F uint8
	G uint16
	H uint32
	I uint64
	J uint
	K uintptr
}
type DEmbedTS struct {
	ion.Timestamp
	N int
}
type DEmbedInt struct {
	MyInt
	S string
}
type MyInt = int

var declaredTypes = map[string]reflect.Type{}

func declare(v interface{}) {
	t := reflect.TypeOf(v)
	declaredTypes[strings.Join(descOf(t), " ")] = t
}

// otherEntryPoints re-encodes v through MarshalTo / MarshalBinaryLST / NewBinaryEncoderLST and compares what comes
// back; "" when they agree with the primary result.
func otherEntryPoints(binary bool, v interface{}, primary []byte, ty reflect.Type, want string) (why string) {
	defer func() {
		if r := recover(); r != nil {
			why = "panic"
		}
	}()
	back := func(b []byte) string {
		tg := reflect.New(ty)
		if err := ion.Unmarshal(b, tg.Interface()); err != nil {
			return "err"
		}
		return showResult(tg.Elem())
	}
	if !binary {
		var buf bytes.Buffer
		w := ion.NewTextWriterOpts(&buf, ion.TextWriterQuietFinish)
		if err := ion.MarshalTo(w, v); err != nil {
			return "MarshalTo-err"
		}
		if err := w.Finish(); err != nil {
			return "MarshalTo-finish-err"
		}
		if got := back(buf.Bytes()); got != want {
			return "MarshalTo"
		}
		return ""
	}
	// the local symbol table of the primary output, as the fixed table
	r := ion.NewReaderBytes(primary)
	r.Next()
	st := r.SymbolTable()
	if st == nil || fmt.Sprintf("%T", st) != "*ion.lst" {
		// no local symbol table in the primary output (the Reader then answers with the shared system table, which is
		// not a fixed LOCAL table: NewBinaryWriterLST would write it out as a $ion_shared_symbol_table value)
		return ""
	}
	for _, s := range st.Symbols() {
		if s == "" {
			return "" // a fixed table never finds the empty symbol (C09 known finding: "" is not indexed)
		}
	}
	b2, err := ion.MarshalBinaryLST(v, st)
	if err != nil {
		return "MarshalBinaryLST-err"
	}
	if got := back(b2); got != want {
		return "MarshalBinaryLST"
	}
	var buf bytes.Buffer
	enc := ion.NewBinaryEncoderLST(&buf, st)
	if err := enc.Encode(v); err != nil {
		return "EncoderLST-err"
	}
	if err := enc.Finish(); err != nil {
		return "EncoderLST-finish-err"
	}
	if got := back(buf.Bytes()); got != want { // not compared byte for byte: binary map order is not fixed
		return "EncoderLST"
	}
	return ""
}

func init() {
	for _, v := range []interface{}{DRenamed{}, DOmitInts{}, DOmitColl{}, DHints{}, DAnnInt{}, DAnnIface{}, DAnnStr{},
		DAnnOnly{}, DAnnList{}, DAnnStruct{}, DInner{}, dinner{}, DEmbed{}, DEmbedPtr{}, DEmbedUnexp{}, DEmbedUnexpPtr{},
		DEmbedTagged{}, DUnexported{}, DDash{}, DDupNames{}, DDupEmbed{}, DNestedPtr{}, DMaps{}, DArrays{}, DIfaces{},
		DSpecial{}, DSpecial2{}, DCase{}, DAllInts{}, DEmbedTS{}, DEmbedUnexpTagged{}, DEmbedUnexpPtrTagged{}, DEmbedDec{}, DAnnAny{}} {
		declare(v)
	}
}

// ---------------------------------------------------------------------------
// type descriptors
// ---------------------------------------------------------------------------
var basicDesc = map[reflect.Kind]string{
	reflect.Bool: "b", reflect.Int8: "i8", reflect.Int16: "i16", reflect.Int32: "i32", reflect.Int64: "i64", reflect.Int: "i",
	reflect.Uint8: "u8", reflect.Uint16: "u16", reflect.Uint32: "u32", reflect.Uint64: "u64", reflect.Uint: "u",
	reflect.Uintptr: "up", reflect.Float32: "f32", reflect.Float64: "f64", reflect.String: "s",
}
var basicType = map[string]reflect.Type{
	"b": reflect.TypeOf(false), "i8": reflect.TypeOf(int8(0)), "i16": reflect.TypeOf(int16(0)), "i32": reflect.TypeOf(int32(0)),
	"i64": reflect.TypeOf(int64(0)), "i": reflect.TypeOf(int(0)), "u8": reflect.TypeOf(uint8(0)), "u16": reflect.TypeOf(uint16(0)),
	"u32": reflect.TypeOf(uint32(0)), "u64": reflect.TypeOf(uint64(0)), "u": reflect.TypeOf(uint(0)), "up": reflect.TypeOf(uintptr(0)),
	"f32": reflect.TypeOf(float32(0)), "f64": reflect.TypeOf(float64(0)), "s": reflect.TypeOf(""),
	"I": reflect.TypeOf((*interface{})(nil)).Elem(), "TS": tsType, "DEC": decType, "BIG": bigType, "TIME": timeType, "SYM": symType,
}

func descOf(t reflect.Type) []string {
	switch t {
	case tsType:
		return []string{"TS"}
	case decType:
		return []string{"DEC"}
	case bigType:
		return []string{"BIG"}
	case timeType:
		return []string{"TIME"}
	case symType:
		return []string{"SYM"}
	}
	if d, ok := basicDesc[t.Kind()]; ok {
		return []string{d}
	}
	switch t.Kind() {
	case reflect.Interface:
		return []string{"I"}
	case reflect.Slice:
		return append([]string{"L"}, descOf(t.Elem())...)
	case reflect.Array:
		return append([]string{"A", strconv.Itoa(t.Len())}, descOf(t.Elem())...)
	case reflect.Map:
		return append([]string{"M"}, descOf(t.Elem())...)
	case reflect.Ptr:
		return append([]string{"P"}, descOf(t.Elem())...)
	case reflect.Struct:
		out := []string{"ST", strconv.Itoa(t.NumField())}
		for i := 0; i < t.NumField(); i++ {
			sf := t.Field(i)
			fl := "u"
			if sf.PkgPath == "" {
				fl = "e"
			}
			if sf.Anonymous {
				fl += "a"
			} else {
				fl += "n"
			}
			out = append(out, xhex([]byte(sf.Name)), fl, xhex([]byte(sf.Tag.Get("ion"))))
			out = append(out, descOf(sf.Type)...)
		}
		return out
	}
	return []string{"?" + t.String()}
}

type noGoType struct{ why string }

// parseType consumes one type descriptor from ts.
func parseType(ts []string) (reflect.Type, []string) {
	if len(ts) == 0 {
		panic(noGoType{"short"})
	}
	c, r := ts[0], ts[1:]
	if t, ok := basicType[c]; ok {
		return t, r
	}
	switch c {
	case "L":
		e, r2 := parseType(r)
		return reflect.SliceOf(e), r2
	case "M":
		e, r2 := parseType(r)
		return reflect.MapOf(basicType["s"], e), r2
	case "P":
		e, r2 := parseType(r)
		return reflect.PtrTo(e), r2
	case "A":
		n, err := strconv.Atoi(r[0])
		if err != nil {
			panic(noGoType{"array len"})
		}
		e, r2 := parseType(r[1:])
		return reflect.ArrayOf(n, e), r2
	case "ST":
		n, err := strconv.Atoi(r[0])
		if err != nil {
			panic(noGoType{"field count"})
		}
		rest := r[1:]
		var sfs []reflect.StructField
		for i := 0; i < n; i++ {
			name, ok1 := unx(rest[0])
			tag, ok2 := unx(rest[2])
			if !ok1 || !ok2 {
				panic(noGoType{"field"})
			}
			fl := rest[1]
			ft, r3 := parseType(rest[3:])
			sf := reflect.StructField{Name: string(name), Type: ft, Anonymous: fl[1] == 'a'}
			if fl[0] == 'u' {
				sf.PkgPath = "main"
			}
			if len(tag) > 0 {
				sf.Tag = reflect.StructTag("ion:" + strconv.Quote(string(tag)))
			}
			sfs = append(sfs, sf)
			rest = r3
		}
		consumed := ts[:len(ts)-len(rest)]
		if t, ok := declaredTypes[strings.Join(consumed, " ")]; ok {
			return t, rest
		}
		var t reflect.Type
		func() {
			defer func() {
				if e := recover(); e != nil {
					panic(noGoType{fmt.Sprint(e)})
				}
			}()
			t = reflect.StructOf(sfs)
		}()
		// the tag must survive a round trip through Tag.Get (quoting of odd bytes)
		for i, sf := range sfs {
			if t.Field(i).Tag.Get("ion") != sf.Tag.Get("ion") {
				panic(noGoType{"tag"})
			}
		}
		return t, rest
	}
	panic(noGoType{"unknown " + c})
}

// ---------------------------------------------------------------------------
// special values
// ---------------------------------------------------------------------------
func tsFromBody(body []byte) ion.Timestamp {
	if len(body) == 0 {
		return ion.Timestamp{}
	}
	b := []byte{0xE0, 0x01, 0x00, 0xEA}
	if len(body) < 14 {
		b = append(b, 0x60|byte(len(body)))
	} else {
		b = append(b, 0x6E, 0x80|byte(len(body)))
	}
	b = append(b, body...)
	r := ion.NewReaderBytes(b)
	if !r.Next() {
		panic(noGoType{"timestamp body"})
	}
	ts, err := r.TimestampValue()
	if err != nil || ts == nil {
		panic(noGoType{"timestamp body"})
	}
	return *ts
}

func tsBody(ts ion.Timestamp) []byte {
	if reflect.DeepEqual(ts, ion.Timestamp{}) {
		return nil
	}
	var buf bytes.Buffer
	w := ion.NewBinaryWriter(&buf)
	if err := w.WriteTimestamp(ts); err != nil {
		return []byte("!werr")
	}
	w.Finish()
	b := buf.Bytes()
	if len(b) < 5 {
		return []byte("!short")
	}
	b = b[4:]
	if b[0]&0x0F == 0x0E {
		return b[2:]
	}
	return b[1:]
}

func parseDecTok(t string) (*ion.Decimal, bool) {
	// <co>e<ex>z<b>
	i := strings.IndexByte(t, 'e')
	j := strings.IndexByte(t, 'z')
	if i < 0 || j < i {
		return nil, false
	}
	co, ok := new(big.Int).SetString(t[:i], 10)
	ex, err := strconv.ParseInt(t[i+1:j], 10, 32)
	if !ok || err != nil {
		return nil, false
	}
	return ion.NewDecimal(co, int32(ex), t[j+1:] != "0"), true
}

func showDec(d *ion.Decimal) string {
	co, ex := d.CoEx()
	if co == nil {
		co = new(big.Int)
	}
	z := 0
	if ion.VerifDecimalNegZero(d) {
		z = 1
	}
	return fmt.Sprintf("D%se%dz%d", co.String(), ex, z)
}

func mShowTok(t ion.SymbolToken) string {
	if t.Text != nil {
		return "tk," + xhex([]byte(*t.Text)) + ",-1"
	}
	return fmt.Sprintf("tk,-,%d", t.LocalSID)
}

// ---------------------------------------------------------------------------
// Go values from tokens (guided by the type) and back
// ---------------------------------------------------------------------------
type badValue struct{ why string }

// settable view of a possibly read-only (unexported-field) value
func rw(v reflect.Value) reflect.Value {
	if v.CanSet() || !v.CanAddr() {
		return v
	}
	return reflect.NewAt(v.Type(), unsafe.Pointer(v.UnsafeAddr())).Elem()
}

// buildInto fills the addressable v from the tokens, returning the rest.
func buildInto(v reflect.Value, ts []string) []string {
	if len(ts) == 0 {
		panic(badValue{"short"})
	}
	v = rw(v)
	c, r := ts[0], ts[1:]
	t := v.Type()
	count := func() int {
		n, err := strconv.Atoi(r[0])
		if err != nil {
			panic(badValue{"count"})
		}
		r = r[1:]
		return n
	}
	switch t {
	case tsType:
		b, err := hex.DecodeString(strings.TrimPrefix(c, "T"))
		if !strings.HasPrefix(c, "T") || err != nil {
			panic(badValue{"ts"})
		}
		v.Set(reflect.ValueOf(tsFromBody(b)))
		return r
	case timeType:
		b, err := hex.DecodeString(strings.TrimPrefix(c, "TM"))
		if !strings.HasPrefix(c, "TM") || err != nil {
			panic(badValue{"time"})
		}
		v.Set(reflect.ValueOf(tsFromBody(b).GetDateTime()))
		return r
	case decType:
		d, ok := parseDecTok(strings.TrimPrefix(c, "D"))
		if !strings.HasPrefix(c, "D") || !ok {
			panic(badValue{"dec"})
		}
		v.Set(reflect.ValueOf(*d))
		return r
	case bigType:
		z, ok := new(big.Int).SetString(strings.TrimPrefix(c, "G"), 10)
		if !strings.HasPrefix(c, "G") || !ok {
			panic(badValue{"big"})
		}
		v.Set(reflect.ValueOf(*z))
		return r
	case symType:
		if c != "Y" {
			panic(badValue{"symtok"})
		}
		tk, ok := parseTok(r[0])
		if !ok {
			panic(badValue{"symtok"})
		}
		v.Set(reflect.ValueOf(tk))
		return r[1:]
	}
	switch t.Kind() {
	case reflect.Bool:
		v.SetBool(c == "b1")
		if c != "b0" && c != "b1" {
			panic(badValue{"bool"})
		}
	case reflect.Int, reflect.Int8, reflect.Int16, reflect.Int32, reflect.Int64:
		z, err := strconv.ParseInt(strings.TrimPrefix(c, "i"), 10, 64)
		if c[0] != 'i' || err != nil || v.OverflowInt(z) {
			panic(badValue{"int"})
		}
		v.SetInt(z)
	case reflect.Uint, reflect.Uint8, reflect.Uint16, reflect.Uint32, reflect.Uint64, reflect.Uintptr:
		z, err := strconv.ParseUint(strings.TrimPrefix(c, "i"), 10, 64)
		if c[0] != 'i' || err != nil || v.OverflowUint(z) {
			panic(badValue{"uint"})
		}
		v.SetUint(z)
	case reflect.Float32:
		z, err := strconv.ParseUint(strings.TrimPrefix(c, "f"), 10, 32)
		if c[0] != 'f' || err != nil {
			panic(badValue{"f32"})
		}
		*(*uint32)(unsafe.Pointer(v.UnsafeAddr())) = uint32(z)
	case reflect.Float64:
		z, err := strconv.ParseUint(strings.TrimPrefix(c, "f"), 10, 64)
		if c[0] != 'f' || err != nil {
			panic(badValue{"f64"})
		}
		*(*uint64)(unsafe.Pointer(v.UnsafeAddr())) = z
	case reflect.String:
		b, ok := unx(strings.TrimPrefix(c, "s"))
		if c[0] != 's' || !ok {
			panic(badValue{"string"})
		}
		v.SetString(string(b))
	case reflect.Slice:
		if t.Elem().Kind() == reflect.Uint8 {
			if c == "Bnil" {
				return r
			}
			b, ok := unx(strings.TrimPrefix(c, "B"))
			if c[0] != 'B' || !ok {
				panic(badValue{"bytes"})
			}
			nb := reflect.MakeSlice(t, len(b), len(b))
			reflect.Copy(nb, reflect.ValueOf(b))
			v.Set(nb)
			return r
		}
		if c == "Lnil" {
			return r
		}
		if c != "L" {
			panic(badValue{"slice"})
		}
		n := count()
		s := reflect.MakeSlice(t, n, n)
		for i := 0; i < n; i++ {
			r = buildInto(s.Index(i), r)
		}
		v.Set(s)
	case reflect.Array:
		if c != "A" {
			panic(badValue{"array"})
		}
		n := count()
		if n != t.Len() {
			panic(badValue{"array len"})
		}
		for i := 0; i < n; i++ {
			r = buildInto(v.Index(i), r)
		}
	case reflect.Map:
		if c == "Mnil" {
			return r
		}
		if c != "M" {
			panic(badValue{"map"})
		}
		n := count()
		m := reflect.MakeMapWithSize(t, n)
		for i := 0; i < n; i++ {
			k, ok := unx(r[0])
			if !ok {
				panic(badValue{"key"})
			}
			e := reflect.New(t.Elem()).Elem()
			r = buildInto(e, r[1:])
			m.SetMapIndex(reflect.ValueOf(string(k)), e)
		}
		v.Set(m)
	case reflect.Ptr:
		if c == "Pnil" {
			return r
		}
		if c != "P" {
			panic(badValue{"ptr"})
		}
		p := reflect.New(t.Elem())
		r = buildInto(p.Elem(), r)
		v.Set(p)
	case reflect.Interface:
		if c == "Inil" {
			return r
		}
		if c != "I" {
			panic(badValue{"iface"})
		}
		dt, r2 := parseType(r)
		x := reflect.New(dt).Elem()
		r = buildInto(x, r2)
		v.Set(x)
	case reflect.Struct:
		if c != "S" {
			panic(badValue{"struct"})
		}
		n := count()
		if n != t.NumField() {
			panic(badValue{"field count"})
		}
		for i := 0; i < n; i++ {
			r = buildInto(v.Field(i), r)
		}
	default:
		panic(badValue{"kind"})
	}
	return r
}

func iface(v reflect.Value) interface{} {
	if v.CanInterface() {
		return v.Interface()
	}
	if v.CanAddr() {
		return rw(v).Interface()
	}
	c := reflect.New(v.Type()).Elem()
	// copy through unsafe-free path is impossible for RO non-addressable values; callers keep values addressable
	return c.Interface()
}

func showGo(v reflect.Value, out *[]string) {
	t := v.Type()
	put := func(s ...string) { *out = append(*out, s...) }
	switch t {
	case tsType:
		put("T" + hex.EncodeToString(tsBody(iface(v).(ion.Timestamp))))
		return
	case timeType:
		tm := iface(v).(time.Time)
		if tm.IsZero() && tm.Location() == time.UTC {
			put("TM")
			return
		}
		put("TM" + hex.EncodeToString(tsBody(timeToTimestamp(tm))))
		return
	case decType:
		d := iface(v).(ion.Decimal)
		put(showDec(&d))
		return
	case bigType:
		z := iface(v).(big.Int)
		put("G" + z.String())
		return
	case symType:
		put("Y", mShowTok(iface(v).(ion.SymbolToken)))
		return
	}
	switch t.Kind() {
	case reflect.Bool:
		if v.Bool() {
			put("b1")
		} else {
			put("b0")
		}
	case reflect.Int, reflect.Int8, reflect.Int16, reflect.Int32, reflect.Int64:
		put("i" + strconv.FormatInt(v.Int(), 10))
	case reflect.Uint, reflect.Uint8, reflect.Uint16, reflect.Uint32, reflect.Uint64, reflect.Uintptr:
		put("i" + strconv.FormatUint(v.Uint(), 10))
	case reflect.Float32:
		put("f" + strconv.FormatUint(uint64(math.Float32bits(float32(v.Float()))), 10))
	case reflect.Float64:
		put("f" + strconv.FormatUint(math.Float64bits(v.Float()), 10))
	case reflect.String:
		put("s" + xhex([]byte(v.String())))
	case reflect.Slice:
		if t.Elem().Kind() == reflect.Uint8 {
			if v.IsNil() {
				put("Bnil")
			} else {
				b := make([]byte, v.Len())
				for i := range b {
					b[i] = byte(v.Index(i).Uint())
				}
				put("B" + xhex(b))
			}
			return
		}
		if v.IsNil() {
			put("Lnil")
			return
		}
		put("L", strconv.Itoa(v.Len()))
		for i := 0; i < v.Len(); i++ {
			showGo(v.Index(i), out)
		}
	case reflect.Array:
		put("A", strconv.Itoa(v.Len()))
		for i := 0; i < v.Len(); i++ {
			showGo(v.Index(i), out)
		}
	case reflect.Map:
		if v.IsNil() {
			put("Mnil")
			return
		}
		keys := v.MapKeys()
		ks := make([]string, len(keys))
		for i, k := range keys {
			ks[i] = k.String()
		}
		sortStrings(ks)
		put("M", strconv.Itoa(len(ks)))
		for _, k := range ks {
			put(xhex([]byte(k)))
			e := reflect.New(t.Elem()).Elem()
			e.Set(v.MapIndex(reflect.ValueOf(k)))
			showGo(e, out)
		}
	case reflect.Ptr:
		if v.IsNil() {
			put("Pnil")
			return
		}
		put("P")
		showGo(v.Elem(), out)
	case reflect.Interface:
		if v.IsNil() {
			put("Inil")
			return
		}
		e := v.Elem()
		put("I")
		put(descOf(e.Type())...)
		c := reflect.New(e.Type()).Elem()
		c.Set(e)
		showGo(c, out)
	case reflect.Struct:
		put("S", strconv.Itoa(v.NumField()))
		for i := 0; i < v.NumField(); i++ {
			showGo(v.Field(i), out)
		}
	default:
		put("?" + t.String())
	}
}

func sortStrings(a []string) {
	for i := 1; i < len(a); i++ {
		for j := i; j > 0 && a[j] < a[j-1]; j-- {
			a[j], a[j-1] = a[j-1], a[j]
		}
	}
}

// the Timestamp that encodeTimeDate builds for a time.Time (used only to print time.Time values)
func timeToTimestamp(t time.Time) ion.Timestamp {
	name, off := t.Zone()
	kind := ion.TimezoneUnspecified
	if name != "" && off == 0 {
		kind = ion.TimezoneUTC
	} else if name != "" && off != 0 {
		kind = ion.TimezoneLocal
	}
	return ion.NewTimestampWithFractionalSeconds(t, ion.TimestampPrecisionNanosecond, kind, 9)
}

// ---------------------------------------------------------------------------
// Ion value tokens -> bytes through an ion.Writer
// ---------------------------------------------------------------------------
func parseSymv(d string) (ion.SymbolToken, bool) {
	if strings.HasPrefix(d, "t") {
		b, err := hex.DecodeString(d[1:])
		if err != nil {
			return ion.SymbolToken{}, false
		}
		s := string(b)
		return ion.SymbolToken{Text: &s, LocalSID: ion.SymbolIDUnknown}, true
	}
	if strings.HasPrefix(d, "i") {
		n, err := strconv.ParseInt(d[1:], 10, 64)
		return ion.SymbolToken{LocalSID: n}, err == nil
	}
	return ion.SymbolToken{}, false
}

type badIon struct{ why string }

func must(err error) {
	if err != nil {
		panic(badIon{err.Error()})
	}
}

// writeIon writes one value; returns the remaining tokens.
func writeIon(w ion.Writer, ts []string) []string {
	if len(ts) == 0 {
		panic(badIon{"short"})
	}
	c, r := ts[0], ts[1:]
	switch {
	case c == "[" || c == "(":
		cl := "]"
		if c == "[" {
			must(w.BeginList())
		} else {
			must(w.BeginSexp())
			cl = ")"
		}
		for len(r) > 0 && r[0] != cl {
			r = writeIon(w, r)
		}
		if len(r) == 0 {
			panic(badIon{"unclosed"})
		}
		if c == "[" {
			must(w.EndList())
		} else {
			must(w.EndSexp())
		}
		return r[1:]
	case c == "{":
		must(w.BeginStruct())
		for len(r) > 0 && r[0] != "}" {
			if !strings.HasPrefix(r[0], "f") {
				panic(badIon{"field"})
			}
			tk, ok := parseSymv(r[0][1:])
			if !ok {
				panic(badIon{"field"})
			}
			must(w.FieldName(tk))
			r = writeIon(w, r[1:])
		}
		if len(r) == 0 {
			panic(badIon{"unclosed"})
		}
		must(w.EndStruct())
		return r[1:]
	case c[0] == 'a':
		tk, ok := parseSymv(c[1:])
		if !ok {
			panic(badIon{"annot"})
		}
		must(w.Annotation(tk))
		return writeIon(w, r)
	case c[0] == 'n':
		n, err := strconv.Atoi(c[1:])
		if err != nil {
			panic(badIon{"null"})
		}
		must(w.WriteNullType(ion.Type(n)))
	case c == "b0":
		must(w.WriteBool(false))
	case c == "b1":
		must(w.WriteBool(true))
	case c[0] == 'I':
		z, ok := new(big.Int).SetString(c[1:], 10)
		if !ok {
			panic(badIon{"int"})
		}
		must(w.WriteBigInt(z))
	case c[0] == 'F':
		z, err := strconv.ParseUint(c[1:], 10, 64)
		if err != nil {
			panic(badIon{"float"})
		}
		must(w.WriteFloat(math.Float64frombits(z)))
	case c[0] == 'D':
		d, ok := parseDecTok(c[1:])
		if !ok {
			panic(badIon{"dec"})
		}
		must(w.WriteDecimal(d))
	case c[0] == 'T':
		b, err := hex.DecodeString(c[1:])
		if err != nil {
			panic(badIon{"ts"})
		}
		must(w.WriteTimestamp(tsFromBody(b)))
	case c[0] == 'Y':
		tk, ok := parseSymv(c[1:])
		if !ok {
			panic(badIon{"sym"})
		}
		must(w.WriteSymbol(tk))
	case c[0] == 'S' || c[0] == 'C' || c[0] == 'B':
		b, ok := unx(c[1:])
		if !ok {
			panic(badIon{"bytes"})
		}
		switch c[0] {
		case 'S':
			must(w.WriteString(string(b)))
		case 'C':
			must(w.WriteClob(b))
		default:
			must(w.WriteBlob(b))
		}
	default:
		panic(badIon{"token " + c})
	}
	return r
}

// ionBytes serialises the Ion value tokens (a stream of values) as text ("t") or binary ("b").
func ionBytes(format string, ts []string) []byte {
	var buf bytes.Buffer
	var w ion.Writer
	if format == "b" {
		w = ion.NewBinaryWriter(&buf)
	} else {
		w = ion.NewTextWriter(&buf)
	}
	for len(ts) > 0 {
		ts = writeIon(w, ts)
	}
	must(w.Finish())
	return buf.Bytes()
}

// ---------------------------------------------------------------------------
// recording Writer
// ---------------------------------------------------------------------------
type recWriter struct {
	calls []string
	depth []bool
}

func (w *recWriter) put(s ...string) error { w.calls = append(w.calls, s...); return nil }
func recTok(t ion.SymbolToken) string {
	if t.Text != nil {
		return fmt.Sprintf("tk,%s,%d", xhex([]byte(*t.Text)), t.LocalSID)
	}
	return fmt.Sprintf("tk,-,%d", t.LocalSID)
}
func (w *recWriter) FieldName(v ion.SymbolToken) error  { return w.put("FN", recTok(v)) }
func (w *recWriter) Annotation(v ion.SymbolToken) error { return w.put("AN", recTok(v)) }
func (w *recWriter) Annotations(vs ...ion.SymbolToken) error {
	w.put("ANS", strconv.Itoa(len(vs)))
	for _, v := range vs {
		w.put(recTok(v))
	}
	return nil
}
func (w *recWriter) WriteNull() error              { return w.put("NULL") }
func (w *recWriter) WriteNullType(t ion.Type) error { return w.put("NT", strconv.Itoa(int(t))) }
func (w *recWriter) WriteBool(v bool) error {
	if v {
		return w.put("BOOL", "1")
	}
	return w.put("BOOL", "0")
}
func (w *recWriter) WriteInt(v int64) error   { return w.put("INT", strconv.FormatInt(v, 10)) }
func (w *recWriter) WriteUint(v uint64) error { return w.put("UINT", strconv.FormatUint(v, 10)) }
func (w *recWriter) WriteBigInt(v *big.Int) error {
	if v == nil {
		return w.put("BIG", "nil")
	}
	return w.put("BIG", v.String())
}
func (w *recWriter) WriteFloat(v float64) error {
	return w.put("FLOAT", strconv.FormatUint(math.Float64bits(v), 10))
}
func (w *recWriter) WriteDecimal(v *ion.Decimal) error {
	if v == nil {
		return w.put("DEC", "nil")
	}
	co, ex := v.CoEx()
	if co == nil {
		co = new(big.Int)
	}
	z := "0"
	if ion.VerifDecimalNegZero(v) {
		z = "1"
	}
	return w.put("DEC", co.String(), strconv.Itoa(int(ex)), z)
}
func (w *recWriter) WriteTimestamp(v ion.Timestamp) error {
	b := tsBody(v)
	return w.put("TS", "0", strconv.Itoa(len(b)), xhex(b))
}
func (w *recWriter) WriteSymbol(v ion.SymbolToken) error      { return w.put("SYM", recTok(v)) }
func (w *recWriter) WriteSymbolFromString(v string) error     { return w.put("SFS", xhex([]byte(v))) }
func (w *recWriter) WriteString(v string) error               { return w.put("STR", xhex([]byte(v))) }
func (w *recWriter) WriteClob(v []byte) error                 { return w.put("CLOB", xhex(v)) }
func (w *recWriter) WriteBlob(v []byte) error                 { return w.put("BLOB", xhex(v)) }
func (w *recWriter) BeginList() error                         { w.depth = append(w.depth, false); return w.put("BL") }
func (w *recWriter) EndList() error                           { w.depth = w.depth[:len(w.depth)-1]; return w.put("EL") }
func (w *recWriter) BeginSexp() error                         { w.depth = append(w.depth, false); return w.put("BS") }
func (w *recWriter) EndSexp() error                           { w.depth = w.depth[:len(w.depth)-1]; return w.put("ES") }
func (w *recWriter) BeginStruct() error                       { w.depth = append(w.depth, true); return w.put("BT") }
func (w *recWriter) EndStruct() error                         { w.depth = w.depth[:len(w.depth)-1]; return w.put("ET") }
func (w *recWriter) Finish() error                            { return w.put("FIN") }
func (w *recWriter) IsInStruct() bool                         { return len(w.depth) > 0 && w.depth[len(w.depth)-1] }

// ---------------------------------------------------------------------------
// commands
// ---------------------------------------------------------------------------
// guard converts the harness' own rejections into response words (real panics of ion-go propagate)
func guard(f func() string) (out string) {
	defer func() {
		if r := recover(); r != nil {
			switch x := r.(type) {
			case noGoType:
				out = "nogotype"
				_ = x
			case badValue:
				out = "illtyped"
			case badIon:
				out = "badion"
			default:
				panic(r)
			}
		}
	}()
	return f()
}

// topValue returns the interface{} to hand to Marshal for a value of static type t:
// a copy of the value (non-addressable inside Marshal, exactly like Marshal(x)).
func topValue(v reflect.Value) interface{} {
	if v.Kind() == reflect.Interface {
		if v.IsNil() {
			return nil
		}
		return v.Elem().Interface()
	}
	return v.Interface()
}

func showResult(target reflect.Value) string {
	var out []string
	showGo(target, &out)
	return "ok " + strings.Join(out, " ")
}

func init() {
	register("declared_types", func(a []string) string {
		var ks []string
		for k := range declaredTypes {
			ks = append(ks, k)
		}
		sortStrings(ks)
		return "ok " + strings.Join(ks, " | ")
	})
	register("typeok", func(a []string) string {
		return guard(func() string {
			_, r := parseType(a)
			if len(r) != 0 {
				return "badinput"
			}
			return "ok"
		})
	})
	register("marshal_calls", func(a []string) string {
		if len(a) < 4 {
			return "badinput"
		}
		var v reflect.Value
		var hint int
		var srt bool
		pre := guard(func() string {
			srt = a[0] != "0"
			h, err := strconv.Atoi(a[1])
			if err != nil {
				return "badinput"
			}
			hint = h
			t, r := parseType(a[2:])
			v = reflect.New(t).Elem()
			if rest := buildInto(v, r); len(rest) != 0 {
				return "badinput"
			}
			return ""
		})
		if pre != "" {
			return pre
		}
		w := &recWriter{}
		opts := ion.EncoderOpts(0)
		if srt {
			opts = ion.EncodeSortMaps
		}
		e := ion.NewEncoderOpts(w, opts)
		if err := e.EncodeAs(topValue(v), ion.Type(hint)); err != nil {
			return "err"
		}
		return strings.TrimSpace("ok " + strings.Join(w.calls, " "))
	})
	marshalBytes := func(binary bool) handler {
		return func(a []string) string {
			var v reflect.Value
			pre := guard(func() string {
				t, r := parseType(a)
				v = reflect.New(t).Elem()
				if rest := buildInto(v, r); len(rest) != 0 {
					return "badinput"
				}
				return ""
			})
			if pre != "" {
				return pre
			}
			var b []byte
			var err error
			if binary {
				b, err = ion.MarshalBinary(topValue(v))
			} else {
				b, err = ion.MarshalText(topValue(v))
			}
			if err != nil {
				return "err"
			}
			return "ok " + xhex(b)
		}
	}
	register("marshal_text", marshalBytes(false))
	register("marshal_bin", marshalBytes(true))
	// roundtrip <t|b> T V : Unmarshal(Marshal(v)) into a fresh zero value of the same type
	register("roundtrip", func(a []string) string {
		if len(a) < 3 {
			return "badinput"
		}
		var v, target reflect.Value
		pre := guard(func() string {
			t, r := parseType(a[1:])
			v = reflect.New(t).Elem()
			target = reflect.New(t)
			if rest := buildInto(v, r); len(rest) != 0 {
				return "badinput"
			}
			return ""
		})
		if pre != "" {
			return pre
		}
		var b []byte
		var err error
		if a[0] == "b" {
			b, err = ion.MarshalBinary(topValue(v))
		} else {
			b, err = ion.MarshalText(topValue(v))
		}
		if err != nil {
			return "err"
		}
		if err := ion.Unmarshal(b, target.Interface()); err != nil {
			return "err"
		}
		res := showResult(target.Elem())
		// the other entry points of the same encoder must agree with the one just used (an answer the model never gives
		// otherwise): MarshalTo on an own Writer, an Encoder with a fixed table holding the symbols the value needs
		if why := otherEntryPoints(a[0] == "b", topValue(v), b, target.Type().Elem(), res); why != "" {
			return res + " entrypoints-disagree:" + why
		}
		return res
	})
	// unmarshal <t|b> T <ion value tokens>
	register("unmarshal", func(a []string) string {
		if len(a) < 3 {
			return "badinput"
		}
		var target reflect.Value
		var data []byte
		pre := guard(func() string {
			t, r := parseType(a[1:])
			target = reflect.New(t)
			data = ionBytes(a[0], r)
			return ""
		})
		if pre != "" {
			return pre
		}
		if err := ion.Unmarshal(data, target.Interface()); err != nil {
			return "err"
		}
		return showResult(target.Elem())
	})
	// unmarshal_into <t|b> T G <ion value tokens>
	register("unmarshal_into", func(a []string) string {
		if len(a) < 4 {
			return "badinput"
		}
		var target reflect.Value
		var data []byte
		pre := guard(func() string {
			t, r := parseType(a[1:])
			target = reflect.New(t)
			r = buildInto(target.Elem(), r)
			data = ionBytes(a[0], r)
			return ""
		})
		if pre != "" {
			return pre
		}
		if err := ion.Unmarshal(data, target.Interface()); err != nil {
			return "err"
		}
		return showResult(target.Elem())
	})
	// unmarshal_x T x<ion bytes> : Go only (hand-written Ion text)
	register("unmarshal_x", func(a []string) string {
		if len(a) < 2 {
			return "badinput"
		}
		var target reflect.Value
		var data []byte
		pre := guard(func() string {
			t, r := parseType(a)
			target = reflect.New(t)
			if len(r) != 1 {
				return "badinput"
			}
			b, ok := unx(r[0])
			if !ok {
				return "badinput"
			}
			data = b
			return ""
		})
		if pre != "" {
			return pre
		}
		if err := ion.Unmarshal(data, target.Interface()); err != nil {
			return "err"
		}
		return showResult(target.Elem())
	})
	showAny := func(v interface{}, out *[]string) {
		x := reflect.New(basicType["I"]).Elem()
		if v != nil {
			x.Set(reflect.ValueOf(v))
		}
		showGo(x, out)
	}
	register("decode_any", func(a []string) string {
		if len(a) < 2 {
			return "badinput"
		}
		var data []byte
		pre := guard(func() string { data = ionBytes(a[0], a[1:]); return "" })
		if pre != "" {
			return pre
		}
		d := ion.NewDecoder(ion.NewReaderBytes(data))
		v, err := d.Decode()
		if err != nil {
			return "err"
		}
		var out []string
		showAny(v, &out)
		return "ok " + strings.Join(out, " ")
	})
	register("decoder_stream", func(a []string) string {
		if len(a) < 1 {
			return "badinput"
		}
		var data []byte
		pre := guard(func() string { data = ionBytes(a[0], a[1:]); return "" })
		if pre != "" {
			return pre
		}
		d := ion.NewDecoder(ion.NewReaderBytes(data))
		out := []string{"ok"}
		for i := 0; i < 100000; i++ {
			v, err := d.Decode()
			if err == ion.ErrNoInput {
				// must stay at ErrNoInput
				if _, err2 := d.Decode(); err2 != ion.ErrNoInput {
					out = append(out, "unstable")
				}
				out = append(out, "noinput")
				return strings.Join(out, " ")
			}
			if err != nil {
				out = append(out, "err")
				return strings.Join(out, " ")
			}
			showAny(v, &out)
		}
		return "toolong"
	})
	register("fields_for", func(a []string) string {
		var t reflect.Type
		pre := guard(func() string {
			var r []string
			t, r = parseType(a)
			if len(r) != 0 || t.Kind() != reflect.Struct {
				return "badinput"
			}
			return ""
		})
		if pre != "" {
			return pre
		}
		fs, err := ion.VerifFieldsFor(t)
		if err != nil {
			return "err"
		}
		out := []string{"ok"}
		for _, f := range fs {
			p := ""
			for _, i := range f.Path {
				p += strconv.Itoa(i) + "."
			}
			b := func(x bool) string {
				if x {
					return "1"
				}
				return "0"
			}
			out = append(out, fmt.Sprintf("%s:%s:%s:%d:%s", xhex([]byte(f.Name)), p, b(f.OmitEmpty), f.Hint, b(f.Annotations)))
		}
		return strings.Join(out, " ")
	})
}
