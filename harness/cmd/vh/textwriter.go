package main

import (
	"encoding/base64"
	"fmt"
	"math"
	"math/big"
	"strconv"
	"strings"

	"github.com/amzn/ion-go/ion"
)

// Text writer commands (component "textwriter"): see coq/Drv/DrvText.v.

func outChunks(f *failWriter) string {
	return fmt.Sprintf("ok %s %d", xhex(f.buf.Bytes()), f.writes)
}

func bit(b bool) string {
	if b {
		return "1"
	}
	return "0"
}

func parseDecArgs(a, e, z string) (*ion.Decimal, bool) {
	co, ok := new(big.Int).SetString(a, 10)
	ex, err := strconv.ParseInt(e, 10, 32)
	if !ok || err != nil {
		return nil, false
	}
	return ion.NewDecimal(co, int32(ex), z != "0"), true
}

// lenWriter records the length of every Write.
type lenWriter struct {
	buf  []byte
	lens []string
}

func (l *lenWriter) Write(p []byte) (int, error) {
	l.buf = append(l.buf, p...)
	l.lens = append(l.lens, strconv.Itoa(len(p)))
	return len(p), nil
}

func init() {
	// call tokens carrying the text for the model; the Go side uses the value only
	extraCalls["FLOATX"] = func(rest []string) (wcall, int, bool) {
		if len(rest) < 2 {
			return nil, 0, false
		}
		v, err := strconv.ParseUint(rest[0], 10, 64)
		if err != nil {
			return nil, 0, false
		}
		f := math.Float64frombits(v)
		return func(w ion.Writer) error { return w.WriteFloat(f) }, 2, true
	}
	extraCalls["DECX"] = func(rest []string) (wcall, int, bool) {
		if len(rest) < 4 {
			return nil, 0, false
		}
		d, ok := parseDecArgs(rest[0], rest[1], rest[2])
		if !ok {
			return nil, 0, false
		}
		return func(w ion.Writer) error { return w.WriteDecimal(d) }, 4, true
	}
	extraCalls["TSX"] = func(rest []string) (wcall, int, bool) {
		if len(rest) < 2 {
			return nil, 0, false
		}
		ts, ok := parseTS(rest[0])
		if !ok {
			return nil, 0, false
		}
		return func(w ion.Writer) error { return w.WriteTimestamp(ts) }, 2, true
	}

	register("tw", func(a []string) string {
		if len(a) < 2 {
			return "badinput"
		}
		opts, err := strconv.ParseUint(a[0], 10, 8)
		bud, ok := parseBudget(a[1])
		calls, ok2 := parseCalls(a[2:])
		if err != nil || opts > 3 || !ok || !ok2 {
			return "badinput"
		}
		f := &failWriter{budget: bud}
		w := ion.NewTextWriterOpts(f, ion.TextWriterOpts(opts))
		res, p := driveWriter(w, calls)
		return outDrive(f, res, p)
	})

	// helper commands of the generator (Go side only): the text of values whose formatting is not modelled
	register("fmt_float", func(a []string) string {
		v, ok := argU(a, 0)
		if !ok {
			return "badinput"
		}
		return xhex([]byte(strconv.FormatFloat(math.Float64frombits(v), 'e', -1, 64)))
	})
	register("fmt_dec", func(a []string) string {
		if len(a) != 3 {
			return "badinput"
		}
		d, ok := parseDecArgs(a[0], a[1], a[2])
		if !ok {
			return "badinput"
		}
		return xhex([]byte(d.String()))
	})
	register("fmt_ts", func(a []string) string {
		if len(a) != 1 {
			return "badinput"
		}
		ts, ok := parseTS(a[0])
		if !ok {
			return "badinput"
		}
		return xhex([]byte(ts.String()))
	})

	// finite-domain commands
	symOut := func(tk ion.SymbolToken) string {
		f := &failWriter{budget: -1}
		if err := ion.VerifWriteSymbol(tk, f); err != nil {
			return "err"
		}
		return outChunks(f)
	}
	register("sym_quote", func(a []string) string {
		b, ok := argX(a, 0)
		if !ok || len(a) != 1 {
			return "badinput"
		}
		s := string(b)
		return symOut(ion.SymbolToken{Text: &s, LocalSID: ion.SymbolIDUnknown})
	})
	register("sym_tok", func(a []string) string {
		if len(a) != 1 {
			return "badinput"
		}
		tk, ok := parseTok(a[0])
		if !ok {
			return "badinput"
		}
		return symOut(tk)
	})
	viaString := func(fn func(string, *failWriter) error) handler {
		return func(a []string) string {
			b, ok := argX(a, 0)
			if !ok || len(a) != 1 {
				return "badinput"
			}
			f := &failWriter{budget: -1}
			if err := fn(string(b), f); err != nil {
				return "err"
			}
			return outChunks(f)
		}
	}
	register("sfs_quote", viaString(func(s string, f *failWriter) error { return ion.VerifWriteSymbolFromString(s, f) }))
	register("str_escape", viaString(func(s string, f *failWriter) error { return ion.VerifWriteEscapedString(s, f) }))
	register("sym_escape", viaString(func(s string, f *failWriter) error { return ion.VerifWriteEscapedSymbol(s, f) }))
	register("clob_escape", viaString(func(s string, f *failWriter) error {
		return ion.NewTextWriter(f).WriteClob([]byte(s))
	}))
	register("needs_quote", func(a []string) string {
		b, ok := argX(a, 0)
		if !ok || len(a) != 1 {
			return "badinput"
		}
		return "ok " + bit(ion.VerifSymbolNeedsQuoting(string(b)))
	})
	register("charclass", func(a []string) string {
		v, ok := argU(a, 0)
		if !ok || len(a) != 1 {
			return "badinput"
		}
		c := int(v)
		return "ok " + bit(ion.VerifIsIdentifierStart(c)) + bit(ion.VerifIsIdentifierPart(c)) + bit(ion.VerifIsDigit(c)) +
			bit(ion.VerifIsHexDigit(c)) + bit(ion.VerifIsOperatorChar(c)) + bit(ion.VerifIsStopChar(c)) + bit(ion.VerifIsWhitespace(c))
	})
	register("textnull", func(a []string) string {
		v, ok := argU(a, 0)
		if !ok || len(a) != 1 {
			return "badinput"
		}
		return "ok " + xhex([]byte(ion.VerifTextNull(int(v))))
	})
	register("ffloat", func(a []string) string {
		v, ok := argU(a, 0)
		if !ok || len(a) != 2 {
			return "badinput"
		}
		return "ok " + xhex([]byte(ion.VerifFormatFloat(math.Float64frombits(v))))
	})
	register("b64", func(a []string) string {
		b, ok := argX(a, 0)
		if !ok || len(a) != 1 {
			return "badinput"
		}
		l := &lenWriter{}
		enc := base64.NewEncoder(base64.StdEncoding, l)
		if _, err := enc.Write(b); err != nil {
			return "err"
		}
		if err := enc.Close(); err != nil {
			return "err"
		}
		lens := "-"
		if len(l.lens) > 0 {
			lens = strings.Join(l.lens, ",")
		}
		return "ok " + xhex(l.buf) + " " + lens
	})
}
