package main

import (
	"bytes"
	"fmt"
	"strings"

	"github.com/amzn/ion-go/ion"
)

// Commands of the text reader component (K5). trd/ttrav are the text-side names of
// brd/btrav: ion.NewReader picks the text or the binary reader from the bytes.
func init() {
	register("trd", func(a []string) string { return handlers["brd"](a) })
	register("ttrav", func(a []string) string { return handlers["btrav"](a) })

	// ttok x<bytes>: the bare tokenizer, Next + Token() until EOF or error
	register("ttok", func(a []string) string {
		b, ok := argX(a, 0)
		if !ok {
			return "badinput"
		}
		var toks []string
		func() {
			defer func() {
				if rec := recover(); rec != nil {
					toks = append(toks, "panic")
				}
			}()
			t := ion.VerifTokenize(bytes.NewReader(b))
			for steps := 0; ; steps++ {
				if steps >= len(b)+2 {
					toks = append(toks, "outoffuel")
					return
				}
				if err := t.Next(); err != nil {
					toks = append(toks, "err")
					return
				}
				toks = append(toks, fmt.Sprint(t.Token()))
				if t.Token() == 1 {
					return
				}
			}
		}()
		return strings.Join(toks, " ")
	})
	// ttokv x<bytes>: the same, reading each token's text with ReadValue / ReadNumber
	register("ttokv", func(a []string) string {
		b, ok := argX(a, 0)
		if !ok {
			return "badinput"
		}
		var toks []string
		func() {
			defer func() {
				if rec := recover(); rec != nil {
					toks = append(toks, "panic")
				}
			}()
			t := ion.VerifTokenize(bytes.NewReader(b))
			for steps := 0; ; steps++ {
				if steps >= len(b)+2 {
					toks = append(toks, "outoffuel")
					return
				}
				if err := t.Next(); err != nil {
					toks = append(toks, "err")
					return
				}
				k := t.Token()
				toks = append(toks, fmt.Sprint(k))
				switch k {
				case 1:
					return
				case 8, 9, 10, 13, 11, 12, 3, 4, 7:
					v, err := t.ReadValue()
					if err != nil {
						toks = append(toks, "err")
						return
					}
					toks = append(toks, fmt.Sprintf("v%x", []byte(v)))
				case 2:
					v, ty, err := t.ReadNumber()
					if err != nil {
						toks = append(toks, "err")
						return
					}
					toks = append(toks, fmt.Sprintf("n%d:%x", ty, []byte(v)))
				}
			}
		}()
		return strings.Join(toks, " ")
	})
	// tcls <int>: character classes
	register("tcls", func(a []string) string {
		c, ok := argI(a, 0)
		if !ok {
			return "badinput"
		}
		var sb strings.Builder
		for _, b := range ion.VerifCharClasses(int(c)) {
			if b {
				sb.WriteByte('1')
			} else {
				sb.WriteByte('0')
			}
		}
		return "ok " + sb.String()
	})
	// tesc <isclob> x<bytes>: readEscapedChar on the characters after the backslash
	register("tesc", func(a []string) string {
		b, ok := argX(a, 1)
		if !ok {
			return "badinput"
		}
		r, err := ion.VerifReadEscapedChar(b, a[0] == "1")
		if err != nil {
			return "err"
		}
		return fmt.Sprintf("ok %d", uint32(r))
	})
	// tdec x<literal>: ion.ParseDecimal
	register("tdec", func(a []string) string {
		b, ok := argX(a, 0)
		if !ok {
			return "badinput"
		}
		d, err := ion.ParseDecimal(string(b))
		if err != nil {
			return "err"
		}
		return "ok " + showDecimal(d)
	})
	// tts x<literal>: ion.ParseTimestamp
	register("tts", func(a []string) string {
		b, ok := argX(a, 0)
		if !ok {
			return "badinput"
		}
		t, err := ion.ParseTimestamp(string(b))
		if err != nil {
			return "err"
		}
		return "ok " + showTimestamp(&t)
	})
}
