module verifharness

go 1.22.0

require (
	github.com/amzn/ion-go v0.0.0
	golang.org/x/tools v0.29.0
)

require (
	golang.org/x/mod v0.22.0 // indirect
	golang.org/x/sync v0.10.0 // indirect
)

replace github.com/amzn/ion-go => /repo
