module verifharness

go 1.13

require github.com/amzn/ion-go v0.0.0

replace github.com/amzn/ion-go => /repo
