"""marshalgen — generators shared by C16 and C17: Go types (declared family of the harness plus
random shapes), boundary Go values, boundary Ion values, an independent Python reading of the
documented Go<->Ion mapping (py_marshal: Go value -> Ion value)."""
import iongen
import vlib
from marshallib import *

INT_KINDS = ["i8", "i16", "i32", "i64", "i", "u8", "u16", "u32", "u64", "u", "up"]
BYTES = ("L", ("int", "u8"))
ANN_TAG = b",annotations"


def declared_types():
    out = vlib.run_go(["declared_types"])[0]
    assert out.startswith("ok "), out
    ts = []
    for d in out[3:].split(" | "):
        t, j = parse_ty(d.split(" "))
        ts.append(t)
    return ts


SCALAR_TYPES = [("b",)] + [("int", k) for k in INT_KINDS] + [("f32",), ("f64",), ("s",), BYTES]
SPECIAL_TYPES = [("TS",), ("DEC",), ("BIG",), ("SYM",), ("P", ("BIG",)), ("P", ("DEC",)), ("P", ("TS",))]
CONTAINER_TYPES = [("A", 4, ("int", "u8")), ("A", 0, ("int", "u8")), ("L", ("int", "i")), ("L", ("int", "i8")), ("L", ("s",)),
                   ("L", ("I",)), ("A", 2, ("int", "i")), ("A", 3, ("s",)), ("M", ("int", "i")), ("M", ("I",)), ("M", ("s",)),
                   ("P", ("int", "i")), ("P", ("P", ("int", "i"))), ("P", ("s",)), ("I",), ("L", ("L", ("int", "i16"))),
                   ("M", ("L", ("f64",))), ("P", ("L", ("int", "i"))), ("L", ("P", ("int", "u32"))), ("L", BYTES)]


def contains(t, kinds):
    if t[0] in kinds:
        return True
    if t[0] in ("L", "M", "P"):
        return contains(t[1], kinds)
    if t[0] == "A":
        return contains(t[2], kinds)
    if t[0] == "ST":
        return any(contains(f[4], kinds) for f in t[1])
    return False


def gen_type(rng, depth):
    r = rng.random()
    if depth <= 0 or r < 0.45:
        return rng.choice(SCALAR_TYPES + [("I",), ("TS",), ("P", ("DEC",)), ("BIG",)] if rng.random() < 0.9 else SPECIAL_TYPES)
    k = rng.choice(["L", "A", "M", "P", "ST", "ST"])
    if k == "A":
        return ("A", rng.choice([0, 1, 2, 3]), gen_type(rng, depth - 1))
    if k in ("L", "M", "P"):
        return (k, gen_type(rng, depth - 1))
    n = rng.choice([0, 1, 2, 3, 4])
    fs = []
    used = set()
    for i in range(n):
        name = rng.choice([b"A", b"B", b"Cc", b"Dd", b"X", b"Foo", b"Bar"]) + bytes([65 + i])
        ft = gen_type(rng, depth - 1)
        tag = rng.choice([b"", b"", b"", b"n%d" % i, b",omitempty", b"o%d,omitempty" % i, b"-", b",symbol", b",clob", b",sexp",
                          b"h%d,sexp,omitempty" % i, b",unknownopt", b"q%d," % i])
        emb = False
        if ft[0] == "ST" and rng.random() < 0.4:
            emb = True
            if rng.random() < 0.5:
                ft = ("P", ft)
            tag = rng.choice([b"", b"", b"em%d" % i])
        fs.append((name, True, emb, tag, ft))
    return ("ST", fs)


def embed_chains(rng, n=24):
    """structs whose fields are promoted through 3..5 levels of anonymous embedding (by value or through a pointer), with
    2..3 fields of their own at every level: field index paths of length 4..6"""
    out = []
    for j in range(n):
        levels = rng.choice([3, 3, 4, 5])
        t = None
        for lv in range(levels, -1, -1):
            fs = []
            nown = rng.choice([2, 2, 3])
            names = [bytes([65 + lv]) + bytes([97 + i]) + b"%d" % j for i in range(nown)]
            own = [(nm, True, False, rng.choice([b"", b"", b"t%d%d" % (lv, i)]), rng.choice(SCALAR_TYPES)) for i, nm in enumerate(names)]
            if t is not None:
                emb = (b"E%d" % lv, True, True, b"", ("P", t) if rng.random() < 0.3 else t)
                pos = rng.randint(0, len(own))
                fs = own[:pos] + [emb] + own[pos:]
            else:
                fs = own
            t = ("ST", fs)
        out.append(t)
    return out


def usable_types(types):
    """drop the types the Go side cannot build (reflect.StructOf restrictions)"""
    outs = vlib.run_go(["typeok " + " ".join(ty_tokens(t)) for t in types])
    return [t for t, o in zip(types, outs) if o == "ok"]


# ---------------------------------------------------------------------------
# Go values
# ---------------------------------------------------------------------------
def int_edges(k):
    lo, hi = INTK[k]
    return sorted({lo, lo + 1, -1, 0, 1, 127, 128, 255, 256, 32767, 32768, 65535, 65536, 2 ** 31 - 1, 2 ** 31, 2 ** 32 - 1, 2 ** 32,
                   2 ** 63 - 1, 2 ** 63, hi - 1, hi} & set(range(lo, hi + 1)) if hi < 2 ** 20 else
                  {v for v in (lo, lo + 1, -1, 0, 1, 127, 128, 255, 256, 32767, 32768, 65535, 65536, 2 ** 31 - 1, 2 ** 31,
                               -2 ** 31, -2 ** 31 - 1, 2 ** 32 - 1, 2 ** 32, 2 ** 63 - 1, 2 ** 63, hi - 1, hi) if lo <= v <= hi})


F64_EDGES = [0, 0x8000000000000000, 0x3FF0000000000000, 0xBFF0000000000000, 0x7FF0000000000000, 0xFFF0000000000000, NAN,
             0x3FB999999999999A, 0x47EFFFFFE0000000, 0x47EFFFFFE0000001, 0x47EFFFFFF0000000, 0xC7EFFFFFE0000001, 0x47F0000000000000,
             0x380FFFFFC0000000, 0x36A0000000000000, 0x3690000000000000, 0x369FFFFFFFFFFFFF, 1, 0x7FEFFFFFFFFFFFFF, 0x3810000000000000,
             0x3FF0000010000000, 0x3FF0000030000000, 0x4059000000000000]
F32_EDGES = [0, 0x80000000, 0x3F800000, 0xBF800000, 0x7F800000, 0xFF800000, 0x7FC00000, 0x7F7FFFFF, 0xFF7FFFFF, 1, 0x00800000,
             0x007FFFFF, 0x3DCCCCCD, 0x42C80000]
TEXTS = [b"", b"a", b"abc", "héllo 日本 \U0001F600".encode(), b"null", b"$0", b"$7", b"it's \"q\"\n\\", b"x" * 40]
BLOBS = [b"", b"\x00", b"\x01\x02\x03", bytes(range(256)), b"\xff" * 14]


def some_ts(rng):
    return bytes(iongen.ts_body(iongen.gen_ts(rng)))


def gen_go(rng, t, depth=3):
    k = t[0]
    if k == "b":
        return ("b", rng.random() < 0.5)
    if k == "int":
        return ("i", rng.choice(int_edges(t[1])) if rng.random() < 0.7 else rng.randint(*INTK[t[1]]))
    if k == "f64":
        return ("f", rng.choice(F64_EDGES) if rng.random() < 0.7 else canon_nan(rng.getrandbits(64)))
    if k == "f32":
        return ("f", rng.choice(F32_EDGES) if rng.random() < 0.7 else canon_nan32(rng.getrandbits(32)))
    if k == "s":
        return ("s", rng.choice(TEXTS) if rng.random() < 0.7 else iongen.gen_text(rng))
    if k == "L":
        if t[1] == ("int", "u8"):
            return ("B", rng.choice([None] + BLOBS))
        r = rng.random()
        if r < 0.15:
            return ("L", None)
        n = 0 if r < 0.3 or depth <= 0 else rng.choice([1, 2, 3, 5])
        return ("L", [gen_go(rng, t[1], depth - 1) for _ in range(n)])
    if k == "A":
        return ("A", [gen_go(rng, t[2], depth - 1) for _ in range(t[1])])
    if k == "M":
        r = rng.random()
        if r < 0.15:
            return ("M", None)
        n = 0 if r < 0.3 or depth <= 0 else rng.choice([1, 2, 3, 9])
        keys = set()
        while len(keys) < n:
            keys.add(rng.choice([b"a", b"b", b"ab", b"B", b"", b"zz", "é".encode(), b"k%d" % rng.randint(0, 99)]))
        return ("M", {key: gen_go(rng, t[1], depth - 1) for key in keys})
    if k == "P":
        if rng.random() < 0.25:
            return ("P", None)
        return ("P", gen_go(rng, t[1], depth - 1))
    if k == "I":
        if rng.random() < 0.2:
            return ("I", None)
        dt = rng.choice([("b",), ("int", "i"), ("int", "i64"), ("int", "i8"), ("int", "u64"), ("f64",), ("f32",), ("s",), BYTES,
                         ("L", ("I",)), ("M", ("I",)), ("L", ("int", "i")), ("P", ("int", "i")), ("TS",), ("P", ("DEC",))]
                        if depth > 0 else [("b",), ("int", "i"), ("s",), ("f64",)])
        return ("I", (dt, gen_go(rng, dt, depth - 1)))
    if k == "ST":
        out = []
        for name, ex, emb, tag, ft in t[1]:
            if not ex:
                out.append(zero(ft))     # reflect cannot populate unexported fields
            elif b"annotations" in tag.split(b",")[1:] and ft == ("L", ("SYM",)):
                n = rng.choice([0, 0, 1, 2])
                out.append(("L", None if n == 0 and rng.random() < 0.5 else
                            [("Y", rng.choice([b"a", b"foo", b"an ann", b"name"]), -1) for _ in range(n)]))
            else:
                out.append(gen_go(rng, ft, depth - 1))
        return ("S", out)
    if k == "TS":
        return ("T", some_ts(rng))
    if k == "TIME":
        return ("TM", some_ts(rng))
    if k == "DEC":
        co = rng.choice([0, 1, -1, 15, 123456789, -10 ** 20, rng.randint(-10 ** 6, 10 ** 6)])
        return ("D", co, rng.choice([0, 1, -1, -3, 10, -20]), co == 0 and rng.random() < 0.3)
    if k == "BIG":
        return ("G", rng.choice([0, 1, -1, 5, 2 ** 64, -2 ** 70, 2 ** 63]))
    if k == "SYM":
        return ("Y", rng.choice([b"a", b"foo"]), -1)
    raise ValueError(k)


def canon_nan(b):
    if (b >> 52) & 0x7FF == 0x7FF and b & ((1 << 52) - 1):
        return NAN
    return b


def canon_nan32(b):
    if (b >> 23) & 0xFF == 0xFF and b & ((1 << 23) - 1):
        return 0x7FC00000
    return b


# ---------------------------------------------------------------------------
# documented Marshal mapping in Python: Go value -> Ion value (None where the documentation is silent)
# ---------------------------------------------------------------------------
class NoDoc(Exception):
    pass


def py_marshal(t, g, hint=0):
    k = t[0]
    if k == "b":
        return ([], ("bool", g[1]))
    if k == "int":
        return ([], ("int", g[1]))
    if k == "f64":
        return ([], ("float", g[1]))
    if k == "f32":
        return ([], ("float", f64_bits_of_f32(g[1])))
    if k == "s":
        return ([], ("sym" if hint == TSYM else "str", g[1]))
    if k == "L" and t[1] == ("int", "u8"):
        if g[1] is None:
            return ([], ("null", TNULL))
        return ([], ("clob" if hint == TCLOB else "blob", g[1]))
    if k in ("L", "A"):
        if g[1] is None:
            return ([], ("null", TNULL))
        et = t[1] if k == "L" else t[2]
        return ([], ("sexp" if hint == TSEXP else "list", [py_marshal(et, x, hint) for x in g[1]]))
    if k == "M":
        if g[1] is None:
            return ([], ("null", TNULL))
        return ([], ("struct", [(key, py_marshal(t[1], g[1][key], hint)) for key in sorted(g[1])]))
    if k == "P":
        if g[1] is None:
            return ([], ("null", TNULL))
        return py_marshal(t[1], g[1], hint)
    if k == "I":
        if g[1] is None:
            return ([], ("null", TNULL))
        return py_marshal(g[1][0], g[1][1], hint)
    if k == "TS":
        return ([], ("tsb", g[1]))
    if k == "DEC":
        return ([], ("dec", g[1], g[2], g[3]))
    if k == "BIG":
        return ([], ("int", g[1]))
    if k == "ST":
        try:
            fs = py_fields(t)
        except DupField:
            raise NoDoc()
        anns = [f for f in fs if f[4]]
        if anns:
            a = []
            body = None
            for f in fs:
                sub = sub_value(t, g, f[1])
                if f[4]:
                    if sub is None or f[5] != ("L", ("SYM",)):
                        raise NoDoc()
                    a += [y[1] for y in (sub[1] or [])]
                elif sub is not None:
                    body = py_marshal(f[5], sub, 0)
            if body is None:
                raise NoDoc()
            return (a + body[0], body[1])
        out = []
        for name, path, omit, fh, ann, ft in fs:
            sub = sub_value(t, g, path)
            if sub is None:
                continue
            if omit and is_empty(ft, sub):
                continue
            x = py_marshal(ft, sub, fh)
            if x is None:
                raise NoDoc()
            out.append((name, x))
        return ([], ("struct", out))
    raise NoDoc()


def sub_value(t, g, path):
    """field value at path; None when an embedded pointer on the way is nil"""
    for i in path:
        if t[0] == "P":
            if g[1] is None:
                return None
            t, g = t[1], g[1]
        t, g = t[1][i][4], g[1][i]
    return g


def is_empty(t, g):
    k = g[0]
    if k in ("L", "B", "M"):
        return g[1] is None or len(g[1]) == 0
    if k == "A":
        return len(g[1]) == 0
    if k == "s":
        return len(g[1]) == 0
    if k == "b":
        return not g[1]
    if k == "i":
        return g[1] == 0
    if k == "f":
        return g[1] in (0, 0x80000000 if t[0] == "f32" else 0x8000000000000000)
    if k in ("P", "I"):
        return g[1] is None
    return False


# ---------------------------------------------------------------------------
# boundary Ion values (the C17 matrix rows)
# ---------------------------------------------------------------------------
def ion_rows(rng):
    rows = [([], ("null", c)) for c in range(1, 14)]
    rows += [([], ("bool", True)), ([], ("bool", False))]
    ints = set()
    for bits in (7, 8, 15, 16, 31, 32, 63, 64):
        for d in (-1, 0, 1):
            ints.add(2 ** bits + d)
            ints.add(-(2 ** bits) + d)
    ints |= {0, 1, -1, 42, 2 ** 80 + 1, -(2 ** 71)}
    rows += [([], ("int", z)) for z in sorted(ints)]
    rows += [([], ("float", b)) for b in F64_EDGES]
    rows += [([], ("dec", 15, -1, False)), ([], ("dec", 0, 0, True)), ([], ("dec", -10 ** 20, 5, False))]
    rows += [([], ("tsb", some_ts(rng))) for _ in range(3)]
    rows += [([], ("sym", b"foo")), ([], ("sym", b"")), ([], ("sym", b"$0")), ([], ("sym", ("sid", 0))), ([], ("sym", b"name"))]
    rows += [([], ("str", x)) for x in TEXTS[:5]]
    rows += [([], ("clob", b"")), ([], ("clob", b"abc")), ([], ("blob", b"")), ([], ("blob", b"\x01\x02\x03")), ([], ("blob", bytes(range(20))))]
    i = lambda z: ([], ("int", z))
    st = lambda x: ([], ("str", x))
    for k in ("list", "sexp"):
        rows += [([], (k, [])), ([], (k, [i(1), i(2), i(3)])), ([], (k, [i(1), st(b"a")])), ([], (k, [i(300)])),
                 ([], (k, [([], ("null", TNULL)), i(5)])), ([], (k, [i(n) for n in range(6)])),
                 ([], (k, [([], ("list", [i(1)])), ([], ("list", [i(2), i(3)]))])), ([], (k, [st(b"x"), st(b"y"), st(b"z"), st(b"w")]))]
    rows += [([], ("struct", [])), ([], ("struct", [(b"a", i(1))])), ([], ("struct", [(b"A", i(1)), (b"b", st(b"x"))])),
             ([], ("struct", [(b"a", i(1)), (b"a", i(2))])), ([], ("struct", [(("sid", 0), i(1)), (b"b", i(3))])),
             ([], ("struct", [(b"x", ([], ("struct", [(b"y", i(1))])))])), ([], ("struct", [(b"a", i(300)), (b"b", i(-1))])),
             ([], ("struct", [(b"V", i(7)), (b"A", ([], ("list", [])))]))]
    ann = [([b"a"], ("int", 5)), ([b"a", b"b"], ("str", b"x")), ([b"a"], ("null", TNULL)), ([b"a"], ("null", TINT)),
           ([b"a"], ("list", [i(1)])), ([b"a"], ("struct", [(b"x", i(1))])), ([("sid", 0)], ("int", 5)), ([b"a"], ("bool", True)),
           ([b"a"], ("float", 0x3FF0000000000000)), ([b"a"], ("sym", b"s")), ([b"a"], ("blob", b"\x01")), ([b"a"], ("dec", 1, 0, False)),
           ([b"q"], ("tsb", some_ts(rng))), ([b"a"], ("int", 2 ** 70))]
    return rows + ann
