"""C02 — the text reader decodes every valid spelling of a value to exactly that value."""
import copy
import random
import re

from vlib import *
import iongen
import binlib
import textgen

THEOREMS = [
    "c02_skip_whitespace",
    "c02_skip_lob_whitespace",
    "c02_skip_whitespace_eof_comment",
    "c02_read_number",
    "c02_read_radix",
    "c02_parse_int_dec",
    "c02_parse_int_hex",
    "c02_parse_int_bin",
    "c02_parse_decimal",
    "c02_parse_decimal_out_of_range",
    "c02_float_text",
    "c02_escape",
    "c02_escape_spec",
    "c02_read_string",
    "c02_read_long_string",
    "c02_read_symbol",
    "c02_read_quoted_symbol",
    "c02_read_operator",
    "c02_symbol_sid",
    "c02_symbol_sid_out_of_range",
    "c02_symbol_text",
    "c02_read_blob",
    "c02_blob_spec",
    "c02_read_clob",
    "c02_read_long_clob",
    "c02_timestamp",
    "c02_traverse_scalar_stream_partial",
    "c02_next_value",
    "c02_traverse_stream_partial",
    "c02b_traverse_stream_partial",
    "c02b_includes_c02",
    "c02b_includes_c02_trees",
    "c02b_traverse_tree",
    "c02b_next_value",
    "c02b_read_operator_before_comment",
    "c02b_next_eof_comment",
    "c02b_version_marker",
    "c02b_traverse_stream_ex",
    "c02c_traverse_stream_partial",
    "c02c_includes_c02b",
    "c02c_table_step",
    "c02c_install_spec",
    "c02c_read_symbols",
    "c02c_read_fields",
    "c02c_next_inner",
    "c02c_version_marker_eof_comment",
    "c02c_traverse_stream_ex",
    "c02c_contexts_ex",
    "c02_traverse_tree",
]
EXTRA_MODULES = ["C02b", "C02c"]
LEVEL = "other"
EXPLANATION = ("Value forests (lib/iongen.py, plus symbols without text) are rendered by an independent, spec-derived "
               "printer (lib/textgen.py) that picks a random legal spelling at every token: whitespace and both comment "
               "forms between any two tokens, radix/underscore integers, e/E/d/D exponent forms with moved decimal "
               "points, short and concatenated long strings with every escape and line continuations, quoted / unquoted "
               "/ operator / $n symbols, base64 with inner whitespace, short and long clobs, equivalent timestamp "
               "spellings, trailing commas, version markers.  (a) self-check: the extracted specification decoder "
               "Text/SpecText.tdecode (written from the Ion text grammar, no code shared with ion-go) must map every "
               "rendering back to exactly the forest; (b) oracle on the real code: the plain full traversal of "
               "ion.NewReader over the rendered text must give exactly the forest's trace.  A failing rendering is "
               "re-rendered with the same random choices except the trigger spelling of one known class, which "
               "attributes it to that class exactly when nothing else is wrong with it.")
ASSUMPTIONS = ["the real Reader is exercised only on the renderings sampled",
               "the printer avoids the corners on which the grammar sources disagree (see lib/textgen.py docstring)"]

CLASS = {
    "vtff": "text-vt-ff-not-whitespace",
    "cmt": "text-block-comment-opening-star-closes",
    "d14": "text-string-field-name-$n-taken-as-sid",
    "d15": "text-version-marker-surfaces-as-symbol",
    "d31": "text-surrogate-pair-escape-read-as-replacement-chars",
    "dot": "text-sexp-dot-operator-read-as-empty-symbol",
}
_classified = {}      # request line -> class id (filled by run)


# ---------------------------------------------------------------------------
# helpers shared with c07text / c04 / c12
# ---------------------------------------------------------------------------
def tdecode_many(texts):
    """the specification decoder on many byte strings: canonical observation text, or None = outside the grammar"""
    outs = run_model(["tdecode x" + bytes(t).hex() for t in texts])
    res = []
    for o in outs:
        if o.startswith("ok"):
            res.append(iongen.canon_spec_obs(o[3:]))
        elif o == "invalid":
            res.append(None)
        else:
            res.append("?" + o)
    return res


def check_text_output(ctx, component, items):
    """C04/C12 (text): items = (line, expected_obs_text, output_bytes_hex).  The independent decoder must accept the
    bytes and recover exactly the expected values.  Returns the decoded observation per item (None = rejected)."""
    items = list(items)
    dec = tdecode_many([bytes.fromhex(h[1:] if h.startswith("x") else h) for _, _, h in items])
    n_ok = 0
    for (ln, exp, h), d in zip(items, dec):
        if oracle_silent(ctx, component, ln, d):
            continue
        if d is None:
            ctx.fail("property", component, ln, "text output is outside the Ion text grammar (independent decoder): %s" % h[:240])
        elif d != exp:
            ctx.fail("property", component, ln, "independent text decoder recovers '%s' but '%s' was written; bytes %s" % (d[:240], exp[:240], h[:240]))
        else:
            n_ok += 1
    ctx.count(component, len(items), [], agree=n_ok)
    return dec


def _sym_obs(t):
    if t.startswith("k"):
        return "t" + t[1:].split(".")[0]
    if t.startswith("u."):
        return "i" + t[2:]
    return "?" + t


def obs_of_trace(trace):
    """the values a `btrav` trace reports, in the observation syntax of show_values; returns (obs, clean_end)
    clean_end: the traversal was well-formed and ended with F e0 F e0 F e0"""
    toks = iongen.project_trace(trace).split(" ")
    out = []
    i = 0
    depth = []
    try:
        while True:
            t = toks[i]
            if t == "T":
                fn, an, ty, nu = toks[i + 1:i + 5]
                i += 5
                if depth and depth[-1] == 13:
                    out.append("f" + _sym_obs(fn))
                for a in [p for p in an[2:-1].split(";") if p]:
                    out.append("a" + _sym_obs(a))
                ty = int(ty[1:])
                if nu == "n1":
                    out.append("n%d" % ty)
                elif ty in (11, 12, 13):
                    if toks[i] != "ok":
                        return " ".join(out), False
                    i += 1
                    out.append({11: "[", 12: "(", 13: "{"}[ty])
                    depth.append(ty)
                else:
                    v = toks[i]
                    i += 1
                    if ty == 7:
                        out.append("Y" + _sym_obs(v))
                    elif ty == 9:
                        out.append("C" + v[1:])
                    else:
                        out.append(v)
            elif t == "F":
                if depth:
                    if toks[i + 1] != "ok":
                        return " ".join(out), False
                    out.append({11: "]", 12: ")", 13: "}"}[depth.pop()])
                    i += 2
                else:
                    return " ".join(out), toks[i:] == ["F", "e0", "F", "e0", "F", "e0"]
            else:
                return " ".join(out), False
    except (IndexError, ValueError):
        return " ".join(out), False


_PH = b"\x00sid"


def _ph(forest):
    """replace symbols without text by placeholder texts so that iongen.expected_trace can print them"""
    def sym(t):
        return _PH + b"%d" % t[1] if isinstance(t, tuple) else t

    def val(v):
        a, b = v
        a = [sym(x) for x in a]
        if b[0] == "sym":
            b = ("sym", sym(b[1]))
        elif b[0] in ("list", "sexp"):
            b = (b[0], [val(x) for x in b[1]])
        elif b[0] == "struct":
            b = ("struct", [(sym(n), val(x)) for n, x in b[1]])
        return (a, b)
    return [val(v) for v in forest]


def expected_trace(forest):
    t = iongen.expected_trace(_ph(forest))
    return re.sub("k" + _PH.hex() + "((?:3[0-9])+)", lambda m: "u." + bytes.fromhex(m.group(1)).decode(), t)


# ---------------------------------------------------------------------------
# generation
# ---------------------------------------------------------------------------
def inject_sid0(forest, rng, p=0.15):
    """some symbols / annotations / field names become the symbol without text, $0"""
    def sym(t):
        return ("sid", 0) if rng.random() < p else t

    def val(v):
        a, b = v
        a = [sym(x) for x in a]
        if b[0] == "sym":
            b = ("sym", sym(b[1]))
        elif b[0] in ("list", "sexp"):
            b = (b[0], [val(x) for x in b[1]])
        elif b[0] == "struct":
            b = ("struct", [(sym(n), val(x)) for n, x in b[1]])
        return (a, b)
    return [val(v) for v in forest]


def fixed_forests():
    fs = []
    for z in iongen.INT_EDGES:
        fs.append([([], ("int", z))])
    for b in iongen.FLOAT_EDGES:
        fs.append([([], ("float", b))])
    for t in iongen.TEXT_EDGES:
        fs.append([([t], ("sym", t))])
        fs.append([([], ("struct", [(t, ([t], ("bool", True)))]))])
        fs.append([([], ("str", t)), ([], ("sexp", [([], ("sym", t)), ([], ("str", t)), ([], ("str", t))]))])
    for ty in range(1, 14):
        fs.append([([b"a"], ("null", ty)), ([], ("struct", [(b"f", ([], ("null", ty)))]))])
    for op in [b"+", b"-", b"/", b"*", b"//", b"/*", b".", b"..", b"<=>", b"!#%&*+-./;<=>?@^`|~", b"-1", b"+inf", b"-inf"]:
        fs.append([([], ("sexp", [([], ("sym", op)), ([], ("int", 1)), ([], ("sym", op)), ([], ("sym", b"a")), ([op], ("sym", op))]))])
    for n in [0, 1, 2, 3, 4, 5, 6, 7, 57, 58, 59]:
        fs.append([([], ("blob", bytes(range(n)))), ([], ("clob", bytes(range(n)))), ([], ("clob", bytes(range(256 - n, 256))))])
    fs.append([([], ("str", bytes(range(0, 128)))), ([], ("sym", bytes(range(0, 128)))), ([], ("clob", bytes(range(256))))])
    fs.append([([], ("str", "".join(chr(c) for c in [0x7F, 0x80, 0x7FF, 0x800, 0xFFFF, 0x10000, 0x10FFFF, 0xD7FF, 0xE000, 0xFFFD]).encode()))])
    fs.append([([], ("sym", b"$ion_1_0")), ([b"a"], ("sym", b"$ion_1_0")), ([], ("list", [([], ("sym", b"$ion_1_0"))]))])
    fs.append([([b"$ion_symbol_table"], ("int", 1)), ([b"a", b"$ion_symbol_table"], ("struct", [])),
               ([], ("list", [([b"$ion_symbol_table"], ("struct", [(b"symbols", ([], ("list", [([], ("str", b"zz"))])))]))]))])
    v = ([], ("int", 7))
    for i in range(40):
        v = ([b"n"], ([("list",), ("sexp",), ("struct",)][i % 3][0], [v] if i % 3 != 2 else [(b"k", v)]))
    fs.append([v])
    return fs


def make_cases(ctx, n):
    rng = ctx.rng
    cases = []
    fixed = fixed_forests()
    reps = ctx.scale(2, 6)
    for f in fixed:
        for _ in range(reps):
            cases.append({"forest": f, "seed": rng.getrandbits(64), "opts": {"ivm": 0.0, "vtff": 0.15, "sid_spelling": False}})
        cases.append({"forest": f, "seed": rng.getrandbits(64), "opts": {"freedom": False}})
    while len(cases) < n:
        f = iongen.gen_forest(rng, {"depth": rng.choice([1, 2, 3])})
        if rng.random() < 0.2:
            f = inject_sid0(f, rng)
        opts = {"ivm": 0.05 if rng.random() < 0.3 else 0.0, "vtff": 0.15, "sid_spelling": rng.random() < 0.15}
        cases.append({"forest": f, "seed": rng.getrandbits(64), "opts": opts})
    return cases


def render_case(c, repairs=(), features=None):
    return textgen.render(c["forest"], random.Random(c["seed"]), repairs=repairs, features=features, **c["opts"])


# ---------------------------------------------------------------------------
# the check
# ---------------------------------------------------------------------------
def go_ok(go_out, exp):
    return iongen.project_trace(go_out) == exp


def describe(go_out, exp):
    et, pt = exp.split(" "), iongen.project_trace(go_out).split(" ")
    i = 0
    while i < min(len(et), len(pt)) and et[i] == pt[i]:
        i += 1
    return "trace differs at token %d: expected '%s' but the Reader gave '%s'" % (
        i, " ".join(et[max(0, i - 2):i + 4])[:200], " ".join(pt[max(0, i - 2):i + 4])[:200])


def attribute(failing):
    """failing: list of (case, exp).  Re-render with the trigger spelling of each known class replaced and see which
    replacements are necessary and jointly sufficient for the Reader to be right.  Returns one class id (or None) each."""
    R = list(textgen.REPAIRS)
    texts = []
    index = []
    for ci, (c, exp) in enumerate(failing):
        full = render_case(c, R)
        texts.append(full)
        index.append((ci, None))
        for r in R:
            t = render_case(c, [x for x in R if x != r])
            if t != full:
                texts.append(t)
                index.append((ci, r))
    go = run_go(["btrav 0 x" + t.hex() for t in texts])
    ok_full = {}
    needed = {}
    for (ci, r), g in zip(index, go):
        good = go_ok(g, failing[ci][1])
        if r is None:
            ok_full[ci] = good
        elif not good:
            needed.setdefault(ci, []).append(r)
    res = []
    for ci in range(len(failing)):
        if not ok_full.get(ci) or not needed.get(ci):
            res.append((None, []))
        else:
            res.append((CLASS[needed[ci][0]], needed[ci]))
    return res, len(texts)


def run(ctx):
    n = ctx.scale(4000, 60000)
    cases = make_cases(ctx, n)
    feats = {}
    for c in cases:
        fs = set()
        c["text"] = render_case(c, features=fs)
        for x in fs:
            feats[x] = feats.get(x, 0) + 1
        c["show"] = iongen.show_forest(c["forest"])
    # (a) the specification against the printer
    dec = tdecode_many([c["text"] for c in cases])
    disagree = []
    for c, d in zip(cases, dec):
        c["spec_ok"] = d == c["show"]
        if not c["spec_ok"]:
            disagree.append(c)
    ctx.count("spec-selfcheck", len(cases), [c["text"].hex() for c in cases if c["spec_ok"]],
              sample={"text": cases[len(cases) // 2]["text"][:200].decode("utf-8", "replace"), "decoded": dec[len(cases) // 2][:200] if dec[len(cases) // 2] else None},
              disagreements=len(disagree), spellings=feats)
    if disagree:
        ctx.notes.append("spec/printer self-check: %d renderings were not decoded back to their forest by SpecText.tdecode (a bug of "
                         "the specification or of the printer, not of ion-go); they are excluded from the oracle. First: %r" %
                         (len(disagree), disagree[0]["text"][:300]))
    # (b) the real Reader
    good = [c for c in cases if c["spec_ok"]]
    lines = ["btrav 0 x" + c["text"].hex() for c in good]
    go = run_go(lines)
    failing = []
    for c, ln, g in zip(good, lines, go):
        exp = expected_trace(c["forest"])
        if not go_ok(g, exp):
            failing.append((c, exp, ln, g))
    attr, nvar = attribute([(c, exp) for c, exp, _, _ in failing]) if failing else ([], 0)
    hist = {}
    for (c, exp, ln, g), (k, needed) in zip(failing, attr):
        hist[k or "unclassified"] = hist.get(k or "unclassified", 0) + 1
        _classified[ln] = k
        ctx.fail("property", "C02-text-reader", ln,
                 "%s ; text %r%s" % (describe(g, exp), c["text"][:300], (" ; attributed to " + "+".join(needed)) if needed else ""), k)
    ctx.count("C02-text-reader", len(lines), [ln for ln in lines], sample=lines[len(lines) // 3][:300],
              failures=len(failing), failure_classes=hist, attribution_reruns=nvar)


    buffer_boundary_cases(ctx)


def buffer_boundary_cases(ctx):
    """spellings in which a newline is significant (CR LF inside long strings and long clobs, escaped line continuations,
    a // comment ended by CR LF), a multi-byte UTF-8 character, an escape, a long-string delimiter and a :: operator,
    padded so that they straddle every offset around the Reader's 4096-byte buffer fills (and the second fill)"""
    q3 = b"'" * 3
    cores = [
        (q3 + b"ab\r\ncd" + q3, [([], ("str", b"ab\ncd"))]),
        (q3 + b"ab\rcd" + q3 + b" " + q3 + b"x\r\n" + q3, [([], ("str", b"ab\ncdx\n"))]),
        (b'"ab\\\r\ncd"', [([], ("str", b"abcd"))]),
        (q3 + b"ab\\\r\ncd" + q3, [([], ("str", b"abcd"))]),
        (b"{{" + q3 + b"a\r\nb" + q3 + b"}}", [([], ("clob", b"a\nb"))]),
        (b"1 // c\r\n 2", [([], ("int", 1)), ([], ("int", 2))]),
        (q3 + "é\U0001F600".encode("utf-8") + q3, [([], ("str", "é\U0001F600".encode("utf-8")))]),
        (b'"a\\u00e9b"', [([], ("str", "aéb".encode("utf-8")))]),
        (b"abc::" + q3 + b"x" + q3 + b" " + q3 + b"y" + q3, [([b"abc"], ("str", b"xy"))]),
        (b"{{ aGVsbG8= }}", [([], ("blob", b"hello"))]),
        (b"2001-02-03T04:05:06.789+01:30", [([], ("ts", (2001, 2, 3, 4, 5, 6, 789000000, 90, 2, 6, 3)))]),
    ]
    lines, exps, texts = [], [], []
    for core, forest in cores:
        for base in (4096, 8192):
            for shift in range(-len(core) - 2, 3):
                pad = base + shift
                if pad < 0:
                    continue
                text = b" " * pad + core + b" 7"
                lines.append("btrav 0 x" + text.hex())
                exps.append(expected_trace(forest + [([], ("int", 7))]))
                texts.append(text)
    go = run_go(lines)
    bad = 0
    for ln, e, g, tx in zip(lines, exps, go, texts):
        if not go_ok(g, e):
            bad += 1
            ctx.fail("property", "C02-buffer-boundary", ln[:3000],
                     "%s ; the spelling %r starts at offset %d" % (describe(g, e), tx.lstrip()[:60], len(tx) - len(tx.lstrip())), None)
    ctx.count("C02-buffer-boundary", len(lines), [l[-80:] + str(len(l)) for l in lines], failures=bad,
              sample="%d spaces then %r" % (len(texts[0]) - len(texts[0].lstrip()), texts[0].lstrip()[:40]) if texts else None)


# ---------------------------------------------------------------------------
# replay / classification without the forest
# ---------------------------------------------------------------------------
def classify_text(text):
    if b"\x0b" in text or b"\x0c" in text:
        return CLASS["vtff"]
    if b"/*/" in text:
        return CLASS["cmt"]
    if re.search(rb"\\u[dD][89abAB][0-9a-fA-F]{2}\\u[dD][c-fC-F]", text):
        return CLASS["d31"]
    if re.search(rb"[\"'](\$|\\x24|\\u0024|\\U00000024)[0-9\\]", text):
        return CLASS["d14"]
    if b"$ion_1_0" in text:
        return CLASS["d15"]
    if re.search(rb"(^|[^!#%&*+\-./;<=>?@^`|~])\.[^ A-Za-z0-9_$!#%&*+\-./;<=>?@^`|~]", text):
        return CLASS["dot"]
    return None


def classify_case(line, model_out, go_out):
    if line in _classified:
        return _classified[line]
    try:
        return classify_text(bytes.fromhex(line.split(" ")[2][1:]))
    except Exception:
        return None


def oracle_line(line, go_out, spec_obs):
    """forest-free judgement: the Reader must report exactly the values the specification decoder reads"""
    if spec_obs is None:
        return None
    obs, clean = obs_of_trace(go_out)
    if not clean or obs != spec_obs:
        return "the Ion text denotes '%s' (specification decoder) but the Reader reports '%s'%s" % (
            spec_obs[:200], obs[:200], "" if clean else " and does not end cleanly")
    return None


def replay(ctx, rp):
    ln = rp["case"]
    text = bytes.fromhex(ln.split(" ")[2][1:])
    spec = tdecode_many([text])[0]
    go = run_go([ln])[0]
    print("replay case: %r\n  specification: %s\n  real: %s" % (text[:400], spec, go))
    why = oracle_line(ln, go, spec)
    if why:
        ctx.fail("property", "C02-text-reader", ln, why, classify_case(ln, None, go))
    ctx.count("C02-text-reader", 1, [ln])
