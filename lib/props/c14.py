"""C14 — decimal arithmetic is exact and decimal text round-trips with precision."""
import re
from vlib import *

THEOREMS = [
    "C14_add_exact", "C14_sub_exact", "C14_mul_exact", "C14_mul_panics_iff", "C14_mul_total", "C14_neg_exact",
    "C14_abs_exact", "C14_shiftl_exact", "C14_shiftr_exact", "C14_shiftl_panics_iff", "C14_shiftr_panics_iff",
    "C14_cmp_exact", "C14_equal_exact", "C14_sign_exact", "C14_ndigits_spec", "C14_truncate_nonpos",
    "C14_truncate_spec", "C14_truncate_value", "C14_quot_is_cut", "C14_quot_digits", "C14_zstr_roundtrip",
    "C14_new_decimal_wf", "C14_parse_wf", "C14_add_wf", "C14_sub_wf", "C14_mul_wf", "C14_neg_wf", "C14_abs_wf",
    "C14_shiftl_wf", "C14_shiftr_wf", "C14_truncate_wf", "C14_text_roundtrip", "C14_text_roundtrip_wf",
    "C14_format_is_literal", "C14_exponent_view_refuted", "C14_exponent_view_except_known", "C14_coex_new_decimal",
    "C14_mul_coex_refuted", "C14_mul_coex_except_known", "C14_parse_exponent_exact", "C14_parse_exponent_exact_nofrac",
    "C14_parse_exponent_over64", "C14_parsed_exponent", "C14_parse_exponent_rejected", "C14_parse_exponent_value_range",
]

MIN32, MAX32 = -(1 << 31), (1 << 31) - 1
MAX64 = (1 << 63) - 1


# ---- independent arithmetic on (coefficient, exponent) pairs, exact for any exponent ------------
def ndig(n):
    return len(str(abs(n)))


def cmp_val(n1, e1, n2, e2):
    """sign of n1*10^e1 - n2*10^e2 without ever building 10^huge"""
    s1 = (n1 > 0) - (n1 < 0)
    s2 = (n2 > 0) - (n2 < 0)
    if s1 != s2:
        return (s1 > s2) - (s1 < s2)
    if s1 == 0:
        return 0
    a1, a2 = e1 + ndig(n1), e2 + ndig(n2)      # 10^(a-1) <= |v| < 10^a
    if a1 != a2:
        return s1 if a1 > a2 else -s1
    m = min(e1, e2)                            # |e1-e2| = |ndig2-ndig1| : small
    x, y = n1 * 10 ** (e1 - m), n2 * 10 ** (e2 - m)
    return (x > y) - (x < y)


def add_val(n1, e1, n2, e2, sgn=1):
    m = min(e1, e2)
    return n1 * 10 ** (e1 - m) + sgn * n2 * 10 ** (e2 - m), m


ION_DEC = re.compile(rb"(-?)(0|[1-9](?:_?[0-9])*)(?:(\.)((?:[0-9](?:_?[0-9])*)?))?(?:[dD]([+-]?[0-9]+))?")


def ion_parse(text):
    """independent reading of an Ion decimal literal -> (coefficient, exponent, negzero) or None"""
    m = ION_DEC.fullmatch(text)
    if not m or (m.group(3) is None and m.group(5) is None):
        return None
    frac = (m.group(4) or b"").replace(b"_", b"")
    digits = m.group(2).replace(b"_", b"") + frac
    n = int(digits)
    e = int(m.group(5) or b"0") - len(frac)
    if m.group(1):
        n = -n
    return n, e, 1 if (m.group(1) and n == 0) else 0


def hexs(b):
    return "x" + bytes(b).hex()


def parse_out(go):
    g = go.split(" ")
    if g[0] != "ok":
        return None
    return [int(x) for x in g[1:]]


def expect_value(go, n, e, what, allow_panic=False):
    """Go must answer with a decimal equal to n*10^e (e representable as int32), flag clear"""
    if go == "panic":
        return None if allow_panic else "panics although the exact %s %dd%d is representable" % (what, n, e)
    r = parse_out(go)
    if r is None:
        return "unexpected answer %s" % go
    if allow_panic:
        return "returns %s although the exact exponent %d is outside int32 (silent wrap)" % (go, e)
    if cmp_val(r[0], r[1], n, e) != 0:
        return "%s is %sd%d, exact result is %sd%d" % (what, short(r[0]), r[1], short(n), e)
    if r[2] != 0:
        return "result carries the negative-zero flag"
    return None


def short(n):
    s = str(n)
    return s if len(s) < 40 else s[:12] + "..(%d digits).." % len(s) + s[-6:]


def oracle(line, go):
    t = line.split(" ")
    cmd = t[0]
    if go in ("fatal", "timeout", "badinput") or go.startswith("fatal"):
        return "real code: %s" % go
    try:
        if cmd in ("dec_truncint", "dec_upscale", "dec_coex"):
            return None                                   # internals: correspondence only
        if cmd == "dec_parse":
            text = bytes.fromhex(t[1][1:])
            want = ion_parse(text)
            got = parse_out(go)
            if go == "panic":
                return "ParseDecimal panics"
            if want is None:
                return None          # leniency on non-Ion text is not a silent change
            if got is None:
                # the only range condition is on the exponent of the VALUE (written exponent minus the number of
                # fraction digits); the written exponent itself only has to be readable as an int64.  (Underscores
                # are removed by the tokenizer before ParseDecimal sees the text.)
                m = ION_DEC.fullmatch(text)
                written = int(m.group(5) or b"0")
                if MIN32 <= want[1] <= MAX32 and -MAX64 - 1 <= written <= MAX64 and b"_" not in text:
                    return "valid literal denoting %sd%d (exponent fits int32) is refused" % (short(want[0]), want[1])
                return None
            if not (MIN32 <= want[1] <= MAX32):
                return "text denotes exponent %d (outside int32) but parses to %s" % (want[1], go)
            if got != list(want):
                return "text denotes %s, parsed %s" % (want, got)
            return None
        n1, e1, z1 = int(t[1]), int(t[2]), int(t[3])
        if n1 != 0:
            z1 = 0          # NewDecimal ignores the negative-zero flag on a non-zero coefficient
        if cmd in ("dec_add", "dec_sub"):
            n2, e2 = int(t[4]), int(t[5])
            n, e = add_val(n1, e1, n2, e2, 1 if cmd == "dec_add" else -1)
            return expect_value(go, n, e, "sum" if cmd == "dec_add" else "difference")
        if cmd == "dec_mul":
            n2, e2 = int(t[4]), int(t[5])
            e = e1 + e2
            return expect_value(go, n1 * n2, e, "product", allow_panic=not (MIN32 <= e <= MAX32))
        if cmd in ("dec_cmp", "dec_equal"):
            n2, e2 = int(t[4]), int(t[5])
            c = cmp_val(n1, e1, n2, e2)
            exp = "ok %d" % (c if cmd == "dec_cmp" else (1 if c == 0 else 0))
            return None if go == exp else "exact comparison gives '%s'" % exp
        if cmd == "dec_neg":
            return expect_value(go, -n1, e1, "negation")
        if cmd == "dec_abs":
            return expect_value(go, abs(n1), e1, "absolute value")
        if cmd == "dec_sign":
            exp = "ok %d" % ((n1 > 0) - (n1 < 0))
            return None if go == exp else "sign of the value gives '%s'" % exp
        if cmd in ("dec_shl", "dec_shr"):
            k = int(t[4])
            e = e1 + (k if cmd == "dec_shl" else -k)
            return expect_value(go, n1, e, "shifted value", allow_panic=not (MIN32 <= e <= MAX32))
        if cmd == "dec_trunc":
            p = int(t[4])
            if p <= 0:
                return None if go == "panic" else "precision %d accepted" % p
            L = ndig(n1)
            if L <= p:
                exp = "ok %d %d %d" % (n1, e1, z1)
                return None if go == exp else "nothing to cut, expected the operand back (%s)" % exp
            cut = 10 ** (L - p)
            q = abs(n1) // cut * (1 if n1 > 0 else -1)
            e = e1 + (L - p)
            return expect_value(go, q, e, "truncation", allow_panic=e > MAX32)
        if cmd == "dec_format":
            if not go.startswith("ok x"):
                return "String() answer %s" % go
            text = bytes.fromhex(go[4:])
            back = ion_parse(text)
            if back is None:
                return "String() gives %r, not an Ion decimal literal" % text
            if list(back) != [n1, e1, z1]:
                return "String() gives %r which denotes %s" % (text, back)
            return None
    except Exception as ex:  # malformed request: not a property matter
        return None
    return None


def classify_case(line, m, g):
    """known-finding classes for C14 (narrow, by input shape)"""
    t = line.split(" ")
    cmd = t[0]
    try:
        if cmd == "dec_parse":
            return None
        n1, e1, z1 = int(t[1]), int(t[2]), int(t[3])
        exps = [e1]
        exact = None
        if cmd in ("dec_mul",):
            exps.append(int(t[5]))
            exact = e1 + int(t[5])
        elif cmd == "dec_shl":
            exact = e1 + int(t[4])
        elif cmd == "dec_shr":
            exact = e1 - int(t[4])
        elif cmd == "dec_trunc":
            exact = e1 + max(0, ndig(n1) - int(t[4]))
        if MIN32 in exps or exact in (1 << 31, MIN32):
            return "scale-minint32-is-exponent-2^31"
    except Exception:
        return None
    return None


# ---- generators --------------------------------------------------------------------------------
CATALOGUE = [
    "1.", "1.0", "-0.", "0d0", "-0d-1", "1d+5", "1D5", "+1.", "1._0", "1d", ".5", "1.5d3", "00.1", "1e5", "",
    "0.", "-0.0", "-0.00", "0.000", "-0d5", "-0D-5", "0d-0", "0d+0", "1d-0", "1d007", "1d+007", "1d-007",
    "-1.", "-1.5", "-1.5d-3", "12345.6789", "-12345.6789d10", "1.d5", "1.D5", "1.d-5", "0.5", "-0.5", "-.5", "-.5d1",
    ".", "-.", "-", "+", "d", "D", "d5", ".d5", "-d5", "1d", "1d+", "1d-", "1dd5", "1d5d6", "1d5.", "1.5.6", "1..",
    "1_000.", "1_000d0", "1.000_1", "1__0.", "_1.", "1_.", "1._", "1d1_0", "1d_1",
    "01.", "-01.", "007d1", "0x10.", "0b1.", "1 .", " 1.", "1. ", "1.\n", "１.", "1,5", "1.5e3", "1.5E3", "1.5f3",
    "+0.", "+0d0", "++1.", "+-1.", "-+1.", "--1.", "1.-5", "1.+5", ".-0", ".+0", ".-5", "-.-5", "1d--5", "1d+-5",
    "1d2147483647", "1d2147483648", "1d-2147483648", "1d-2147483649", "1d99999999999999999999", "1d-99999999999999999999",
    "1.0d-2147483648", "0.1d-2147483648", "1.00d-2147483647", "0.1d-2147483647", "-0.0d-2147483648", "1.5d2147483647",
    "1.0d2147483648", "10d2147483647", "0d2147483647", "-0d2147483647", "-0d-2147483648", "0.0d-2147483648",
    # the range condition is on the exponent of the value, not on the written one
    "0.5d2147483648", "0.5d2147483649", "0.50d2147483649", "0.50d2147483650", "-0.0d2147483648", "0.d2147483648",
    "1.d2147483647", "0.5D+2147483648", "0.5d+2147483649", "12.345d2147483650", "12.345d2147483651", "1d+2147483648",
    "1.5d-2147483647", "1.5d-2147483648", "1d-2147483648", "1.d-2147483648", "1.d-2147483649", "0d-2147483649",
    "0.5d9223372036854775807", "0.5d9223372036854775808", "0.5d-9223372036854775808", "0.5d-9223372036854775809",
    "1d9223372036854775807", "1d9223372036854775808", "1d-9223372036854775808", "1d-9223372036854775809",
    "0.5d4294967296", "0.5d4294967297", "0.5d-4294967295", "1d4294967296", "0.0000000000d2147483657", "0.0000000000d2147483658",
    "NaN", "nan", "inf", "+inf", "null.decimal", "1d0x5", "1d5 ", "1d 5", "1.5d", "1.5D", "1.5d+", "0d", "-0d",
]


def coeffs_small():
    return list(range(-1100, 1101))


def pow10_edges():
    out = set()
    for k in list(range(0, 40)) + [63, 64, 100, 299]:
        for d in (-1, 0, 1):
            v = 10 ** k + d
            out.add(v)
            out.add(-v)
    for k in (31, 32, 63, 64, 127):
        for d in (-1, 0, 1):
            out.add((1 << k) + d)
            out.add(-((1 << k) + d))
    return sorted(out)


def rand_big(rng, maxdig):
    d = rng.randint(1, maxdig)
    v = rng.randrange(10 ** (d - 1), 10 ** d)
    if rng.random() < 0.15:   # trailing zeros / nines: interesting for truncation and layout
        z = rng.randint(1, d)
        v = v // 10 ** z * 10 ** z + rng.choice([0, 10 ** z - 1])
    return -v if rng.random() < 0.5 else v


EXP_GRID = list(range(-25, 26))
EXP_EDGE = [MAX32, MAX32 - 1, MAX32 - 2, MIN32, MIN32 + 1, MIN32 + 2, MIN32 + 3]


def D(n, e, z=0):
    return "%d %d %d" % (n, e, z)


def close_enough(e1, e2):
    """Add/Sub/Cmp build 10^|e1-e2| (and the scale negation wraps at MIN32): keep the power small"""
    if (e1 == MIN32) != (e2 == MIN32):
        return False
    return abs(e1 - e2) <= 400


def gen(ctx):
    rng = ctx.rng
    small = coeffs_small()
    edges = pow10_edges()
    bigs = [rand_big(rng, 300) for _ in range(ctx.scale(150, 3000))] + [rand_big(rng, 40) for _ in range(ctx.scale(400, 8000))]
    un, binl, shifts, truncs, fmt = [], [], [], [], []

    # ---- unary: every small coefficient on a few exponents, every exponent on a few coefficients
    decs = []
    for n in small:
        es = EXP_GRID if ctx.thorough() else rng.sample(EXP_GRID, 2) + [0]
        if abs(n) <= 12 or abs(n) in (99, 100, 101, 999, 1000, 1001, 1100):
            es = EXP_GRID
        for e in es:
            decs.append((n, e, 0))
    for n in edges + bigs:
        for e in rng.sample(EXP_GRID, 2) + [rng.choice(EXP_EDGE)]:
            decs.append((n, e, 0))
    for n in (-1100, -10, -1, 0, 1, 7, 10, 99, 1100) + tuple(rng.sample(edges, 6)):
        for e in EXP_EDGE:
            decs.append((n, e, 0))
    for e in EXP_GRID + EXP_EDGE:
        decs.append((0, e, 1))                              # negative zero
    # flag set on a non-zero coefficient: NewDecimal must ignore it
    illformed = [(5, 0, 1), (-5, 0, 1), (5, 3, 1), (12345, -2, 1), (-12345, -7, 1), (1, MIN32, 1)]
    decs += illformed
    for (n, e, z) in decs:
        d = D(n, e, z)
        fmt.append("dec_format " + d)
        un += ["dec_neg " + d, "dec_abs " + d, "dec_sign " + d]
    un = un if ctx.thorough() else rng.sample(un, min(len(un), 9000))

    # ---- shifts and truncation
    KS = list(range(-30, 31)) + [MAX32, MIN32, MAX32 + 1, MIN32 - 1, 1 << 32, -(1 << 32), MAX64, -MAX64 - 1, MAX64 - 1, -MAX64]
    for (n, e, z) in rng.sample(decs, min(len(decs), ctx.scale(1500, 30000))):
        for k in rng.sample(KS, 3):
            shifts.append("dec_shl %s %d" % (D(n, e, z), k))
            shifts.append("dec_shr %s %d" % (D(n, e, z), k))
        # shifts that land on / next to the int32 edges of the scale
        for tgt in (MAX32, MAX32 + 1, MIN32, MIN32 - 1, MIN32 + 1):
            if rng.random() < 0.3:
                shifts.append("dec_shl %s %d" % (D(n, e, z), tgt - e))
                shifts.append("dec_shr %s %d" % (D(n, e, z), e - tgt))
        L = ndig(n)
        for p in {-1, 0, 1, 2, L - 1, L, L + 1, rng.randint(1, L + 2), MAX64, 1 << 31}:
            truncs.append("dec_trunc %s %d" % (D(n, e, z), p))
    for n in range(-1100, 1101):                           # exhaustive small grid for Truncate
        for p in (1, 2, 3, 4):
            truncs.append("dec_trunc %s %d" % (D(n, rng.choice(EXP_GRID)), p))
    for n in (19, -19, 123456, -123456, 10 ** 30, -(10 ** 30) + 1):  # truncation pushing the exponent over the top
        for e in (MAX32, MAX32 - 1, MAX32 - 3, MAX32 - 5, MAX32 - 29):
            for p in (1, 2, 5):
                truncs.append("dec_trunc %s %d" % (D(n, e), p))

    # ---- binary: exhaustive tiny grid, sampled wider grid, big random, int32 edges
    tiny = [(n, e) for n in range(-11, 12) for e in (-2, -1, 0, 1, 2)]
    for a in tiny:
        for b in tiny:
            binl.append("dec_cmp %s %s" % (D(*a), D(*b)))
    tp = [(a, b) for a in tiny for b in tiny]
    for (a, b) in (tp if ctx.thorough() else rng.sample(tp, 2500)):
        for op in ("dec_add", "dec_sub", "dec_mul", "dec_equal"):
            binl.append("%s %s %s" % (op, D(*a), D(*b)))
    C2 = [-1100, -1001, -1000, -999, -101, -100, -99, -11, -10, -9, -1, 0, 1, 9, 10, 11, 99, 100, 101, 999, 1000, 1001, 1100]
    wide = [(n, e) for n in C2 + rng.sample(small, 40) for e in (-25, -24, -3, -2, -1, 0, 1, 2, 3, 24, 25)]
    for _ in range(ctx.scale(3500, 120000)):
        a, b = rng.choice(wide), rng.choice(wide)
        if rng.random() < 0.15:
            b = (b[0], a[1])                               # equal exponents
        if rng.random() < 0.1:                             # equal values, different precision
            k = rng.randint(0, 6)
            b = (a[0] * 10 ** k, a[1] - k)
        for op in ("dec_add", "dec_sub", "dec_mul", "dec_cmp", "dec_equal"):
            binl.append("%s %s %s" % (op, D(*a), D(*b)))
    pool = edges + bigs
    for _ in range(ctx.scale(700, 20000)):
        n1, n2 = rng.choice(pool), rng.choice(pool)
        e1 = rng.choice(EXP_GRID)
        e2 = rng.choice(EXP_GRID + [e1])
        if rng.random() < 0.2:                             # close values: the comparison is decided far right
            n2 = n1 + rng.choice([-1, 0, 1])
            k = rng.randint(0, 5)
            n2, e2 = n2 * 10 ** k + rng.choice([-1, 0, 0, 1]), e1 - k
        for op in ("dec_add", "dec_sub", "dec_mul", "dec_cmp", "dec_equal"):
            binl.append("%s %s %s" % (op, D(n1, e1), D(n2, e2)))
    nz = [(0, e, 1) for e in (-3, -1, 0, 1, 3)]
    for a in nz:                                           # negative zero as an operand
        for b in nz + [(0, 0, 0), (5, 0, 0), (-5, 1, 0), (0, 5, 0)]:
            for op in ("dec_add", "dec_sub", "dec_mul", "dec_cmp", "dec_equal"):
                binl.append("%s %s %s" % (op, D(*a), D(*b)))
                binl.append("%s %s %s" % (op, D(*b), D(*a)))
    EE = EXP_EDGE + [0, 1, -1, 2, -2, 1 << 30, -(1 << 30), (1 << 30) - 1, -(1 << 30) - 1]
    for e1 in EE:
        for e2 in EE:
            for (n1, n2) in ((1, 1), (-7, 3), (0, 5), (rng.choice(bigs), rng.choice(edges))):
                binl.append("dec_mul %s %s" % (D(n1, e1), D(n2, e2)))
                if close_enough(e1, e2):
                    for op in ("dec_add", "dec_sub", "dec_cmp", "dec_equal"):
                        binl.append("%s %s %s" % (op, D(n1, e1), D(n2, e2)))

    # ---- internals (correspondence only)
    internals = []
    for (n, e, z) in rng.sample(decs, min(len(decs), 1500)):
        if -40 <= e:
            internals.append("dec_truncint " + D(n, e, z))
        if e >= -400:
            internals.append("dec_upscale %s %d" % (D(n, e, z), max(MIN32, min(MAX32, -e + rng.choice([-3, -1, 0, 1, 2, 17])))))
        internals.append("dec_coex " + D(n, e, z))
    for n in (0, 5, -5, 15, -15, 99, -99, (1 << 63) - 1, 1 << 63, -(1 << 63), -(1 << 63) - 1, 10 ** 19):
        for e in (-25, -21, -20, -19, -2, -1, 0, 1, 2, 19, 20, 21, 25):
            internals.append("dec_truncint " + D(n, e))
    return un, shifts, truncs, binl, fmt, internals


def edge_exponent_texts(rng, count):
    """literals whose VALUE's exponent is on / next to an int32 edge while the written exponent is further out (it is
    lowered by the number of fraction digits), and written exponents on / next to the int64 edges"""
    out = []
    for _ in range(count):
        k = rng.choice([0, 0, 1, 1, 2, 3, 5, 9, rng.randint(0, 40)])
        ip = rng.choice(["0", "1", "7", "10", "-0", "-1", "-12", str(rng.randint(0, 10 ** rng.randint(1, 20)))])
        fp = "".join(rng.choice("0123456789") for _ in range(k))
        if rng.random() < 0.25:
            fp = "0" * k
        tgt = rng.choice([MAX32 - 1, MAX32, MAX32 + 1, MAX32 + 2, MIN32 - 2, MIN32 - 1, MIN32, MIN32 + 1,
                          MAX64 - k, MAX64 - k + 1, -MAX64 - 1 - k, -MAX64 - 2 - k, (1 << 32) - k, -(1 << 32) - k])
        written = tgt + k
        dot = "." if (k > 0 or rng.random() < 0.5) else ""
        sign = "+" if (written >= 0 and rng.random() < 0.3) else ""
        out.append(("%s%s%s%s%s%d" % (ip, dot, fp, rng.choice("dD"), sign, written)).encode())
    return out


def mutate(rng, b):
    b = bytearray(b)
    ops = rng.randint(1, 2)
    for _ in range(ops):
        r = rng.random()
        pos = rng.randint(0, len(b))
        ch = rng.choice(b"0123456789..ddDD-+_e \x00\xff")
        if r < 0.4:
            b.insert(pos, ch)
        elif r < 0.7 and b:
            del b[min(pos, len(b) - 1)]
        elif b:
            b[min(pos, len(b) - 1)] = ch
    return bytes(b)


def run(ctx):
    rng = ctx.rng
    un, shifts, truncs, binl, fmt, internals = gen(ctx)
    nt = lambda ln, m: m not in ("badinput",)
    ctx.correspond("K14-unary", un, oracle=oracle, classify=classify_case, nontrivial=nt)
    ctx.correspond("K14-shift", shifts, oracle=oracle, classify=classify_case, nontrivial=nt)
    ctx.correspond("K14-truncate", truncs, oracle=oracle, classify=classify_case, nontrivial=nt)
    ctx.correspond("K14-binary", binl, oracle=oracle, classify=classify_case, nontrivial=nt)
    ctx.correspond("K14-internals", internals, oracle=oracle, classify=classify_case, nontrivial=nt)
    mo, go = ctx.correspond("K14-format", fmt, oracle=oracle, classify=classify_case, nontrivial=nt)
    # parse: whatever String() printed, hand-written spellings, and mutations of both
    texts = []
    back = {}
    for ln, g in zip(fmt, go):
        if g.startswith("ok x"):
            tx = bytes.fromhex(g[4:])
            texts.append(tx)
            back[tx] = ln
    cat = [c.encode("utf-8") for c in CATALOGUE] + edge_exponent_texts(rng, ctx.scale(400, 6000))
    seen = set()
    plines = []
    for tx in texts + cat + [mutate(rng, rng.choice(texts + cat)) for _ in range(ctx.scale(6000, 100000))]:
        if tx not in seen:
            seen.add(tx)
            plines.append("dec_parse " + hexs(tx))
    pm, pg = ctx.correspond("K14-parse", plines, oracle=oracle, classify=classify_case, nontrivial=nt)
    # the round trip proper, judged on the real code alone: ParseDecimal(String(d)) has d's three fields
    res = dict(zip(plines, pg))
    n_rt = 0
    for tx, ln in back.items():
        t = ln.split(" ")
        got = res.get("dec_parse " + hexs(tx))
        want = "ok %s %s %s" % (t[1], t[2], t[3] if int(t[1]) == 0 else "0")
        n_rt += 1
        if got != want:
            ctx.fail("property", "K14-roundtrip", ln, "String() = %r, ParseDecimal gives %s, expected %s" % (tx, got, want),
                     classify_case(ln, None, got or ""))
    ctx.count("K14-roundtrip", n_rt, [])


LEVEL = "proof"
EXPLANATION = ("Theorems over the Gallina model of ion/decimal.go for unbounded coefficients: Add/Sub/Mul/Neg/Abs/ShiftL/ShiftR "
               "are exact in Q (panic iff the scale leaves int32), Cmp/Equal/Sign agree with Qcompare, Truncate is Z.quot by "
               "10^(digits-precision), ParseDecimal(String(d)) = d field by field for every d NewDecimal can build and String(d) is "
               "always an Ion decimal literal.  The model is tied to the Go methods by running both on the same grid/"
               "boundary/random inputs (K14-*), and the Go answers are judged by an independent Python oracle "
               "(exact integer arithmetic, independent Ion-decimal regular expression).")
ASSUMPTIONS = ["Go == model only on the inputs sampled (finite grids exhaustively)",
               "Add/Sub/Cmp are exercised only with |exp1-exp2| <= 400 (they build 10^|exp1-exp2|); Decimal.round (float64) is not modelled"]
