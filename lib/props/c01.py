"""C01 — write-then-read round trip preserves every Ion value (binary mode here; text modes in c01text)."""
from vlib import *
import iongen
import binlib

THEOREMS = []
LEVEL = "other"
EXPLANATION = ("value forests (boundary magnitudes, payload lengths 13/14/127/128/16383/16384, reserved-looking symbol text, "
               "deep nesting, every type under annotations and field names) are written by the real binary Writer and read "
               "back by the real Reader; the trace must be that of the forest.  K3 and K2 tie the writer and reader models "
               "to the same runs.")


def run(ctx):
    rng = ctx.rng
    forests = binlib.boundary_forests() + binlib.gen_forests(ctx, ctx.scale(1500, 40000))
    wl = ["bw - " + " ".join(iongen.calls_of_forest(f, rng)) for f in forests]
    mo, go = ctx.correspond("K3-binwriter", wl, nontrivial=lambda ln, m: m.startswith("ok"))
    rl, exp, src = [], [], []
    for ln, f, g in zip(wl, forests, go):
        p = binlib.parse_bw(g)
        if p is None or "0" in p[0]:
            ctx.fail("property", "C01-binary", ln, "a legal call sequence was refused or crashed: " + g[:160])
            continue
        rl.append("btrav 0 " + p[1])
        exp.append(iongen.expected_trace(f))
        src.append(ln)
    mo2, go2 = ctx.correspond("K2-binreader-traverse", rl, canon=binlib.canon_trace_full, nontrivial=lambda ln, m: " y" in m)
    ok = 0
    for ln, s, e, g in zip(rl, src, exp, go2):
        if iongen.project_trace(g) != e:
            ctx.fail("property", "C01-binary", s, "written then read back as '%s', expected '%s'" % (iongen.project_trace(g)[:300], e[:300]))
        else:
            ok += 1
    ctx.count("C01-binary", len(rl), [], agree=ok)
