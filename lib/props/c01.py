"""C01 — write-then-read round trip preserves every Ion value (binary mode here; text modes in c01text)."""
from vlib import *
import iongen
import binlib
import c12text

THEOREMS = ["C04_binary", "C04_binary_writer", "C04_binary_spec", "C04_binary_nan", "C04_binary_int64", "tw_tdecode_universe", "tw_tdecode_batches", "C01bin", "C01bin_default", "C01bin_local_table", "C01bin_reads_table", "C01bin_ex_local", "C01bin_S3", "C01bin_S2", "C01bin_S1", "C01bin_system_stream", "C01bin_value", "C01bin_system_table", "C01bin_ex_run",
            "C01text_write_then_read", "C01text_writer_output", "C01text_stream_spells", "C01text_value_spells", "C01text_float_zero",
            "C01text_ex_wf", "C01text_ex_roundtrip",
            "C01text_write_then_read_std", "C01text_write_then_read_pretty", "C01text_write_then_read_pretty_std",
            "C01text_ts_fmt_ok", "C01text_ts_body", "C01text_ts_read_body", "C01text_dec_fmt_ok", "C01text_dec_go_literal",
            "C01text_wf_std", "C01text_writer_output_pretty", "C01text_stream_spells_pretty", "C01text_value_spells_pretty",
            "C01text_std_reads_decimal", "C01text_std_reads_timestamp", "C01text2_ex_wf", "C01text2_ex_roundtrip_pretty"]
EXTRA_MODULES = ["C01text", "C01text2"]
LEVEL = "other"
EXPLANATION = ("value forests (boundary magnitudes, payload lengths 13/14/127/128/16383/16384, reserved-looking symbol text, "
               "deep nesting, every type under annotations and field names) are written by the real binary Writer and read "
               "back by the real Reader; the trace must be that of the forest.  K3 and K2 tie the writer and reader models "
               "to the same runs.")


def run(ctx):
    rng = ctx.rng
    forests = binlib.boundary_forests() + binlib.gen_forests(ctx, ctx.scale(1500, 40000))
    wl = ["bw - " + " ".join(iongen.calls_of_forest(f, rng)) for f in forests]
    mo, go = ctx.correspond("K3-binwriter", wl, nontrivial=lambda ln, m: m.startswith("ok"))
    rl, exp, src = [], [], []
    for ln, f, g in zip(wl, forests, go):
        p = binlib.parse_bw(g)
        if p is None or "0" in p[0]:
            ctx.fail("property", "C01-binary", ln, "a legal call sequence was refused or crashed: " + g[:160])
            continue
        rl.append("btrav 0 " + p[1])
        exp.append(iongen.expected_trace(f))
        src.append(ln)
    mo2, go2 = ctx.correspond("K2-binreader-traverse", rl, canon=binlib.canon_trace_full, nontrivial=lambda ln, m: " y" in m)
    ok = 0
    for ln, s, e, g in zip(rl, src, exp, go2):
        if iongen.project_trace(g) != e:
            ctx.fail("property", "C01-binary", s, "written then read back as '%s', expected '%s'" % (iongen.project_trace(g)[:300], e[:300]))
        else:
            ok += 1
    ctx.count("C01-binary", len(rl), [], agree=ok)


_run_binary = run


def run(ctx):
    _run_binary(ctx)
    # text modes: the same kind of forests through the real text Writer (compact, pretty) and back through the real Reader
    rng = ctx.rng
    forests = binlib.boundary_forests() + binlib.gen_forests(ctx, ctx.scale(700, 20000), {"depth": 3})
    forests = [f for f in forests if sum(len(str(v)) for v in f) < 200000]
    seqs = c12text.textify([iongen.split_calls(iongen.calls_of_forest(f, rng)) for f in forests])
    for opts, name in ((0, "compact"), (2, "pretty")):
        wl = [c12text.line_of(opts, None, q) for q in seqs]
        wo = run_go(wl)
        rl, exp, src = [], [], []
        for ln, f, g in zip(wl, forests, wo):
            p = c12text.parse_tw(g)
            if p is None or "0" in p[0]:
                ctx.fail("property", "C01-text-" + name, ln[:3000], "a legal call sequence was refused or crashed: " + g[:160])
                continue
            rl.append("btrav 0 " + iongen.hx(p[1]))
            exp.append(iongen.expected_trace(f))
            src.append(ln)
        back = run_go(rl)
        ok = 0
        for s_, e, g in zip(src, exp, back):
            if iongen.project_trace(g) != e:
                ctx.fail("property", "C01-text-" + name, s_[:3000], "written then read back as '%s', expected '%s'" % (iongen.project_trace(g)[:300], e[:300]),
                         classify_text(s_))
            else:
                ok += 1
        ctx.count("C01-text-" + name, len(rl), [x[:300] for x in rl], agree=ok)


def classify_text(line):
    return None
