"""C04 — writer output is valid, self-contained Ion under an independent decoder (binary part)."""
from vlib import *
import iongen
import binlib

import c12text
THEOREMS = ["C04_binary", "C04_binary_writer", "C04_binary_spec", "C04_binary_value", "C04_binary_S1", "C04_binary_S2", "C04_binary_S3", "C04_binary_nan", "C04_binary_int_calls_agree", "C04_binary_int64", "C04_declared_length", "C04_reachable_wf", "tw_tdecode_universe", "tw_tdecode_batches", "tx_string_reads_back", "tx_symbol_reads_back", "tx_clob_reads_back", "tx_bare_symbol", "tx_quoted_symbol", "C04text", "C04text_stream", "C04text_value", "C04text_recovered", "C04text_canonical_plain", "C04text_number_spelling", "C04text_quoted_spelling", "C04text_clob_spelling", "C04text_decimal_denotes", "C04text_float_zero", "C04text_value_pretty", "C04text_stream_pretty", "C04text_pretty", "C04text_recovered_pretty"]
EXTRA_MODULES = ["C04text", "C04text2"]
LEVEL = "other"
EXPLANATION = ("K3: the binary Writer model (Bin/BinWriter.v) against the real Writer on value forests; oracle: the "
               "real Writer's bytes are decoded by the extracted specification decoder SpecBin.sdecode (written from "
               "the format description, no code shared with the reader model) and must give back exactly the forest.")


def run(ctx):
    rng = ctx.rng
    forests = binlib.boundary_forests() + binlib.gen_forests(ctx, ctx.scale(1500, 40000))
    lines, exp = [], []
    for f in forests:
        calls = iongen.calls_of_forest(f, rng)
        if rng.random() < 0.15:
            # an annotation left pending at Finish is dropped: the values written are unchanged
            calls = calls[:-1] + ["AN", iongen.tok(rng.choice([b"pending", b"$ion_symbol_table", b"x"]))] + ["FIN"]
        lines.append("bw - " + " ".join(calls))
        exp.append(iongen.show_forest(f))
    mo, go = ctx.correspond("K3-binwriter", lines, nontrivial=lambda ln, m: m.startswith("ok"))
    parsed = [binlib.parse_bw(g) for g in go]
    hexes = [p[1] if p else "x" for p in parsed]
    dec = binlib.sdecode_many(hexes)
    n_ok = 0
    for ln, e, p, d, g in zip(lines, exp, parsed, dec, go):
        if oracle_silent(ctx, "C04-binary-oracle", ln, d):
            continue
        if p is None or "0" in p[0]:
            ctx.fail("property", "C04-binary-oracle", ln, "a legal call sequence was refused or crashed: " + g[:200], classify_case(ln, e, d))
        elif d is None:
            ctx.fail("property", "C04-binary-oracle", ln, "output rejected by the independent decoder: " + p[1][:200], classify_case(ln, e, d))
        elif d != e:
            ctx.fail("property", "C04-binary-oracle", ln, "independent decoder recovers '%s' but '%s' was written" % (d[:300], e[:300]), classify_case(ln, e, d))
        else:
            n_ok += 1
    ctx.count("C04-binary-oracle", len(lines), [], sample={"calls": lines[3][:200], "decoded": dec[3]}, agree=n_ok)
    # text writers: finite tables (quoting, escapes) exhaustively + forests
    c12text.run(ctx, ("finite", "forests"))


def classify_case(line, expected, decoded):
    # field names / annotations whose text has the form $<int> are written as that SID (D12)
    import re
    for m in re.finditer(r"(?:FN|AN) tk,x([0-9a-f]+),-1", line):
        if iongen.looks_like_sid(bytes.fromhex(m.group(1))):
            return "binary-fieldname-annotation-text-$n-taken-as-sid"
    for m in re.finditer(r"ANS \d+((?: tk,x[0-9a-f]*,-1)+)", line):
        for t in re.findall(r"tk,x([0-9a-f]*),-1", m.group(1)):
            if iongen.looks_like_sid(bytes.fromhex(t)):
                return "binary-fieldname-annotation-text-$n-taken-as-sid"
    return None
