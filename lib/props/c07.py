"""C07 — malformed input ends in an error, and the error is permanent (binary part; text in c07text)."""
from vlib import *
import iongen
import binlib

import c07text
import c07text_tr
THEOREMS = ["C07bin_state_untouched", "C07bin_next_false", "C07bin_err_stays", "C07bin_permanent", "C07bin_sticky_next", "C07bin_sticky_err", "C07bin_false_is_recorded", "tr_sticky_reach", "tr_sticky", "tr_sticky_run",
            "C07rej_system_partial", "C07rej_system_partial_default", "C07rej_all_partial", "C07rej_judge", "C07rej_stream_partial",
            "C07rej_lst_skipped_refuted", "C07rej_unrestricted_refuted", "C07rej_no_bvm_refuted", "C07rej_lim_g7_refuted"]
EXTRA_MODULES = ["C07rej"]
LEVEL = "other"
TRUSTED_EXTRA = getattr(c07text_tr, "TRUSTED_EXTRA", [])
EXPLANATION = ("valid binary documents x an enumerated catalogue of spec-invalidating edits (truncation at every byte "
               "offset, length overruns, illegal tag/length combinations, negative-zero integers, annotation-wrapper "
               "inconsistencies, NOP/annotation misuse, reserved type codes, one-byte mutations) judged invalid by the "
               "independent decoder SpecBin.sdecode; the real Reader's full traversal must end with a non-nil Err that "
               "persists over further Next/Err calls.  K2 ties the reader model to the same inputs.")


def edits(doc, rng, all_truncations):
    n = len(doc)
    out = []
    ks = range(5, n) if all_truncations else sorted(set(rng.randint(5, max(5, n - 1)) for _ in range(6)))
    for k in ks:
        out.append(("truncate@%d" % k, doc[:k]))
    body = range(4, n)
    for _ in range(8 if n > 4 else 0):
        i = rng.choice(body)
        d = list(doc)
        kind = rng.choice(["inc-len", "set-l14", "neg-zero", "bad-bool", "type15", "flip", "del", "ins", "null-annot", "bvm-inside"])
        if kind == "inc-len":
            d[i] = (d[i] & 0xF0) | min(13, (d[i] & 0x0F) + rng.randint(1, 3))
        elif kind == "set-l14":
            d[i] = (d[i] & 0xF0) | 14
        elif kind == "neg-zero":
            # negative zero of every magnitude length: 0..8 bytes take the int64 path, 9+ the big.Int path, 14+ a VarUInt length
            k = rng.choice([0, 1, 1, 2, 7, 8, 9, 9, 10, 13, 14, 15, 20, 130])
            d[i:i + 1] = ([0x30 | k] if k < 14 else [0x3E] + iongen.varuint(k)) + [0x00] * k
        elif kind == "bad-bool":
            d[i:i + 1] = [0x10 | rng.randint(2, 14)]
        elif kind == "type15":
            d[i] = 0xF0 | (d[i] & 0x0F)
        elif kind == "flip":
            d[i] ^= 1 << rng.randrange(8)
        elif kind == "del":
            del d[i]
        elif kind == "ins":
            d.insert(i, rng.randrange(256))
        elif kind == "null-annot":
            d[i:i + 1] = rng.choice([[0xEF], [0xE3, 0x80, 0x0F], [0xE3, 0x81, 0x84, 0x00], [0xE4, 0x81, 0x84, 0xE3, 0x81, 0x84, 0x0F], [0xE1, 0x80], [0xE2, 0x81, 0x84]])
        elif kind == "bvm-inside":
            d[i:i] = [0xE0, 0x01, 0x00, 0xEA]
        out.append((kind + "@%d" % i, d))
    return out


CORPUS = [  # minimal inputs of the findings fixed so far, and other hand-written malformed streams
    "e00100eab32101", "e00100eabe", "e00100ea8e", "e00100ea8effffffffffffffffff7f", "e00100ea30", "e00100ea3100",
    "e00100ea12", "e00100eaf0", "e00100eae00100", "e00100eab1e00100ea", "e00100ead180", "e00100ead10081",
    "e00100eaee0081832000", "e00100eae0", "e00100ea41", "e00100ea4300", "e00100ea718f", "e00100ea71ff",
    "e00100ead38420", "e00100eae3818420ff", "e00100eae481848100", "e00100eae38184e3", "e00100ea7900000000000000000a",
    "e00100eab6b5b4b3b2b1", "e00100ea88c328", "e00100ea82c080", "e00100ead2841f", "e00100eab221", "e00200ea20",
    "e00100eab2e18a848484848484848484842e017f7f7f7f7f7f7f7f6b00000000",
    # negative zero with a magnitude of 8, 9, 10, 13, 14 bytes; inside a list and a struct; followed by a value
    "e00100ea38" + "00" * 8, "e00100ea39" + "00" * 9 + "2101", "e00100ea3a" + "00" * 10, "e00100ea3d" + "00" * 13,
    "e00100ea3e8e" + "00" * 14 + "2101", "e00100eaba39" + "00" * 9, "e00100eadb8439" + "00" * 9 + "2101",
    # a struct whose bytes end with a field name without a value (unordered, short length, ordered, nested, name only)
    # timestamps: offset only (no year), month 13, hour without minute
    "e00100ea6180", "e00100ea621281", "e00100ea61c0", "e00100ea64800fd08d", "e00100ea66800fd0818181", "e00100eab36180 21".replace(" ", ""),
    "e00100eade8484210184", "e00100ead4842101842102", "e00100ead18484210185", "e00100eab5d484210184", "e00100ead184", "e00100ead18184"]


def bad_timestamp_body(spec_out):
    """spec_out: raw answer of `sdecode`; True when some timestamp value in it has a body the Ion rules exclude"""
    import c15
    for tok in spec_out.split(" "):
        tok = tok.split("]")[-1] if "]" in tok else tok
        if len(tok) >= 1 and tok[0] == "T" and all(ch in "0123456789abcdef" for ch in tok[1:]) and len(tok) % 2 == 1:
            body = list(bytes.fromhex(tok[1:]))
            tagged = ([0x60 | len(body)] if len(body) < 14 else [0x6E] + iongen.varuint(len(body))) + body
            try:
                st, _ = c15.spec_decode(bytes(tagged))
            except Exception:
                continue
            if st == "invalid":
                return True
    return False


def run(ctx):
    rng = ctx.rng
    forests = binlib.gen_forests(ctx, ctx.scale(450, 12000), {"depth": 3})
    docs = binlib.encode_docs(ctx, forests, True)
    cases = [("corpus", list(bytes.fromhex(h))) for h in CORPUS]
    for i, d in enumerate(docs):
        for name, e in edits(d, rng, all_truncations=(len(d) <= 60 or i % 25 == 0)):
            cases.append((name, e))
    # declared lengths at the width boundaries (2^31, 2^32, 2^63, 2^64 and just around them) for every type code, with and
    # without bytes behind them: the C06 hostile documents, judged here for "malformed => error"
    import c06
    for i, d in enumerate(c06.hostile_binary(rng)):
        if len(d) < 400:
            cases.append(("hostile-length", d))
            cases.append(("hostile-length-bare", d[:-4] if d[-4:] == [0x21, 0x01, 0x21, 0x02] else d + [0x20]))
    hexes = [iongen.hx(e) for _, e in cases]
    valid = binlib.sdecode_many(hexes)
    # SpecBin leaves timestamp bodies opaque (T<body>): judge each body with the calendar rules of the C15 oracle
    # (no year, month 13, hour without minute, ...), so that impossible calendar fields count as malformed here too
    raw = run_model(["sdecode " + h for h, v in zip(hexes, valid) if isinstance(v, str) and not v.startswith("?")])
    k = 0
    n_ts_bad = 0
    for i, v in enumerate(valid):
        if isinstance(v, str) and not v.startswith("?"):
            if bad_timestamp_body(raw[k]):
                valid[i] = None
                n_ts_bad += 1
            k += 1
    ctx.notes.append("documents valid for SpecBin but holding an impossible timestamp body: %d" % n_ts_bad)
    lines, names = [], []
    for (name, e), h, v in zip(cases, hexes, valid):
        if oracle_silent(ctx, "C07-binary", "btrav 0 " + h, v):
            continue
        if v is None:                      # judged malformed by the independent decoder
            lines.append("btrav 0 " + h)
            names.append(name)
    ctx.notes.append("edited documents: %d, of which spec-invalid: %d" % (len(cases), len(lines)))
    mo, go = ctx.correspond("K2-binreader-malformed", lines, canon=binlib.canon_trace_full,
                            nontrivial=lambda ln, m: True)
    ok = 0
    kinds = {}
    for ln, nm, g in zip(lines, names, go):
        kinds[nm.split("@")[0]] = kinds.get(nm.split("@")[0], 0) + 1
        t = g.split(" ")
        if t[-5:] != ["e1", "F", "e1", "F", "e1"]:
            ctx.fail("property", "C07-binary", ln, "edit %s: malformed stream not reported as a permanent error: ... %s" % (nm, " ".join(t[-8:])), classify_case(ln, g))
        else:
            ok += 1
    ctx.count("C07-binary", len(lines), [], agree=ok, edit_kinds=kinds)


K_SKIPPED = "malformed-bytes-inside-a-value-the-symbol-table-reader-skips"


def _vu(d, i):
    v = 0
    for k in range(i, min(len(d), i + 10)):
        v = (v << 7) | (d[k] & 0x7F)
        if d[k] & 0x80:
            return v, k + 1
    return None


def _tlv(d, i, end):
    """(type, is_null, start of body, end of value) of the value starting at i, by its header only"""
    if i >= end:
        return None
    t, l = d[i] >> 4, d[i] & 0x0F
    j = i + 1
    if l == 15:
        return (t, True, j, j)
    if t == 1:
        return (t, False, j, j)
    if l == 14 or (t == 13 and l == 1):
        r = _vu(d, j)
        if r is None:
            return None
        l, j = r
    if j + l > end:
        return None
    return (t, False, j, j + l)


def _blob(total):
    if total == 1:
        return [0xA0]
    if total <= 14:
        return [0xA0 | (total - 1)] + [0] * (total - 1)
    for vl in (1, 2, 3, 4):
        l = total - 1 - vl
        if l >= 0 and len(iongen.varuint(l)) <= vl:
            return [0xAE] + [0] * (vl - len(iongen.varuint(l))) + iongen.varuint(l) + [0] * l
    return None


def sanitize(doc):
    """the document with every value that readLocalSymbolTable skips without looking inside (an entry of `symbols`
    that is not a string, a field other than imports/symbols) replaced by a blob of the same length; None when the
    top-level framing itself cannot be followed"""
    d = list(doc)
    i, n = 0, len(d)
    while i < n:
        if d[i:i + 4] == [0xE0, 1, 0, 0xEA]:
            i += 4
            continue
        v = _tlv(d, i, n)
        if v is None:
            return None
        t, isnull, b0, e0 = v
        if t == 14 and not isnull:
            r = _vu(d, b0)
            if r is None:
                return None
            alen, a0 = r
            fs = _vu(d, a0)
            inner = _tlv(d, a0 + alen, e0) if a0 + alen <= e0 else None
            if fs is not None and fs[0] == 3 and inner is not None and inner[0] == 13 and not inner[1]:
                j, se = inner[2], inner[3]
                while j < se:
                    f = _vu(d, j)
                    if f is None:
                        return None
                    fv = _tlv(d, f[1], se)
                    if fv is None:
                        return None
                    if f[0] == 7 and fv[0] == 11 and not fv[1]:
                        k = fv[2]
                        while k < fv[3]:
                            ev = _tlv(d, k, fv[3])
                            if ev is None:
                                return None
                            if ev[0] != 0 and (ev[0] != 8 or ev[1]):
                                rb = _blob(ev[3] - k)
                                if rb is None:
                                    return None
                                d[k:ev[3]] = rb
                            k = ev[3]
                    elif f[0] not in (6, 7) and fv[0] != 0:
                        rb = _blob(fv[3] - f[1])
                        if rb is None:
                            return None
                        d[f[1]:fv[3]] = rb
                    j = fv[3]
        i = e0
    return d


def classify_case(line, go):
    """known deviation: the only malformation lies inside a value that the symbol-table reader skips by its length"""
    try:
        doc = list(bytes.fromhex(line.split(" ")[2][1:]))
    except Exception:
        return None
    sd = sanitize(doc)
    if sd is None or sd == doc:
        return None
    v = binlib.sdecode_many([iongen.hx(sd)])[0]
    if v is None or v.startswith("?"):
        return None
    return K_SKIPPED


_run_binary = run


def run(ctx):
    _run_binary(ctx)
    c07text.run(ctx)          # text: catalogue of malformed texts judged by the independent Coq decoder SpecText.tdecode
