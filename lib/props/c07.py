"""C07 — malformed input ends in an error, and the error is permanent (binary part; text in c07text)."""
from vlib import *
import iongen
import binlib

import c07text
import c07text_tr
THEOREMS = ["C07bin_state_untouched", "C07bin_next_false", "C07bin_err_stays", "C07bin_permanent", "C07bin_sticky_next", "C07bin_sticky_err", "C07bin_false_is_recorded", "tr_sticky_reach", "tr_sticky", "tr_sticky_run"]
LEVEL = "other"
TRUSTED_EXTRA = getattr(c07text_tr, "TRUSTED_EXTRA", [])
EXPLANATION = ("valid binary documents x an enumerated catalogue of spec-invalidating edits (truncation at every byte "
               "offset, length overruns, illegal tag/length combinations, negative-zero integers, annotation-wrapper "
               "inconsistencies, NOP/annotation misuse, reserved type codes, one-byte mutations) judged invalid by the "
               "independent decoder SpecBin.sdecode; the real Reader's full traversal must end with a non-nil Err that "
               "persists over further Next/Err calls.  K2 ties the reader model to the same inputs.")


def edits(doc, rng, all_truncations):
    n = len(doc)
    out = []
    ks = range(5, n) if all_truncations else sorted(set(rng.randint(5, max(5, n - 1)) for _ in range(6)))
    for k in ks:
        out.append(("truncate@%d" % k, doc[:k]))
    body = range(4, n)
    for _ in range(8 if n > 4 else 0):
        i = rng.choice(body)
        d = list(doc)
        kind = rng.choice(["inc-len", "set-l14", "neg-zero", "bad-bool", "type15", "flip", "del", "ins", "null-annot", "bvm-inside"])
        if kind == "inc-len":
            d[i] = (d[i] & 0xF0) | min(13, (d[i] & 0x0F) + rng.randint(1, 3))
        elif kind == "set-l14":
            d[i] = (d[i] & 0xF0) | 14
        elif kind == "neg-zero":
            d[i:i + 1] = [0x31, 0x00] if rng.random() < 0.5 else [0x30]
        elif kind == "bad-bool":
            d[i:i + 1] = [0x10 | rng.randint(2, 14)]
        elif kind == "type15":
            d[i] = 0xF0 | (d[i] & 0x0F)
        elif kind == "flip":
            d[i] ^= 1 << rng.randrange(8)
        elif kind == "del":
            del d[i]
        elif kind == "ins":
            d.insert(i, rng.randrange(256))
        elif kind == "null-annot":
            d[i:i + 1] = rng.choice([[0xEF], [0xE3, 0x80, 0x0F], [0xE3, 0x81, 0x84, 0x00], [0xE4, 0x81, 0x84, 0xE3, 0x81, 0x84, 0x0F], [0xE1, 0x80], [0xE2, 0x81, 0x84]])
        elif kind == "bvm-inside":
            d[i:i] = [0xE0, 0x01, 0x00, 0xEA]
        out.append((kind + "@%d" % i, d))
    return out


CORPUS = [  # minimal inputs of the findings fixed so far, and other hand-written malformed streams
    "e00100eab32101", "e00100eabe", "e00100ea8e", "e00100ea8effffffffffffffffff7f", "e00100ea30", "e00100ea3100",
    "e00100ea12", "e00100eaf0", "e00100eae00100", "e00100eab1e00100ea", "e00100ead180", "e00100ead10081",
    "e00100eaee0081832000", "e00100eae0", "e00100ea41", "e00100ea4300", "e00100ea718f", "e00100ea71ff",
    "e00100ead38420", "e00100eae3818420ff", "e00100eae481848100", "e00100eae38184e3", "e00100ea7900000000000000000a",
    "e00100eab6b5b4b3b2b1", "e00100ea88c328", "e00100ea82c080", "e00100ead2841f", "e00100eab221", "e00200ea20",
    "e00100eab2e18a848484848484848484842e017f7f7f7f7f7f7f7f6b00000000"]


def run(ctx):
    rng = ctx.rng
    forests = binlib.gen_forests(ctx, ctx.scale(450, 12000), {"depth": 3})
    docs = binlib.encode_docs(ctx, forests, True)
    cases = [("corpus", list(bytes.fromhex(h))) for h in CORPUS]
    for i, d in enumerate(docs):
        for name, e in edits(d, rng, all_truncations=(len(d) <= 60 or i % 25 == 0)):
            cases.append((name, e))
    hexes = [iongen.hx(e) for _, e in cases]
    valid = binlib.sdecode_many(hexes)
    lines, names = [], []
    for (name, e), h, v in zip(cases, hexes, valid):
        if oracle_silent(ctx, "C07-binary", "btrav 0 " + h, v):
            continue
        if v is None:                      # judged malformed by the independent decoder
            lines.append("btrav 0 " + h)
            names.append(name)
    ctx.notes.append("edited documents: %d, of which spec-invalid: %d" % (len(cases), len(lines)))
    mo, go = ctx.correspond("K2-binreader-malformed", lines, canon=binlib.canon_trace_full,
                            nontrivial=lambda ln, m: True)
    ok = 0
    kinds = {}
    for ln, nm, g in zip(lines, names, go):
        kinds[nm.split("@")[0]] = kinds.get(nm.split("@")[0], 0) + 1
        t = g.split(" ")
        if t[-5:] != ["e1", "F", "e1", "F", "e1"]:
            ctx.fail("property", "C07-binary", ln, "edit %s: malformed stream not reported as a permanent error: ... %s" % (nm, " ".join(t[-8:])), classify_case(ln, g))
        else:
            ok += 1
    ctx.count("C07-binary", len(lines), [], agree=ok, edit_kinds=kinds)


def classify_case(line, go):
    return None


_run_binary = run


def run(ctx):
    _run_binary(ctx)
    c07text.run(ctx)          # text: catalogue of malformed texts judged by the independent Coq decoder SpecText.tdecode
