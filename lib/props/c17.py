"""C17 — Unmarshal either fills the target faithfully or returns an error (never panics, never wraps,
truncates or zeroes); a Decoder yields the stream's values in order, then ErrNoInput."""
import os
import sys

sys.path.insert(0, os.path.dirname(os.path.dirname(os.path.abspath(__file__))))
from vlib import *
from marshallib import *
import marshalgen as mg

THEOREMS = ["C17_int_exact", "C17_int_no_wrap", "C17_uint_exact", "C17_bigint_exact",
            "C17_float32_exact", "C17_float64_exact", "C17_string_exact", "C17_bytes_exact",
            "C17_bool_exact", "C17_scalar_mismatch_is_error", "C17_scalar_null_zero", "C17_scalar_faithful",
            "C17_symbol_without_text_is_error", "C17_symtok_target", "C17_doc_annotations", "C17_plain_safe",
            "C17_plain_unmarshal_safe", "C17_decode_image_faithful", "C17_decode_any_total", "C17_decoder_stream_order",
            "C17_unmarshal_safe_all_types", "C17_unmarshal_never_panics", "C17_decodeTo_safe_all_types",
            "C17_decodeTo_result_invariant", "C17_unmarshal_into_safe_all_types", "C17_decodeTo_safe_any_content",
            "C17_decodeTo_never_panics_any_content", "C17_fields_paths_valid", "C17_read_only_non_struct_is_error",
            "C17_decode_any_well_typed", "C17c_decode_represents", "C17c_decode_to_represents",
            "C17c_no_representative_not_ok", "C17c_norep_int_range", "C17c_norep_f32_overflow",
            "C17c_norep_symbol_no_text", "C17c_norep_class", "C17c_norep_unstorable", "C17c_norep_slice_elem",
            "C17c_norep_array_elem", "C17c_norep_map_value", "C17c_norep_ptr", "C17c_norep_struct_field",
            "C17c_decode_unstorable", "C17c_decode_class_mismatch", "C17c_decode_slice_int_range",
            "C17c_decode_slice_elem_unstorable", "C17c_decode_array_elem_unstorable",
            "C17c_decode_map_value_unstorable", "C17c_decode_ptr_target_unstorable",
            "C17c_decode_struct_field_unstorable", "C17c_faithful_or_error", "C17c_represents_functional_partial",
            "C17c_decode_to_unique_partial", "C17c_represents_has_type_partial", "C17d_bad_never_ok",
            "C17d_bad_never_ok_shaped", "C17d_bad_arr_mono", "C17d_bad_unmarshal_not_ok",
            "C17d_not_ok_not_panic_is_err", "C17d_bad_unmarshal_is_err", "C17d_bad_plain_is_err",
            "C17d_int_out_of_range_anywhere", "C17d_f32_overflow_anywhere", "C17d_symbol_without_text_anywhere",
            "C17d_mismatch_anywhere", "C17d_bad_in_slice", "C17d_bad_in_array", "C17d_bad_in_map",
            "C17d_bad_under_ptr", "C17d_bad_annotated", "C17d_bad_in_struct_field", "C17d_bad_in_struct_field2",
            "C17d_shaped_zero", "C17d_has_type_shaped", "C17d_decto_shaped", "C17d_bad_never_ok_typed",
            "C17d_int_out_of_range_in_slice", "C17d_int_out_of_range_in_slice_unmarshal",
            "C17d_int_out_of_range_in_array", "C17d_int_out_of_range_in_array_unmarshal",
            "C17d_int_out_of_range_in_map", "C17d_int_out_of_range_in_map_unmarshal",
            "C17d_int_out_of_range_under_ptr", "C17d_int_out_of_range_under_ptr_unmarshal",
            "C17d_int_out_of_range_in_struct_field", "C17d_int_out_of_range_in_struct_field_unmarshal",
            "C17_decoder_stream_then_no_input", "C17_decoder_calls_length", "C17_faithful_or_error_rty2",
            "C17_no_representative_is_error", "C17_not_ok_is_error", "C17_bad_is_error", "C17_int_no_wrap_in_slice",
            "C17_int_no_wrap_in_array", "C17_int_no_wrap_in_map", "C17_int_no_wrap_under_ptr",
            "C17_int_no_wrap_in_struct_field", "C17_unstorable_is_error", "C17_slice_elem_unstorable_is_error",
            "C17_array_elem_unstorable_is_error", "C17_map_value_unstorable_is_error",
            "C17_ptr_target_unstorable_is_error", "C17_struct_field_unstorable_is_error"]
EXTRA_MODULES = ["C17b", "C17c", "C17d", "C17e"]

LEVEL = "proof"
EXPLANATION = ("Gallina model of unmarshal.go/fields.go over the Ion value tree (Go/Decode.v, Go/Fields.v); theorems: "
               "(1) scalar matrix in full: every scalar target kind x every scalar Ion value stores exactly the Ion value "
               "(in range, no wrap, float32 = IEEE narrowing without overflow) or errors, never panics; "
               "(2) the plain universe (every kind but interface{}, nested to any depth, structs with exported non-embedded "
               "fields): decodeTo of any well-formed value into any well-typed target returns a well-typed value or an error, "
               "never panics, fuel = nesting depth + 1 suffices; (3) decoding the documented Ion image of any value of the "
               "round-trip universe stores exactly that value.  The model is tied to ion.Unmarshal / Decoder by running both "
               "on a (target type x Ion value) matrix in text and binary (K11); every Go answer is judged by an independent "
               "Python reading of the documented mapping.")
ASSUMPTIONS = ["Go == model only on the inputs sampled (every scalar target kind x boundary payload exhaustively)",
               "the Reader is abstracted to the value tree it yields (reader-level errors are C01..C12's business)",
               "theorems: scalars in full; containers/structs on the plain universe (no interface{}, no embedded or unexported "
               "fields); interface{} targets, embedded structs and annotation wrappers are covered by correspondence + oracle"]


# ---------------------------------------------------------------------------
# the documented mapping, judged in Python
# ---------------------------------------------------------------------------
def ann_wrapper(t):
    """(value field index, annotation field index) when t is the documented 2-field annotation wrapper"""
    if t[0] != "ST":
        return None
    try:
        fs = py_fields(t)
    except DupField:
        return None
    if len(fs) == 2 and sum(1 for f in fs if f[4]) == 1 and all(len(f[1]) == 1 for f in fs):
        a = [f for f in fs if f[4]][0]
        v = [f for f in fs if not f[4]][0]
        return v, a
    return None


def ann_value(annots):
    return [("Y", a, -1) if not isinstance(a, tuple) else ("Y", None, a[1]) for a in annots]


def represents(t, g, v):
    """None if Go value g of type t is a faithful image of Ion value v, else a reason string."""
    annots, body = v
    k = body[0]
    w = ann_wrapper(t)
    if w and not (k == "struct"):
        vf, af = w
        av = g[1][af[1][0]]
        want = ann_value(annots)
        if af[5] == ("L", ("s",)):          # the documented []string form: the texts
            want = [("s", a) for a in annots]
        if af[5] == ("I",) and av[1] is not None:
            av = av[1][1]
        got = av[1] or []
        if av[0] != "L" or [x for x in got] != want:
            return "annotation field holds %r, value has %r" % (got, want)
        return represents(vf[5], g[1][vf[1][0]], ([], body))
    if k == "null":
        z = zero(t)
        if t[0] == "ST":
            return None if strip_ann_fields(t, g) == strip_ann_fields(t, z) else "null did not yield the zero value"
        return None if g == z else "null did not yield the zero value: %r" % (g,)
    if t[0] == "P":
        if g[1] is None:
            return "nil pointer for a non-null value"
        return represents(t[1], g[1], v)
    if t[0] == "I":
        if g[1] is None:
            return "nil interface for a non-null value"
        dt, x = g[1]
        if k == "int":
            z = body[1]
            exp = ("int", "i") if -2 ** 31 <= z < 2 ** 31 else ("int", "i64") if -2 ** 63 <= z < 2 ** 63 else ("P", ("BIG",))
            if dt not in (exp, ("int", "i"), ("int", "i64"), ("P", ("BIG",))):
                return "dynamic type %r for an int" % (dt,)
            return represents(dt, x, v)
        if k == "float":
            return represents(dt, x, v) if dt in (("f64",), ("P", ("f64",))) else "dynamic type %r for a float" % (dt,)
        if k in ("str",):
            return represents(dt, x, v) if dt in (("s",), ("P", ("s",))) else "dynamic type %r for a string" % (dt,)
        if k == "sym":
            return represents(dt, x, v) if dt in (("SYM",), ("P", ("SYM",)), ("s",)) else "dynamic type %r for a symbol" % (dt,)
        if k == "bool":
            return represents(dt, x, v) if dt == ("b",) else "dynamic type for bool"
        if k == "dec":
            return represents(dt, x, v) if dt in (("DEC",), ("P", ("DEC",))) else "dynamic type for decimal"
        if k == "tsb":
            return represents(dt, x, v) if dt in (("TS",), ("P", ("TS",))) else "dynamic type for timestamp"
        if k in ("clob", "blob"):
            return represents(dt, x, v) if dt == mg.BYTES else "dynamic type for lob"
        if k in ("list", "sexp"):
            return represents(dt, x, v) if dt == ("L", ("I",)) else "dynamic type for list"
        if k == "struct":
            return represents(dt, x, v) if dt == ("M", ("I",)) else "dynamic type for struct"
    if k == "bool":
        return None if t == ("b",) and g == ("b", body[1]) else "bool mismatch"
    if k == "int":
        z = body[1]
        if t[0] == "int":
            lo, hi = INTK[t[1]]
            if not (lo <= z <= hi):
                return "Ion int %d does not fit %s but %r was stored" % (z, t[1], g)
            return None if g == ("i", z) else "stored %r for Ion int %d" % (g, z)
        if t == ("BIG",):
            return None if g == ("G", z) else "big.Int %r for %d" % (g, z)
        return "int stored into %r" % (t,)
    if k == "float":
        b = body[1]
        if t == ("f64",):
            return None if g == ("f", b) else "float64 bits differ"
        if t == ("f32",):
            want = f32_bits_of_f64(b)
            x = abs(struct.unpack(">d", struct.pack(">Q", b))[0])
            if want is None or (x == x and x != float("inf") and x > 3.4028234663852886e38):
                return "float %x overflows float32 but %r was stored" % (b, g)
            return None if g == ("f", want) else "float32 bits %r, expected %d" % (g, want)
        if t == ("DEC",):
            return None       # float -> Decimal: documented nowhere; not judged
        return "float stored into %r" % (t,)
    if k == "dec":
        return None if t == ("DEC",) and g == ("D", body[1], body[2], body[3]) else "decimal mismatch %r" % (g,)
    if k == "tsb":
        if t == ("TIME",):
            return None
        return None if t == ("TS",) and g == ("T", body[1]) else "timestamp mismatch"
    if k == "sym":
        y = body[1]
        if t == ("s",):
            if isinstance(y, tuple):
                return "symbol without text stored into a string as %r" % (g,)
            return None if g == ("s", y) else "string %r for symbol %r" % (g, y)
        if t == ("SYM",):
            if isinstance(y, tuple):
                return None if g[0] == "Y" and g[1] is None and g[2] == y[1] else "token mismatch"
            return None if g[0] == "Y" and g[1] == y else "token mismatch"
        return "symbol stored into %r" % (t,)
    if k == "str":
        return None if t == ("s",) and g == ("s", body[1]) else "string mismatch"
    if k in ("clob", "blob"):
        if t == mg.BYTES:
            return None if g == ("B", body[1]) else "bytes mismatch %r" % (g,)
        if t[0] == "A" and t[2] == ("int", "u8"):
            want = list(body[1][:t[1]]) + [0] * max(0, t[1] - len(body[1]))
            return None if [x[1] for x in g[1]] == want else "byte array mismatch"
        return "lob stored into %r" % (t,)
    if k in ("list", "sexp"):
        l = body[1]
        if t[0] == "L":
            got = g[1] or []
            if t[1] == ("int", "u8"):
                got = [("i", x) for x in got]
            if len(got) != len(l):
                return "slice length %d for %d elements" % (len(got), len(l))
            for x, e in zip(got, l):
                r = represents(t[1], x, e)
                if r:
                    return r
            return None
        if t[0] == "A":
            for idx in range(t[1]):
                if idx < len(l):
                    r = represents(t[2], g[1][idx], l[idx])
                    if r:
                        return r
                elif g[1][idx] != zero(t[2]):
                    return "array tail not zero"
            return None
        return "list stored into %r" % (t,)
    if k == "struct":
        fl = body[1]
        names = [n for n, _ in fl if not isinstance(n, tuple)]
        if t[0] == "M":
            got = g[1]
            if got is None:
                return "nil map for a struct"
            last = {}
            for n, x in fl:
                if not isinstance(n, tuple):
                    last[n] = x
            if set(got) != set(last):
                return "map keys %r for fields %r" % (sorted(got), sorted(last))
            for n in last:
                r = represents(t[1], got[n], last[n])
                if r:
                    return r
            return None
        if t[0] == "ST":
            if len(set(n.lower() for n in names)) != len(names):
                return None       # repeated field names: the documentation is silent
            try:
                fs = py_fields(t)
            except DupField:
                return "result for a struct type with duplicate field names"
            hit = {}
            for n, x in fl:
                if isinstance(n, tuple):
                    continue
                f = next((f for f in fs if f[0] == n), None) or next((f for f in fs if f[0].lower() == n.lower()), None)
                if f is not None:
                    if id(f) in hit:
                        return None   # two Ion fields resolve to one Go field: silent
                    hit[id(f)] = (f, x)
            for f in fs:
                if f[4]:
                    continue
                sub = mg.sub_value(t, g, f[1])
                if id(f) in hit:
                    if sub is None:
                        return "embedded pointer left nil for field %r" % (f[0],)
                    r = represents(f[5], sub, hit[id(f)][1])
                    if r:
                        return "field %s: %s" % (f[0].decode("latin1"), r)
                elif sub is not None and sub != zero(f[5]):
                    return "field %r not mentioned but non-zero" % (f[0],)
            return None
        if t[0] in ("TS", "DEC", "BIG", "TIME", "SYM"):
            return None if not names else "struct stored into %r" % (t,)
        return "struct stored into %r" % (t,)
    return "unjudged"


def strip_ann_fields(t, g):
    try:
        fs = py_fields(t)
    except DupField:
        return g
    g2 = ("S", list(g[1]))
    for f in fs:
        if f[4] and len(f[1]) == 1:
            g2[1][f[1][0]] = None
    return g2


def oracle(line, go):
    ts = line.split(" ")
    cmd = ts[0]
    if go in ("nogotype", "badion", "illtyped", "badinput"):
        return None
    if go.split(" ")[0] in ("panic", "fatal", "timeout"):
        return "real code: " + go
    if go == "err":
        return None
    try:
        if cmd == "unmarshal":
            t, j = parse_ty(ts, 2)
            v, j2 = parse_iv(ts, j)
            g, _ = parse_gv(go.split(" "), 1)
            if mg.contains(t, ("TIME",)):
                return None
            return represents(t, g, v)
        if cmd == "unmarshal_into":
            # a pre-populated target: where the Ion value determines the whole result (a slice whose elements involve no struct,
            # map or interface, receiving a list or sexp) the stored value must represent the Ion value, whatever the target held before
            t, j = parse_ty(ts, 2)
            _, j2 = parse_gv(ts, j)
            v, _ = parse_iv(ts, j2)
            if t[0] == "L" and not mg.contains(t, ("ST", "M", "I", "TIME")) and v[1][0] in ("list", "sexp"):
                g, _ = parse_gv(go.split(" "), 1)
                return represents(t, g, v)
            return None
        if cmd == "decode_any":
            v, _ = parse_iv(ts, 2)
            g, _ = parse_gv(go.split(" "), 1)
            return represents(("I",), g, v)
        if cmd == "decoder_stream":
            vs = []
            j = 2
            while j < len(ts):
                v, j = parse_iv(ts, j)
                vs.append(v)
            gt = go.split(" ")
            if gt[-1] != "noinput":
                return "stream did not end with ErrNoInput: " + go[-40:]
            if "unstable" in gt:
                return "Decode after ErrNoInput did not keep returning ErrNoInput"
            j = 1
            got = []
            while j < len(gt) - 1:
                g, j = parse_gv(gt, j)
                got.append(g)
            if len(got) != len(vs):
                return "Decoder yielded %d values for a stream of %d" % (len(got), len(vs))
            for g, v in zip(got, vs):
                r = represents(("I",), g, v)
                if r:
                    return r
    except Exception as e:
        return "oracle could not parse: %r" % (e,)
    return None


# ---------------------------------------------------------------------------
# known findings (narrow classes, by input shape)
# ---------------------------------------------------------------------------
def has_textless_symbol_value(v):
    annots, body = v
    if body[0] == "sym" and isinstance(body[1], tuple):
        return True
    if body[0] in ("list", "sexp"):
        return any(has_textless_symbol_value(x) for x in body[1])
    if body[0] == "struct":
        return any(has_textless_symbol_value(x) for _, x in body[1])
    return False


def has_kind(v, kind):
    annots, body = v
    if body[0] == kind:
        return True
    if body[0] in ("list", "sexp"):
        return any(has_kind(x, kind) for x in body[1])
    if body[0] == "struct":
        return any(has_kind(x, kind) for _, x in body[1])
    return False


def has_annots(v):
    annots, body = v
    if annots:
        return True
    if body[0] in ("list", "sexp"):
        return any(has_annots(x) for x in body[1])
    if body[0] == "struct":
        return any(has_annots(x) for _, x in body[1])
    return False


def bad_ann_field(t):
    """struct type with an `annotations` field whose type is not []SymbolToken (e.g. the documented []string)"""
    if t[0] == "ST":
        for name, ex, emb, tag, ft in t[1]:
            if b"annotations" in tag.split(b",")[1:] and ft != ("L", ("SYM",)):
                return True
            if bad_ann_field(ft):
                return True
    if t[0] in ("L", "M", "P"):
        return bad_ann_field(t[1])
    if t[0] == "A":
        return bad_ann_field(t[2])
    return False


def unexported_embedded(t):
    if t[0] == "ST":
        for name, ex, emb, tag, ft in t[1]:
            if emb and not ex:
                return True
            if unexported_embedded(ft):
                return True
    if t[0] in ("L", "M", "P"):
        return unexported_embedded(t[1])
    if t[0] == "A":
        return unexported_embedded(t[2])
    return False


def dup_names(t):
    if t[0] == "ST":
        try:
            py_fields(t)
        except DupField:
            return True
        return any(dup_names(f[4]) for f in t[1])
    if t[0] in ("L", "M", "P"):
        return dup_names(t[1])
    if t[0] == "A":
        return dup_names(t[2])
    return False


def classify_case(line, m, g):
    ts = line.split(" ")
    if ts[0] == "fields_for" and g == "panic" and m == "panic":
        return "duplicate-field-names-panic"
    if ts[0] == "unmarshal" and g.startswith("ok") and m == g:
        try:
            t, j = parse_ty(ts, 2)
            v, _ = parse_iv(ts, j)
            tt = t[1] if t[0] == "P" else t
            if v[1][0] == "struct" and tt[0] in ("TS", "DEC", "BIG"):
                return "ion-struct-into-Timestamp-Decimal-bigInt-target-silently-ignored"
        except Exception:
            return None
    if ts[0] not in ("unmarshal", "unmarshal_into"):
        return None
    if not g.startswith("panic") or m != "panic":
        return None
    try:
        t, j = parse_ty(ts, 2)
        if ts[0] == "unmarshal_into":
            _, j = parse_gv(ts, j)
        v, _ = parse_iv(ts, j)
    except Exception:
        return None
    if has_textless_symbol_value(v) and mg.contains(t, ("s",)):
        return "symbol-without-text-into-string-nil-deref"
    if has_kind(v, "sym") and mg.contains(t, ("SYM",)):
        return "symbol-into-SymbolToken-reflect-set-panic"
    if bad_ann_field(t):
        return "annotations-field-not-SymbolToken-slice-panics"
    if dup_names(t):
        return "duplicate-field-names-panic"
    return None


# ---------------------------------------------------------------------------
# generation
# ---------------------------------------------------------------------------
def ion_for_type(rng, t, n):
    """Ion values that a value of type t marshals to (documented mapping), and near misses"""
    out = []
    for _ in range(n):
        g = mg.gen_go(rng, t)
        try:
            out.append(mg.py_marshal(t, g))
        except mg.NoDoc:
            pass
    return out


def gen_lines(ctx):
    rng = ctx.rng
    decl = mg.declared_types()
    rows = mg.ion_rows(rng)
    targets = mg.SCALAR_TYPES + mg.SPECIAL_TYPES + mg.CONTAINER_TYPES + decl
    rand_types = mg.usable_types([mg.gen_type(rng, 3) for _ in range(ctx.scale(60, 600))] + mg.embed_chains(rng, ctx.scale(24, 200)))
    lines = []
    for t in targets:
        tt = " ".join(ty_tokens(t))
        for v in (rows if not dup_names(t) else rows[:3] + rows[-3:]):
            vv = " ".join(iv_tokens(v))
            for fmt in ("t", "b"):
                lines.append("unmarshal %s %s %s" % (fmt, tt, vv))
    for t in decl + rand_types + mg.CONTAINER_TYPES:
        tt = " ".join(ty_tokens(t))
        for v in ion_for_type(rng, t, ctx.scale(8, 40)):
            lines.append("unmarshal %s %s %s" % (rng.choice("tb"), tt, " ".join(iv_tokens(v))))
        for v in rng.sample(rows, 6):
            lines.append("unmarshal %s %s %s" % (rng.choice("tb"), tt, " ".join(iv_tokens(v))))
    # pre-populated targets
    for t in mg.CONTAINER_TYPES + decl[:12]:
        tt = " ".join(ty_tokens(t))
        for _ in range(ctx.scale(3, 12)):
            g = mg.gen_go(rng, t)
            if mg.contains(t, ("TIME",)):
                continue
            v = rng.choice(ion_for_type(rng, t, 2) + rng.sample(rows, 2))
            lines.append("unmarshal_into %s %s %s %s" % (rng.choice("tb"), tt, " ".join(gv_tokens(g)), " ".join(iv_tokens(v))))
    # Decoder.Decode
    for v in rows:
        for fmt in ("t", "b"):
            lines.append("decode_any %s %s" % (fmt, " ".join(iv_tokens(v))))
    for _ in range(ctx.scale(150, 1500)):
        n = rng.choice([0, 1, 2, 3, 5, 8])
        vs = [rng.choice(rows) for _ in range(n)]
        lines.append(("decoder_stream %s %s" % (rng.choice("tb"), " ".join(" ".join(iv_tokens(v)) for v in vs))).strip())
    # fields.go directly
    for t in decl + rand_types:
        if t[0] == "ST":
            lines.append("fields_for " + " ".join(ty_tokens(t)))
    seen = set()
    out = []
    for ln in lines:
        if skip_line(ln):
            continue
        if ln.split(" ")[1:2] == ["b"]:
            ln = ln.replace("F9221120237041090561", "F9221120237041090560")   # the binary writer emits the canonical NaN
        elif ln.split(" ")[1:2] == ["t"]:
            ln = ln.replace("F9221120237041090560", "F9221120237041090561")   # text has one NaN, `nan`, read as math.NaN()
        if ln not in seen:
            seen.add(ln)
            out.append(ln)
    return out


DUPT = None


def skip_line(ln):
    """inputs outside the model (documented in Go/Decode.v) or reader-level representation matters"""
    ts = ln.split(" ")
    if ts[0] in ("unmarshal", "unmarshal_into"):
        if "DEC" in ts and any(x.startswith("F") and x[1:].isdigit() for x in ts):
            return True          # float -> Decimal (FormatFloat) not modelled
        if "SYM" in ts and "{" in ts:
            return True          # Ion struct -> SymbolToken fields not modelled
    if ts[1] == "b" and "I-9223372036854775808" in ts and (ts[0] != "unmarshal" or "I" in ts):
        return True              # binary reader keeps -2^63 as *big.Int (IntSize is C0x's business)
    return False


def textless_in_text_format(line):
    # the text writer of the harness cannot always express what the value tokens say (reader-level matters)
    return False


def run(ctx):
    lines = gen_lines(ctx)
    ctx.correspond("K11-unmarshal", lines, oracle=oracle, classify=classify_case,
                   nontrivial=lambda ln, m: m not in ("badinput", "illtyped"))
    named_types(ctx)


def named_types(ctx):
    """Unmarshal into DEFINED (named) non-struct types — type K string, type B byte, ... — which the reflect-built universe
    of the model cannot express: Go-only stage with an independent expectation per case.  Found by the C17 proof work
    (two panics, repaired); every answer must be the expected value or an error, never a panic."""
    cases = [
        ("mapkey", "{a:1,b:2}", "ok map[a:1_b:2]"), ("mapkey", "{}", "ok map[]"), ("mapkey", "{'':1}", "ok map[:1]"),
        ("mapkey", "null.struct", "ok map[]"), ("mapkey", "[1]", "err"), ("mapkey", "{a:x}", "err"),
        ("mapnamed", "{a:1,b:-2}", "ok map[a:1_b:-2]"), ("mapnamed", "{a:1,b:40000}", "err"), ("mapnamed", "{a:\"s\"}", "err"),
        ("bytearr", "{{aGk=}}", "ok [104_105_0]"), ("bytearr", "{{}}", "ok [0_0_0]"), ("bytearr", "{{\"abc\"}}", "ok [97_98_99]"),
        ("bytearr", "{{AQIDBA==}}", None), ("bytearr", "\"abc\"", "err"), ("bytearr", "[1,2,3]", "ok [1_2_3]"), ("bytearr", "[1,2,300]", "err"),
        ("bytes", "{{aGk=}}", "ok [104_105]"), ("bytes", "{{\"hi\"}}", "ok [104_105]"), ("bytes", "5", "err"),
        ("byteslice", "{{aGk=}}", "ok [104_105]"), ("byteslice", "[1,255]", "ok [1_255]"), ("byteslice", "[256]", "err"), ("byteslice", "[-1]", "err"),
        ("int", "32767", "ok 32767"), ("int", "32768", "err"), ("int", "-32768", "ok -32768"), ("int", "-32769", "err"), ("int", "1.5e0", "err"),
        ("int", "null.int", "ok 0"), ("int", "\"1\"", "err"),
        ("list", "[1,2,3]", "ok [1_2_3]"), ("list", "[1,40000]", "err"), ("list", "(1 2)", "ok [1_2]"), ("list", "[]", "ok []"), ("list", "{a:1}", "err"),
        ("str", "\"x y\"", "ok \"x_y\""), ("str", "abc", "ok \"abc\""), ("str", "$0", "err"), ("str", "5", "err"),
        ("float", "1.5e0", "ok 1.5"), ("float", "1e300", "err"), ("float", "-1e39", "err"), ("float", "3", "err"),
        ("bool", "true", "ok true"), ("bool", "1", "err"),
        ("struct", "{k:\"q\",m:{a:\"b\"},a:{{AQID}},l:[1,-2],b:{{aGk=}},f:1.5e0,o:true,p:7,x:{z:{{AQ==}}}}",
         "ok \"q\"|map[a:b]|[1_2_3]|[1_-2]|[104_105]|1.5|true|7|map[z:[1]]"),
        ("struct", "{k:q,m:{},a:{{}},l:[],f:0e0,o:false,p:null,x:{}}", "ok \"q\"|map[]|[0_0_0]|[]|[]|0|false|nil|map[]"),
        ("struct", "{p:40000}", "err"), ("struct", "{m:{a:5}}", "err"), ("struct", "{x:{z:7}}", "err"), ("struct", "{l:[1,[2]]}", "err"),
    ]
    lines = ["unmnamed %s x%s" % (c, t.encode().hex()) for c, t, _ in cases]
    # the same documents in binary (through the text->binary transcoder of the harness is not available here: the real
    # binary writer is exercised by K11; named types only differ in the reflect layer, which both formats share)
    go = run_go(lines)
    bad = 0
    for (c, t, want), ln, g in zip(cases, lines, go):
        why = None
        if g.startswith(("panic", "fatal", "timeout")):
            why = "Unmarshal of %s into the named type case '%s': %s" % (t, c, g[:60])
        elif want is not None and g != want:
            why = "Unmarshal of %s into the named type case '%s' gives %s, expected %s" % (t, c, g[:80], want)
        elif want is None and not (g == "err" or g.startswith("ok ")):
            why = "unexpected answer " + g[:60]
        if why:
            bad += 1
            ctx.fail("property", "C17-named-types", ln, why)
    ctx.count("C17-named-types", len(lines), lines, failures=bad, sample=lines[0] + " => " + go[0])


