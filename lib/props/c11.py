"""C11 — binary writers with shared or fixed tables emit resolvable, minimal symbols.

Components (commands of coq/Drv/DrvSymctx.v, harness/cmd/vh/symctx.go):
  K8-writer-shared   bwsh - <desc>* -- <calls>            NewBinaryWriter(out, tables...)
  K8-writer-fixed    bwlsh - <desc>* L n <sym>*n -- ...   NewBinaryWriterLST(out, NewLocalSymbolTable(tables, locals))
  K8-writer-budget   the same two commands with a write budget (I/O failure of the sink)

The oracle never looks at the model.  It judges the answer of the real code with
  * a small binary parser of its own (pdecode): version markers, the $ion_symbol_table structs with their
    imports / symbols, and every symbol ID of the user values as it stands in the bytes,
  * the Ion ID-space rules computed here (system slots, each import trimmed / padded to its max_id, locals),
  * the specification decoder with a catalog (`sdecodecat`, model-only command) for the values by TEXT,
  * the real Reader holding the same tables in its catalog (`cattrav`) for text and ID of every token.
"""
import re

from vlib import *
import iongen

THEOREMS = ["C11_shared_import_id", "C11_shared_import_id_lowest", "C11_shared_import_id_stable",
            "C11_shared_locals", "C11_shared_reachable", "C11_shared_declares",
            "C11_fixed_refuses", "C11_fixed_refuses_string", "C11_fixed_refuses_token", "C11_fixed_nothing_emitted",
            "C11_sticky", "C11_fixed_id", "C11_fixed_id_lowest", "C11_fixed_token_id"]

SYSTEM = [b"$ion", b"$ion_1_0", b"$ion_symbol_table", b"name", b"version", b"imports", b"symbols", b"max_id",
          b"$ion_shared_symbol_table"]
SID_LST, SID_NAME, SID_VERSION, SID_IMPORTS, SID_SYMBOLS, SID_MAXID = 3, 4, 5, 6, 7, 8
BVM = bytes([0xE0, 1, 0, 0xEA])
NOTES = []


def hx(b):
    return "x" + bytes(b).hex()


def unhx(t):
    if not t.startswith("x"):
        raise ValueError("not a hex token: " + t)
    return bytes.fromhex(t[1:])


class Scope(Exception):
    """the request is outside what the property talks about (malformed call sequence, symbol IDs asked for
    by number that the table does not have, ...): only 'no panic' is judged"""


# ---------------------------------------------------------------------------
# the request: tables, fixed locals, calls
# ---------------------------------------------------------------------------
class Table:
    """one shared table as the writer receives it: NewSharedSymbolTable(name, version, syms) then Adjust(m)..."""

    def __init__(self, name, ver, syms, adjs):
        self.name, self.ver, self.syms, self.adjs = name, ver, list(syms), list(adjs)
        texts, maxid = list(syms), len(syms)
        for m in adjs:
            # an import with max_id m sees exactly the first m slots of the table
            texts, maxid = texts[:m], m
        self.texts, self.maxid = texts, maxid

    def slots(self):
        """max_id slots: declared text (possibly "") or None where the table has no symbol"""
        return [self.texts[j] if j < len(self.texts) else None for j in range(self.maxid)]

    def desc(self):
        return ["S", hx(self.name), str(self.ver), str(len(self.syms))] + [hx(x) for x in self.syms] + \
               [str(len(self.adjs))] + [str(m) for m in self.adjs]


class Req:
    pass


def parse_request(line):
    t = line.split(" ")
    r = Req()
    r.cmd = t[0]
    if r.cmd not in ("bwsh", "bwlsh", "bwlshb"):
        raise Scope("not a C11 command")
    r.budget = None if t[1] == "-" else int(t[1])
    i = 2
    r.tables = []
    while i < len(t) and t[i] == "S":
        name, ver, n = unhx(t[i + 1]), int(t[i + 2]), int(t[i + 3])
        syms = [unhx(x) for x in t[i + 4:i + 4 + n]]
        i += 4 + n
        na = int(t[i])
        adjs = [int(x) for x in t[i + 1:i + 1 + na]]
        i += 1 + na
        r.tables.append(Table(name, ver, syms, adjs))
    if i < len(t) and t[i] == "B":
        raise Scope("placeholder tables are not C11 inputs")
    r.desc_tokens = t[2:i]
    r.locals = None
    if r.cmd in ("bwlsh", "bwlshb"):
        if t[i] != "L":
            raise ValueError("expected L")
        n = int(t[i + 1])
        r.locals = [unhx(x) for x in t[i + 2:i + 2 + n]]
        i += 2 + n
        if r.cmd == "bwlshb":
            # texts added to the builder AFTER Build(): the fixed table must not know them
            if t[i] != "X":
                raise ValueError("expected X")
            i += 2 + int(t[i + 1])
            r.cmd = "bwlsh"
    if t[i] != "--":
        raise ValueError("expected --")
    r.calls = iongen.split_calls(t[i + 1:])
    return r


SIDTEXT = re.compile(rb"^\$[+-]?[0-9]+$")


def parse_tok(tk):
    """-> (text or None, sid)"""
    _, tx, sid = tk.split(",")
    return (None if tx == "-" else unhx(tx), int(sid))


# ---------------------------------------------------------------------------
# the Ion rules: ID space of a table set, lowest ID of a text
# ---------------------------------------------------------------------------
class Space:
    def __init__(self, tables, fixed_locals=None):
        self.base = list(SYSTEM)
        for tb in tables:
            self.base += tb.slots()
        self.ntot = len(self.base)
        self.fixed = fixed_locals is not None
        self.locals = list(fixed_locals) if self.fixed else []

    def with_locals(self, locs):
        s = Space([], None)
        s.base, s.ntot, s.fixed, s.locals = self.base, self.ntot, self.fixed, list(locs)
        return s

    def maxid(self):
        return self.ntot + len(self.locals)

    def in_imports(self, t):
        """lowest ID at which the system table or an import carries the (non-empty) text"""
        if t == b"":
            return None
        for j, s in enumerate(self.base):
            if s == t:
                return j + 1
        return None

    def lowest(self, t):
        """lowest ID carrying text t.  The empty text: never in an import (a "" entry of a shared table is a gap),
        never in a fixed table; in a growing table it is a local like any other."""
        s = self.in_imports(t)
        if s is not None:
            return s
        if t == b"" and self.fixed:
            return None
        for j, x in enumerate(self.locals):
            if x == t:
                return self.ntot + j + 1
        return None

    def text_of(self, sid):
        if 1 <= sid <= self.ntot:
            return self.base[sid - 1]
        if self.ntot < sid <= self.maxid():
            return self.locals[sid - self.ntot - 1]
        return None


# ---------------------------------------------------------------------------
# what the calls mean: results per call, what must stand in the output
# ---------------------------------------------------------------------------
SCALARS = {"NULL", "NT", "BOOL", "INT", "UINT", "BIG", "STR", "CLOB", "BLOB", "SYM", "SFS", "FLOAT", "DEC", "TS"}
BEGIN = {"BL": "list", "BS": "sexp", "BT": "struct"}
END = {"EL": "list", "ES": "sexp", "ET": "struct"}


def scalar_body(c):
    k = c[0]
    if k == "NULL":
        return ("null", 1)
    if k == "NT":
        return ("null", int(c[1]))
    if k == "BOOL":
        return ("bool", c[1] != "0")
    if k in ("INT", "UINT", "BIG"):
        return ("int", int(c[1]))
    if k == "STR":
        return ("str", unhx(c[1]))
    if k == "CLOB":
        return ("clob", unhx(c[1]))
    if k == "BLOB":
        return ("blob", unhx(c[1]))
    raise Scope("value kind %s is not used by C11" % k)


def simulate(req):
    """-> (expected results, expected items).  items: ('bvm',) | ('lst', groups) | ('val', value);
    value = (annots, body) with symbols as occurrences (text|None, sid).  groups (growing table): the texts
    that must be declared locally, grouped by the value that first used them; fixed table: None."""
    fixed = req.cmd == "bwlsh"
    sp = Space(req.tables, req.locals)
    nontrivial = bool(req.tables) or bool(req.locals)
    results = []
    items = []
    groups = []            # growing table: list of lists of new texts
    known = set()
    cur = []               # growing table: top-level values of the batch not yet flushed
    sidonly = []           # (sid, index of the batch) of tokens given by number
    batch = 0
    tops = []              # growing table: max ID of the table declared for each finished batch
    stack = []             # [kind, items, field, annots]
    field, annots = None, []
    err = False
    wrote = False

    def use(occ, grp):
        """False when a fixed table does not define the text"""
        text, sid = occ
        if text is None:
            if sid == -1:
                raise Scope("token without text and without ID")
            sidonly.append((sid, batch))
            return True
        if fixed:
            return sp.lowest(text) is not None
        if sp.in_imports(text) is None and text not in known:
            known.add(text)
            grp.append(text)
        return True

    for c in req.calls:
        k = c[0]
        if err:
            results.append("0")
            continue
        if k == "FN":
            if not stack or stack[-1][0] != "struct":
                raise Scope("field name outside a struct")
            field = parse_tok(c[1])
            results.append("1")
        elif k == "AN":
            annots = annots + [parse_tok(c[1])]
            results.append("1")
        elif k == "ANS":
            annots = annots + [parse_tok(x) for x in c[2:]]
            results.append("1")
        elif k in SCALARS or k in BEGIN:
            grp = []
            ok = True
            body = None
            if k == "SYM":
                occ = parse_tok(c[1])
                ok = use(occ, grp)
                body = ("sym", occ)
            elif k == "SFS":
                tx = unhx(c[1])
                occ = (None, int(tx[1:])) if SIDTEXT.match(tx) else (tx, -1)   # "$7" asks for ID 7 (documented)
                ok = use(occ, grp)
                body = ("sym", occ)
            elif k in SCALARS:
                body = scalar_body(c)
            if ok and fixed and not wrote:
                wrote = True
                items.append(("bvm",))
                if nontrivial:
                    items.append(("lst", None))
            if ok and stack and stack[-1][0] == "struct":
                if field is None:
                    raise Scope("value in a struct without field name")
                ok = use(field, grp)
            if ok:
                for a in annots:
                    if not use(a, grp):
                        ok = False
                        break
            if not ok:
                err = True
                results.append("0")
                continue
            if grp:
                groups.append(grp)
            results.append("1")
            if k in BEGIN:
                stack.append([BEGIN[k], [], field, annots])
                field, annots = None, []
                continue
            v = (annots, body)
            if stack:
                stack[-1][1].append((field, v) if stack[-1][0] == "struct" else v)
            elif fixed:
                items.append(("val", v))
            else:
                cur.append(v)
            field, annots = None, []
        elif k in END:
            if not stack or stack[-1][0] != END[k]:
                raise Scope("end of the wrong container")
            kind, its, f, a = stack.pop()
            v = (a, (kind, its))
            if stack:
                stack[-1][1].append((f, v) if stack[-1][0] == "struct" else v)
            elif fixed:
                items.append(("val", v))
            else:
                cur.append(v)
            field, annots = None, []
            results.append("1")
        elif k == "FIN":
            if stack:
                raise Scope("Finish inside a container")
            results.append("1")
            field, annots = None, []
            if fixed:
                wrote = False
            else:
                items.append(("bvm",))
                if nontrivial or groups:
                    items.append(("lst", [list(g) for g in groups]))
                items += [("val", v) for v in cur]
                cur = []
                tops.append(sp.ntot + len(known))
            batch += 1
        else:
            raise Scope("call " + k)
    # symbol IDs asked for by number must exist in the table the stream declares for that batch
    for sid, b in sidonly:
        top = sp.maxid() if fixed else (tops[b] if b < len(tops) else sp.ntot + len(known))
        if sid < 0 or sid > top:
            raise Scope("symbol ID %d asked for by number is not in the table" % sid)
    return "".join(results), items, sp


# ---------------------------------------------------------------------------
# an independent parser of the binary output
# ---------------------------------------------------------------------------
class BadBytes(Exception):
    pass


def rd_varuint(b, i, end):
    v = 0
    while True:
        if i >= end:
            raise BadBytes("VarUInt runs past the end at %d" % i)
        c = b[i]
        i += 1
        v = (v << 7) | (c & 0x7F)
        if c & 0x80:
            return v, i


TYPE_NAME = {0: "null", 1: "bool", 2: "int", 3: "int", 4: "float", 5: "dec", 6: "ts", 7: "sym", 8: "str", 9: "clob",
             10: "blob", 11: "list", 12: "sexp", 13: "struct"}


# binary type code -> Ion type code of a typed null (null=1 bool=2 int=3 ...)
NULL_OF_TYPE = {0: 1, 1: 2, 2: 3, 3: 3, 4: 4, 5: 5, 6: 6, 7: 7, 8: 8, 9: 9, 10: 10, 11: 11, 12: 12, 13: 13}


def rd_value(b, i, end, in_wrapper=False):
    """-> ((annot ids, body), next index); symbols are IDs"""
    if i >= end:
        raise BadBytes("value expected at %d" % i)
    td = b[i]
    t, l = td >> 4, td & 15
    i += 1
    if t == 15:
        raise BadBytes("reserved type 15 at %d" % (i - 1))
    if t == 14:
        if in_wrapper:
            raise BadBytes("annotation wrapper inside an annotation wrapper")
        if l == 15 or l < 3 and l != 14:
            raise BadBytes("bad annotation wrapper length code %d" % l)
        n = l
        if l == 14:
            n, i = rd_varuint(b, i, end)
        if i + n > end:
            raise BadBytes("annotation wrapper runs past its container")
        wend = i + n
        alen, i = rd_varuint(b, i, wend)
        aend = i + alen
        if alen == 0 or aend >= wend:
            raise BadBytes("annotation wrapper without annotations or without value")
        ids = []
        while i < aend:
            s, i = rd_varuint(b, i, aend)
            ids.append(s)
        (a0, body), i = rd_value(b, i, wend, True)
        if i != wend:
            raise BadBytes("annotation wrapper length does not match its value")
        return (ids, body), i
    if l == 15:
        return ([], ("null", NULL_OF_TYPE[t])), i
    if t == 0:
        raise BadBytes("pad at %d: the writer has no reason to pad" % (i - 1))
    if t == 1:
        if l > 1:
            raise BadBytes("bool with length code %d" % l)
        return ([], ("bool", l == 1)), i
    n = l
    if l == 14 or (t == 13 and l == 1):
        n, i = rd_varuint(b, i, end)
    if i + n > end:
        raise BadBytes("value at %d runs past its container" % i)
    vend = i + n
    raw = bytes(b[i:vend])
    if t in (2, 3):
        z = int.from_bytes(raw, "big")
        if t == 3 and z == 0:
            raise BadBytes("negative zero int")
        return ([], ("int", -z if t == 3 else z)), vend
    if t == 7:
        return ([], ("sym", int.from_bytes(raw, "big"))), vend
    if t in (8, 9, 10):
        return ([], (TYPE_NAME[t], raw)), vend
    if t in (4, 5, 6):
        return ([], (TYPE_NAME[t], raw)), vend
    if t in (11, 12):
        its = []
        while i < vend:
            v, i = rd_value(b, i, vend)
            its.append(v)
        return ([], (TYPE_NAME[t], its)), vend
    its = []
    while i < vend:
        f, i = rd_varuint(b, i, vend)
        v, i = rd_value(b, i, vend)
        its.append((f, v))
    return ([], ("struct", its)), vend


def table_of(v):
    """imports / symbols of a top-level $ion_symbol_table struct, read strictly"""
    annots, body = v
    imports, symbols = [], []
    seen = set()
    for f, (fa, fb) in body[1]:
        if f in seen:
            raise BadBytes("symbol table repeats field %d" % f)
        seen.add(f)
        if fa:
            raise BadBytes("annotated field in the symbol table")
        if f == SID_IMPORTS:
            if fb[0] != "list":
                raise BadBytes("imports is not a list")
            for ea, eb in fb[1]:
                if ea or eb[0] != "struct":
                    raise BadBytes("import that is not a plain struct")
                d = {}
                for g, (ga, gb) in eb[1]:
                    if g in d or ga:
                        raise BadBytes("import repeats a field")
                    d[g] = gb
                if set(d) != {SID_NAME, SID_VERSION, SID_MAXID}:
                    raise BadBytes("import with fields %s (want name, version, max_id)" % sorted(d))
                if d[SID_NAME][0] != "str" or d[SID_VERSION][0] != "int" or d[SID_MAXID][0] != "int":
                    raise BadBytes("import with ill-typed fields")
                imports.append((d[SID_NAME][1], d[SID_VERSION][1], d[SID_MAXID][1]))
        elif f == SID_SYMBOLS:
            if fb[0] != "list":
                raise BadBytes("symbols is not a list")
            for ea, eb in fb[1]:
                if ea or eb[0] != "str":
                    raise BadBytes("symbols entry that is not a plain string")
                symbols.append(eb[1])
        else:
            raise BadBytes("symbol table with field %d" % f)
    return imports, symbols


def pdecode(data):
    """-> items ('bvm',) | ('lst', imports, symbols) | ('val', value with IDs)"""
    b = bytes(data)
    items = []
    i = 0
    while i < len(b):
        if b[i:i + 4] == BVM:
            items.append(("bvm",))
            i += 4
            continue
        if not items:
            raise BadBytes("no version marker at the start")
        v, i = rd_value(b, i, len(b))
        annots, body = v
        if annots and annots[0] == SID_LST and body[0] == "struct":
            imps, syms = table_of(v)
            items.append(("lst", imps, syms))
        else:
            items.append(("val", v))
    return items


# ---------------------------------------------------------------------------
# renderings of the expected values
# ---------------------------------------------------------------------------
def occ_sid(occ, sp):
    text, sid = occ
    return sid if text is None else sp.lowest(text)


def occ_text(occ, sp):
    text, sid = occ
    return sp.text_of(sid) if text is None else text


def flat_ids(v, sp, out, field=None, expected=True):
    """the shape of a value with every symbol ID, for the comparison of the bytes with the calls"""
    annots, body = v
    sid = (lambda o: occ_sid(o, sp)) if expected else (lambda o: o)
    if field is not None:
        out.append("f%s" % sid(field))
    out += ["a%s" % sid(a) for a in annots]
    k = body[0]
    if k == "sym":
        out.append("y%s" % sid(body[1]))
    elif k in ("list", "sexp"):
        out.append(k)
        for x in body[1]:
            flat_ids(x, sp, out, None, expected)
        out.append("end")
    elif k == "struct":
        out.append(k)
        for f, x in body[1]:
            flat_ids(x, sp, out, f, expected)
        out.append("end")
    elif k == "null":
        out.append("null:%d" % body[1])
    else:
        out.append("%s:%s" % (k, body[1].hex() if isinstance(body[1], bytes) else body[1]))
    return out


def by_text(v, sp):
    """the value in iongen's form, symbols by text (or ('sid', n) where the slot has no text)"""
    def tx(o):
        t = occ_text(o, sp)
        return ("sid", o[1]) if t is None else t
    annots, body = v
    k = body[0]
    if k == "sym":
        nb = ("sym", tx(body[1]))
    elif k in ("list", "sexp"):
        nb = (k, [by_text(x, sp) for x in body[1]])
    elif k == "struct":
        nb = (k, [(tx(f), by_text(x, sp)) for f, x in body[1]])
    else:
        nb = body
    return ([tx(a) for a in annots], nb)


def trace_tok(o, sp):
    t = occ_text(o, sp)
    s = occ_sid(o, sp)
    return "u.%d" % s if t is None else "k%s.%d" % (t.hex(), s)


TY = {"bool": 2, "int": 3, "sym": 7, "str": 8, "clob": 9, "blob": 10, "list": 11, "sexp": 12, "struct": 13}


def trace_value(v, sp, field, out):
    """the plain full traversal of the real Reader (harness/cmd/vh/reader.go traverse), tokens with text AND ID"""
    annots, body = v
    out += ["T", "nil" if field is None else trace_tok(field, sp),
            "a[" + "".join(trace_tok(a, sp) + ";" for a in annots) + "]"]
    k = body[0]
    if k == "null":
        out += ["y%d" % body[1], "n1"]
        return
    out += ["y%d" % TY[k], "n0"]
    if k == "bool":
        out.append("b1" if body[1] else "b0")
    elif k == "int":
        out.append("I%d" % body[1])
    elif k == "sym":
        out.append(trace_tok(body[1], sp))
    elif k == "str":
        out.append("S" + hx(body[1]))
    elif k in ("clob", "blob"):
        out.append("B" + hx(body[1]))
    else:
        out.append("ok")
        for x in body[1]:
            if k == "struct":
                trace_value(x[1], sp, x[0], out)
            else:
                trace_value(x, sp, None, out)
        out += ["F", "ok"]


# ---------------------------------------------------------------------------
# the two decoders (batched + cached; a single request falls back to one process each)
# ---------------------------------------------------------------------------
MODEL_CACHE, GO_CACHE = {}, {}


def ask(cache, runner, reqs):
    miss = sorted({r for r in reqs if r not in cache})
    if miss:
        for r, o in zip(miss, runner(miss)):
            cache[r] = o
    return [cache[r] for r in reqs]


def ask_model(reqs):
    return ask(MODEL_CACHE, run_model, reqs)


def ask_go(reqs):
    return ask(GO_CACHE, run_go, reqs)


def decoder_requests(req, bytes_hex):
    d = " ".join([bytes_hex] + req.desc_tokens)
    return "sdecodecat " + d, "cattrav 0 " + d


def unlimited(line):
    t = line.split(" ")
    t[1] = "-"
    return " ".join(t)


def prefetch(lines):
    outs = ask_go(lines)
    more_go, more_model = [], []
    for ln, o in zip(lines, outs):
        try:
            req = parse_request(ln)
        except Exception:
            continue
        if req.budget is not None:
            more_go.append(unlimited(ln))
            continue
        g = o.split(" ")
        if g[0] == "ok" and len(g) == 4:
            s, c = decoder_requests(req, g[2])
            more_model.append(s)
            more_go.append(c)
    ask_go(more_go)
    ask_model(more_model)


# ---------------------------------------------------------------------------
# the oracle
# ---------------------------------------------------------------------------
def show_t(t):
    return "''" if t == b"" else repr(t.decode("utf-8", "replace"))


def judge_table(it, exp, req, sp, fixed):
    """a declared table against the request; returns (problem or None)"""
    _, imps, syms = it
    want = [(tb.name, tb.ver, tb.maxid) for tb in req.tables]
    if imps != want:
        return "the stream declares imports %r, the writer was given %r (name, version, max_id)" % (imps, want)
    if fixed:
        if syms != req.locals:
            return "the stream declares local symbols %r, the fixed table has %r" % (syms, req.locals)
        return None
    groups = exp[1]
    for t in syms:
        s = sp.in_imports(t)
        if s is not None:
            return "text %s is defined locally although import/system slot %d carries it" % (show_t(t), s)
    if len(set(syms)) != len(syms):
        return "the local symbols list repeats a text: %r" % (syms,)
    flat = [t for g in groups for t in g]
    if sorted(syms) != sorted(flat):
        return "local symbols %r, the texts used that no import carries are %r" % (syms, flat)
    i = 0
    for g in groups:
        if sorted(syms[i:i + len(g)]) != sorted(g):
            return "local symbols %r are not in first-use order %r" % (syms, flat)
        i += len(g)
    return None


def first_diff(a, b):
    for i in range(max(len(a), len(b))):
        x = a[i] if i < len(a) else "<end>"
        y = b[i] if i < len(b) else "<end>"
        if x != y:
            return i, x, y
    return None


def judge(line, go):
    try:
        req = parse_request(line)
    except Scope:
        stat("not-judged: not a C11 request")
        return None
    g = go.split(" ")
    if g[0] in ("panic", "fatal", "timeout", "harnesserror") or go == "":
        return "real code: " + go[:120]
    if g[0] != "ok" or len(g) != 4:
        return None if g[0] == "badinput" else "unexpected answer: " + go[:120]
    results, out_hex = g[1][1:], g[2]
    data = unhx(out_hex)
    if req.tables and req.tables[0].name == b"$ion":
        # out of scope: a first table named $ion replaces the system table in the builder (ion-go's documented
        # substitution rule).  Recorded, not judged.
        s, c = decoder_requests(req, out_hex)
        stat("not-judged: first table named $ion (probe)")
        NOTES.append("probe: first table named $ion: %s => %s ; Reader with the same catalog: %s" %
                     (line, go, ask_go([c])[0][:300]))
        return None
    if any(tb.name in (b"", b"$ion") for tb in req.tables) or len({tb.name for tb in req.tables}) != len(req.tables):
        stat("not-judged: table names outside the quantifier")
        return None
    fixed = req.cmd == "bwlsh"
    if req.budget is not None:
        # a failing sink: whatever reached the sink is a prefix of what an unfailing sink receives
        full = ask_go([unlimited(line)])[0].split(" ")
        if full[0] == "ok" and len(full) == 4 and not full[2].startswith(out_hex):
            return "with a failing sink the output %s is not a prefix of the full output %s" % (out_hex, full[2])
        stat("judged: failing sink, output is a prefix of the full output")
        return None
    try:
        want_results, want_items, sp0 = simulate(req)
    except Scope as e:
        stat("not-judged: " + str(e).split(" ID ")[0][:40])
        return None
    if results != want_results:
        i = first_diff(results, want_results)[0]
        call = " ".join(req.calls[i]) if i < len(req.calls) else "?"
        if fixed and i < len(results) and results[i] == "1":
            return ("call %d (%s) succeeded although %s (results %s, expected %s)" %
                    (i, call, "an earlier call had failed" if "0" in want_results[:i] else
                     "its text is not in the fixed table", results, want_results))
        return "call %d (%s) returned %s, expected results %s, got %s" % (i, call, results[i:i + 1] or "nothing", want_results, results)
    try:
        items = pdecode(data)
    except BadBytes as e:
        return "the output is not well-formed Ion binary: %s" % e
    except IndexError:
        return "the output is truncated"
    kinds = [it[0] for it in items]
    wkinds = [it[0] for it in want_items]
    if kinds != wkinds:
        d = first_diff(kinds, wkinds)
        return ("top-level item %d of the output is %s, expected %s (items %s, expected %s)" %
                (d[0], d[1], d[2], " ".join(kinds), " ".join(wkinds)))
    sp = sp0.with_locals(sp0.locals)
    vals = []          # (expected value, space of its batch)
    for it, exp in zip(items, want_items):
        if it[0] == "bvm":
            sp = sp0.with_locals(sp0.locals if fixed else [])
        elif it[0] == "lst":
            why = judge_table(it, exp, req, sp0, fixed)
            if why:
                return why
            sp = sp0.with_locals(it[2])
        else:
            got = flat_ids(it[1], None, [], None, False)
            want = flat_ids(exp[1], sp, [], None, True)
            if got != want:
                d = first_diff(got, want)
                return ("value bytes differ from the calls at token %d: written %s, the lowest ID / value is %s "
                        "(written %s ; expected %s)" % (d[0], d[1], d[2], " ".join(got)[:200], " ".join(want)[:200]))
            if fixed:
                top = sp.maxid()
                for t in got:
                    if t[0] in "fay" and t[1:].isdigit() and int(t[1:]) > top:
                        return "symbol ID %s in the output exceeds the table's max ID %d" % (t[1:], top)
            vals.append((exp[1], sp))
    stat("judged in full: %s table, %s" % ("fixed" if fixed else "growing", "a call refused" if "0" in results else "all calls accepted"))
    if not data:
        return None     # nothing reached the output and nothing had to (no Finish / no value): an empty document
    # the two decoders holding the same tables
    sreq, creq = decoder_requests(req, out_hex)
    sdec = ask_model([sreq])[0]
    if not sdec.startswith("ok"):
        return "the specification decoder with the same tables rejects the output (%s)" % sdec[:60]
    want_show = iongen.show_forest([by_text(v, s) for v, s in vals])
    got_show = iongen.canon_spec_obs(sdec[3:])
    if got_show != want_show:
        return "the output denotes '%s' under the same tables, the calls wrote '%s'" % (got_show[:300], want_show[:300])
    tr = []
    for v, s in vals:
        trace_value(v, s, None, tr)
    want_tr = " ".join(tr + ["F", "e0", "F", "e0", "F", "e0"])
    got_tr = ask_go([creq])[0]
    if got_tr != want_tr:
        return "a Reader holding the same tables reads '%s', expected '%s'" % (got_tr[:300], want_tr[:300])
    return None


STATS = {}


def stat(k):
    STATS[k] = STATS.get(k, 0) + 1


def oracle(line, go):
    try:
        return judge(line, go)
    except Exception as e:      # an answer that cannot even be parsed
        return "oracle could not interpret the answer (%s: %s): %s" % (type(e).__name__, e, go[:160])


def classify_case(line, m, g):
    """known-finding classes for C11 (none so far)"""
    return None


# ---------------------------------------------------------------------------
# generators
# ---------------------------------------------------------------------------
TABLE_TEXTS = [b"a", b"b", b"c", b"d", b"e", b"name", b"symbols", b"$ion", b"max_id", b"", b"", b"a", b"b"]
OUTSIDE = [b"x", b"y", b"zz", b"fresh", b"version2", b"$ion_2_0", "é".encode(), b"q" * 14]
SYSTEXTS = [b"name", b"symbols", b"$ion", b"imports", b"version", b"max_id", b"$ion_1_0", b"$ion_symbol_table",
            b"$ion_shared_symbol_table"]
NAMES = [b"t", b"u", b"v", b"tbl/x", "é".encode(), b"name", b"$ion_1_0"]


def gen_tables(rng, nmax=3):
    n = rng.choice([0, 1, 1, 2, 2, 3][:2 * nmax])
    names = rng.sample(NAMES, n)
    out = []
    for nm in names:
        k = rng.choice([0, 1, 2, 3, 3, 4, 5])
        syms = [rng.choice(TABLE_TEXTS) for _ in range(k)]
        adjs = [rng.choice([0, 1, max(k - 1, 0), k, k + 1, k + 3, rng.randint(0, 7)]) for _ in range(rng.choice([0, 0, 1, 1, 2]))]
        out.append(Table(nm, rng.randint(1, 3), syms, adjs))
    return out


class CallGen:
    """random well-formed call sequences whose symbol tokens draw text from `inside` and `outside`"""

    def __init__(self, rng, tables, flocals, p_out, p_sid, sfs=True):
        self.rng = rng
        self.sp = Space(tables, flocals)
        inside = [t for tb in tables for t in tb.syms if t != b""]        # incl. what an Adjust cut away
        inside += [t for t in (flocals or []) if t != b""]
        self.inside = inside + SYSTEXTS[:6] if inside else list(SYSTEXTS)
        self.p_out, self.p_sid, self.sfs = p_out, p_sid, sfs
        self.used = []
        self.fresh = 0

    def text(self):
        r = self.rng.random()
        if r < self.p_out:
            q = self.rng.random()
            if q < 0.45:
                t = self.rng.choice(OUTSIDE)
            elif q < 0.55:
                t = b""
            elif q < 0.75 and self.used:
                t = self.rng.choice(self.used)
            else:
                self.fresh += 1
                t = b"loc%d" % self.fresh
        elif r < self.p_out + 0.2:
            t = self.rng.choice(SYSTEXTS)
        else:
            t = self.rng.choice(self.inside)
        self.used.append(t)
        return t

    def token(self, first_annot_of_top_struct=False):
        while True:
            if self.rng.random() < self.p_sid:
                sid = self.rng.choice([0, 1, 4, 9, 10, self.sp.ntot, self.rng.randint(0, self.sp.maxid())])
                if self.rng.random() < 0.1:
                    # beyond the imports: a local of a growing table if one gets that ID, else outside any table
                    # (such lines only tie the model, the oracle does not judge IDs the caller made up)
                    sid = self.sp.maxid() + self.rng.randint(1, 3)
                elif sid > self.sp.maxid():
                    continue
                if first_annot_of_top_struct and sid == SID_LST:
                    continue
                return "tk,-,%d" % sid
            t = self.text()
            if first_annot_of_top_struct and t == b"$ion_symbol_table":
                continue
            return "tk,%s,%d" % (hx(t), self.rng.choice([-1, -1, -1, 0, 3, 12, 99]))

    def value(self, depth, in_struct, top):
        rng = self.rng
        out = []
        if in_struct:
            out += ["FN", self.token()]
        r = rng.random()
        kind = "sym"
        if depth > 0 and r < 0.3:
            kind = rng.choice(["BL", "BS", "BT", "BT"])
        elif r < 0.85:
            kind = "sym"
        else:
            kind = rng.choice(["INT", "STR", "BOOL", "NULL", "NT", "BLOB"])
        if rng.random() < 0.35:
            n = rng.choice([1, 1, 2, 3])
            # a top-level value whose first annotation is $ion_symbol_table is a symbol table (the Reader also takes
            # $ion_symbol_table::null.struct for one), not a user value: never generated
            toks = [self.token(first_annot_of_top_struct=(top and i == 0)) for i in range(n)]
            if n > 1 and rng.random() < 0.5:
                out += ["ANS", str(n)] + toks
            else:
                for t in toks:
                    out += ["AN", t]
        if kind == "sym":
            t = None
            if self.sfs and rng.random() < 0.3:
                if rng.random() < 0.06:
                    out += ["SFS", hx(b"$%d" % rng.randint(0, self.sp.maxid()))]
                    return out
                t = self.text()
                if not iongen.looks_like_sid(t):
                    out += ["SFS", hx(t)]
                    return out
                out += ["SYM", "tk,%s,-1" % hx(t)]
                return out
            out += ["SYM", self.token()]
        elif kind in ("BL", "BS", "BT"):
            out.append(kind)
            for _ in range(rng.choice([0, 1, 2, 2, 3, 4])):
                out += self.value(depth - 1, kind == "BT", False)
            out.append({"BL": "EL", "BS": "ES", "BT": "ET"}[kind])
        elif kind == "INT":
            out += ["INT", str(rng.choice([0, 1, -1, 255, 70000, -2 ** 63]))]
        elif kind == "STR":
            out += ["STR", hx(rng.choice([b"", b"a", b"name", b"s" * 14]))]
        elif kind == "BOOL":
            out += ["BOOL", rng.choice(["0", "1"])]
        elif kind == "NULL":
            out += ["NULL"]
        elif kind == "NT":
            out += ["NT", str(rng.choice([1, 7, 8, 13, 11]))]
        else:
            out += ["BLOB", hx(bytes([1, 2, 3][:rng.randint(0, 3)]))]
        return out

    def batches(self, nb, final_fin=True):
        out = []
        for b in range(nb):
            for _ in range(self.rng.choice([0, 1, 2, 3, 4, 6])):
                out += self.value(self.rng.choice([0, 1, 2, 3]), False, True)
            if b < nb - 1 or final_fin:
                out.append("FIN")
        return out


def line_shared(tables, calls, budget="-"):
    return " ".join(["bwsh", budget] + [x for tb in tables for x in tb.desc()] + ["--"] + calls)


def line_fixed(tables, flocals, calls, budget="-"):
    return " ".join(["bwlsh", budget] + [x for tb in tables for x in tb.desc()] +
                    ["L", str(len(flocals))] + [hx(x) for x in flocals] + ["--"] + calls)


def line_fixed_builder(tables, flocals, extra, calls, budget="-"):
    """the same writer, but its fixed table is symbolTableBuilder.Build() and `extra` is added to the builder afterwards"""
    return " ".join(["bwlshb", budget] + [x for tb in tables for x in tb.desc()] +
                    ["L", str(len(flocals))] + [hx(x) for x in flocals] +
                    ["X", str(len(extra))] + [hx(x) for x in extra] + ["--"] + calls)


SYSTEM_TEXTS = [b"$ion", b"$ion_1_0", b"$ion_symbol_table", b"name", b"version", b"imports", b"symbols", b"max_id",
                b"$ion_shared_symbol_table"]


def builder_equals_literal(tables, flocals):
    """Build() of a builder fed with flocals is NewLocalSymbolTable(tables, flocals) when Add skips nothing"""
    seen = set(SYSTEM_TEXTS)
    for tb in tables:
        seen.update(x for x in tb.slots() if x is not None)
    for x in flocals:
        if x in seen or x == b"":          # Add("") is indexed by the builder but never by NewLocalSymbolTable (C09 known finding)
            return False
        seen.add(x)
    return True


def lists_upto(alpha, n):
    import itertools
    out = []
    for k in range(n + 1):
        out += [list(p) for p in itertools.product(alpha, repeat=k)]
    return out


def tk(t):
    return "tk,%s,-1" % hx(t)


def gen_shared(ctx):
    rng = ctx.rng
    lines = []
    # small space, exhaustively: one table over {"",a,b} of size <= 2, un-adjusted or max_id 0,1,3, and two
    # symbol values over {a,b,"",name,x} split over one or two batches
    step = ctx.scale(2, 1)
    k = 0
    for syms in lists_upto([b"", b"a", b"b"], 2):
        for adj in ([], [0], [1], [3]):
            for t1 in (b"a", b"b", b"", b"name", b"x"):
                for t2 in (b"a", b"b", b"", b"name", b"x"):
                    k += 1
                    if k % step:
                        continue
                    tb = Table(b"t", 1, syms, adj)
                    mid = ["FIN"] if (k // step) % 3 == 0 else []
                    lines.append(line_shared([tb], ["SYM", tk(t1)] + mid + ["BT", "FN", tk(t2), "AN", tk(t1), "SFS", hx(t2), "ET", "FIN"]))
    # two tables carrying the same text, the first cut below it / padded beyond its symbols
    for m1 in (0, 1, 2, 4):
        for m2 in (0, 1, 2, 4):
            t1 = Table(b"t", 1, [b"a", b"b"], [m1])
            t2 = Table(b"u", 2, [b"b", b"a", b"b"], [m2])
            lines.append(line_shared([t1, t2], ["SYM", tk(b"a"), "SYM", tk(b"b"), "AN", tk(b"c"), "SYM", tk(b"c"), "FIN",
                                                "SYM", tk(b"d"), "SYM", tk(b"b"), "FIN"]))
    # boundaries by hand
    lines += [
        line_shared([], ["FIN"]),
        line_shared([], ["FIN", "FIN"]),
        line_shared([], ["INT", "1", "FIN"]),
        line_shared([], ["SYM", tk(b"name"), "FIN", "SYM", tk(b"x"), "FIN", "SYM", tk(b"name"), "FIN"]),
        line_shared([Table(b"t", 1, [], [])], ["FIN"]),
        line_shared([Table(b"t", 1, [], [5])], ["SYM", "tk,-,14", "SYM", tk(b"x"), "SYM", "tk,-,15", "FIN"]),
        line_shared([Table(b"t", 3, [b"a"], [0, 4])], ["SYM", tk(b"a"), "FIN"]),
        line_shared([Table(b"t", 1, [b"a"], [])], ["SYM", tk(b"a"), "SYM", tk(b"x")]),           # never flushed
        line_shared([Table(b"t", 1, [b"$ion_symbol_table", b"x"], [])], ["SYM", tk(b"x"), "SYM", tk(b"$ion_symbol_table"), "FIN"]),
        line_shared([Table(b"t", 1, [b"x"] * 130, [])] + [Table(b"u", 1, [b"y"], [])],
                    ["BT", "FN", tk(b"y"), "ANS", "2", tk(b"y"), tk(b"w"), "SYM", tk(b"y"), "ET", "FIN"]),  # IDs of two VarUInt bytes
        # the one probe of the substitution rule (out of the property's scope)
        line_shared([Table(b"$ion", 1, [b"a", b"b"], [])], ["SYM", tk(b"a"), "SYM", tk(b"name"), "FIN"]),
    ]
    for _ in range(ctx.scale(4000, 60000)):
        tables = gen_tables(rng)
        g = CallGen(rng, tables, None, rng.choice([0.15, 0.3, 0.3, 0.5]), rng.choice([0, 0, 0.08, 0.15]))
        calls = g.batches(rng.choice([1, 1, 2, 2, 3]), final_fin=rng.random() < 0.95)
        lines.append(line_shared(tables, calls))
    return lines


def gen_locals(rng, tables):
    pool = [t for tb in tables for t in tb.syms] + [b"x", b"y", b"zz", b"", b"a", b"name", b"fresh"]
    return [rng.choice(pool) for _ in range(rng.choice([0, 1, 2, 3, 4, 5]))]


def gen_fixed(ctx):
    rng = ctx.rng
    lines = []
    step = ctx.scale(3, 1)
    k = 0
    for syms in lists_upto([b"", b"a", b"b"], 2):
        for adj in ([], [0], [1], [3]):
            for locs in ([], [b"a"], [b"x", b"a", b"x"], [b""]):
                for t1 in (b"a", b"b", b"", b"name", b"x"):
                    for t2 in (b"a", b"b", b"", b"x"):
                        k += 1
                        if k % step:
                            continue
                        tb = Table(b"t", 1, syms, adj)
                        shape = (k // step) % 3
                        if shape == 0:
                            calls = ["SYM", tk(t1), "SYM", tk(t2), "INT", "1", "FIN"]
                        elif shape == 1:
                            calls = ["AN", tk(t1), "INT", "1", "FIN", "BT", "FN", tk(t2), "INT", "2", "ET", "FIN"]
                        else:
                            calls = ["BL", "SFS", hx(t1), "EL", "AN", tk(t2), "BS", "ES", "INT", "3", "FIN"]
                        lines.append(line_fixed([tb], locs, calls))
    lines += [
        line_fixed([], [], ["FIN"]),
        line_fixed([], [], ["INT", "1", "FIN", "FIN", "SYM", tk(b"name"), "FIN", "SYM", tk(b"x"), "INT", "2"]),
        line_fixed([], [b"x"], ["SYM", tk(b"x"), "FIN", "SYM", tk(b"x"), "FIN"]),
        line_fixed([], [b"", b"x", b"x"], ["SYM", "tk,-,10", "SYM", tk(b"x"), "SYM", "tk,-,12", "SYM", tk(b""), "INT", "1"]),
        line_fixed([Table(b"t", 1, [b"a"], [0])], [], ["INT", "1", "SYM", tk(b"a"), "FIN"]),
        line_fixed([Table(b"t", 1, [b"a"], [0])], [b"a"], ["INT", "1", "SYM", tk(b"a"), "FIN"]),
        line_fixed([Table(b"t", 1, [b"a"], [3])], [b"a"], ["BT", "FN", tk(b"a"), "BT", "FN", tk(b"b"), "INT", "1", "ET", "ET", "INT", "2", "FIN"]),
        line_fixed([Table(b"t", 1, [b"x"] * 130, [])], [b"y"], ["BT", "FN", tk(b"y"), "ANS", "2", tk(b"y"), tk(b"x"), "SYM", tk(b"y"), "ET", "FIN"]),
    ]
    for _ in range(ctx.scale(4000, 60000)):
        tables = gen_tables(rng)
        locs = gen_locals(rng, tables)
        g = CallGen(rng, tables, locs, rng.choice([0, 0, 0, 0.03, 0.08, 0.2]), rng.choice([0, 0, 0.08, 0.15]))
        calls = g.batches(rng.choice([1, 1, 2, 2, 3]), final_fin=rng.random() < 0.9)
        lines.append(line_fixed(tables, locs, calls))
        if builder_equals_literal(tables, locs) and rng.random() < 0.5:
            # the table as a builder's snapshot; the builder then learns every text the calls mention (and two more)
            used = sorted({bytes.fromhex(m) for m in re.findall(r"tk,x([0-9a-f]*),", " ".join(calls))} |
                          {bytes.fromhex(m) for m in re.findall(r"SFS x([0-9a-f]*)", " ".join(calls))})
            lines.append(line_fixed_builder(tables, locs, used + [b"later1", b"later2"], calls))
    for locs, extra, calls in (
            ([b"x"], [b"y"], ["SYM", tk(b"x"), "SYM", tk(b"y"), "FIN"]),
            ([b"x"], [b"y", b"z"], ["AN", tk(b"y"), "INT", "1", "FIN"]),
            ([], [b"y"], ["BT", "FN", tk(b"y"), "INT", "1", "ET", "FIN"]),
            ([b"a", b"b"], [b"c"], ["SFS", hx(b"c"), "SYM", tk(b"b"), "FIN", "SYM", tk(b"c"), "FIN"])):
        lines.append(line_fixed_builder([], locs, extra, calls))
        lines.append(line_fixed_builder([Table(b"t", 1, [b"q", b"r"], [])], locs, extra, calls))
    return lines


def gen_budget(ctx):
    rng = ctx.rng
    lines = []
    for _ in range(ctx.scale(400, 6000)):
        tables = gen_tables(rng, 2)
        bud = str(rng.choice([0, 1, 2, 3, 3, 5, 8, 13, 21]))
        if rng.random() < 0.5:
            g = CallGen(rng, tables, None, 0.3, 0)
            lines.append(line_shared(tables, g.batches(2), bud))
        else:
            locs = gen_locals(rng, tables)
            g = CallGen(rng, tables, locs, rng.choice([0, 0.05]), 0)
            lines.append(line_fixed(tables, locs, g.batches(2), bud))
    return lines


def run(ctx):
    nt = lambda ln, m: m is not None and m.startswith("ok")
    sh, fx, bd = gen_shared(ctx), gen_fixed(ctx), gen_budget(ctx)
    prefetch(sh + fx + bd)
    del NOTES[:]
    STATS.clear()
    ctx.correspond("K8-writer-shared", sh, oracle=oracle, classify=classify_case, nontrivial=nt)
    ctx.correspond("K8-writer-fixed", fx, oracle=oracle, classify=classify_case, nontrivial=nt)
    ctx.correspond("K8-writer-budget", bd, oracle=oracle, classify=classify_case, nontrivial=nt)
    for n in NOTES[:3]:
        ctx.notes.append(n)
    # how much of the quantifier the sample reached (recorded in the evidence)
    st = {"fixed_lines_with_refusal": 0, "fixed_lines_all_accepted": 0, "shared_lines_with_locals": 0}
    for ln in fx:
        o = GO_CACHE.get(ln, "")
        if o.startswith("ok r"):
            st["fixed_lines_with_refusal" if "0" in o.split(" ")[1] else "fixed_lines_all_accepted"] += 1
    for ln in sh:
        o = GO_CACHE.get(ln, "").split(" ")
        if len(o) == 4 and "87b" in o[2]:
            st["shared_lines_with_locals"] += 1
    ctx.notes.append("C11 sample: %r ; oracle paths: %r" % (st, STATS))


LEVEL = "other"
ASSUMPTIONS = [
    "Go == model only on the inputs sampled",
    "tables are ion-go's own shared tables (NewSharedSymbolTable + Adjust) with distinct names other than '' and '$ion'; "
    "a first table named $ion replaces the system table in the builder and is outside the property (one probe, recorded in notes)",
    "a \"\" entry of a shared table is a gap (never found by text); the empty text written through a growing table is a local "
    "like any other, a fixed table never finds it",
    "symbol IDs asked for by number (tokens without text, WriteSymbolFromString(\"$n\")) are written as given; only IDs inside "
    "the table are judged",
]
EXPLANATION = (
    "Theorems over the Gallina model Bin/BinWriterSh.v of binarywriter.go driven through symboltable.go's builder / fixed table. "
    "The model is tied to the Go code by the same request lines (K8-writer-shared: bwsh, K8-writer-fixed: bwlsh, K8-writer-budget: "
    "both with a failing sink): 0..3 shared tables with distinct names, versions 1..3, 0..5 symbols over a 9-text alphabet that "
    "overlaps between tables and with the system symbols, '' gaps and duplicates, 0..2 Adjust calls (0, below, equal, beyond the symbol "
    "count); call sequences of 1..3 Finish batches whose symbol values, annotations, field names and WriteSymbolFromString calls draw "
    "text inside the tables (incl. text an Adjust cut away and text in two tables), system text, and outside (fresh and repeated), "
    "tokens with a stale LocalSID next to the text, tokens by ID only; fixed tables NewLocalSymbolTable(imports, locals) with locals "
    "overlapping the imports, '' and duplicate locals; plus the small space one table over {'',a,b}^<=2 x {no Adjust, 0, 1, 3} x two "
    "texts over {a,b,'',name,x} exhaustively (every 2nd/3rd in the quick tier).  The oracle judges the REAL code's answer: "
    "an independent Python parser of the output bytes finds a version marker per batch followed by a $ion_symbol_table struct whose "
    "imports are exactly the given (name, version, max_id after Adjust) in order and whose symbols are exactly the texts used that no "
    "import slot within max_id carries, once each, in first-use order (no table when there is nothing to declare); every symbol ID in "
    "the bytes is the LOWEST ID carrying the text in the ID space system + imports trimmed/padded to max_id + declared locals; the "
    "specification decoder with the same catalog (sdecodecat) returns the values written, symbols by text; the real Reader with the "
    "same catalog (cattrav) returns the same texts AND IDs.  Fixed table: the value call that consumes a token whose text the table does "
    "not carry returns an error, so does every later call, the output holds exactly the top-level values completed before it (each "
    "batch's marker and table only when a value of the batch reached the output), no ID exceeds the table's max ID.")
