"""C08 — what a Reader returns does not depend on how the caller navigated (binary part; text in textreader_k5)."""
from vlib import *
import iongen
import binlib
import cursor

import textreader_k5
THEOREMS = ["C08bin_skip_takes_value", "C08bin_skip_equals_read", "C08bin_step_out_lands", "C08bin_position_determines_input", "C08bin_next_stays_inside", "C08bin_read_stays_inside", "tr_skip_container_frame", "tr_progress_skip_container", "tr_next_spec"]
LEVEL = "other"
TRUSTED_EXTRA = getattr(textreader_k5, "TRUSTED_EXTRA", [])
EXPLANATION = ("valid binary documents (spec-derived encoder with representation freedom) x navigation programs over "
               "{Next, StepIn, StepOut, Type, IsNull, IsInStruct, FieldName, Annotations, Err, every accessor} including "
               "refused calls, checked against a reference cursor over the document's value tree (lib/cursor.py); K2 ties "
               "the reader model (Bin/BinReader.v r_run) to the real Reader on the same programs.")


def run(ctx):
    rng = ctx.rng
    forests = binlib.gen_forests(ctx, ctx.scale(500, 10000), {"depth": 4, "p_container": 0.45})
    docs = binlib.encode_docs(ctx, forests, True)
    lines, exp = [], []
    nprog = ctx.scale(8, 20)
    for f, d in zip(forests, docs):
        for _ in range(nprog):
            p = cursor.gen_program(f, rng, rng.choice([6, 12, 25, 60]))
            lines.append("brd 0 %s %s" % (iongen.hx(d), " ".join(p)))
            exp.append(cursor.run_program(f, p))
    mo, go = ctx.correspond("K2-binreader-programs", lines, canon=binlib.canon_trace_full,
                            nontrivial=lambda ln, m: " T" in (" " + m))
    ok = 0
    for ln, e, g in zip(lines, exp, go):
        if iongen.project_trace(g) != e:
            ctx.fail("property", "C08-binary", ln, "reader '%s' ; reference cursor '%s'" % (iongen.project_trace(g)[:400], e[:400]))
        else:
            ok += 1
    ctx.count("C08-binary", len(lines), [], agree=ok, sample={"program": lines[7][:200], "trace": exp[7][:200]})


_run_binary = run


def run(ctx):
    _run_binary(ctx)
    textreader_k5.run(ctx)    # text: K5 (model vs real reader) on traversals and navigation programs, skip vs read documents
