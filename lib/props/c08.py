"""C08 — what a Reader returns does not depend on how the caller navigated (binary part; text in textreader_k5)."""
from vlib import *
import iongen
import binlib
import cursor

import textreader_k5
THEOREMS = ["C08bin_skip_takes_value", "C08bin_skip_equals_read", "C08bin_step_out_lands", "C08bin_position_determines_input", "C08bin_next_stays_inside", "C08bin_read_stays_inside", "tr_skip_container_frame", "tr_progress_skip_container", "tr_next_spec", "c08t_skip_string", "c08t_skip_symbol_quoted", "c08t_skip_long_string", "c08t_skip_blob", "c08t_skip_clob", "c08t_skip_long_clob", "c08t_skipper_tree", "c08t_skip_container_helper", "c08t_skip_value", "c08t_skip_equals_read", "c08t_settled_next", "c08t_step_out_early", "c08t_nav_tree", "c08t_nav_stream", "c08t_nav_stream_end", "c08t_full_plan", "c08t_step_in_refused", "c08t_step_out_refused", "c08t_accessor_keeps_state"]
EXTRA_MODULES = ["C08text"]
LEVEL = "other"
TRUSTED_EXTRA = getattr(textreader_k5, "TRUSTED_EXTRA", [])
EXPLANATION = ("valid binary documents (spec-derived encoder with representation freedom) x navigation programs over "
               "{Next, StepIn, StepOut, Type, IsNull, IsInStruct, FieldName, Annotations, Err, every accessor} including "
               "refused calls, checked against a reference cursor over the document's value tree (lib/cursor.py); K2 ties "
               "the reader model (Bin/BinReader.v r_run) to the real Reader on the same programs.")


ACC = {2: "BO", 3: "BI", 4: "FL", 5: "DE", 6: "TS", 7: "SY", 8: "ST", 9: "BY", 10: "BY"}


def observe(c, prog, n):
    """n times: Next, then everything observable about the value the cursor stands on"""
    for _ in range(n):
        for o in ("N", "TY", "NU", "AN"):
            prog.append(o)
            c.op(o)
        if c.cur is not None:
            o = ACC.get(c.typ(), "IS")
            prog.append(o)
            c.op(o)


def stepout_programs(forest, limit=40):
    """leave every container (two levels deep) at every position: standing on child k for each k, and after the end;
    then observe the following siblings.  What comes after a container must not depend on where it was left."""
    progs = []
    for i, (_, body) in enumerate(forest):
        if body[0] not in ("list", "sexp", "struct"):
            continue
        for k in range(0, len(body[1]) + 2):
            c = cursor.Cursor(forest)
            prog = []
            for o in ["N"] * (i + 1) + ["SI"] + ["N"] * k + ["SO"]:
                prog.append(o)
                c.op(o)
            observe(c, prog, 2)
            progs.append(prog)
            # one level deeper: into child k, onto each of its children, out twice
            if 1 <= k <= len(body[1]):
                inner = body[1][k - 1]
                inner = inner[1] if body[0] == "struct" else inner
                if inner[1][0] in ("list", "sexp", "struct"):
                    for k2 in range(0, len(inner[1][1]) + 2):
                        c = cursor.Cursor(forest)
                        prog = []
                        for o in ["N"] * (i + 1) + ["SI"] + ["N"] * k + ["SI"] + ["N"] * k2 + ["SO"]:
                            prog.append(o)
                            c.op(o)
                        observe(c, prog, 1)
                        prog.append("SO")
                        c.op("SO")
                        observe(c, prog, 1)
                        progs.append(prog)
            if len(progs) >= limit:
                return progs
    return progs


def null_last_forests():
    """containers whose last child is a null of every type, followed by a non-null sibling"""
    fs = []
    tails = [([], ("int", 5)), ([], ("struct", [(b"c", ([], ("int", 2)))])), ([], ("str", b"tail")), ([b"a"], ("list", [([], ("int", 1))]))]
    for ty in [iongen.TNULL] + list(range(1, 14)):
        nul = ([], ("null", ty))
        anul = ([b"ann"], ("null", ty))
        for j, tail in enumerate(tails):
            fs.append([([], ("list", [([], ("int", 1)), nul])), tail])
            fs.append([([], ("sexp", [anul])), tail])
            fs.append([([], ("struct", [(b"a", ([], ("int", 1))), (b"b", nul)])), tail])
            fs.append([([], ("list", [([], ("list", [([], ("str", b"x")), nul])), ([], ("int", 9))])), tail])
    return fs


def big_forests():
    """containers (and unread remainders of containers) longer than the readers' internal chunk sizes (4 KiB buffer,
    64 KiB read/skip chunks, 128 KiB), nested inside containers whose later children are then observed: what is skipped
    in several steps must leave the same position as what is read"""
    fs = []
    for n in (4000, 4200, 65000, 65536, 65537, 70000, 131072, 140000):
        s = ([], ("str", b"q" * n))
        b = ([], ("blob", bytes(i % 251 for i in range(n))))
        ints = ([], ("list", [([], ("int", i)) for i in range(n // 3)]))
        for big in (s, b, ints):
            inner = ([], ("list", [big, ([], ("int", 1))]))
            fs.append([([], ("list", [inner, ([], ("int", 7)), ([], ("list", [([], ("int", 8))]))])), ([], ("int", 9))])
            fs.append([([], ("struct", [(b"a", inner), (b"b", ([], ("sexp", [big, ([], ("sym", b"x"))]))), (b"c", ([], ("int", 3)))])), ([], ("str", b"end"))])
    return fs


def run(ctx):
    rng = ctx.rng
    forests = binlib.gen_forests(ctx, ctx.scale(500, 10000), {"depth": 4, "p_container": 0.45})
    docs = binlib.encode_docs(ctx, forests, True)
    lines, exp = [], []
    nprog = ctx.scale(8, 20)
    for f, d in zip(forests, docs):
        for _ in range(nprog):
            p = cursor.gen_program(f, rng, rng.choice([6, 12, 25, 60]))
            lines.append("brd 0 %s %s" % (iongen.hx(d), " ".join(p)))
            exp.append(cursor.run_program(f, p))
    # systematic: every container left at every position
    nl = null_last_forests() + big_forests()
    sysf = nl + forests[:ctx.scale(150, 3000)]
    for f, d in zip(sysf, binlib.encode_docs(ctx, nl, True) + docs[:ctx.scale(150, 3000)]):
        for p in stepout_programs(f):
            lines.append("brd 0 %s %s" % (iongen.hx(d), " ".join(p)))
            exp.append(cursor.run_program(f, p))
    mo, go = ctx.correspond("K2-binreader-programs", lines, canon=binlib.canon_trace_full,
                            nontrivial=lambda ln, m: " T" in (" " + m))
    ok = 0
    for ln, e, g in zip(lines, exp, go):
        if iongen.project_trace(g) != e:
            ctx.fail("property", "C08-binary", ln, "reader '%s' ; reference cursor '%s'" % (iongen.project_trace(g)[:400], e[:400]))
        else:
            ok += 1
    ctx.count("C08-binary", len(lines), [], agree=ok, sample={"program": lines[7][:200], "trace": exp[7][:200]})


_run_binary = run


def run(ctx):
    _run_binary(ctx)
    textreader_k5.run(ctx)    # text: K5 (model vs real reader) on traversals and navigation programs, skip vs read documents
