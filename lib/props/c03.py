"""C03 — the binary reader decodes every valid binary encoding to exactly its value."""
from vlib import *
import iongen
import binlib

THEOREMS = ["C03bin", "C03bin_limits_sound", "C03bin_stageA", "C03bin_stageC", "C03bin_ex", "C06bin_never_panics_default", "C06bin_every_call_returns_default", "C06bin_call_preserves_invariant", "C08bin_skip_equals_read", "C08bin_step_out_lands"]
LEVEL = "other"
EXPLANATION = ("K2: the binary reader model (Bin/BitStream.v + Bin/BinReader.v) against the real Reader on the plain "
               "full traversal of encodings produced by an independent spec-derived encoder with randomised legal "
               "representation choices (inline/VarUInt lengths, padded VarUInts, leading zero bytes, float32/64, NOP "
               "pads incl. inside structs, sorted structs, repeated BVMs, annotation wrappers around every value incl. "
               "both booleans, symbol-table appends); oracle: the real Reader's trace equals the trace of the value forest.")


def run(ctx):
    forests = binlib.boundary_forests() + binlib.gen_forests(ctx, ctx.scale(2500, 60000))
    docs = binlib.encode_docs(ctx, forests, True) + binlib.encode_docs(ctx, forests[: ctx.scale(400, 5000)], False)
    forests = forests + forests[: ctx.scale(400, 5000)]
    lines = ["btrav 0 " + iongen.hx(d) for d in docs]
    exp = [iongen.expected_trace(f) for f in forests]
    mo, go = ctx.correspond("K2-binreader-traverse", lines, canon=binlib.canon_trace_full,
                            nontrivial=lambda ln, m: " y" in m)
    ok = 0
    for ln, e, g in zip(lines, exp, go):
        if iongen.project_trace(g) != e:
            ctx.fail("property", "C03-oracle", ln, "reader trace '%s' but the encoded values are '%s'" % (iongen.project_trace(g)[:300], e[:300]))
        else:
            ok += 1
    ctx.count("C03-oracle", len(lines), [], agree=ok, sample={"doc": lines[5][:160], "trace": exp[5][:160]})
    run_limits(ctx)


# ---------------------------------------------------------------------------
# representations the format allows and the Writer never emits, at the edge of the reader's own limits
# ---------------------------------------------------------------------------
BVM = [0xE0, 1, 0, 0xEA]
K_DECEXP = "binary-decimal-exponent-beyond-int32-rejected"
K_SYMLONG = "binary-symbol-value-longer-than-8-bytes-rejected"
K_VARLONG = "binary-varuint-longer-than-10-bytes-rejected"
K_PADSID = "binary-nop-pad-under-undefined-field-sid-rejected"
_limit_class = {}


def padded_varuint(v, n):
    """v as a VarUInt of exactly n bytes (leading zero septets)"""
    g = iongen.varuint(v)
    return [0] * (n - len(g)) + g


def limit_docs():
    docs = []
    # decimal exponents outside int32 (the value is exact: a coefficient and any integer exponent)
    for e in (1 << 31, (1 << 31) + 5, 1 << 40, -(1 << 31) - 1, -(1 << 45)):
        for coef in ([0x01], []):
            body = iongen.varint(e) + coef
            docs.append((K_DECEXP, [0x50 | len(body)] + body))
    # in-range exponents spelled with padded VarInts stay readable: no class
    for e in (0, 5, -5, (1 << 31) - 1, -(1 << 31)):
        g = iongen.varint(e)
        docs.append((None, [0x50 | (len(g) + 1)] + g + [0x01]))
    # a symbol value is a UInt of any length: leading zero bytes beyond eight
    for n in (9, 10, 13):
        for sid in (4, 1, 9):
            body = [0] * (n - 1) + [sid]
            docs.append((K_SYMLONG, [0x70 | n] + body if n < 14 else [0x7E] + iongen.varuint(n) + body))
    for n in (2, 5, 8):
        docs.append((None, [0x70 | n] + [0] * (n - 1) + [4]))
    # VarUInt length fields with leading zero septets: up to ten bytes are read, longer ones are not
    for n in (2, 5, 9, 10):
        docs.append((None, [0x8E] + padded_varuint(3, n) + [0x61, 0x62, 0x63]))
        docs.append((None, [0xBE] + padded_varuint(2, n) + [0x21, 0x01]))
    for n in (11, 12, 20):
        docs.append((K_VARLONG, [0x8E] + padded_varuint(3, n) + [0x61, 0x62, 0x63]))
        docs.append((K_VARLONG, [0x2E] + padded_varuint(1, n) + [0x01]))
        docs.append((K_VARLONG, [0xBE] + padded_varuint(2, n) + [0x21, 0x01]))
    # NOP padding inside a struct: the field name of a pad is ignored, whatever its ID
    for sid in (0, 4, 9):
        docs.append((None, [0xD2, 0x80 | sid, 0x00]))
        docs.append((None, [0xD6, 0x80 | sid, 0x01, 0xFF, 0x84, 0x21, 0x07]))
    for sidb in ([0xFF], [0x07, 0xE8], [0x00, 0xFF]):
        docs.append((K_PADSID, [0xD0 | (len(sidb) + 1)] + sidb + [0x00]))
        docs.append((K_PADSID, [0xD0 | (len(sidb) + 5)] + sidb + [0x01, 0xFF, 0x84, 0x21, 0x07]))
    return docs


def run_limits(ctx):
    docs = limit_docs()
    hexes = [iongen.hx(BVM + d) for _, d in docs]
    spec = binlib.sdecode_many(hexes)
    lines = ["btrav 0 " + h for h in hexes]
    for (k, _), ln in zip(docs, lines):
        _limit_class[ln] = k
    mo, go = ctx.correspond("K2-binreader-limits", lines, canon=binlib.canon_trace_full, nontrivial=lambda ln, m: True)
    ok = 0
    for (k, d), ln, sp, g in zip(docs, lines, spec, go):
        if oracle_silent(ctx, "C03-limits", ln, sp):
            continue
        if sp is None:
            ctx.notes.append("limit document not valid for the specification decoder (generator error?): " + ln)
            continue
        accepted = g.endswith("F e0 F e0 F e0")
        if not accepted:
            ctx.fail("property", "C03-limits", ln, "valid encoding (the specification decoder reads '%s') but the Reader answers '%s'" % (sp[:120], g[-60:]), k)
        else:
            ok += 1
    ctx.count("C03-limits", len(lines), lines, agree=ok)


def classify_case(line, m=None, g=None):
    return _limit_class.get(line)

