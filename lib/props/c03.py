"""C03 — the binary reader decodes every valid binary encoding to exactly its value."""
from vlib import *
import iongen
import binlib

THEOREMS = ["C06bin_never_panics_default", "C06bin_every_call_returns_default", "C06bin_call_preserves_invariant", "C08bin_skip_equals_read", "C08bin_step_out_lands"]
LEVEL = "other"
EXPLANATION = ("K2: the binary reader model (Bin/BitStream.v + Bin/BinReader.v) against the real Reader on the plain "
               "full traversal of encodings produced by an independent spec-derived encoder with randomised legal "
               "representation choices (inline/VarUInt lengths, padded VarUInts, leading zero bytes, float32/64, NOP "
               "pads incl. inside structs, sorted structs, repeated BVMs, annotation wrappers around every value incl. "
               "both booleans, symbol-table appends); oracle: the real Reader's trace equals the trace of the value forest.")


def run(ctx):
    forests = binlib.boundary_forests() + binlib.gen_forests(ctx, ctx.scale(2500, 60000))
    docs = binlib.encode_docs(ctx, forests, True) + binlib.encode_docs(ctx, forests[: ctx.scale(400, 5000)], False)
    forests = forests + forests[: ctx.scale(400, 5000)]
    lines = ["btrav 0 " + iongen.hx(d) for d in docs]
    exp = [iongen.expected_trace(f) for f in forests]
    mo, go = ctx.correspond("K2-binreader-traverse", lines, canon=binlib.canon_trace_full,
                            nontrivial=lambda ln, m: " y" in m)
    ok = 0
    for ln, e, g in zip(lines, exp, go):
        if iongen.project_trace(g) != e:
            ctx.fail("property", "C03-oracle", ln, "reader trace '%s' but the encoded values are '%s'" % (iongen.project_trace(g)[:300], e[:300]))
        else:
            ok += 1
    ctx.count("C03-oracle", len(lines), [], agree=ok, sample={"doc": lines[5][:160], "trace": exp[5][:160]})
