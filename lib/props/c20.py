"""C20 — `ion-go process` is a faithful transcoder (K12: the built binary run as a subprocess)."""
import base64
import os
import re
import struct
from vlib import *
import iongen
import binlib

THEOREMS = ["C20_no_panic", "C20_no_panic_events", "C20_no_panic_pinned_refuted", "C20_no_panic_pinned_except_known",
            "C20_transcode", "C20_transcode_any_writer", "C20_transcode_sids", "C20_no_panic_sids",
            "C20_transcode_pinned_refuted", "C20_events", "C20_events_count", "C20_events_wf",
            "C20_invalid", "C20_invalid_prefix"]
LEVEL = "proof"
EXPLANATION = ("Theorems over the Gallina transcription of processor.process (Cli/Process.v: observed value -> Writer "
               "calls, error report, Finish) and of the event writer (Cli/Events.v), for every forest of observed "
               "values of any depth: no panic, the calls denote the input values, one well-formed well-bracketed "
               "event per value/boundary/stream end, a reader failure yields a report entry. Tie (K12): the built "
               "ion-go binary is run as a subprocess on generated text and binary documents x 5 formats x file/stdin; "
               "the model's predicted values / events / binary bytes / report entries are compared with what the "
               "binary wrote. Oracle on the real code: no crash; output re-read by the real Reader equals the input's "
               "traversal (symbols by text); binary output accepted by the independent decoder; events counted, "
               "bracketed and each value_text re-read; invalid input gives a report entry.")
ASSUMPTIONS = ["Go == model only on the inputs sampled",
               "the model starts from the Reader's observation of the input (obtained with the real Reader), so "
               "reader defects are C02/C03/C06's business, not this property's",
               "value_text of an event is judged by re-reading it with the real text Reader"]
TRUSTED_EXTRA = ["harness/cmd/vh/cli.go (subprocess plumbing: temp files, exit status, stderr scan)"]

FORMATS = ["text", "pretty", "binary", "events", "none"]
MODES = ["file", "stdin"]
IONGO = os.path.join(HARNESS, "iongo_cover" if os.environ.get("VERIF_COVER") else "iongo")
TYPE_NAMES = {1: "null", 2: "bool", 3: "int", 4: "float", 5: "decimal", 6: "timestamp", 7: "symbol", 8: "string",
              9: "clob", 10: "blob", 11: "list", 12: "sexp", 13: "struct"}
KIND_TYPE = {"list": 11, "sexp": 12, "struct": 13}


# ---------------------------------------------------------------------------
# build of the real binary; which transcription the tree contains
# ---------------------------------------------------------------------------
def build_iongo():
    import vlib as _v
    rc, out = sh("go build %s -o %s ./cmd/ion-go" % (_v.COVER_FLAGS_CLI if _v.cover_mode() else "", IONGO), cwd=REPO, env=GOENV, timeout=1200)
    return rc == 0, out


def tree_mode():
    """(process.go, eventwriter.go): 'pinned' as found; 'fixed' = typed nulls go through WriteNullType / the
    event writer makes its map; 'sids' = process.go additionally hands tokens over by text (fix_cli_sids.diff)"""
    try:
        p = open(os.path.join(REPO, "cmd", "ion-go", "process.go")).read()
        e = open(os.path.join(REPO, "cmd", "ion-go", "eventwriter.go")).read()
    except OSError:
        return "fixed", "fixed"
    pm = "fixed" if "WriteNullType(in.Type())" in p else "pinned"
    if pm == "fixed" and "WriteSymbol(textOnly(" in p and "FieldName(textOnly(" in p:
        pm = "sids"        # fix_cli_sids.diff on top of fix_cli_nulls.diff
    return (pm,
            "fixed" if re.search(r"inStruct:\s*make\(map\[int\]bool\)", e) else "pinned")


# ---------------------------------------------------------------------------
# a canonical text printer for iongen forests (written from the Ion text grammar)
# ---------------------------------------------------------------------------
def q_symbol(t):
    if isinstance(t, tuple):
        return "$%d" % t[1]
    out = ["'"]
    for c in t.decode("utf-8"):
        o = ord(c)
        if c == "'":
            out.append("\\'")
        elif c == "\\":
            out.append("\\\\")
        elif o < 32 or o == 127:
            out.append("\\x%02x" % o)
        else:
            out.append(c)
    return "".join(out) + "'"


def q_string(t):
    out = ['"']
    for c in t.decode("utf-8"):
        o = ord(c)
        if c == '"':
            out.append('\\"')
        elif c == "\\":
            out.append("\\\\")
        elif o < 32 or o == 127:
            out.append("\\x%02x" % o)
        else:
            out.append(c)
    return "".join(out) + '"'


def q_clob(b):
    out = []
    for o in b:
        if o == 34:
            out.append('\\"')
        elif o == 92:
            out.append("\\\\")
        elif 32 <= o < 127:
            out.append(chr(o))
        else:
            out.append("\\x%02x" % o)
    return '{{"' + "".join(out) + '"}}'


def t_float(bits):
    if bits == iongen.NAN:
        return "nan"
    f = struct.unpack(">d", struct.pack(">Q", bits))[0]
    if f == float("inf"):
        return "+inf"
    if f == float("-inf"):
        return "-inf"
    r = repr(f)
    return r if "e" in r else r + "e0"


def t_ts(ts):
    y, mo, d, h, mi, s, ns, off, kind, prec, nfrac = ts
    if prec == 1:
        return "%04dT" % y
    if prec == 2:
        return "%04d-%02dT" % (y, mo)
    if prec == 3:
        return "%04d-%02d-%02dT" % (y, mo, d)
    out = "%04d-%02d-%02dT%02d:%02d" % (y, mo, d, h, mi)
    if prec >= 5:
        out += ":%02d" % s
    if prec == 6 and nfrac > 0:
        out += "." + ("%09d" % ns)[:nfrac]
    if kind == 0:
        out += "-00:00"
    elif kind == 1:
        out += "Z"
    else:
        out += "%s%02d:%02d" % ("+" if off >= 0 else "-", abs(off) // 60, abs(off) % 60)
    return out


def t_value(v, pretty_ws):
    annots, body = v
    pre = "".join(q_symbol(a) + "::" for a in annots)
    k = body[0]
    if k == "null":
        s = "null" if body[1] == 1 and pretty_ws else "null." + TYPE_NAMES[body[1]]
    elif k == "bool":
        s = "true" if body[1] else "false"
    elif k == "int":
        s = str(body[1])
    elif k == "float":
        s = t_float(body[1])
    elif k == "dec":
        s = ("-0" if body[3] else str(body[1])) + "d" + str(body[2])
    elif k == "ts":
        s = t_ts(body[1])
    elif k == "sym":
        s = q_symbol(body[1])
    elif k == "str":
        s = q_string(body[1])
    elif k == "clob":
        s = q_clob(body[1])
    elif k == "blob":
        s = "{{" + base64.b64encode(bytes(body[1])).decode() + "}}"
    elif k == "list":
        s = "[" + (", " if pretty_ws else ",").join(t_value(x, pretty_ws) for x in body[1]) + "]"
    elif k == "sexp":
        s = "(" + " ".join(t_value(x, pretty_ws) for x in body[1]) + ")"
    else:
        s = "{" + ",".join(q_symbol(n) + ":" + t_value(x, pretty_ws) for n, x in body[1]) + "}"
    return pre + s


def text_of_forest(vs, pretty_ws=False):
    return ("\n" if pretty_ws else " ").join(t_value(v, pretty_ws) for v in vs).encode("utf-8")


# ---------------------------------------------------------------------------
# the Reader's observation of a document: btrav trace -> observed forest
# an observed value = dict(f=tok|None, a=[tok], k=kind, v=payload, c=[children])
# tok = (text bytes | None, sid)
# ---------------------------------------------------------------------------
def p_tok(t):
    if t == "nil":
        return None
    if t.startswith("u."):
        return (None, int(t[2:]))
    if t.startswith("k") and "." in t:
        hx_, sid = t[1:].rsplit(".", 1)
        return (bytes.fromhex(hx_), int(sid))
    raise ValueError("token " + t)


def parse_trace(trace):
    """-> (forest, status, so_failed); status: 'ok' | 'err' (the Reader failed: OFail inserted where it
    did) | 'panic' | 'weird'.  A failure is represented by the item {'k': 'fail'}."""
    toks = trace.split(" ")
    top = []
    stack = [top]
    i = 0
    n = len(toks)
    so_failed = False
    try:
        while True:
            t = toks[i]
            i += 1
            if t in ("panic", "outoffuel"):
                return top, "panic", so_failed
            if t == "F":
                if len(stack) == 1:
                    break
                t2 = toks[i]
                i += 1
                if t2 == "panic":
                    return top, "panic", so_failed
                if t2 != "ok":
                    so_failed = True
                    break
                stack.pop()
                continue
            if t != "T":
                return top, "weird", so_failed
            fn, an, ty, nu = toks[i:i + 4]
            i += 4
            if fn == "panic" or an == "panic":
                return top, "panic", so_failed
            item = {"f": p_tok(fn), "a": [p_tok(x) for x in an[2:-1].split(";") if x], "t": int(ty[1:])}
            stack[-1].append(item)
            if nu == "n1":
                item["k"] = "null"
                continue
            tcode = item["t"]
            if tcode in (11, 12, 13):
                item["k"] = {11: "list", 12: "sexp", 13: "struct"}[tcode]
                item["c"] = []
                si = toks[i]
                i += 1
                if si == "panic":
                    return top, "panic", so_failed
                if si == "ok":
                    stack.append(item["c"])
                else:
                    item["c"].append({"k": "fail"})
                continue
            a = toks[i]
            i += 1
            if tcode == 3 and a[:1] == "z":
                item["big"] = a == "z3"
                a = toks[i]
                i += 1
            if a == "panic":
                return top, "panic", so_failed
            if a in ("err", "nil"):
                return top, "weird", so_failed
            if tcode == 2:
                item["k"], item["v"] = "bool", a == "b1"
            elif tcode == 3:
                item["k"], item["v"] = "int", int(a[1:])
            elif tcode == 4:
                item["k"], item["v"] = "float", int(a[1:])
            elif tcode == 5:
                m = re.match(r"D(-?\d+)e(-?\d+)z([01])$", a)
                item["k"], item["v"] = "dec", (int(m.group(1)), int(m.group(2)), m.group(3) == "1")
            elif tcode == 6:
                item["k"], item["v"] = "ts", tuple(int(x) for x in a[1:].split(","))
            elif tcode == 7:
                item["k"], item["v"] = "sym", p_tok(a)
            elif tcode == 8:
                item["k"], item["v"] = "str", bytes.fromhex(a[2:])
            elif tcode in (9, 10):
                item["k"], item["v"] = ("clob" if tcode == 9 else "blob"), bytes.fromhex(a[2:])
            else:
                return top, "weird", so_failed
        tail = toks[i:]
        if tail and tail[0] == "e1" or so_failed:
            stack[-1].append({"k": "fail"})
            return top, "err", so_failed
        if "panic" in tail:
            return top, "panic", so_failed
        return top, "ok", so_failed
    except (IndexError, ValueError, AttributeError):
        return top, "weird", so_failed


def has_fail(forest):
    return any(v["k"] == "fail" or has_fail(v.get("c", [])) for v in forest)


def w_tok(t):
    return "tk,%s,%d" % ("-" if t[0] is None else iongen.hx(t[0]), t[1])


def obs_tokens(forest):
    """the observed forest in the syntax of Drv/DrvCli.v"""
    out = []
    for v in forest:
        if v["k"] == "fail":
            out.append("X")
            continue
        if v["f"] is not None:
            out += ["f", w_tok(v["f"])]
        for a in v["a"]:
            out += ["a", w_tok(a)]
        k = v["k"]
        if k == "null":
            out += ["N", str(v["t"])]
        elif k == "bool":
            out += ["B", "1" if v["v"] else "0"]
        elif k == "int":
            out += ["J" if v.get("big", not -2 ** 63 <= v["v"] < 2 ** 63) else "I", str(v["v"])]
        elif k == "float":
            out += ["F", str(v["v"])]
        elif k == "dec":
            out += ["D", str(v["v"][0]), str(v["v"][1]), "1" if v["v"][2] else "0"]
        elif k == "ts":
            b = iongen.ts_body(v["v"])
            out += ["TS", str(len(b)), iongen.hx(b)]
        elif k == "sym":
            out += ["Y", w_tok(v["v"])]
        elif k == "str":
            out += ["S", iongen.hx(v["v"])]
        elif k == "clob":
            out += ["C", iongen.hx(v["v"])]
        elif k == "blob":
            out += ["BL", iongen.hx(v["v"])]
        else:
            op, cl = {"list": "[]", "sexp": "()", "struct": "{}"}[k]
            out += [op] + obs_tokens(v["c"]) + [cl]
    return out


def sym_by_text(t):
    return t[0] if t[0] is not None else ("sid", t[1])


def gen_of_obs(forest):
    """observed forest -> iongen forest with symbols by text (sid-only symbols stay ('sid', n)); stops at a failure"""
    out = []
    for v in forest:
        if v["k"] == "fail":
            break
        out.append(gen_of_obs1(v))
    return out


def gen_of_obs1(v):
    a = [sym_by_text(x) for x in v["a"]]
    k = v["k"]
    if k == "null":
        body = ("null", v["t"])
    elif k == "dec":
        body = ("dec",) + tuple(v["v"])
    elif k == "sym":
        body = ("sym", sym_by_text(v["v"]))
    elif k in ("list", "sexp"):
        body = (k, gen_of_obs(v["c"]))
    elif k == "struct":
        body = (k, [])
        for c in v["c"]:
            if c["k"] == "fail":
                break
            body[1].append((sym_by_text(c["f"]) if c.get("f") else ("sid", 0), gen_of_obs1(c)))
    else:
        body = (k, v["v"])
    return (a, body)


def canon_obs(forest):
    return iongen.show_forest(gen_of_obs(forest))


# ---------------------------------------------------------------------------
# shape of an input (for classification) — first thing in traversal order the pinned code trips over
# ---------------------------------------------------------------------------
def walk(forest):
    for v in forest:
        yield v
        if "c" in v:
            for x in walk(v["c"]):
                yield x


def first_problem(forest, fmt):
    pmode, emode = tree_mode()
    for v in walk(forest):
        if v["k"] == "null" and v["t"] != 1 and pmode == "pinned":
            return "cli-typed-null-" + TYPE_NAMES.get(v["t"], "unknown")
        if fmt == "events" and v["k"] == "struct" and emode == "pinned":
            return "cli-events-struct"
    return None


def uses_source_sids(forest):
    for v in walk(forest):
        if v["k"] == "fail":
            continue
        toks = list(v["a"]) + ([v["f"]] if v.get("f") else []) + ([v["v"]] if v["k"] == "sym" else [])
        if any(t[0] is not None and t[1] >= 10 for t in toks):
            return True
    return False


def has_bigint(forest):
    return any(v["k"] == "int" and v.get("big", not -2 ** 63 <= v["v"] < 2 ** 63) for v in walk(forest))


def has_sidonly_field(forest):
    return any(v.get("f") is not None and v["f"][0] is None for v in walk(forest) if v["k"] != "fail")


_shape_cache = {}


def shape_of_line(line):
    """observed forest of the input of a `cli <fmt> <mode> x<input>` line"""
    t = line.split(" ")
    if len(t) != 4 or t[0] != "cli":
        return None, None
    if t[3] not in _shape_cache:
        tr = run_go(["ctrav 0 " + t[3]])[0]
        _shape_cache[t[3]] = parse_trace(tr)[0]
    return t[1], _shape_cache[t[3]]


def classify_case(line, model_out, go_out):
    fmt, forest = shape_of_line(line)
    if forest is None:
        return None
    pmode, emode = tree_mode()
    k = first_problem(forest, fmt)
    # the typed-null / nil-map classes describe the unpatched process.go / eventwriter.go only
    if k and k.startswith("cli-typed-null") and pmode == "pinned":
        return k
    if k == "cli-events-struct" and emode == "pinned":
        return k
    if fmt == "binary" and uses_source_sids(forest):
        return "cli-binary-output-reuses-source-sids"
    if fmt == "events" and has_bigint(forest):
        return "cli-events-bigint-value-text"
    if fmt == "events" and has_sidonly_field(forest):
        return "cli-events-sid-only-field-name"
    return None


# ---------------------------------------------------------------------------
# parsing what the binary wrote
# ---------------------------------------------------------------------------
def parse_cli(go):
    """-> ('ok', exit, out bytes, report bytes) | ('crash', what, stderr head) | ('bad', raw)"""
    t = go.split(" ")
    try:
        if t[0] == "ok" and len(t) == 4:
            return ("ok", int(t[1]), bytes.fromhex(t[2][1:]), bytes.fromhex(t[3][1:]))
        if t[0] == "crash" and len(t) == 3:
            return ("crash", t[1], bytes.fromhex(t[2][1:]).decode("utf-8", "replace"))
    except ValueError:
        pass
    return ("bad", go)


def struct_fields(v):
    d = {}
    for c in v.get("c", []):
        if c["k"] != "fail" and c.get("f") and c["f"][0] is not None:
            d[c["f"][0].decode("utf-8", "replace")] = c
    return d


def sym_text(v):
    if v is None or v["k"] != "sym" or v["v"][0] is None:
        return None
    return v["v"][0].decode("utf-8", "replace")


def parse_report(forest):
    """error report (observed forest of its Ion text) -> [(type, location, index)] or None"""
    out = []
    for v in forest:
        if v["k"] != "struct":
            return None
        d = struct_fields(v)
        ty, loc, idx = sym_text(d.get("error_type")), d.get("location"), d.get("event_index")
        if ty not in ("READ", "WRITE", "STATE") or loc is None or loc["k"] != "str" or idx is None or idx["k"] != "int":
            return None
        if "message" not in d or d["message"]["k"] != "str":
            return None
        out.append((ty, loc["v"], idx["v"]))
    return out


EV_TYPES = {"CONTAINER_START": 0, "CONTAINER_END": 1, "SCALAR": 2, "SYMBOL_TABLE": 3, "STREAM_END": 4}
ION_NAMES = {v.upper(): k for k, v in TYPE_NAMES.items()}


def parse_token_struct(v):
    """{Text:..., LocalSID:..., Source:...} -> (text|None, sid) ; None when malformed"""
    if v["k"] != "struct":
        return None
    d = struct_fields(v)
    tx, sid = d.get("Text"), d.get("LocalSID")
    if tx is None or sid is None or sid["k"] != "int":
        return None
    if tx["k"] == "str":
        return (tx["v"], sid["v"])
    if tx["k"] == "null":
        return (None, sid["v"])
    return None


def parse_events(forest):
    """event stream (observed forest of its Ion text) -> list of event dicts, or a string saying what is malformed"""
    if not forest or sym_text(forest[0]) != "$ion_event_stream":
        return "stream does not start with $ion_event_stream"
    evs = []
    for v in forest[1:]:
        if v["k"] != "struct" or v["a"]:
            return "event is not a plain struct"
        d = struct_fields(v)
        known = {"event_type", "ion_type", "field_name", "annotations", "value_text", "value_binary", "imports", "depth"}
        if set(d) - known or len(d) != len([c for c in v["c"]]):
            return "event with unknown or repeated fields: %s" % sorted(d)
        et = EV_TYPES.get(sym_text(d.get("event_type")))
        if et is None:
            return "bad event_type"
        it = 0
        if "ion_type" in d:
            it = ION_NAMES.get(sym_text(d["ion_type"]))
            if it is None:
                return "bad ion_type"
        if "depth" not in d or d["depth"]["k"] != "int":
            return "bad depth"
        fld = None
        if "field_name" in d:
            tk = parse_token_struct(d["field_name"])
            if tk is None:
                return "bad field_name"
            fld = tk
        ann = []
        if "annotations" in d:
            if d["annotations"]["k"] != "list":
                return "bad annotations"
            for a in d["annotations"]["c"]:
                tk = parse_token_struct(a)
                if tk is None:
                    return "bad annotation token"
                ann.append(tk)
        vt = None
        if "value_text" in d:
            if d["value_text"]["k"] != "str":
                return "bad value_text"
            vt = d["value_text"]["v"]
        evs.append({"type": et, "ion": it, "field": fld, "annots": ann, "vt": vt, "depth": d["depth"]["v"],
                    "has_binary": "value_binary" in d})
    return evs


def spec_events(forest, depth=0):
    """the events owed to an observed forest: (type, ion, field text, annots by text, canonical value, depth)"""
    out = []
    for v in forest:
        if v["k"] == "fail":
            break
        fld = None
        if v.get("f") is not None:
            # a field name without text is owed as such: ("sid", n), not as the text "$n"
            fld = v["f"][0] if v["f"][0] is not None else ("sid", v["f"][1])
        ann = [iongen.show_sym(sym_by_text(a)) for a in v["a"]]
        if v["k"] in KIND_TYPE:
            out.append((0, KIND_TYPE[v["k"]], fld, ann, None, depth))
            out += spec_events(v["c"], depth + 1)
            if not has_fail(v["c"]):
                out.append((1, KIND_TYPE[v["k"]], None, [], None, depth))
            else:
                break
        else:
            one = dict(v, f=None, a=[])
            out.append((2, v["t"], fld, ann, canon_obs([one]), depth))
    return out


def bracket_check(evs):
    """independent check of a parsed event list: count / nesting / field names / stream end"""
    stack = []
    for i, e in enumerate(evs):
        last = i == len(evs) - 1
        if e["type"] == 4:
            if not last:
                return "STREAM_END is not the last event"
            if stack or e["depth"] != 0:
                return "STREAM_END inside an open container / at depth %d" % e["depth"]
            if e["ion"] != 0 or e["vt"] is not None or e["field"] or e["annots"]:
                return "STREAM_END carries value fields"
            return None
        if e["type"] == 1:
            if not stack or stack[-1] != e["ion"]:
                return "CONTAINER_END %s does not close the innermost container" % e["ion"]
            stack.pop()
            if e["depth"] != len(stack):
                return "CONTAINER_END at depth %d, expected %d" % (e["depth"], len(stack))
            if e["vt"] is not None:
                return "CONTAINER_END with value_text"
            continue
        if e["type"] not in (0, 2):
            return "unexpected event type %d" % e["type"]
        if e["depth"] != len(stack):
            return "event at depth %d, expected %d" % (e["depth"], len(stack))
        if (e["field"] is not None) != (bool(stack) and stack[-1] == 13):
            return "field_name present/absent against the enclosing container"
        if e["type"] == 0:
            if e["ion"] not in (11, 12, 13) or e["vt"] is not None:
                return "malformed CONTAINER_START"
            stack.append(e["ion"])
        else:
            if not (1 <= e["ion"] <= 13) or e["vt"] is None:
                return "SCALAR without ion_type / value_text"
    return "no STREAM_END event"


# ---------------------------------------------------------------------------
# model answers
# ---------------------------------------------------------------------------
def parse_model(out):
    """'ok <body> | <reports>' -> ('ok', body tokens, [(type, in_input, idx)]) | ('panic',) | ('bad', raw)"""
    if out == "panic":
        return ("panic",)
    t = out.split(" ")
    if t[0] != "ok" or "|" not in t:
        return ("bad", out)
    k = len(t) - 1 - t[::-1].index("|")
    body, rep = t[1:k], t[k + 1:]
    reps = []
    for j in range(0, len(rep), 4):
        if rep[j] != "R":
            return ("bad", out)
        reps.append(("READ" if rep[j + 1] == "r" else "WRITE", rep[j + 2] == "1", int(rep[j + 3])))
    return ("ok", body, reps)


def canon_of_call(call):
    """canonical value text of one scalar Writer call (tokens)"""
    if call in (["DEC", "nil"], ["BIG", "nil"]):
        return "n1"           # stringify(nil pointer) renders "null" (unpatched process.go only)
    try:
        b = iongen.forest_of_calls([call, ["FIN"]])
        return iongen.show_forest(b[0])
    except Exception:
        return "?" + " ".join(call)


def model_events(body):
    evs = []
    cur = []
    for t in body:
        if t == ";":
            ty, ion, fld, depth, n = int(cur[1]), int(cur[2]), cur[3], int(cur[4]), int(cur[5])
            ann = [iongen.show_sym(iongen.tok_text(x)) for x in cur[6:6 + n]]
            call = cur[6 + n:]
            val = None if call == ["-"] else canon_of_call(call)
            if call[:1] == ["TS"]:
                val = iongen.canon_spec_obs("T" + call[3][1:])
            evs.append((ty, ion, None if fld == "-" else bytes.fromhex(fld[1:]), ann, val, depth))
            cur = []
        else:
            cur.append(t)
    return evs


# ---------------------------------------------------------------------------
# documents
# ---------------------------------------------------------------------------
def null_docs():
    fs = []
    for ty in range(1, 14):
        n = ([], ("null", ty))
        fs.append([n])
        fs.append([([b"ann", b"b"], ("null", ty))])
        fs.append([([], ("list", [n, ([], ("int", 1))]))])
        fs.append([([], ("sexp", [([b"x"], ("null", ty))]))])
        fs.append([([], ("struct", [(b"f", n), (b"g", ([], ("int", 2)))]))])
        fs.append([([], ("int", 1)), ([b"a"], ("struct", [(b"f", ([b"q"], ("null", ty)))])), n, ([], ("str", b"after"))])
    return fs


def special_docs():
    """hand-written inputs: local symbol tables with $n references, symbols without text, in both encodings"""
    out = []
    t = [b'$ion_symbol_table::{symbols:["foo","bar"]} foo::{bar:$10}',
         b'$ion_symbol_table::{symbols:["foo","bar"]} $10 $11 [$11, bar::$10] {foo:bar}',
         b'$ion_symbol_table::{symbols:["a"]} $10 $ion_symbol_table::{imports:$ion_symbol_table,symbols:["b"]} $11::$10',
         b"$0 $0::1 {$0:$0} [$0::$0]", b"$4 name::{version:$6} '$4'", b"{a:1,a:2,a:[]}", b"()", b"[]", b"{}", b"",
         b"[[[[[[[[[[[[[[[[]]]]]]]]]]]]]]]]", b"a::b::c::{d:e::f::(g::1)}",
         b"123456789012345678901234567890 -123456789012345678901234567890 9223372036854775808 -9223372036854775809",
         b"1e0 -0e0 nan +inf -inf 1.5e300 4.9e-324 0d0 -0d0 -0d5 1d-400 1.0 2001T 2001-02T 2001-02-03 2001-02-03T04:05Z "
         b"2001-02-03T04:05:06.789+01:30 2001-02-03T04:05:06-00:00", b'{{"a\\x00\\xff"}} {{}} {{AAEC/w==}} "" \'\' "\\u00e9\\n"']
    for x in t:
        out.append(("text-special", x))
    # binary with a local symbol table whose IDs differ from what a fresh writer would assign
    b = bytes([0xE0, 1, 0, 0xEA, 0xEE, 0x95, 0x81, 0x83, 0xDE, 0x91, 0x87, 0xBE, 0x8E, 0x83]) + b"pad" + bytes([0x83]) + b"foo" + \
        bytes([0x83]) + b"bar" + bytes([0xE7, 0x81, 0x8B, 0xD4, 0x8C, 0x71, 0x0B, 0x71, 0x0C, 0x70])
    out.append(("binary-special", b))
    out.append(("binary-special", bytes([0xE0, 1, 0, 0xEA, 0x71, 0x00, 0xE3, 0x81, 0x80, 0x20, 0xD3, 0x80, 0x71, 0x00])))
    out.append(("binary-special", bytes([0xE0, 1, 0, 0xEA])))
    return out


def make_docs(ctx):
    rng = ctx.rng
    docs = []          # (label, input bytes)
    forests = null_docs()
    bf = binlib.boundary_forests()
    forests += bf if ctx.thorough() else [f for i, f in enumerate(bf) if i % 3 == 0 or rng.random() < 0.15]
    forests += [iongen.gen_forest(rng, {"depth": rng.choice([2, 3, 5])}) for _ in range(ctx.scale(230, 3000))]
    for f in forests:
        r = rng.random()
        if r < 0.55 or ctx.thorough():
            docs.append(("binary", bytes(iongen.Enc(rng, freedom=rng.random() < 0.7).stream(f))))
        if r >= 0.45 or ctx.thorough():
            docs.append(("text", text_of_forest(f, rng.random() < 0.5)))
    docs += special_docs()
    # invalid: truncations and bad tokens
    valid = list(docs)
    inv = []
    for _ in range(ctx.scale(110, 1500)):
        lab, b = rng.choice(valid)
        if len(b) < 2:
            continue
        r = rng.random()
        if r < 0.6:
            inv.append((lab + "-truncated", b[:rng.randint(1, len(b) - 1)]))
        elif lab.startswith("text"):
            pos = rng.randint(0, len(b))
            inv.append((lab + "-badtoken", b[:pos] + rng.choice([b"}", b"]", b")", b" 1x ", b" 0123 ", b"::", b" 2001-13-01T ", b'"', b"{{", b"\\", b"\x01"]) + b[pos:]))
        else:
            pos = rng.randint(4, len(b) - 1) if len(b) > 5 else len(b) - 1
            inv.append((lab + "-corrupt", b[:pos] + bytes([rng.choice([0x0F ^ 0xFF, 0x31, 0xF0, 0x12, 0x68, 0x7F ^ 0x0E, 0xBE, 0xE0])]) + b[pos + 1:]))
    seen = set()
    uniq = []
    for lab, b in docs + inv:
        if len(b) > 3000 and not ctx.thorough():
            continue          # the 16 KB boundary payloads: thorough tier only
        if b not in seen:
            seen.add(b)
            uniq.append((lab, b))
    return uniq


# ---------------------------------------------------------------------------
# the check
# ---------------------------------------------------------------------------
def btrav_many(blobs):
    """real Reader traversal of many byte strings (deduplicated) -> dict bytes -> parse_trace(...)"""
    uniq = sorted(set(blobs))
    outs = run_go(["ctrav 0 " + iongen.hx(b) for b in uniq])
    return {b: parse_trace(o) for b, o in zip(uniq, outs)}


def check_docs(ctx, docs, fmts=FORMATS, modes=MODES):
    pmode, emode = tree_mode()
    inputs = [b for _, b in docs]
    obs = btrav_many(inputs)
    for b in inputs:
        _shape_cache[iongen.hx(b)] = obs[b][0]

    # model predictions, one set per document
    toks = {b: " ".join(obs_tokens(obs[b][0])) for b in inputs}
    usable = [b for b in inputs if obs[b][1] in ("ok", "err")]
    skipped = len(inputs) - len(usable)
    m_lines = []
    for b in usable:
        m_lines += ["cli_vals %s %s" % (pmode, toks[b]), "cli_calls %s %s" % (pmode, toks[b]),
                    "cli_bin %s %s" % (pmode, toks[b]),
                    "cli_events %s %s %s" % (pmode, emode, toks[b])]
    import threading
    m_box = {}
    th = threading.Thread(target=lambda: m_box.setdefault("out", run_model(m_lines)))
    th.start()          # the model predictions are computed while the real binary runs
    model = {}
    def collect_model():
        th.join()
        m_out = m_box["out"]
        for j, b in enumerate(usable):
            model[b] = {"vals": m_out[4 * j], "calls": parse_model(m_out[4 * j + 1]), "bin": parse_model(m_out[4 * j + 2]),
                        "events": parse_model(m_out[4 * j + 3])}
    usable_set = set(usable)

    # the real binary
    lines, meta = [], []
    for idx, (lab, b) in enumerate(docs):
        if b not in usable_set:
            continue
        # file2: the -o and -e files already exist and are longer than what this run writes; what the run leaves in them
        # must not depend on that (same oracle as for a fresh file)
        mds = list(modes) + (["file2"] if "file" in modes and idx % 4 == 0 else [])
        for f in fmts:
            for md in mds:
                lines.append("cli %s %s %s" % (f, md, iongen.hx(b)))
                meta.append((lab, b, f, md))
    go = run_go(lines, per_case_timeout=25, extra_env={"VH_IONGO": IONGO})
    res = [parse_cli(g) for g in go]
    collect_model()

    # re-read everything the binary wrote
    blobs = []
    for (lab, b, f, md), r in zip(meta, res):
        if r[0] == "ok":
            blobs.append(r[3])
            if f in ("text", "pretty", "binary", "events"):
                blobs.append(r[2])
    reread = btrav_many(blobs)
    sdec = {}
    bin_outs = sorted({r[2] for (lab, b, f, md), r in zip(meta, res) if r[0] == "ok" and f == "binary"})
    for o, d in zip(bin_outs, binlib.sdecode_many([iongen.hx(o) for o in bin_outs])):
        sdec[o] = d
    # value_text of every scalar event, re-read in one pass per output
    vt_docs = {}
    ev_parsed = {}
    for (lab, b, f, md), r in zip(meta, res):
        if r[0] == "ok" and f == "events" and r[2] not in ev_parsed:
            fo, st, _ = reread[r[2]]
            ev_parsed[r[2]] = parse_events(fo) if st == "ok" else "event stream is not readable Ion (%s)" % st
            if isinstance(ev_parsed[r[2]], list):
                vt_docs[r[2]] = b"\n".join(e["vt"] for e in ev_parsed[r[2]] if e["vt"] is not None)
    vt_read = btrav_many(list(vt_docs.values()))

    nvalid = ninvalid = 0
    keys = []
    tie_bad = 0
    for ln, (lab, b, f, md), r in zip(lines, meta, res):
        in_forest, in_status, so_failed = obs[b]
        valid = in_status == "ok"
        nvalid += valid
        ninvalid += not valid
        keys.append(ln)
        mdl = model[b]
        want = canon_obs(in_forest)

        def prop(why):
            ctx.fail("property", "C20-cli-oracle", ln, "[%s] %s" % (lab, why), classify_case(ln, None, None))

        def tie(why):
            ctx.fail("tie", "K12-cli", ln, "[%s] %s" % (lab, why), classify_case(ln, None, None))

        # ---------------- oracle on the real code ----------------
        if r[0] == "bad":
            prop("harness answer: " + r[1][:200])
            continue
        if r[0] == "crash":
            prop("ion-go process crashed (%s): %s" % (r[1], r[2][:160].replace("\n", " / ")))
        else:
            _, status, out, rep = r
            rep_forest, rep_status, _ = reread[rep]
            reps = parse_report(rep_forest) if rep_status == "ok" else None
            if status != 0:
                prop("exit status %d" % status)
            if reps is None:
                prop("error report is not a sequence of well-formed entries: %r" % rep[:200])
            elif valid and reps:
                prop("valid input, but the error report has %d entr%s: %r" % (len(reps), "y" if len(reps) == 1 else "ies", rep[:200]))
            elif not valid and not reps:
                prop("invalid input (the Reader fails) but the error report is empty")
            if valid and f in ("text", "pretty", "binary"):
                o_forest, o_status, _ = reread[out]
                if o_status != "ok":
                    prop("output is not readable Ion (%s): %r" % (o_status, out[:200]))
                elif canon_obs(o_forest) != want:
                    prop("output denotes '%s' but the input denotes '%s'" % (canon_obs(o_forest)[:300], want[:300]))
                elif f == "binary":
                    d = sdec.get(out)
                    if oracle_silent(ctx, "C20-binary-output", "sdecode x" + out.hex(), d):
                        pass
                    elif d is None and not (out == b"" and want == ""):
                        prop("binary output rejected by the independent decoder: " + out.hex()[:200])
                    elif d is not None and d != want:
                        prop("independent decoder reads '%s' from the output, input denotes '%s'" % (d[:300], want[:300]))
            if f == "none" and out:
                prop("format none wrote %d bytes" % len(out))
            if valid and f == "events":
                evs = ev_parsed[out]
                if not isinstance(evs, list):
                    prop("events: " + evs)
                else:
                    why = bracket_check(evs)
                    spec = spec_events(in_forest) + [(4, 0, None, [], None, 0)]
                    if why:
                        prop("events: " + why)
                    elif len(evs) != len(spec):
                        prop("events: %d events for a document owing %d" % (len(evs), len(spec)))
                    else:
                        vf, vst, _ = vt_read[vt_docs[out]]
                        scal = [e for e in evs if e["vt"] is not None]
                        vals = [canon_obs([x]) for x in vf] if vst == "ok" and len(vf) == len(scal) else None
                        k = 0
                        for e, sp in zip(evs, spec):
                            got_val = None
                            if e["vt"] is not None:
                                got_val = vals[k] if vals is not None else "?unreadable"
                                k += 1
                            got = (e["type"], e["ion"], e["field"][0] if e["field"] else None,
                                   [iongen.show_sym(sym_by_text(a)) for a in e["annots"]], got_val, e["depth"])
                            if got != sp:
                                prop("events: event %s where the input owes %s (value_text %r)" % (got, sp, e["vt"]))
                                break
                            if e["has_binary"]:
                                pass

        # ---------------- tie: model prediction vs the binary ----------------
        m = mdl["events"] if f == "events" else (mdl["bin"] if f == "binary" else mdl["calls"])
        bad = None
        if m[0] == "bad":
            bad = "model answer: " + m[1][:200]
        elif (m[0] == "panic") != (r[0] == "crash"):
            bad = "model predicts %s, the binary %s" % ("a panic" if m[0] == "panic" else "no panic",
                                                        "crashed" if r[0] == "crash" else "did not crash")
        elif m[0] == "ok" and r[0] == "ok":
            _, status, out, rep = r
            rep_forest, rep_status, _ = reread[rep]
            reps = parse_report(rep_forest) if rep_status == "ok" else None
            mre = m[2]
            if reps is not None:
                got_r = [(t, loc != b"") for t, loc, _ in reps]
                exp_r = [(t, ii) for t, ii, _ in mre]
                if f in ("text", "pretty"):
                    # the text Writer is not part of this model: it may add its own WRITE entries (Finish inside a
                    # container, sticky errors); only the entries process.go itself decides are compared
                    got_r = [x for x in got_r if x[0] == "READ"]
                    exp_r = [x for x in exp_r if x[0] == "READ"]
                if got_r != exp_r:
                    bad = "report entries %s, model predicts %s" % (got_r, exp_r)
                elif reps and mre and not so_failed and reps[0][2] != mre[0][2]:
                    bad = "event_index %d, model predicts %d" % (reps[0][2], mre[0][2])
            if bad is None and f in ("text", "pretty", "binary") and not mre:
                pv = mdl["vals"]
                o_forest, o_status, _ = reread[out]
                if not pv.startswith("ok"):
                    # the calls are no complete value sequence (dangling annotations, nil arguments: unpatched
                    # process.go only); what a Writer makes of them is the Writer's business, no prediction here
                    pass
                elif o_status != "ok":
                    if not (f == "binary" and uses_source_sids(in_forest)):
                        bad = "model predicts values '%s', output unreadable" % pv[3:200]
                else:
                    pvc = iongen.canon_spec_obs(pv[3:] if len(pv) > 2 else "")
                    if pvc != canon_obs(o_forest) and not (f == "binary" and uses_source_sids(in_forest)):
                        bad = "model predicts values '%s', output reads '%s'" % (pvc[:300], canon_obs(o_forest)[:300])
            if bad is None and f == "binary":
                mb = m[1][0] if m[1] else "x"
                if mb != iongen.hx(out) and not any(v["k"] == "ts" for v in walk(in_forest)):
                    bad = "binary writer model composed with the transcription predicts %s, the binary wrote %s" % (mb[:200], out.hex()[:200])
            if bad is None and f == "events":
                evs = ev_parsed.get(out)
                me = model_events(m[1])
                if not isinstance(evs, list):
                    bad = "events unreadable (%s), model predicts %d events" % (evs, len(me))
                elif len(evs) != len(me):
                    bad = "%d events, model predicts %d" % (len(evs), len(me))
                else:
                    vf, vst, _ = vt_read[vt_docs[out]]
                    scal = [e for e in evs if e["vt"] is not None]
                    vals = [canon_obs([x]) for x in vf] if vst == "ok" and len(vf) == len(scal) else None
                    k = 0
                    for e, sp in zip(evs, me):
                        got_val = None
                        if e["vt"] is not None:
                            got_val = vals[k] if vals is not None else sp[4]   # unreadable value_text: the oracle's business
                            k += 1
                        got = (e["type"], e["ion"], e["field"][0] if e["field"] else None,
                               [iongen.show_sym(sym_by_text(a)) for a in e["annots"]], got_val, e["depth"])
                        nil_blob = pmode == "pinned" and sp[1] == 10 and sp[4] == "Bx" and got_val == "n1"   # WriteBlob(nil)
                        if got != sp and not (e["vt"] is not None and got[:4] + got[5:] == sp[:4] + sp[5:] and vals is not None
                                              and (has_bigint(in_forest) or nil_blob)):
                            bad = "event %s, model predicts %s" % (got, sp)
                            break
        if bad:
            tie_bad += 1
            tie(bad)

    ctx.count("K12-cli", len(lines), keys,
              sample={"case": lines[len(lines) // 2][:160], "answer": go[len(lines) // 2][:160]} if lines else None,
              mismatches=tie_bad, valid_runs=nvalid, invalid_runs=ninvalid, documents=len(docs),
              documents_skipped_reader_panic=skipped, tree="process.go %s / eventwriter.go %s" % (pmode, emode))


def check_multifile(ctx, docs, only_groups=None):
    """several input files on one command line: every file is a stream of its own (its own encoding, its own symbol
    tables, its own end), so the output must denote the values of the first file followed by those of the second ...
    Oracle only (the model covers one input).  Parts are valid documents the Reader fully observes; text parts are also
    used with their trailing whitespace removed, so that the last token of a file ends at the end of the file."""
    rng = ctx.rng
    if only_groups is not None:
        # replay of recorded cases: (format, [parts])
        obs = btrav_many([p for _, g in only_groups for p in g])
        lines = ["cli %s files %s" % (f, " ".join(iongen.hx(p) for p in g)) for f, g in only_groups]
        meta = [(g, f) for f, g in only_groups]
        return _judge_multifile(ctx, lines, meta, obs, len(only_groups))
    obs = btrav_many([b for _, b in docs])
    good = [b for _, b in docs if obs[b][1] == "ok" and len(b) < 4000]
    if len(good) < 2:
        return
    text = [b for b in good if not b.startswith(b"\xe0\x01\x00\xea")]
    binary = [b for b in good if b.startswith(b"\xe0\x01\x00\xea")]
    stripped = [b.rstrip() for b in text if b.rstrip() and b.rstrip() != b]
    obs.update(btrav_many(stripped))
    stripped = [b for b in stripped if obs[b][1] == "ok"]
    fixed = [b"abc", b"def", b"1", b"2", b"\"s\"", b"x // comment", b"[1,2]", b"{a:1}", b"$ion_symbol_table::{symbols:[\"q\"]} $10"]
    obs.update(btrav_many(fixed))
    groups = [[b"abc", b"def"], [b"1", b"2"], [b"x // comment", b"y\n"], [b"1", b"[1,2]", b"2"],
              [b"$ion_symbol_table::{symbols:[\"q\"]} $10", b"name"]]
    obs.update(btrav_many([b"y\n", b"name"]))
    pools = [p for p in (stripped, text, binary) if p]
    for _ in range(ctx.scale(60, 600)):
        k = rng.choice([2, 2, 2, 3])
        groups.append([rng.choice(rng.choice(pools)) for _ in range(k)])
    for b in binary[:10]:
        if stripped:
            groups.append([rng.choice(stripped), b])
            groups.append([b, rng.choice(stripped)])
    lines, meta = [], []
    for g in groups:
        if any(obs[p][1] != "ok" for p in g):
            continue
        for f in ("text", "pretty", "binary"):
            lines.append("cli %s files %s" % (f, " ".join(iongen.hx(p) for p in g)))
            meta.append((g, f))
    _judge_multifile(ctx, lines, meta, obs, len(groups))


def _judge_multifile(ctx, lines, meta, obs, ngroups):
    go = run_go(lines, per_case_timeout=25, extra_env={"VH_IONGO": IONGO})
    res = [parse_cli(x) for x in go]
    reread = btrav_many([r[2] for r in res if r[0] == "ok"] + [r[3] for r in res if r[0] == "ok"])
    bad = 0
    for ln, (g, f), r in zip(lines, meta, res):
        want = canon_obs([v for p in g for v in obs[p][0]])
        why = None
        if r[0] != "ok":
            why = "ion-go process %s: %s" % (r[0], str(r[1:])[:200])
        else:
            _, status, out, rep = r
            o_forest, o_status, _ = reread[out]
            rep_forest, rep_status, _ = reread[rep]
            reps = parse_report(rep_forest) if rep_status == "ok" else None
            if status != 0:
                why = "exit status %d" % status
            elif reps is None or reps:
                why = "valid input files, but the error report is %r" % rep[:200]
            elif o_status != "ok":
                why = "output is not readable Ion (%s): %r" % (o_status, out[:200])
            elif canon_obs(o_forest) != want:
                why = "output denotes '%s' but the input files denote '%s'" % (canon_obs(o_forest)[:300], want[:300])
        if why:
            bad += 1
            ctx.fail("property", "C20-cli-multifile", ln, "%d input files %r: %s" % (len(g), [p[:40] for p in g], why), None)
    ctx.count("C20-cli-multifile", len(lines), lines, sample={"case": lines[0][:160], "answer": go[0][:160]} if lines else None,
              failures=bad, groups=ngroups)


def run(ctx):
    ok, log = build_iongo()
    if not ok:
        ctx.fail("tie", "build", "go build ./cmd/ion-go", log[-1500:])
        return
    docs = make_docs(ctx)
    check_docs(ctx, docs)
    check_multifile(ctx, docs)


def replay(ctx, rp):
    ok, log = build_iongo()
    if not ok:
        ctx.fail("tie", "build", "go build ./cmd/ion-go", log[-1500:])
        return
    t = rp["case"].split(" ")
    if len(t) >= 4 and t[0] == "cli" and t[2] == "files":
        check_multifile(ctx, [], only_groups=[(t[1], [bytes.fromhex(x[1:]) for x in t[3:]])])
        return
    if len(t) != 4 or t[0] != "cli":
        print("not a cli case: " + rp["case"][:100])
        return
    b = bytes.fromhex(t[3][1:])
    check_docs(ctx, [("replay", b)], fmts=[t[1]], modes=[t[2]])
    g = run_go([rp["case"]], extra_env={"VH_IONGO": IONGO})[0]
    print("replay case: %s\n  input: %r\n  real:  %s" % (rp["case"][:300], b[:200], g[:600]))


def oracle(line, go_out):
    """single-case judgement without the model: crash / exit status only (the full oracle needs the re-read
    of the output and lives in check_docs)"""
    r = parse_cli(go_out)
    if r[0] == "crash":
        return "ion-go process crashed: " + r[2][:120]
    if r[0] == "ok" and r[1] != 0:
        return "exit status %d" % r[1]
    return None
