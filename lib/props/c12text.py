"""C12text — component "textwriter": the text Writer (compact / pretty / quiet Finish) for C12, C19 (write side)
and the text parts of C04/C01.  Call run(ctx) from c12.py / c19.py / c04.py, or run `bin/check C12text`."""
import base64
import itertools
import re
from vlib import *
import iongen

THEOREMS = ["tw_no_panic_step", "tw_no_panic", "tw_sticky", "tw_error_recorded", "tw_sticky_seq", "tw_appends",
            "tw_prefix", "tw_fault_reported", "tw_fault_results", "tw_deterministic",
            "tx_string_reads_back", "tx_symbol_reads_back", "tx_clob_reads_back", "tx_bare_symbol", "tx_quoted_symbol",
            "tw_tdecode_universe", "tw_tdecode_batches"]
LEVEL = "other"
EXPLANATION = ("K4: the text Writer model (Text/TextWriter.v, Text/TextOut.v) against the real Writer "
               "(NewTextWriterOpts x {compact, quiet, pretty, pretty+quiet}): per-call err==nil, accepted bytes and "
               "number of accepted Write calls must agree on (a) every call sequence up to a bounded length over the "
               "misuse alphabet of C12, (b) value forests with symbol/string corpora aimed at quoting and escapes, "
               "(c) every write budget 0..nwrites of sampled sequences; finite-domain functions (character classes, "
               "textNulls, quoting and escaping of every 1- and 2-byte text, base64 write pattern) exhaustively. "
               "Oracles on the real code, independent of the model: no panic; an error from a call other than Finish "
               "is permanent; a final nil Finish only after complete values; the bytes accepted under a failing "
               "io.Writer are a prefix of the fault-free bytes and some call reports the failure; same calls, same "
               "bytes; every symbol / string / clob / blob token decodes, under the escape rules of the Ion text "
               "specification, to exactly the text or bytes written, and a symbol is quoted iff the grammar needs it; "
               "whole streams: whenever the final Finish returns nil (misuse sequences, token documents, forests; all four "
               "option settings) the extracted specification decoder Text/SpecText.tdecode must accept the real "
               "writer's bytes and recover exactly the values of the successful calls, batch by batch.")
ASSUMPTIONS = ["Go == model only on the inputs sampled (finite domains exhaustively)",
               "strconv.FormatFloat(v,'e',-1,64), Decimal.String and Timestamp.String are inputs of the model "
               "(their text is taken from the real code and passed in the request line); the theorems hold for every "
               "such formatting",
               "writers created with shared symbol tables (NewTextWriter(out, sts...)) are not modelled",
               "the tie of the writer model to the specification decoder is a theorem only on the finite universe of "
               "Text/TextRoundtrip.v (tw_tdecode_universe); beyond it, it is the whole-stream oracle on the real code"]
TRUSTED_EXTRA = ["hook file ion/export_verif_textwriter.go (re-exports only)"]

ALPHA = [["FN", "tk,x61,-1"], ["AN", "tk,x62,-1"], ["NULL"], ["INT", "1"], ["SYM", "tk,x666f6f,-1"], ["SFS", "x6e6577"],
         ["STR", "x68"], ["BL"], ["EL"], ["BS"], ["ES"], ["BT"], ["ET"], ["FIN"],
         ["BIG", "nil"], ["DEC", "nil"], ["NT", "99"], ["SYM", "tk,-,-1"], ["FN", "tk,-,-1"], ["AN", "tk,-,-1"]]
CONFIGS = [(0, "compact"), (2, "pretty"), (1, "quiet"), (3, "pretty-quiet")]


# ---------------------------------------------------------------------------
# spec-derived decoding of single tokens (Ion text specification: escapes, identifiers)
# ---------------------------------------------------------------------------
KEYWORDS = {b"null", b"true", b"false", b"nan"}
IDENT = re.compile(rb"[A-Za-z_$][A-Za-z0-9_$]*\Z")
SID = re.compile(rb"\$[0-9]+\Z")
IVM = re.compile(rb"\$ion_[0-9]+_[0-9]+\Z")      # bare at top level this is a version marker, not a symbol value
SIMPLE_ESC = {ord("0"): 0, ord("a"): 7, ord("b"): 8, ord("t"): 9, ord("n"): 10, ord("f"): 12, ord("r"): 13, ord("v"): 11,
              ord("?"): 0x3F, ord('"'): 0x22, ord("'"): 0x27, ord("/"): 0x2F, ord("\\"): 0x5C}
HEXD = b"0123456789abcdefABCDEF"


def valid_utf8(b):
    try:
        bytes(b).decode("utf-8")
        return True
    except UnicodeDecodeError:
        return False


def decode_body(body, quote, clob=False):
    """decode the inside of a short quoted token; returns bytes or a failure string"""
    out = bytearray()
    i = 0
    n = len(body)
    while i < n:
        c = body[i]
        if c == quote:
            return "unescaped quote inside the token"
        if c == 0x5C:
            if i + 1 >= n:
                return "dangling backslash"
            e = body[i + 1]
            if e in SIMPLE_ESC:
                out.append(SIMPLE_ESC[e])
                i += 2
            elif e == 0x0A:
                i += 2
            elif e == ord("x"):
                h = body[i + 2:i + 4]
                if len(h) != 2 or any(x not in HEXD for x in h):
                    return "malformed \\x escape"
                v = int(h, 16)
                if clob:
                    out.append(v)
                else:
                    out += chr(v).encode("utf-8")
                i += 4
            elif e in (ord("u"), ord("U")) and not clob:
                k = 4 if e == ord("u") else 8
                h = body[i + 2:i + 2 + k]
                if len(h) != k or any(x not in HEXD for x in h):
                    return "malformed \\u escape"
                v = int(h, 16)
                if v > 0x10FFFF or 0xD800 <= v <= 0xDFFF:
                    return "escape names no scalar value"
                out += chr(v).encode("utf-8")
                i += 2 + k
            else:
                return "unknown escape \\%c" % e
            continue
        if c < 0x20 and c not in (9, 11, 12):
            return "raw control character 0x%02x" % c
        if clob and c > 0x7F:
            return "raw non-ASCII byte 0x%02x in a clob" % c
        out.append(c)
        i += 1
    return bytes(out)


def decode_symbol_token(tok):
    """the text (bytes) a symbol token denotes, ('sid', n) for $n, or a failure string"""
    if tok[:1] == b"'":
        if len(tok) < 2 or tok[-1:] != b"'":
            return "quoted symbol not closed"
        return decode_body(tok[1:-1], 0x27)
    if not IDENT.match(tok):
        return "unquoted token is not an identifier"
    if tok in KEYWORDS:
        return "unquoted keyword"
    if SID.match(tok):
        return ("sid", int(tok[1:]))
    return bytes(tok)


def needs_quoting_spec(text):
    """a symbol text can be written bare iff it is an identifier, not a keyword, not of the form $<digits>"""
    return not (IDENT.match(text) and text not in KEYWORDS and not SID.match(text))


def check_symbol_spelling(text, tok):
    if not valid_utf8(text):
        return None         # not Ion text; only the correspondence applies
    d = decode_symbol_token(tok)
    if isinstance(d, str):
        return "symbol token %r: %s" % (tok, d)
    if d != text:
        return "symbol token %r denotes %r, written %r" % (tok, d, text)
    if tok[:1] == b"'" and not needs_quoting_spec(text) and not IVM.match(text):
        return "symbol %r quoted although the grammar does not need it" % text
    return None


def check_string_spelling(text, tok):
    if not valid_utf8(text):
        return None
    if len(tok) < 2 or tok[:1] != b'"' or tok[-1:] != b'"':
        return "string token not delimited by double quotes: %r" % tok
    d = decode_body(tok[1:-1], 0x22)
    if isinstance(d, str):
        return "string token %r: %s" % (tok, d)
    if d != text:
        return "string token %r denotes %r, written %r" % (tok, d, text)
    return None


def check_clob_spelling(data, tok):
    if tok[:3] != b'{{"' or tok[-3:] != b'"}}' or len(tok) < 6:
        return "clob token not delimited: %r" % tok
    d = decode_body(tok[3:-3], 0x22, clob=True)
    if isinstance(d, str):
        return "clob token %r: %s" % (tok, d)
    if d != data:
        return "clob token %r denotes %r, written %r" % (tok, d, data)
    return None


def check_blob_spelling(data, tok):
    if tok[:2] != b"{{" or tok[-2:] != b"}}":
        return "blob token not delimited: %r" % tok
    try:
        d = base64.b64decode(tok[2:-2], validate=True)
    except Exception as e:
        return "blob body is not base64: %r" % tok
    if d != data:
        return "blob token denotes %r, written %r" % (d, data)
    return None


# character classes of the Ion text grammar
def spec_charclass(c):
    ch = chr(c) if c < 256 else "\0"
    start = c < 128 and (ch.isalpha() or ch in "_$")
    digit = c < 128 and ch.isdigit()
    part = start or digit
    hexd = c < 128 and ch in "0123456789abcdefABCDEF"
    oper = c < 128 and ch in "!#%&*+-./;<=>?@^`|~"
    # Ion text whitespace is U+0009..U+000D and U+0020
    stop = c < 128 and ch in "{}[](),\"' \t\n\v\f\r"
    ws = c < 128 and ch in " \t\n\v\f\r"
    return "".join("1" if b else "0" for b in (start, part, digit, hexd, oper, stop, ws))


SPEC_NULLS = ["null", "null.null", "null.bool", "null.int", "null.float", "null.decimal", "null.timestamp", "null.symbol",
              "null.string", "null.clob", "null.blob", "null.list", "null.sexp", "null.struct"]


def unhex_field(t):
    return bytes.fromhex(t[1:])


def finite_oracle(line, go):
    """independent judgement of the real code's answer to a finite-domain command"""
    a = line.split(" ")
    g = go.split(" ")
    cmd = a[0]
    if cmd == "charclass":
        exp = "ok " + spec_charclass(int(a[1]))
        return None if go == exp else "character classes of %s: grammar says %s" % (a[1], exp)
    if cmd == "textnull":
        t = int(a[1])
        if t >= len(SPEC_NULLS):
            return None       # index outside the table: guarded by the callers (C12 alphabet NT 99)
        exp = "ok x" + SPEC_NULLS[t].encode().hex()
        return None if go == exp else "typed null %d spelled %s" % (t, go)
    if g[0] != "ok":
        if cmd == "sym_tok" and go == "err" and a[1].startswith("tk,-,-1"):
            return None
        return "real code answered " + go[:80]
    if cmd in ("sym_quote", "sfs_quote"):
        text = unhex_field(a[1])
        tok = unhex_field(g[1])
        if cmd == "sfs_quote" and SID.match(text) and int(text[1:]) < 2 ** 63:
            # WriteSymbolFromString("$7") means symbol ID 7 (as in the binary Writer): written bare
            return None if tok == text else "SID text %r spelled %r" % (text, tok)
        return check_symbol_spelling(text, tok)
    if cmd == "sym_tok":
        _, tx, sid = a[1].split(",")
        tok = unhex_field(g[1])
        if tx != "-":
            return check_symbol_spelling(bytes.fromhex(tx[1:]), tok)
        sid = int(sid)
        if sid >= 0:
            return None if tok == b"$%d" % sid else "symbol ID %d spelled %r" % (sid, tok)
        return None           # negative IDs other than -1: no meaning in the data model
    if cmd == "needs_quote":
        text = unhex_field(a[1])
        if not valid_utf8(text):
            return None
        if SID.match(text) and int(text[1:]) < 2 ** 63:
            return None       # $n is decided by symbolIdentifier before symbolNeedsQuoting is asked
        if IVM.match(text):
            return None       # must be quoted at top level (judged on whole streams), may be quoted anywhere
        exp = needs_quoting_spec(text)
        return None if g[1] == ("1" if exp else "0") else "symbolNeedsQuoting(%r) = %s" % (text, g[1])
    if cmd == "str_escape":
        return check_string_spelling(unhex_field(a[1]), b'"' + unhex_field(g[1]) + b'"')
    if cmd == "sym_escape":
        text = unhex_field(a[1])
        if not valid_utf8(text):
            return None
        d = decode_body(unhex_field(g[1]), 0x27)
        return None if d == text else "escaped symbol body %r decodes to %r, written %r" % (unhex_field(g[1]), d, text)
    if cmd == "clob_escape":
        return check_clob_spelling(unhex_field(a[1]), unhex_field(g[1]))
    if cmd == "b64":
        data = unhex_field(a[1])
        return None if unhex_field(g[1]) == base64.b64encode(data) else "base64 text differs from RFC 4648"
    if cmd == "ffloat":
        import struct
        bits = int(a[1])
        txt = unhex_field(g[1]).decode()
        f = struct.unpack(">d", struct.pack(">Q", bits))[0]
        if f != f:
            return None if txt == "nan" else "NaN spelled " + txt
        if f in (float("inf"), float("-inf")):
            return None if txt == ("+inf" if f > 0 else "-inf") else "infinity spelled " + txt
        # an Ion float: has an exponent part; denotes exactly the value (Python's float() is correctly rounded)
        if not re.match(r"-?[0-9]+(\.[0-9]+)?e[+-]?[0-9]+\Z", txt):
            return "float text %s is not an Ion float" % txt
        back = struct.pack(">d", float(txt))
        return None if back == struct.pack(">Q", bits) else "float text %s does not denote bits %d" % (txt, bits)
    return None


# ---------------------------------------------------------------------------
# request construction
# ---------------------------------------------------------------------------
def textify(seqs):
    """seqs: list of call sequences (lists of token lists, binary protocol).  FLOAT / DEC / TS calls get the
    Go-formatted text appended (FLOATX / DECX / TSX); returns the sequences in the text protocol."""
    need = {}
    for q in seqs:
        for c in q:
            if c[0] == "FLOAT":
                need["fmt_float " + c[1]] = None
            elif c[0] == "DEC" and c[1] != "nil":
                need["fmt_dec %s %s %s" % (c[1], c[2], c[3])] = None
            elif c[0] == "TS":
                need["fmt_ts " + c[1]] = None
    keys = list(need)
    for k, o in zip(keys, run_go(keys)):
        need[k] = o
    out = []
    for q in seqs:
        q2 = []
        for c in q:
            if c[0] == "FLOAT":
                q2.append(["FLOATX", c[1], need["fmt_float " + c[1]]])
            elif c[0] == "DEC" and c[1] != "nil":
                q2.append(["DECX", c[1], c[2], c[3], need["fmt_dec %s %s %s" % (c[1], c[2], c[3])]])
            elif c[0] == "TS":
                q2.append(["TSX", c[1], need["fmt_ts " + c[1]]])
            else:
                q2.append(c)
        out.append(q2)
    return out


def line_of(opts, budget, q):
    return "tw %d %s %s" % (opts, "-" if budget is None else str(budget), " ".join(" ".join(c) for c in q))


def parse_tw(out):
    t = out.split(" ")
    if t[0] != "ok" or len(t) < 4:
        return None
    return t[1][1:], bytes.fromhex(t[2][1:]), int(t[3])


def oracle_seq(calls, go):
    """no panic; an error from a call other than Finish is permanent; a final nil Finish only after complete values"""
    t = go.split(" ")
    if t[0] == "panic":
        return "call #%s panicked" % t[1]
    if t[0] != "ok":
        return "real code: " + go[:100]
    res = t[1][1:]
    if len(res) != len(calls):
        return "result count mismatch"
    failed = False
    for c, r in zip(calls, res):
        if failed and r == "1":
            return "call %s returned nil after an earlier call had returned an error" % c[0]
        if r == "0" and c[0] != "FIN":
            failed = True
    if calls and calls[-1][0] == "FIN" and res[-1] == "1":
        ok_calls = [normal_call(c) for c, r in zip(calls, res) if r == "1"]
        try:
            batches = iongen.forest_of_calls(ok_calls)
        except iongen.Malformed as e:
            return "final Finish returned nil although the successful calls are not complete values (%s)" % e
        if batches and batches[-1] is None:
            return "final Finish returned nil with values left unflushed"
    return None


def normal_call(c):
    """text-protocol call -> binary-protocol call understood by iongen.forest_of_calls"""
    if c[0] == "FLOATX":
        return ["FLOAT", c[1]]
    if c[0] == "DECX":
        return ["DEC", c[1], c[2], c[3]]
    if c[0] == "TSX":
        return ["TS", c[1], "0", "x"]
    return c


IVM_TEXT = b"$ion_1_0".hex()


def classify_case(line, model_out=None, go_out=None):
    return None


def _top_level_bare_ivm(calls):
    """does the sequence write, at top level and without annotations, a symbol value whose text has the shape of
    a version marker ($ion_<digits>_<digits>)?"""
    depth, annotated = 0, False
    for c in calls:
        k = c[0]
        if k in ("AN", "ANS"):
            annotated = True
            continue
        if k == "FN":
            continue
        if k in ("SYM", "SFS") and depth == 0 and not annotated:
            tx = c[1].split(",")[1] if k == "SYM" else c[1]
            if tx != "-" and IVM.match(bytes.fromhex(tx[1:])):
                return True
        if k in ("BL", "BS", "BT"):
            depth += 1
        elif k in ("EL", "ES", "ET"):
            depth -= 1
        annotated = False
    return False


def classify_stream(line, calls, expected, decoded):
    """known-finding class of a whole-stream mismatch, or None.  Narrow: the class is given only when the sequence
    contains the trigger AND removing exactly the values the trigger loses explains the whole difference."""
    if decoded is not None and _top_level_bare_ivm(calls):
        exp = expected.split(" ")
        lost = {"Yt" + b.hex() for b in texts_of_calls(calls) if IVM.match(b)}
        # drop top-level occurrences of the lost symbols from the expectation (depth tracked on the tokens)
        out, depth, prev_ann = [], 0, False
        for tk in exp:
            if tk in lost and depth == 0 and not prev_ann:
                continue
            out.append(tk)
            prev_ann = tk.startswith("a")
            if tk in ("[", "(", "{"):
                depth += 1
            elif tk in ("]", ")", "}"):
                depth -= 1
        if " ".join(out) == decoded:
            return "text-top-level-symbol-version-marker-written-bare"
    return None


# ---------------------------------------------------------------------------
# whole-stream oracle (C04 / C01 / C12 text): the independent specification decoder Text/SpecText.tdecode must read
# the real writer's bytes back as exactly the values of the successful calls
# ---------------------------------------------------------------------------
def texts_of_calls(calls):
    """the symbol / string texts passed by the calls (bytes)"""
    out = []
    for c in calls:
        if c[0] in ("FN", "AN", "SYM"):
            tx = c[1].split(",")[1]
            if tx != "-":
                out.append(bytes.fromhex(tx[1:]))
        elif c[0] == "ANS":
            for tk in c[2:]:
                tx = tk.split(",")[1]
                if tx != "-":
                    out.append(bytes.fromhex(tx[1:]))
        elif c[0] in ("SFS", "STR"):
            out.append(bytes.fromhex(c[1][1:]))
    return out


def expected_obs(ok_calls):
    """observation text (syntax of Data/Ion.v show_values) of the values the successful calls denote, batch by batch;
    raises iongen.Malformed / returns None when they are not complete, flushed values"""
    batches = iongen.forest_of_calls([normal_call(c) for c in ok_calls])
    if batches and batches[-1] is None:
        return None
    if iongen.writes_top_level_table(batches):
        return None               # the calls spell a local symbol table at the top level: not a user value (see iongen)
    return " ".join(x for x in (iongen.show_forest(b) for b in batches) if x)


def check_streams(ctx, component, items):
    """items: (line, calls, go answer).  For every sequence whose last call is a Finish that returned nil."""
    import c02
    todo = []
    for ln, calls, go in items:
        p = parse_tw(go)
        if p is None or not calls or calls[-1][0] != "FIN" or p[0][-1:] != "1":
            continue
        ok_calls = [c for c, r in zip(calls, p[0]) if r == "1"]
        if not all(valid_utf8(x) for x in texts_of_calls(ok_calls)):
            continue          # a Go string that is not UTF-8 is not Ion text: precondition of C04/C01
        try:
            exp = expected_obs(ok_calls)
        except iongen.Malformed:
            continue          # reported by oracle_seq
        if exp is None:
            continue
        todo.append((ln, ok_calls, exp, p[1]))
    dec = c02.tdecode_many([out for _, _, _, out in todo])
    n_ok = 0
    for (ln, ok_calls, exp, out), d in zip(todo, dec):
        if oracle_silent(ctx, component, ln, d):
            continue
        if d is None:
            if out == b"" and exp == "":
                n_ok += 1
                continue
            ctx.fail("property", component, ln, "final Finish returned nil but the bytes are outside the Ion text grammar "
                     "(independent decoder): %r" % out[:200], classify_stream(ln, ok_calls, exp, d))
        elif d != exp:
            ctx.fail("property", component, ln, "independent text decoder recovers '%s' but the successful calls denote '%s'; "
                     "bytes %r" % (d[:240], exp[:240], out[:200]), classify_stream(ln, ok_calls, exp, d))
        else:
            n_ok += 1
    ctx.count(component, len(todo), [], agree=n_ok)


# ---------------------------------------------------------------------------
# corpora
# ---------------------------------------------------------------------------
def utf8_contexts(b):
    """valid UTF-8 strings in which byte b occurs (as lead or continuation byte), when there are any"""
    out = []
    if b < 0x80:
        return [bytes([b])]
    if 0x80 <= b <= 0xBF:
        out += [bytes([0xC2, b]), bytes([0xE1, b, 0x80]), bytes([0xE1, 0x80, b]), bytes([0xF1, b, 0x80, 0x80]), bytes([0xF1, 0x80, 0x80, b])]
    elif 0xC2 <= b <= 0xDF:
        out += [bytes([b, 0x80]), bytes([b, 0xBF])]
    elif 0xE0 <= b <= 0xEF:
        out += [bytes([b, 0xA0 if b == 0xE0 else 0x80, 0x80])]
    elif 0xF0 <= b <= 0xF4:
        out += [bytes([b, 0x90 if b == 0xF0 else 0x80, 0x80, 0x80])]
    return out


def text_corpus():
    c = []
    for b in range(256):
        for ctx in utf8_contexts(b) + [bytes([b])]:
            c += [ctx + b"ab", b"a" + ctx + b"b", b"ab" + ctx, ctx]
    c += [b"", b"null", b"true", b"false", b"nan", b"NULL", b"nul", b"nulls", b"null.int", b"+inf", b"-inf", b"inf",
          b"$0", b"$1", b"$10", b"$007", b"$+5", b"$-5", b"$", b"$$", b"$a", b"$1a", b"$9223372036854775807",
          b"$9223372036854775808", b"$99999999999999999999", b"$ion", b"$ion_1_0", b"$ion_2_0", b"$ion_10_11", b"$ion_1_", b"$ion__0", b"$ion_1_0_", b"$ion_1_0a", b"$ION_1_0",
          b"$ion_1", b"$ion_", b"a$ion_1_0", b"$ion_symbol_table",
          b"$ion_shared_symbol_table", b"name", b"symbols", b"_", b"_1", b"a1", b"1a", b"a b", b"a.b", b"a-b", b"a::b",
          b"it's", b"'", b"''", b'"', b"\\", b"\\n", b"//", b"/*", b"*/", b"{}", b"{{", b"}}", b"[", b"(", b"a,b",
          "\u00e9".encode(), "\u65e5\u672c".encode(), "\U0001F600".encode(), "\ufffd".encode(), "\u2028".encode(), "\ufeff".encode(),
          b"\xed\xa0\x80", b"\xed\xa0\xbd\xed\xb8\x80", b"\xc0\x80", b"\xf4\x90\x80\x80", b"\xff", b"a\x00b", b"\x7f",
          b"x" * 300]
    for op in "!#%&*+-./;<=>?@^`|~":
        c += [op.encode(), (op + op).encode(), ("a" + op).encode()]
    seen = set()
    out = []
    for t in c:
        if t not in seen:
            seen.add(t)
            out.append(t)
    return out


def token_lines(corpus):
    """single-token documents in which the spelling can be cut out of the output without a parser.
    Returns (calls, kind, payload, prefix, suffix) for compact mode."""
    items = []
    for t in corpus:
        h = iongen.hx(t)
        tk = "tk,%s,-1" % h
        items.append(([["SYM", tk], ["FIN"]], "sym", t, b"", b"\n"))
        items.append(([["BT"], ["FN", tk], ["NULL"], ["ET"], ["FIN"]], "sym", t, b"{", b":null}\n"))
        items.append(([["AN", tk], ["NULL"], ["FIN"]], "sym", t, b"", b"::null\n"))
        items.append(([["BS"], ["SYM", tk], ["ES"], ["FIN"]], "sym", t, b"(", b")\n"))
        items.append(([["STR", h], ["FIN"]], "str", t, b"", b"\n"))
        items.append(([["CLOB", h], ["FIN"]], "clob", t, b"", b"\n"))
        items.append(([["BLOB", h], ["FIN"]], "blob", t, b"", b"\n"))
        if not SID.match(t):
            items.append(([["SFS", h], ["FIN"]], "sym", t, b"", b"\n"))
    return items


CHECKERS = {"sym": check_symbol_spelling, "str": check_string_spelling, "clob": check_clob_spelling, "blob": check_blob_spelling}


# ---------------------------------------------------------------------------
# run
# ---------------------------------------------------------------------------
def run_finite(ctx):
    rng = ctx.rng
    lines = ["charclass %d" % c for c in range(0, 300)] + ["textnull %d" % t for t in range(0, 20)]
    one = [bytes([a]) for a in range(256)]
    two = [bytes([a, b]) for a in range(256) for b in range(256)]
    for t in [b""] + one:
        h = iongen.hx(t)
        lines += ["sym_quote " + h, "sfs_quote " + h, "needs_quote " + h, "str_escape " + h, "sym_escape " + h, "clob_escape " + h]
    if not ctx.thorough():
        # every 2-byte text whose bytes are ASCII or one fixed representative per non-ASCII class, plus a seeded sample
        reps = list(range(128)) + [0x80, 0xBF, 0xC2, 0xE0, 0xED, 0xF4, 0xFF]
        two = [bytes([a, b]) for a in reps for b in reps] + rng.sample(two, 4000)
    for t in two:
        h = iongen.hx(t)
        lines += ["sym_quote " + h, "str_escape " + h]
    for t in text_corpus():
        h = iongen.hx(t)
        lines += ["sym_quote " + h, "sfs_quote " + h, "needs_quote " + h, "str_escape " + h, "sym_escape " + h, "clob_escape " + h]
        for sid in (-1, 0, 7, 10):
            lines.append("sym_tok tk,%s,%d" % (h, sid))
    for sid in [-1, 0, 1, 9, 10, 12345, 2 ** 63 - 1, -2, -2 ** 63]:
        lines.append("sym_tok tk,-,%d" % sid)
    for n in list(range(0, 12)) + [765, 766, 767, 768, 769, 770, 771, 772, 1535, 1536, 1537, 1538, 2304, 2305, 3000]:
        lines.append("b64 " + iongen.hx(bytes(rng.randrange(256) for _ in range(n))))
    for _ in range(ctx.scale(60, 2000)):
        lines.append("b64 " + iongen.hx(bytes(rng.randrange(256) for _ in range(rng.randint(0, 2400)))))
    bits = list(iongen.FLOAT_EDGES) + [0x7FF0000000000001, 0xFFF8000000000000, 0x4024000000000000, 0x4415AF1D78B58C40,
                                       0x3E112E0BE826D695, 0x0010000000000000, 0x000FFFFFFFFFFFFF, 0x8000000000000001]
    bits += [rng.getrandbits(64) for _ in range(ctx.scale(3000, 100000))]
    raws = run_go(["fmt_float %d" % b for b in bits])
    lines += ["ffloat %d %s" % (b, r) for b, r in zip(bits, raws)]
    ctx.correspond("K4-text-finite", lines, oracle=finite_oracle, classify=classify_case,
                   nontrivial=lambda ln, m: m.startswith("ok") or m.startswith("panic") or m == "err")


def proto_sequences(ctx):
    rng = ctx.rng
    maxlen = ctx.scale(3, 4)
    seqs = []
    for n in range(1, maxlen + 1):
        for combo in itertools.product(range(len(ALPHA)), repeat=n):
            seqs.append([ALPHA[i] for i in combo])
    if not ctx.thorough():
        keep = [q for q in seqs if len(q) <= 2]
        rest = [q for q in seqs if len(q) == 3]
        rng.shuffle(rest)
        seqs = keep + rest[:2500]
    return [q if q[-1][0] == "FIN" else q + [["FIN"]] for q in seqs]


def long_sequences(ctx, n):
    """legal forests with one misuse injected, a call removed, or a second batch after Finish"""
    rng = ctx.rng
    longs = []
    for _ in range(n):
        f = iongen.gen_forest(rng, {"depth": 3})
        toks = iongen.split_calls(iongen.calls_of_forest(f, rng))
        r = rng.random()
        if r < 0.35:
            toks.insert(rng.randint(0, len(toks)), rng.choice(ALPHA))
        elif r < 0.5 and len(toks) > 2:
            del toks[rng.randint(0, len(toks) - 2)]
        elif r < 0.75:
            f2 = iongen.gen_forest(rng, {"depth": 2})
            toks = toks + iongen.split_calls(iongen.calls_of_forest(f2, rng))
        if toks[-1][0] != "FIN":
            toks.append(["FIN"])
        longs.append(toks)
    return textify(longs)


def pending_at_end_sequences():
    """a FieldName / Annotation call still pending when a container is closed (or when Finish is called) must not
    leak into what follows: every container kind, at the top level, inside a list and inside a struct"""
    FN, AN, INT = ["FN", "tk,x61,-1"], ["AN", "tk,x62,-1"], ["INT", "1"]
    FNB = ["FN", "tk,x63,-1"]
    out = []
    for b, e in (("BL", "EL"), ("BS", "ES"), ("BT", "ET")):
        for pend in ([AN], [FN], [FN, AN], [AN, AN]):
            if b != "BT" and FN in pend:
                continue            # FieldName outside a struct is refused: covered by the short sequences
            inner = [[b]] + pend + [[e]]
            out.append(inner + [INT, ["FIN"]])
            out.append(inner + [["FIN"], INT, ["FIN"]])
            out.append([["BL"]] + inner + [INT, ["EL"], ["FIN"]])
            out.append([["BS"]] + inner + [INT, ["ES"], ["FIN"]])
            out.append([["BT"], FN] + inner + [INT, ["ET"], ["FIN"]])          # a value without a field name: must fail
            out.append([["BT"], FN] + inner + [FNB, INT, ["ET"], ["FIN"]])
            out.append([["BT"], FN] + inner + [["ET"], INT, ["FIN"]])
    for pend in ([AN], [AN, AN]):
        out.append(pend + [["FIN"], INT, ["FIN"]])                                  # pending at Finish, then a new batch
        out.append([INT] + pend + [["FIN"]])
    return out


def run_proto(ctx):
    seqs = proto_sequences(ctx) + pending_at_end_sequences() + long_sequences(ctx, ctx.scale(1200, 20000))
    for opts, name in CONFIGS:
        qs = seqs if opts in (0, 2) else seqs[::4]
        lines = [line_of(opts, None, q) for q in qs]
        comp = "K4-text-proto-" + name
        mo, go = ctx.correspond(comp, lines, nontrivial=lambda ln, m: not m.startswith("badinput"))
        for ln, q, g in zip(lines, qs, go):
            why = oracle_seq(q, g)
            if why:
                ctx.fail("property", comp, ln, why, classify_case(ln))
        check_streams(ctx, "text-stream-oracle-proto-" + name, zip(lines, qs, go))


def run_forests(ctx):
    rng = ctx.rng
    # (1) single-token documents: spelling judged without a parser
    items = token_lines(text_corpus())
    lines = [line_of(0, None, it[0]) for it in items]
    mo, go = ctx.correspond("K4-text-tokens", lines, nontrivial=lambda ln, m: m.startswith("ok"))
    n_ok = 0
    for ln, it, g in zip(lines, items, go):
        calls, kind, payload, pre, suf = it
        p = parse_tw(g)
        if p is None or "0" in p[0]:
            ctx.fail("property", "text-spelling-oracle", ln, "a legal call sequence was refused or crashed: " + g[:160], classify_case(ln))
            continue
        out = p[1]
        if not (out.startswith(pre) and out.endswith(suf) and len(out) >= len(pre) + len(suf)):
            ctx.fail("property", "text-spelling-oracle", ln, "output %r is not %r <token> %r" % (out[:80], pre, suf), classify_case(ln))
            continue
        why = CHECKERS[kind](payload, out[len(pre):len(out) - len(suf)])
        if why:
            ctx.fail("property", "text-spelling-oracle", ln, why, classify_case(ln))
        else:
            n_ok += 1
    ctx.count("text-spelling-oracle", len(lines), [], agree=n_ok)
    check_streams(ctx, "text-stream-oracle-tokens", [(ln, it[0], g) for ln, it, g in zip(lines, items, go)])
    # (2) random forests, all four configurations; legal sequences must succeed; same calls twice give the same bytes
    forests = [iongen.gen_forest(rng, {"depth": 3}) for _ in range(ctx.scale(1200, 20000))]
    # typed nulls, every scalar kind under annotation / field / list / sexp, deep nesting
    for _ in range(40):
        v = iongen.gen_value(rng, 0, {"p_annot": 0})
        forests.append([([b"ann"], v[1]), ([], ("struct", [(b"fld", ([b"x", b"y"], v[1]))])), ([], ("list", [v, v])), ([], ("sexp", [v, v]))])
    v = ([], ("int", 7))
    for i in range(40):
        v = ([b"n"] if i % 3 == 0 else [], (["list", "sexp", "struct"][i % 3], [v] if i % 3 != 2 else [(b"k", v)]))
    forests.append([v])
    for n in (766, 768, 769, 771, 1536, 1540, 2400):
        forests.append([([], ("blob", bytes((i * 7) % 256 for i in range(n)))), ([], ("clob", bytes(i % 256 for i in range(n % 300))))])
    seqs = textify([iongen.split_calls(iongen.calls_of_forest(f, rng)) for f in forests])
    for opts, name in CONFIGS:
        qs = seqs if opts in (0, 2) else seqs[::3]
        lines = [line_of(opts, None, q) for q in qs]
        comp = "K4-text-forests-" + name
        mo, go = ctx.correspond(comp, lines, nontrivial=lambda ln, m: m.startswith("ok"))
        again = run_go(lines[::5])
        for ln, g, g2 in zip(lines[::5], go[::5], again):
            if g != g2:
                ctx.fail("property", comp, ln, "the same call sequence gave different answers: %s / %s" % (g[:100], g2[:100]))
        for ln, q, g in zip(lines, qs, go):
            p = parse_tw(g)
            if p is None or "0" in p[0]:
                ctx.fail("property", comp, ln, "a legal call sequence was refused or crashed: " + g[:160], classify_case(ln))
        check_streams(ctx, "text-stream-oracle-forests-" + name, zip(lines, qs, go))
    return seqs


def budget_oracle(q, k, base, go):
    """base = (results, bytes, nwrites) of the fault-free run; go = answer with budget k"""
    why = oracle_seq(q, go)
    if why:
        return why
    p = parse_tw(go)
    res, out, nw = p
    bres, bout, bnw = base
    if not bout.startswith(out):
        return "bytes accepted with %d writes allowed (%r...) are not a prefix of the fault-free output" % (k, out[-40:])
    if k >= bnw:
        return None if (res, out, nw) == base else "budget %d >= %d writes needed, yet the run differs from the fault-free run" % (k, bnw)
    if nw != k:
        return "the io.Writer accepted %d writes with budget %d" % (nw, k)
    if "0" not in res:
        return "the io.Writer refused a write but no call returned an error"
    for i, (a, b) in enumerate(zip(res, bres)):
        if a == "1" and b == "0":
            return "call #%d fails fault-free but succeeds under a failing io.Writer" % i
    # the call that met the refused write fails, and so does every later call (Finish included)
    hit = next((i for i, (a, b) in enumerate(zip(res, bres)) if a == "0" and b == "1"), None)
    # (hit None: the refused write belongs to a call that fails fault-free too; such a call is not Finish, which
    # writes nothing when it fails fault-free, so oracle_seq has already required all later calls to fail)
    if hit is not None and "1" in res[hit:]:
        return "call #%d returned nil after call #%d had met the io.Writer failure" % (hit + res[hit:].index("1"), hit)
    # results agree with the fault-free run up to the first call that met the failure
    first = next(i for i, (a, b) in enumerate(zip(res, bres)) if a != b) if res != bres else len(res)
    if res[:first] != bres[:first]:
        return "results differ before the failure"
    return None


def run_budgets(ctx, seqs):
    rng = ctx.rng
    pool = [q for q in seqs if len(q) <= 40]
    protos = proto_sequences(ctx)
    sample = rng.sample(pool, min(len(pool), ctx.scale(60, 1500)))
    sample += [q for q in protos if len(q) <= 3] + [q for q in protos if len(q) > 3][::ctx.scale(8, 2)]
    # a second batch after a Finish that may have met the failure
    sample += [[["INT", "1"], ["FIN"], a, b, ["FIN"]] for a in ALPHA for b in ALPHA]
    sample += textify([[["BLOB", iongen.hx(bytes(range(256)) * 4)], ["FIN"]],
                       [["BT"], ["FN", "tk,x6e756c6c,-1"], ["ANS", "2", "tk,x2435,-1", "tk,x61,-1"], ["BS"], ["SFS", "x2b"],
                        ["CLOB", "x00ff22"], ["STR", "x615c"], ["ES"], ["ET"], ["FIN"], ["INT", "1"], ["FIN"]]])
    for opts, name in CONFIGS[:2] + CONFIGS[3:]:
        qs = sample if opts != 3 else sample[::3]
        base_lines = [line_of(opts, None, q) for q in qs]
        bases = [parse_tw(g) for g in run_go(base_lines)]
        lines, meta = [], []
        for q, b in zip(qs, bases):
            if b is None:
                continue
            ks = range(0, b[2] + 2) if b[2] <= 120 else sorted(set(list(range(0, 40)) + rng.sample(range(40, b[2]), 60) + [b[2] - 1, b[2], b[2] + 1]))
            for k in ks:
                lines.append(line_of(opts, k, q))
                meta.append((q, k, b))
        comp = "K4-text-budget-" + name
        mo, go = ctx.correspond(comp, lines, nontrivial=lambda ln, m: m.startswith("ok"))
        for ln, (q, k, b), g in zip(lines, meta, go):
            why = budget_oracle(q, k, b, g)
            if why:
                ctx.fail("property", comp, ln, why, classify_case(ln))


def run(ctx, parts=("finite", "proto", "forests", "budgets")):
    seqs = None
    if "finite" in parts:
        run_finite(ctx)
    if "proto" in parts:
        run_proto(ctx)
    if "forests" in parts or "budgets" in parts:
        seqs = run_forests(ctx)
    if "budgets" in parts:
        run_budgets(ctx, seqs)


def split_tcalls(tokens):
    """group the flat token list of a tw request into calls (text protocol)"""
    ar = {"FLOATX": 2, "DECX": 4, "TSX": 2}
    out, i = [], 0
    while i < len(tokens):
        c = tokens[i]
        if c in ar:
            out.append(tokens[i:i + 1 + ar[c]])
            i += 1 + ar[c]
        elif c == "ANS":
            n = int(tokens[i + 1])
            out.append(tokens[i:i + 2 + n])
            i += 2 + n
        else:
            one = iongen.split_calls(tokens[i:i + 2] if c != "DEC" or tokens[i + 1] == "nil" else tokens[i:i + 4])
            out.append(one[0])
            i += len(one[0])
    return out


def oracle(line, go_out):
    """replay entry point: judge one request line"""
    a = line.split(" ")
    if a[0] != "tw":
        return finite_oracle(line, go_out)
    return oracle_seq(split_tcalls(a[3:]), go_out)
