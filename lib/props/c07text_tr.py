"""C07text — the text reader's theorems (Props/C07text.v) together with the K5 correspondence of
lib/props/textreader_k5.py; `bin/check C07text` runs both."""
from textreader_k5 import *  # noqa: F401,F403
import textreader_k5

THEOREMS = ["tr_sticky_reach", "tr_sticky", "tr_sticky_run",
            "tr_no_panic_step", "tr_wf_init", "tr_no_panic", "tr_no_panic_text", "tr_read_lst_ok",
            "tr_tokenizer_no_panic", "tr_skip_container_frame", "tr_next_spec", "tr_read_radix_shape",
            "tr_parse_int_no_panic",
            "tr_utf8_read_value", "tr_utf8_app", "tr_utf8", "tr_utf8_step",
            "tr_progress_whitespace", "tr_progress_digits", "tr_progress_radix_digits", "tr_progress_skip_digits", "tr_progress_plain_digits",
            "tr_progress_strings", "tr_progress_skip_container_loop", "tr_progress_skip_container", "tr_fuel_linear"]
LEVEL = "other"
EXPLANATION = ("Theorems over the text reader model for all inputs and all navigation programs: the error is sticky "
               "(tr_sticky*); no call of Next / StepIn / StepOut / any accessor panics (tr_no_panic, by the reader "
               "invariant WF of tr_no_panic_step; the former nil dereferences D02/D03 are fixed in the code and in "
               "the model); every text the reader holds is valid UTF-8 (tr_utf8); the whitespace/comment, digit, string/clob and container-skipping loops never run out of fuel (fuel = characters left + 2). "
               + textreader_k5.EXPLANATION)
run = textreader_k5.run
