"""C07text — the text reader's theorems (Props/C07text.v) together with the K5 correspondence of
lib/props/textreader_k5.py; `bin/check C07text` runs both."""
from textreader_k5 import *  # noqa: F401,F403
import textreader_k5

THEOREMS = ["tr_sticky_reach", "tr_sticky", "tr_sticky_run", "tr_no_panic_refuted", "tr_no_panic_refuted_lst",
            "tr_progress_whitespace", "tr_progress_digits", "tr_progress_radix_digits", "tr_progress_skip_digits",
            "tr_fuel_linear", "tr_tokenizer_no_panic", "tr_skip_container_frame", "tr_next_spec"]
LEVEL = "other"
EXPLANATION = ("Theorems over the text reader model for all inputs and all navigation programs: the error is sticky "
               "(tr_sticky*), 'no call panics' is refuted by the D02/D03 witnesses, the whitespace/comment and digit loops "
               "never run out of fuel (fuel = characters left + 2), the bare tokenizer + skipper never panic under their protocol (tr_tokenizer_no_panic). " + textreader_k5.EXPLANATION)
run = textreader_k5.run
