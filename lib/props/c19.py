"""C19 — results do not depend on I/O chunking, and I/O failures are reported."""
from vlib import *
import iongen
import binlib
import c12text
import textgen

THEOREMS = ["C19_text_prefix", "C19_text_fault_reported", "C19_binary_failure_permanent", "C19_binary_prefix_chunks", "C19_binary_prefix", "C19_binary_prefix_lst", "C19_binary_fault_reported", "C19_binary_fault_detected", "C19_binary_budget_respected", "C19_binary_append_only", "C19_binary_fault_recorded"]
LEVEL = "other"
EXPLANATION = ("read side: documents (binary and text) x chunkings (every single split point, byte-at-a-time, random "
               "chunk sizes, data returned together with io.EOF) must give the trace of the all-at-once read; a source "
               "that fails after k bytes, for every k, must end the traversal with a permanent non-nil Err (K2 ties the "
               "binary reader model, which has an explicit failing-source flag, to the same runs).  write side: for every "
               "write budget k of a sample of call sequences, some call up to Finish fails, all later calls fail, and the "
               "bytes accepted are a prefix of the fault-free output (binary: K3 with budgets + oracle; text: theorem "
               "tw_prefix for all sequences and budgets + K4 with budgets).")


def run(ctx):
    rng = ctx.rng
    forests = binlib.gen_forests(ctx, ctx.scale(120, 3000), {"depth": 3})
    bdocs = binlib.encode_docs(ctx, forests, True)
    tdocs = [list(textgen.render(f, rng)) for f in forests[: ctx.scale(80, 2000)]]
    # ---- chunking (real code only: chunk boundaries live inside bufio) ----
    lines, base = [], []
    for d in bdocs + tdocs:
        h = iongen.hx(d)
        n = len(d)
        ref = "bchunk 0 0 0 " + h
        variants = ["bchunk 1 0 0 " + h, "bchunk 0 1 0 " + h, "bchunk 1 1 0 " + h, "bchunk %d 0 0 %s" % (rng.randint(2, 9), h),
                    "bchunk %d 1 0 %s" % (rng.randint(2, 4100), h)]
        splits = range(1, n) if n <= 80 else sorted(set(rng.randint(1, n - 1) for _ in range(12)))
        variants += ["bchunk s%d 0 0 %s" % (k, h) for k in splits]
        for v in variants:
            lines.append(v)
            base.append(ref)
    refs = sorted(set(base))
    refout = dict(zip(refs, run_go(refs)))
    outs = run_go(lines)
    bad = 0
    for ln, b, o in zip(lines, base, outs):
        if o != refout[b]:
            bad += 1
            ctx.fail("property", "C19-chunking", ln[:3000], "trace differs from the all-at-once read: %s vs %s" % (o[:200], refout[b][:200]))
    ctx.count("C19-chunking", len(lines), lines[:3000], differing=bad, sample=lines[3][:120])
    # ---- read failure at every offset ----
    fl, binary_flags = [], []
    for d in bdocs[: ctx.scale(60, 1500)] + tdocs[: ctx.scale(40, 1000)]:
        n = len(d)
        ks = range(0, n + 1) if n <= 120 else sorted(set([0, 4, n] + [rng.randint(0, n) for _ in range(25)]))
        for k in ks:
            fl.append("btrav 1 " + iongen.hx(d[:k]))
            binary_flags.append(d[:1] == [0xE0])
    bl = [l for l, b in zip(fl, binary_flags) if b]
    tl = [l for l, b in zip(fl, binary_flags) if not b]
    mo, go = ctx.correspond("K13-binreader-failing-source", bl, canon=binlib.canon_trace_full, nontrivial=lambda ln, m: True)
    got = run_go(tl)
    ctx.count("C19-text-failing-source", len(tl), tl[:2000])
    for ln, g in list(zip(bl, go)) + list(zip(tl, got)):
        t = g.split(" ")
        if t[-5:] != ["e1", "F", "e1", "F", "e1"]:
            ctx.fail("property", "C19-read-failure", ln[:3000], "a failing io.Reader was not reported as a permanent error: ... %s" % " ".join(t[-8:]))
    # ---- write budgets, binary ----
    seqs = []
    for f in forests[: ctx.scale(60, 1500)]:
        calls = iongen.calls_of_forest(f, rng)
        if rng.random() < 0.3:
            calls += iongen.calls_of_forest(iongen.gen_forest(rng, {"depth": 2}), rng)
        seqs.append(" ".join(calls))
    free = run_go(["bw - " + q for q in seqs])
    wl, meta = [], []
    for q, fr in zip(seqs, free):
        p = binlib.parse_bw(fr)
        if p is None:
            ctx.fail("property", "C19-write-budget", "bw - " + q, "fault-free run failed: " + fr[:100])
            continue
        for k in range(0, p[2] + 1):
            wl.append("bw %d %s" % (k, q))
            meta.append((p[1], p[2], k))
    mo, go = ctx.correspond("K3-binwriter-budgets", wl, nontrivial=lambda ln, m: m.startswith("ok"))
    for ln, (fhex, nw, k), g in zip(wl, meta, go):
        p = binlib.parse_bw(g)
        if p is None:
            ctx.fail("property", "C19-write-budget", ln, "real code: " + g[:100])
            continue
        res, hx_, writes = p
        why = None
        if not fhex.startswith(hx_):
            why = "accepted bytes are not a prefix of the fault-free output"
        elif k < nw and "0" not in res:
            why = "the io.Writer refused write #%d but every call including Finish returned nil" % (k + 1)
        elif "0" in res and "1" in res[res.index("0"):]:
            why = "a call returned nil after an earlier call had failed"
        if why:
            ctx.fail("property", "C19-write-budget", ln, why + " (results %s)" % res)
    # ---- write budgets, text (theorem tw_prefix + K4) ----
    c12text.run(ctx, ("budgets",))
