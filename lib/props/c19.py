"""C19 — results do not depend on I/O chunking, and I/O failures are reported."""
import os
import re
from vlib import *
import iongen
import binlib
import c12text
import textgen

THEOREMS = ["C19_text_prefix", "C19_text_fault_reported", "C19_binary_failure_permanent", "C19_binary_prefix_chunks", "C19_binary_prefix", "C19_binary_prefix_lst", "C19_binary_fault_reported", "C19_binary_fault_detected", "C19_binary_budget_respected", "C19_binary_append_only", "C19_binary_fault_recorded",
            "C19_bufio_op_refines", "C19_bufio_chunk_independent", "C19_bufio_chunk_independent_ops", "C19_bufio_failure_never_eof",
            "C19_bufio_failure_reported", "C19_bufio_ex",
            "C19_binreader_input_init", "C19_binreader_read_byte", "C19_binreader_read_full", "C19_binreader_discard", "C19_binreader_peek", "C19_binreader_ex", "C19_tokenizer_read_is_client", "C19_tokenizer_read_chunk_independent", "C19_tokenizer_crlf_ex"]
EXTRA_MODULES = ["C19bufio"]
LEVEL = "other"
EXPLANATION = ("read side: documents (binary and text) x chunkings (every single split point, byte-at-a-time, random "
               "chunk sizes, data returned together with io.EOF) must give the trace of the all-at-once read; a source "
               "that fails after k bytes, for every k, must end the traversal with a permanent non-nil Err (K2 ties the "
               "binary reader model, which has an explicit failing-source flag, to the same runs).  write side: for every "
               "write budget k of a sample of call sequences, some call up to Finish fails, all later calls fail, and the "
               "bytes accepted are a prefix of the fault-free output (binary: K3 with budgets + oracle; text: theorem "
               "tw_prefix for all sequences and budgets + K4 with budgets).")


BUFIO_ALLOWED = {"ReadByte", "Peek", "Discard"}


def bufio_interface(ctx):
    """premise of the C19_bufio_* theorems, checked on /repo's source on every run: the non-test code of package ion
    touches a *bufio.Reader only through ReadByte, Peek, Discard, io.ReadFull (and passes it on / constructs it)"""
    import glob
    bad, uses = [], {}
    for path in sorted(glob.glob(os.path.join(REPO, "ion", "*.go"))):
        base = os.path.basename(path)
        if base.endswith("_test.go") or base.startswith("export_verif"):
            continue
        src = open(path, errors="replace").read()
        src = re.sub(r"//[^\n]*", "", src)
        if "bufio" not in src:
            continue
        # names bound to a *bufio.Reader in this file: struct fields / parameters / locals
        names = set(re.findall(r"(\w+)\s+\*bufio\.Reader", src)) | set(re.findall(r"(\w+)\s*:?=\s*bufio\.NewReader", src))
        names.discard("func")
        for nm in names:
            for m in re.finditer(r"(?<![\w])(?:\w+\.)?%s\.(\w+)\(" % re.escape(nm), src):
                meth = m.group(1)
                uses[meth] = uses.get(meth, 0) + 1
                if meth not in BUFIO_ALLOWED:
                    bad.append("%s: %s.%s(" % (base, nm, meth))
        for m in re.finditer(r"bufio\.(\w+)", src):
            if m.group(1) not in ("Reader", "NewReader", "NewReaderSize"):
                bad.append("%s: bufio.%s" % (base, m.group(1)))
        for m in re.finditer(r"io\.(Read\w+|Copy\w*)\(\s*(?:\w+\.)?(\w+)", src):
            if m.group(2) in names:
                uses["io." + m.group(1)] = uses.get("io." + m.group(1), 0) + 1
                if m.group(1) != "ReadFull":
                    bad.append("%s: io.%s on a bufio.Reader" % (base, m.group(1)))
    if bad:
        ctx.fail("tie", "K13b-bufio-interface", "source scan of ion/*.go",
                 "the Readers use their bufio.Reader through something other than ReadByte/Peek/Discard/io.ReadFull, so the "
                 "premise of C19_bufio_chunk_independent no longer describes the code: " + "; ".join(bad[:6]))
    ctx.count("K13b-bufio-interface", 1, ["scan"], uses=uses, outside_interface=len(bad))


def model_interface(ctx):
    """the premise of C19_binreader_* / C19_tokenizer_read_*, checked on the Coq sources on every run: the reader models
    reach their input (b_in, t_in) only inside the primitives those theorems speak about"""
    coq = os.path.join(ROOT, "coq")
    bad = []

    def defs_using(path, proj):
        src = re.sub(r"\(\*.*?\*\)", "", open(path).read(), flags=re.S)
        out = set()
        for m in re.finditer(r"^(?:Definition|Fixpoint|Function)\s+(\w+)(.*?)(?=^(?:Definition|Fixpoint|Function|Record|Inductive|Notation|Lemma|Theorem|Example)\b|\Z)", src, flags=re.S | re.M):
            if re.search(r"\b%s\s+[A-Za-z(]" % proj, m.group(2)):
                out.add(m.group(1))
        return out

    b_users = defs_using(os.path.join(coq, "Bin", "BitStream.v"), "b_in")
    extra = b_users - {"b_read", "b_readN", "b_skip", "b_peek", "upd_state", "upd_stack", "upd_cur", "upd_alloc", "upd_fuel"}
    if extra:
        bad.append("Bin/BitStream.v reads b_in in " + ", ".join(sorted(extra)))
    t_users = defs_using(os.path.join(coq, "Text", "Tokenizer.v"), "t_in")
    extra = t_users - {"t_read", "t_rem", "t_fuel", "set_buf", "set_token", "set_unfinished", "set_tok"}
    if extra:
        bad.append("Text/Tokenizer.v reads t_in in " + ", ".join(sorted(extra)))
    for sub, proj, home in (("Bin", "b_in", "BitStream.v"), ("Text", "t_in", "Tokenizer.v"), ("Sym", "b_in", ""), ("Cli", "b_in", ""), ("Go", "t_in", "")):
        for f in sorted(os.listdir(os.path.join(coq, sub))):
            if not f.endswith(".v") or f.endswith("P.v") or f.endswith("IO.v") or f == home or f.startswith(("Spell", "Tmp_", "Rej", "WriteSpell", "Skip")):
                continue
            src = re.sub(r"\(\*.*?\*\)", "", open(os.path.join(coq, sub, f)).read(), flags=re.S)
            if re.search(r"\b%s\b" % proj, src):
                bad.append("%s/%s mentions %s" % (sub, f, proj))
    if bad:
        ctx.fail("tie", "K13b-model-interface", "scan of the reader models",
                 "a reader model reaches its input outside the primitives of C19_binreader_* / C19_tokenizer_read_*: " + "; ".join(bad[:5]))
    ctx.count("K13b-model-interface", 1, ["scan"], b_in_users=sorted(b_users), t_in_users=sorted(t_users), outside=len(bad))


def bufio_model(ctx):
    """K13b: Base/Bufio.v against the real bufio.Reader (operation programs x chunk schedules x final error), and the
    real answers against the chunk-free specification side of the model (bufiospec): that is the property itself"""
    rng = ctx.rng
    lines = []
    edge = [1, 2, 3, 15, 16, 17, 4095, 4096, 4097, 5000, 8191, 8192, 8193]

    def size():
        return rng.choice([rng.randint(1, 8), rng.randint(1, 300), rng.choice(edge), rng.choice(edge)])

    def amount(n):
        return rng.choice([0, 1, 2, rng.randint(0, 40), rng.choice(edge), max(0, n + rng.randint(-3, 3)), rng.randint(0, n + 5)])

    for _ in range(ctx.scale(3000, 60000)):
        n = rng.choice([0, 1, rng.randint(0, 30), rng.randint(0, 600), rng.choice(edge), rng.randint(4000, 9000)])
        data = bytes(rng.randrange(256) for _ in range(n))
        k = rng.choice([0, 0, 1, 2, rng.randint(0, 12), rng.randint(0, 60)])
        sizes = [size() for _ in range(k)]
        if rng.random() < 0.2:
            sizes = [1] * rng.randint(1, 200)
        ops = []
        for _ in range(rng.randint(1, 14)):
            o = rng.choice(["rb", "rb", "pk", "ds", "rf", "rf"])
            if o == "rb":
                ops.append("rb")
            else:
                a = amount(n)
                if o == "pk" and rng.random() < 0.7:
                    a = rng.choice([1, 2, 4, 5, rng.randint(0, 12), a])
                ops += [o, str(a)]
        lines.append("bufio %s %s %s %d %s %s" % (rng.choice("ef"), rng.choice("01"), iongen.hx(data), len(sizes),
                                                  " ".join(str(s) for s in sizes), " ".join(ops)))
    lines = [re.sub(r"  +", " ", l) for l in lines]
    spec = run_model([l.replace("bufio ", "bufiospec ", 1) for l in lines])
    spec_of = dict(zip(lines, spec))

    def oracle(ln, go):
        s = spec_of[ln]
        if model_unanswered(s):
            return None
        if go != s:
            return "with this chunking the program sees %s but on the unchunked bytes %s" % (go[:160], s[:160])
        if ln.split(" ")[1] == "f" and re.search(r"(:|E)u?eof", go):
            return "the source failed, yet an operation reported the end of the input: " + go[:160]
        return None

    ctx.correspond("K13b-bufio", lines, oracle=oracle, nontrivial=lambda ln, m: True)


def run(ctx):
    bufio_interface(ctx)
    model_interface(ctx)
    bufio_model(ctx)
    rng = ctx.rng
    forests = binlib.gen_forests(ctx, ctx.scale(120, 3000), {"depth": 3})
    bdocs = binlib.encode_docs(ctx, forests, True)
    tdocs = [list(textgen.render(f, rng)) for f in forests[: ctx.scale(80, 2000)]]
    # documents that END in a scalar larger than the buffer (4 KiB) / the read chunk (64 KiB): the final bytes then arrive
    # through the large-read paths, possibly together with io.EOF
    bigf = []
    for n in (4000, 4096, 5000, 8192, 9000, 70000, 140000):
        bigf.append([([], ("int", 1)), ([], ("str", b"s" * n))])
        bigf.append([([], ("list", [([], ("int", 2))])), ([], ("blob", bytes(i % 253 for i in range(n))))])
        bigf.append([([], ("struct", [(b"name", ([], ("clob", b"c" * n)))]))])
    bigb = binlib.encode_docs(ctx, bigf, False)
    bigt = [list(textgen.render(f, rng)) for f in bigf]
    # ---- chunking (real code only: chunk boundaries live inside bufio) ----
    lines, base = [], []
    for d in bigb + bigt + bdocs + tdocs:
        h = iongen.hx(d)
        n = len(d)
        ref = "bchunk 0 0 0 " + h
        variants = ["bchunk 1 0 0 " + h, "bchunk 0 1 0 " + h, "bchunk 1 1 0 " + h, "bchunk %d 0 0 %s" % (rng.randint(2, 9), h),
                    "bchunk %d 1 0 %s" % (rng.randint(2, 4100), h)]
        splits = range(1, n) if n <= 80 else sorted(set(rng.randint(1, n - 1) for _ in range(12)))
        variants += ["bchunk s%d 0 0 %s" % (k, h) for k in splits]
        for v in variants:
            lines.append(v)
            base.append(ref)
    refs = sorted(set(base))
    refout = dict(zip(refs, run_go(refs)))
    outs = run_go(lines)
    bad = 0
    for ln, b, o in zip(lines, base, outs):
        if o != refout[b]:
            bad += 1
            ctx.fail("property", "C19-chunking", ln[:3000], "trace differs from the all-at-once read: %s vs %s" % (o[:200], refout[b][:200]))
    ctx.count("C19-chunking", len(lines), lines[:3000], differing=bad, sample=lines[3][:120])
    # ---- read failure at every offset ----
    fl, binary_flags = [], []
    for d in bdocs[: ctx.scale(60, 1500)] + tdocs[: ctx.scale(40, 1000)]:
        n = len(d)
        ks = range(0, n + 1) if n <= 120 else sorted(set([0, 4, n] + [rng.randint(0, n) for _ in range(25)]))
        for k in ks:
            fl.append("btrav 1 " + iongen.hx(d[:k]))
            binary_flags.append(d[:1] == [0xE0])
    bl = [l for l, b in zip(fl, binary_flags) if b]
    tl = [l for l, b in zip(fl, binary_flags) if not b]
    mo, go = ctx.correspond("K13-binreader-failing-source", bl, canon=binlib.canon_trace_full, nontrivial=lambda ln, m: True)
    got = run_go(tl)
    ctx.count("C19-text-failing-source", len(tl), tl[:2000])
    for ln, g in list(zip(bl, go)) + list(zip(tl, got)):
        t = g.split(" ")
        if t[-5:] != ["e1", "F", "e1", "F", "e1"]:
            ctx.fail("property", "C19-read-failure", ln[:3000], "a failing io.Reader was not reported as a permanent error: ... %s" % " ".join(t[-8:]))
    # ---- read failure at every offset while SKIPPING: the caller never steps in, so containers are crossed by the
    #      skipper (text) / Discard (binary); the failure must still end the traversal with a permanent error ----
    sk = []
    for d in tdocs[: ctx.scale(40, 600)] + bdocs[: ctx.scale(20, 300)]:
        n = len(d)
        ks = range(0, n + 1) if n <= 90 else sorted(set([0, 4, n] + [rng.randint(0, n) for _ in range(20)]))
        for k in ks:
            many = " ".join(["N"] * (min(k, 300) + 3))        # more calls than the prefix can hold values
            sk.append("brd 1 %s %s ER N ER" % (iongen.hx(d[:k]), many))
            sk.append("brd 1 %s N SI N N SO %s ER N ER" % (iongen.hx(d[:k]), many))
    got = run_go(sk)
    nb = 0
    for ln, g in zip(sk, got):
        tk = g.split(" ")
        why = None
        if "panic" in tk or tk[0] in ("fatal", "timeout"):
            why = "outcome " + tk[0]
        elif tk[-1] != "e1" or tk[-2] != "F":
            why = "after the source failed the reader reports %s" % " ".join(tk[-4:])
        elif tk[-3] == "e0" and all(x == "F" for x in tk[-6:-3]):
            why = "Next returned false with Err()==nil although the source had failed: " + " ".join(tk[-8:])
        if why:
            nb += 1
            ctx.fail("property", "C19-read-failure-skipping", ln[:3000], why)
    ctx.count("C19-read-failure-skipping", len(sk), sk[:3000], failures=nb, sample=(sk[5][:120] + " => " + got[5][:80]) if len(sk) > 5 else None)
    # ---- write budgets, binary ----
    seqs = []
    for f in forests[: ctx.scale(60, 1500)]:
        calls = iongen.calls_of_forest(f, rng)
        if rng.random() < 0.3:
            calls += iongen.calls_of_forest(iongen.gen_forest(rng, {"depth": 2}), rng)
        seqs.append(" ".join(calls))
    free = run_go(["bw - " + q for q in seqs])
    wl, meta = [], []
    for q, fr in zip(seqs, free):
        p = binlib.parse_bw(fr)
        if p is None:
            ctx.fail("property", "C19-write-budget", "bw - " + q, "fault-free run failed: " + fr[:100])
            continue
        for k in range(0, p[2] + 1):
            wl.append("bw %d %s" % (k, q))
            meta.append((p[1], p[2], k))
    mo, go = ctx.correspond("K3-binwriter-budgets", wl, nontrivial=lambda ln, m: m.startswith("ok"))
    for ln, (fhex, nw, k), g in zip(wl, meta, go):
        p = binlib.parse_bw(g)
        if p is None:
            ctx.fail("property", "C19-write-budget", ln, "real code: " + g[:100])
            continue
        res, hx_, writes = p
        why = None
        if not fhex.startswith(hx_):
            why = "accepted bytes are not a prefix of the fault-free output"
        elif k < nw and "0" not in res:
            why = "the io.Writer refused write #%d but every call including Finish returned nil" % (k + 1)
        elif "0" in res and "1" in res[res.index("0"):]:
            why = "a call returned nil after an earlier call had failed"
        if why:
            ctx.fail("property", "C19-write-budget", ln, why + " (results %s)" % res)
    # ---- write budgets, text (theorem tw_prefix + K4) ----
    c12text.run(ctx, ("budgets",))
