"""C05 — copying a Reader into a Writer preserves data across formats and symbol tables."""
from vlib import *
import iongen
import binlib
import textgen
import c02

THEOREMS = ["C05_copy_loop_values", "C05_copy_tokens_by_text", "C05_binary_to_binary", "C05_copy_to_binary", "C05_binary_writer_by_text", "C05_obs_of_values_normal", "C05_binary_to_binary_ex", "C05_binary_to_text_partial", "C05_text_writer_call_shapes"]
EXTRA_MODULES = ["C05e2e", "C05e2e_text"]
LEVEL = "other"
EXPLANATION = ("accepted source documents in both formats (binary: spec-derived encoder with several symbol-table "
               "appends, repeated version markers, padded SIDs; text: spec-derived printer with local symbol tables and $n "
               "references) are copied with the documented loop (field name, annotations, value, recursing) into a text, "
               "pretty and binary Writer by the real code; oracle: the copy read back by the real Reader gives the source's "
               "trace with symbols compared by text, and a binary copy is accepted by the independent decoder with the "
               "same values.  Theorems: the loop's Writer-call sequence denotes exactly the observed forest for any Writer "
               "(Cli/ProcessP.v transcode_any_writer: process.go's loop is this loop), and the binary Writer model resolves "
               "a token by its text whenever it has one.")


def run(ctx):
    rng = ctx.rng
    forests = [f for f in binlib.boundary_forests() if len(str(f)) < 40000] + binlib.gen_forests(ctx, ctx.scale(500, 12000), {"depth": 4})
    srcs = []
    for f in forests:
        srcs.append((f, iongen.Enc(rng, True).stream(f)))
        if rng.random() < 0.6:
            try:
                srcs.append((f, list(textgen.render(f, rng, sid_spelling=(rng.random() < 0.3)))))
            except Exception as e:  # the printer cannot spell some forest: not a C05 matter
                ctx.notes.append("textgen failed: %r" % (e,))
    lines, exps = [], []
    for f, d in srcs:
        for dst in ("text", "pretty", "binary"):
            lines.append("copy %s %s" % (dst, iongen.hx(d)))
            exps.append(iongen.expected_trace(f))
    outs = run_go(lines)
    src_tr = run_go(["btrav 0 " + iongen.hx(d) for _, d in srcs])
    src_trace = {}
    for (f, d), t in zip(srcs, src_tr):
        src_trace[iongen.hx(d)] = iongen.project_trace(t)
    back_lines, idx = [], []
    for i, (ln, o) in enumerate(zip(lines, outs)):
        if not o.startswith("ok "):
            h = ln.split(" ")[2]
            if src_trace.get(h, "").endswith("e0 F e0 F e0"):
                ctx.fail("property", "C05-copy", ln[:3000], "the copy loop failed on an accepted document: " + o[:80], classify_case(ln, o))
            continue
        back_lines.append("btrav 0 " + o[3:])
        idx.append(i)
    back = run_go(back_lines)
    ok = 0
    bin_hex, bin_idx = [], []
    for j, (i, b) in enumerate(zip(idx, back)):
        ln = lines[i]
        h = ln.split(" ")[2]
        want = src_trace[h]
        got = iongen.project_trace(b)
        if not want.endswith("e0 F e0 F e0"):
            continue            # source not accepted by the Reader: outside the property
        if got != want:
            ctx.fail("property", "C05-copy", ln[:3000], "copy reads back as '%s' but the source reads as '%s'" % (got[:300], want[:300]), classify_case(ln, got))
        else:
            ok += 1
        if ln.startswith("copy binary"):
            bin_hex.append(outs[i][3:])
            bin_idx.append(i)
    dec = binlib.sdecode_many(bin_hex)
    for i, d in zip(bin_idx, dec):
        if oracle_silent(ctx, "C05-copy", lines[i], d):
            continue
        if d is None:
            ctx.fail("property", "C05-copy", lines[i][:3000], "binary copy rejected by the independent decoder: " + outs[i][:200], classify_case(lines[i], ""))
    ctx.count("C05-copy", len(lines), [l[:400] for l in lines], agree=ok, sample=lines[4][:160])


def classify_case(line, got):
    return None


_run_plain = run


def run(ctx):
    _run_plain(ctx)
    run_catalog(ctx)


def run_catalog(ctx):
    """sources that declare imports, read with a catalog (exact / newer / older / missing tables): C10's histories"""
    import c10
    class KnownHist(c10.Hist):
        """the same histories of tables, probed only at the IDs whose text the context knows (the ones a copy must carry
        by text), and without the closing out-of-range probe: every such document is accepted"""

        def probes(self, sysn=2, full=True):
            if self.dead is not None:
                return
            n = c10.ctx_size(self.ip.cx)
            self.k += 1
            sids = [sd for sd in (list(range(1, n + 1)) if n < 64 else [1, 9, 10, n]) if sd != 2 and c10.ctx_lookup(self.ip.cx, sd)[0] == "k"]
            for sd in sids:
                self.add(("val", c10.probe(sd, (sd + self.k) % 3)))
            if full and sids:
                self.add(("val", c10.vlist([c10.vsym(c10.S(sids[-1])), c10.vint(2, c10.S(sids[0]), c10.S(sids[-1])),
                                            c10.vstruct([(c10.S(sids[-1]), c10.vsym(c10.S(sids[0])))])])))

        def finish(self):
            if self.dead is None:
                self.valid_len = len(self.items)
            return self

    lines = []
    seen = set()
    orig = c10.Hist
    c10.Hist = KnownHist
    try:
        hists = c10.gen_histories(ctx)
    finally:
        c10.Hist = orig
    # longer local lists under imports declared larger / smaller than the catalog's table, one probe per document: a
    # Reader that places the locals at the wrong offset then still accepts the document and copies the wrong text
    singles = []
    imps = [[d] for d in c10.IMPORT_ALPHA + [(b"A", 1, 4), (b"A", 2, 7), (b"A", 2, 1), (b"B", 1, 3)]]
    imps += [[d, e] for d in c10.IMPORT_ALPHA for e in c10.IMPORT_ALPHA]
    for keys in c10.CATALOGS:
        for il in imps:
            for ns in (3, 5):
                base = c10.Hist(keys)
                base.add(("val", c10.table_value(il, [b"l%d" % i for i in range(ns)])))
                if base.dead is not None:
                    continue
                n = c10.ctx_size(base.ip.cx)
                for sd in range(10, n + 1):
                    if c10.ctx_lookup(base.ip.cx, sd)[0] != "k":
                        continue
                    one = c10.Hist(keys)
                    one.add(base.items[0])
                    one.add(("val", c10.probe(sd, sd % 3)))
                    one.valid_len = 2
                    singles.append(one)
    ctx.rng.shuffle(singles)
    hists = list(hists) + singles[:ctx.scale(700, 20000)]
    for h in hists:
        if h is None or h.valid_len is None:
            continue
        items = h.items
        cat = c10.cat_tokens(h.keys)
        srcs = [c10.t_stream(items)]
        if not any(it[0] == "val" and c10.has_text_only_syms(it[1]) for it in items):
            srcs.append(c10.b_stream(items))
        for sdoc in srcs:
            ln = " ".join(["cattrav", "0", iongen.hx(sdoc)] + cat)
            if ln not in seen:
                seen.add(ln)
                lines.append(ln)
    rng = ctx.rng
    if len(lines) > ctx.scale(1500, 20000):
        lines = rng.sample(lines, ctx.scale(1500, 20000))
    src = run_go(lines)
    todo, want = [], []
    skipped = 0
    for ln, g in zip(lines, src):
        # what the document denotes is decided by the symbol-context rules (c10's interpreter over the request's bytes),
        # not by the Reader under test: a Reader that resolves an ID to the wrong text copies the wrong text faithfully
        try:
            ip, why = c10.expectation(c10.parse_line(ln))
        except c10.Unparsable:
            skipped += 1
            continue
        if why is not None or any(tok.startswith("u.") or "[u." in tok or ";u." in tok for tok in ip.out):
            skipped += 1
            continue        # not a valid document, or it contains symbols whose text the source does not know
        if not c10.project(g)[-5:] == c10.END_OK[-5:]:
            skipped += 1
            continue        # the Reader does not accept it (C10's matter): the property quantifies over accepted documents
        w = " ".join(ip.out + c10.END_OK)
        t = ln.split(" ")
        for dst in ("text", "pretty", "binary"):
            todo.append(" ".join(["copycat", dst, t[2]] + t[3:]))
            want.append(w)
    outs = run_go(todo)
    back = run_go(["btrav 0 " + o[3:] if o.startswith("ok ") else "btrav 0 x" for o in outs])
    ok = 0
    for ln, w, o, b in zip(todo, want, outs, back):
        got = " ".join(c10.project(b))
        if not o.startswith("ok "):
            ctx.fail("property", "C05-copy-catalog", ln[:3000], "the copy loop failed on an accepted document: " + o[:80])
        elif got != w:
            ctx.fail("property", "C05-copy-catalog", ln[:3000], "copy reads back as '%s' but the source document denotes '%s' (symbol-context rules)" % (got[:300], w[:300]))
        else:
            ok += 1
    ctx.count("C05-copy-catalog", len(todo), [l[:300] for l in todo], agree=ok, sources_skipped=skipped)
