"""C05 — copying a Reader into a Writer preserves data across formats and symbol tables."""
from vlib import *
import iongen
import binlib
import textgen
import c02

THEOREMS = ["C05_copy_loop_values", "C05_copy_tokens_by_text"]
LEVEL = "other"
EXPLANATION = ("accepted source documents in both formats (binary: spec-derived encoder with several symbol-table "
               "appends, repeated version markers, padded SIDs; text: spec-derived printer with local symbol tables and $n "
               "references) are copied with the documented loop (field name, annotations, value, recursing) into a text, "
               "pretty and binary Writer by the real code; oracle: the copy read back by the real Reader gives the source's "
               "trace with symbols compared by text, and a binary copy is accepted by the independent decoder with the "
               "same values.  Theorems: the loop's Writer-call sequence denotes exactly the observed forest for any Writer "
               "(Cli/ProcessP.v transcode_any_writer: process.go's loop is this loop), and the binary Writer model resolves "
               "a token by its text whenever it has one.")


def run(ctx):
    rng = ctx.rng
    forests = [f for f in binlib.boundary_forests() if len(str(f)) < 40000] + binlib.gen_forests(ctx, ctx.scale(500, 12000), {"depth": 4})
    srcs = []
    for f in forests:
        srcs.append((f, iongen.Enc(rng, True).stream(f)))
        if rng.random() < 0.6:
            try:
                srcs.append((f, list(textgen.render(f, rng, sid_spelling=(rng.random() < 0.3)))))
            except Exception as e:  # the printer cannot spell some forest: not a C05 matter
                ctx.notes.append("textgen failed: %r" % (e,))
    lines, exps = [], []
    for f, d in srcs:
        for dst in ("text", "pretty", "binary"):
            lines.append("copy %s %s" % (dst, iongen.hx(d)))
            exps.append(iongen.expected_trace(f))
    outs = run_go(lines)
    src_tr = run_go(["btrav 0 " + iongen.hx(d) for _, d in srcs])
    src_trace = {}
    for (f, d), t in zip(srcs, src_tr):
        src_trace[iongen.hx(d)] = iongen.project_trace(t)
    back_lines, idx = [], []
    for i, (ln, o) in enumerate(zip(lines, outs)):
        if not o.startswith("ok "):
            h = ln.split(" ")[2]
            if src_trace.get(h, "").endswith("e0 F e0 F e0"):
                ctx.fail("property", "C05-copy", ln[:3000], "the copy loop failed on an accepted document: " + o[:80], classify_case(ln, o))
            continue
        back_lines.append("btrav 0 " + o[3:])
        idx.append(i)
    back = run_go(back_lines)
    ok = 0
    bin_hex, bin_idx = [], []
    for j, (i, b) in enumerate(zip(idx, back)):
        ln = lines[i]
        h = ln.split(" ")[2]
        want = src_trace[h]
        got = iongen.project_trace(b)
        if not want.endswith("e0 F e0 F e0"):
            continue            # source not accepted by the Reader: outside the property
        if got != want:
            ctx.fail("property", "C05-copy", ln[:3000], "copy reads back as '%s' but the source reads as '%s'" % (got[:300], want[:300]), classify_case(ln, got))
        else:
            ok += 1
        if ln.startswith("copy binary"):
            bin_hex.append(outs[i][3:])
            bin_idx.append(i)
    dec = binlib.sdecode_many(bin_hex)
    for i, d in zip(bin_idx, dec):
        if oracle_silent(ctx, "C05-copy", lines[i], d):
            continue
        if d is None:
            ctx.fail("property", "C05-copy", lines[i][:3000], "binary copy rejected by the independent decoder: " + outs[i][:200], classify_case(lines[i], ""))
    ctx.count("C05-copy", len(lines), [l[:400] for l in lines], agree=ok, sample=lines[4][:160])


def classify_case(line, got):
    return None


_run_plain = run


def run(ctx):
    _run_plain(ctx)
    run_catalog(ctx)


def run_catalog(ctx):
    """sources that declare imports, read with a catalog (exact / newer / older / missing tables): C10's histories"""
    import c10
    lines = []
    seen = set()
    for h in c10.gen_histories(ctx):
        for ln in h.lines():
            if ln not in seen:
                seen.add(ln)
                lines.append(ln)
    rng = ctx.rng
    if len(lines) > ctx.scale(1500, 20000):
        lines = rng.sample(lines, ctx.scale(1500, 20000))
    src = run_go(lines)
    todo, want = [], []
    for ln, g in zip(lines, src):
        tr = iongen.project_trace(g)
        if not tr.endswith("e0 F e0 F e0") or " u." in (" " + tr) or "[u." in tr or ";u." in tr:
            continue        # not accepted, or it contains symbols whose text the source does not know
        t = ln.split(" ")
        for dst in ("text", "pretty", "binary"):
            todo.append(" ".join(["copycat", dst, t[2]] + t[3:]))
            want.append(tr)
    outs = run_go(todo)
    back = run_go(["btrav 0 " + o[3:] if o.startswith("ok ") else "btrav 0 x" for o in outs])
    ok = 0
    for ln, w, o, b in zip(todo, want, outs, back):
        if not o.startswith("ok "):
            ctx.fail("property", "C05-copy-catalog", ln[:3000], "the copy loop failed on an accepted document: " + o[:80])
        elif iongen.project_trace(b) != w:
            ctx.fail("property", "C05-copy-catalog", ln[:3000], "copy reads back as '%s' but the source (with its catalog) reads as '%s'" % (iongen.project_trace(b)[:300], w[:300]))
        else:
            ok += 1
    ctx.count("C05-copy-catalog", len(todo), [l[:300] for l in todo], agree=ok)
