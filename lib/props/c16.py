"""C16 — Marshal then Unmarshal returns an equal Go value, in text and in binary; MarshalText is
deterministic."""
import os
import sys

sys.path.insert(0, os.path.dirname(os.path.dirname(os.path.abspath(__file__))))
from vlib import *
from marshallib import *
import marshalgen as mg

THEOREMS = ["C16_flat_roundtrip", "C16_int_all_widths", "C16_uint64_roundtrip", "C16_string_roundtrip",
            "C16_bytes_roundtrip", "C16_bool_roundtrip", "C16_float64_roundtrip", "C16_pointer_roundtrip",
            "C16_sorted_keys_deterministic", "C16_sort_keys_sorted", "C16_roundtrip_rty", "C16_marshal_denotes_ion_of",
            "C16_unmarshal_inverts_ion_of", "C16_empty_slice_roundtrip", "C16_bigint_roundtrip", "C16_decimal_value_roundtrip",
            "C16_annotation_only_struct_is_error", "C16_roundtrip_all_refuted_nested_nil", "C16_roundtrip_rty2", "C16_roundtrip_rty2_both_modes", "C16_marshal_denotes_ion2", "C16_unmarshal_inverts_ion2", "C16_rty_in_rty2", "C16_rty_no_side_condition", "C16_omitted_is_zero", "C16_float32_never_overflows", "C16_sort_keys_order_independent", "C16_enc_map_order_independent", "C16_marshal_text_map_order_independent", "C16_roundtrip_rty2_all_values_refuted", "C16b_ex_type", "C16b_ex_roundtrip"]
EXTRA_MODULES = ["C16b"]

LEVEL = "proof"
EXPLANATION = ("Gallina model of marshal.go (Go/Encode.v: the Writer call sequence of Encoder.encodeValue) and of unmarshal.go; "
               "values_of turns a call sequence into Ion values independently; main theorem C16_roundtrip_rty: for every type of the "
               "round-trip universe (bool, all integer kinds, float64, string, []byte, big.Int, Decimal, Timestamp; slices, arrays, "
               "maps, pointers, structs with renamed fields, nested to any depth) and every value v of it, "
               "decode_to t (value_of (encode t v)) = Ok v, proved by induction on the type through the documented image ion_of; "
               "map-key sorting makes the call sequence a function of the sorted keys; over all types the statement is refuted "
               "(pointer to nil slice); model tied to ion.Encoder (recording Writer), MarshalText/MarshalBinary + Unmarshal on "
               "declared and reflect-built types (K11); every round trip is judged by printed-value equality.")
ASSUMPTIONS = ["Go == model only on the inputs sampled",
               "round-trip theorem: no interface{}, float32, omitempty/hint/annotation tags, embedded fields (those are covered by "
               "correspondence + oracle)",
               "time.Time is judged by the oracle only (its calendar conversion is not modelled)"]


# ---------------------------------------------------------------------------
# expected result of a round trip: the original, up to the documented normalisations
# ---------------------------------------------------------------------------
def iface_norm(dt, x):
    """what an interface{} holding x (dynamic type dt) is documented to come back as"""
    k = dt[0]
    if k == "b":
        return ("I", (dt, x))
    if k == "int":
        z = x[1]
        if -2 ** 31 <= z < 2 ** 31:
            return ("I", (("int", "i"), x))
        if -2 ** 63 <= z < 2 ** 63:
            return ("I", (("int", "i64"), x))
        return ("I", (("P", ("BIG",)), ("P", ("G", z))))
    if k == "f64":
        return ("I", (dt, x))
    if k == "f32":
        return ("I", (("f64",), ("f", f64_bits_of_f32(x[1]))))
    if k == "s":
        return ("I", (dt, x))
    if dt == mg.BYTES:
        return ("I", (dt, x)) if x[1] is not None else ("I", None)
    if k in ("L", "A"):
        if x[1] is None:
            return ("I", None)
        if len(x[1]) == 0:
            return ("I", (("L", ("I",)), ("L", None)))     # Decoder.Decode of [] is a nil []interface{} (pinned by TestDecode)
        et = dt[1] if k == "L" else dt[2]
        return ("I", (("L", ("I",)), ("L", [iface_norm(et, doc_norm(et, e)) if et[0] != "I" else inner_iface(e) for e in x[1]])))
    if k == "M":
        if x[1] is None:
            return ("I", None)
        return ("I", (("M", ("I",)), ("M", {key: (iface_norm(dt[1], doc_norm(dt[1], e)) if dt[1][0] != "I" else inner_iface(e))
                                            for key, e in x[1].items()})))
    if k == "P":
        if x[1] is None:
            return ("I", None)
        return iface_norm(dt[1], x[1])
    if k == "TS":
        return ("I", (dt, x))
    if k == "DEC":
        return ("I", (dt, x))
    return ("I", (dt, x))


def inner_iface(e):
    return ("I", None) if e[1] is None else iface_norm(e[1][0], e[1][1])


def doc_norm(t, g):
    k = t[0]
    if k == "I":
        return inner_iface(g)
    if k == "L" and g[0] == "L" and g[1] is not None:
        return ("L", [doc_norm(t[1], x) for x in g[1]])
    if k == "A":
        return ("A", [doc_norm(t[2], x) for x in g[1]])
    if k == "M" and g[1] is not None:
        return ("M", {key: doc_norm(t[1], x) for key, x in g[1].items()})
    if k == "P" and g[1] is not None:
        return ("P", doc_norm(t[1], g[1]))
    if k == "ST":
        out = []
        for (name, ex, emb, tag, ft), x in zip(t[1], g[1]):
            if tag == b"-" or not (ex or emb):
                out.append(zero(ft))           # documented: hidden / unexported fields are not marshalled
            elif b"omitempty" in tag.split(b",")[1:] and mg.is_empty(ft, x):
                out.append(zero(ft))           # documented: an empty value is omitted, so it comes back as the zero value
            else:
                out.append(doc_norm(ft, x))
        return ("S", out)
    return g


# ---------------------------------------------------------------------------
# oracle
# ---------------------------------------------------------------------------
def oracle(line, go):
    ts = line.split(" ")
    if go in ("nogotype", "badion", "illtyped", "badinput"):
        return None
    if go.split(" ")[0] in ("panic", "fatal", "timeout"):
        return "real code: " + go
    if ts[0] == "roundtrip":
        try:
            t, j = parse_ty(ts, 2)
            g, _ = parse_gv(ts, j)
        except Exception as e:
            return "oracle could not parse the request: %r" % (e,)
        if go == "err":
            if unsupported_shape(t):
                return None      # duplicate field names / no value field next to the annotations: an error is the answer
            return "Marshal or Unmarshal of its output returned an error"
        try:
            got, _ = parse_gv(go.split(" "), 1)
        except Exception as e:
            return "oracle could not parse the answer: %r" % (e,)
        want = doc_norm(t, g)
        if got != want:
            return "round trip changed the value: got %s want %s" % (" ".join(gv_tokens(got))[:120], " ".join(gv_tokens(want))[:120])
    return None


def unsupported_shape(t):
    if t[0] == "ST":
        try:
            fs = py_fields(t)
        except DupField:
            return True
        if fs and all(f[4] for f in fs):
            return True
        return any(unsupported_shape(f[4]) for f in t[1])
    if t[0] in ("L", "M", "P"):
        return unsupported_shape(t[1])
    if t[0] == "A":
        return unsupported_shape(t[2])
    return False


# ---------------------------------------------------------------------------
# known findings: narrow triggers on the input
# ---------------------------------------------------------------------------
def walk_tv(t, g, f, under_iface=False):
    """call f(t, g, under_iface) on every (type, value) node"""
    f(t, g, under_iface)
    k = t[0]
    if k == "I" and g[1] is not None:
        walk_tv(g[1][0], g[1][1], f, True)
    elif k == "L" and g[0] == "L" and g[1] is not None:
        for x in g[1]:
            walk_tv(t[1], x, f, under_iface)
    elif k == "A":
        for x in g[1]:
            walk_tv(t[2], x, f, under_iface)
    elif k == "M" and g[1] is not None:
        for x in g[1].values():
            walk_tv(t[1], x, f, under_iface)
    elif k == "P" and g[1] is not None:
        walk_tv(t[1], g[1], f, under_iface)
    elif k == "ST":
        for (name, ex, emb, tag, ft), x in zip(t[1], g[1]):
            walk_tv(ft, x, f, under_iface)


def contributes(t, g):
    """does this struct VALUE put at least one field into the Ion struct?  (an embedded nil pointer, a "-" field, an
    unexported plain field and an omitempty field holding its empty value put nothing)"""
    if t[0] != "ST" or g[0] != "S":
        return True
    for (name, ex, emb, tag, ft), gv in zip(t[1], g[1]):
        parts = tag.split(b",")
        tn = parts[0]
        if tn == b"-" and len(parts) == 1:
            continue
        inner = ft[1] if ft[0] == "P" else ft
        if emb and tn == b"" and inner[0] == "ST":
            if ft[0] == "P":
                if gv[1] is not None and contributes(inner, gv[1]):
                    return True
            elif contributes(inner, gv):
                return True
            continue
        if not ex and not emb:
            continue
        if b"omitempty" in parts[1:] and mg.is_empty(ft, gv):
            continue
        return True
    return False


def triggers(t, g):
    tr = set()

    def f(t, g, ui):
        k = t[0]
        if k == "L" and g[0] == "L" and g[1] is not None and len(g[1]) == 0:
            tr.add("empty-slice")
        if k == "BIG" and g[1] != 0:
            tr.add("bigint")
        if k == "P" and g[1] is not None and g[1][0] in ("P", "L", "M", "B", "I") and g[1][1] is None:
            tr.add("ptr-to-nil")
        if k == "I" and g[1] is not None and g[1][1][0] in ("P", "L", "M", "B") and g[1][1][1] is None:
            tr.add("ptr-to-nil")
        if ui and k in ("s", "f64", "f32", "DEC", "TS") :
            tr.add("iface-leaf")
        if k == "DEC":
            tr.add("decimal-value")
        if k == "SYM":
            tr.add("symtok")
        if k == "ST":
            try:
                fs = py_fields(t)
            except DupField:
                tr.add("dup-names")
                return
            if any(x[4] for x in fs):
                tr.add("ann-struct")
            for (name, path, omit, hint, ann, ft) in fs:
                sub = mg.sub_value(t, g, path)
                if sub is None:
                    continue
                if omit and sub[0] == "f" and sub[1] in (0x80000000, 0x8000000000000000):
                    tr.add("omit-negzero")
                if omit and sub[0] in ("L", "B", "M") and sub[1] is not None and len(sub[1]) == 0:
                    tr.add("omit-empty-nonnil")
                if omit and sub[0] == "A" and len(sub[1]) == 0:
                    pass
                if hint == TSYM:
                    tr.add("symbol-hint")
                if hint in (TSEXP, TCLOB, TSYM) and mg.contains(ft, ("I",)):
                    tr.add("hint-into-iface")
            for idx, (name, ex, emb, tag, ft) in enumerate(t[1]):
                if emb and ft[0] == "P" and ft[1][0] == "ST" and tag.split(b",")[0] == b"" and g[0] == "S" and idx < len(g[1]) \
                        and g[1][idx][0] == "P" and g[1][idx][1] is not None:
                    try:
                        if not py_fields(ft[1]) or not contributes(ft[1], g[1][idx][1]):
                            tr.add("embedded-ptr-fieldless")
                    except (DupField, IndexError, TypeError):
                        pass
            for (name, ex, emb, tag, ft) in t[1]:
                if emb and tag.split(b",")[0] == b"" and (ft[1] if ft[0] == "P" else ft)[0] in ("TS", "DEC", "BIG", "TIME"):
                    tr.add("embedded-special")
                if emb and ft[0] == "P":
                    tr.add("embedded-ptr")
                if emb and not ex:
                    tr.add("embedded-unexported")
                if emb and not ex and ft[0] == "P" and tag.split(b",")[0] != b"":
                    tr.add("tagged-unexported-embedded-ptr")

    walk_tv(t, g, f)
    return tr


def classify_case(line, m, g):
    ts = line.split(" ")
    if ts[0] not in ("roundtrip", "marshal_calls"):
        return None
    if m != g:
        return None
    try:
        off = 2 if ts[0] == "roundtrip" else 3
        t, j = parse_ty(ts, off)
        v, _ = parse_gv(ts, j)
    except Exception:
        return None
    tr = triggers(t, v)
    if g == "panic":
        return None
    if ts[0] != "roundtrip":
        return None
    if g == "err" and "tagged-unexported-embedded-ptr" in tr:
        return "tagged-unexported-embedded-pointer-cannot-be-unmarshalled"
    # order: the most specific defect first
    for key, cls in (("ann-struct", "annotation-wrapper-does-not-round-trip"),
                     ("symtok", "SymbolToken-marshals-as-plain-struct"),
                     ("iface-leaf", "interface-container-leaves-come-back-as-pointers"),
                     ("hint-into-iface", "hinted-value-inside-interface-changes-type"),
                     ("symbol-hint", "symbol-hinted-string-comes-back-via-SymbolToken-or-sid"),
                     ("ptr-to-nil", "pointer-to-nil-collapses-to-nil-pointer"),
                     ("embedded-ptr-fieldless", "embedded-pointer-to-fieldless-struct-comes-back-nil")):
        if key in tr:
            return cls
    return None


# ---------------------------------------------------------------------------
# generation
# ---------------------------------------------------------------------------
def gen_cases(ctx):
    rng = ctx.rng
    decl = mg.declared_types()
    rand_types = mg.usable_types([mg.gen_type(rng, 3) for _ in range(ctx.scale(120, 1500))] + mg.embed_chains(rng, ctx.scale(24, 200)))
    cases = []
    for t in mg.SCALAR_TYPES:
        if t[0] == "int":
            vals = [("i", z) for z in mg.int_edges(t[1])]
        elif t[0] == "f64":
            vals = [("f", b) for b in mg.F64_EDGES]
        elif t[0] == "f32":
            vals = [("f", b) for b in mg.F32_EDGES]
        elif t[0] == "s":
            vals = [("s", x) for x in mg.TEXTS]
        elif t[0] == "b":
            vals = [("b", True), ("b", False)]
        else:
            vals = [("B", x) for x in [None] + mg.BLOBS]
        for g in vals:
            cases.append((t, g))
            cases.append((("P", t), ("P", g)))
            cases.append((("L", t), ("L", [g, g])) if t != ("int", "u8") else (("A", 2, t), ("A", [g, g])))
            cases.append((("M", t), ("M", {b"k": g})))
            cases.append((("I",), ("I", (t, g))))
            cases.append((("ST", [(b"F", True, False, b"f,omitempty", t)]), ("S", [g])))
    for t in mg.SPECIAL_TYPES + mg.CONTAINER_TYPES + decl + rand_types:
        if mg.contains(t, ("TIME",)):
            continue
        for _ in range(ctx.scale(6, 40)):
            cases.append((t, mg.gen_go(rng, t)))
    # maps with many keys (ordering / determinism)
    for n in (8, 9, 16, 40):
        m = {}
        while len(m) < n:
            m["".join(rng.choice("abcABCé_0") for _ in range(rng.randint(0, 4))).encode()] = ("i", len(m))
        cases.append((("M", ("int", "i")), ("M", m)))
    # keys that differ only in letter case, in a prefix, in a trailing NUL / space, or that are equal after Unicode
    # normalisation: any collation other than the raw byte order makes some of them tie
    for ks in ([b"id", b"ID", b"Id", b"iD"], [b"ETag", b"etag", b"ETAG"], [b"a", b"A", b"b", b"B", b"aa", b"aA", b"Aa", b"AA"],
               [b"k", b"k\x00", b"k ", b"K"], ["é".encode(), "e\u0301".encode(), "É".encode(), b"e"]):
        cases.append((("M", ("int", "i")), ("M", {k: ("i", i) for i, k in enumerate(ks)})))
    return cases


import re

SIDLIKE = re.compile(rb"^\$[+-]?[0-9]+$")


def has_plain_symtok(t):
    """SymbolToken anywhere but in an `annotations` []SymbolToken field (Ion struct -> SymbolToken is not modelled)"""
    if t[0] == "SYM":
        return True
    if t[0] in ("L", "M", "P"):
        return has_plain_symtok(t[1])
    if t[0] == "A":
        return has_plain_symtok(t[2])
    if t[0] == "ST":
        for name, ex, emb, tag, ft in t[1]:
            if ft == ("L", ("SYM",)) and b"annotations" in tag.split(b",")[1:]:
                continue
            if has_plain_symtok(ft):
                return True
    return False


def only_annotation_fields(t):
    if t[0] != "ST":
        return False
    try:
        fs = py_fields(t)
    except DupField:
        return False
    return len(fs) > 0 and all(f[4] for f in fs)


def sidlike_symbol(t, g):
    hit = []

    def f(t, g, ui):
        if t[0] == "ST":
            try:
                fs = py_fields(t)
            except DupField:
                return
            for (name, path, omit, hint, ann, ft) in fs:
                if hint == TSYM:
                    sub = mg.sub_value(t, g, path)
                    if sub is not None:
                        walk_tv(ft, sub, lambda t2, g2, u2: hit.append(1) if g2[0] == "s" and SIDLIKE.match(g2[1]) else None)
    walk_tv(t, g, f)
    return bool(hit)


def min64_under_iface(t, g):
    hit = []
    walk_tv(t, g, lambda t2, g2, ui: hit.append(1) if ui and g2 == ("i", -2 ** 63) else None)
    return bool(hit)


def f32nan_under_iface(t, g):
    hit = []
    walk_tv(t, g, lambda t2, g2, ui: hit.append(1) if ui and t2 == ("f32",) and g2[0] == "f" and canon32nan(g2[1]) else None)
    return bool(hit)


def canon32nan(b):
    return (b >> 23) & 0xFF == 0xFF and b & ((1 << 23) - 1) != 0


NAN_T = "f9221120237041090561"
NAN_B = "f9221120237041090560"


def run(ctx):
    cases = gen_cases(ctx)
    lines = []
    seen = set()
    sid_lines = []
    for t, g in cases:
        tv = " ".join(ty_tokens(t) + gv_tokens(g))
        if tv in seen:
            continue
        seen.add(tv)
        if has_plain_symtok(t):
            continue
        if sidlike_symbol(t, g):
            sid_lines.append("roundtrip t " + tv)
            continue
        lines.append("marshal_calls 1 0 " + tv)
        if not f32nan_under_iface(t, g):
            lines.append("roundtrip t " + tv.replace(NAN_B, NAN_T))
        if not min64_under_iface(t, g):
            lines.append("roundtrip b " + tv.replace(NAN_T, NAN_B))
    # a string of the form $<digits> under a `symbol` hint is written as a symbol ID
    so = run_go(sid_lines)
    for ln, o in zip(sid_lines, so):
        why = oracle(ln, o)
        if why:
            ctx.fail("property", "K11-marshal", ln, "real code: %s ; %s" % (o[:200], why[:200]), "symbol-hinted-dollar-digits-string-written-as-symbol-id")
    ctx.count("K11-marshal", len(sid_lines), sid_lines)
    # hints through EncodeAs
    for t, g in cases[:600]:
        if t[0] in ("s", "L", "A") and not (t[0] == "s" and SIDLIKE.match(g[1])):
            for h in (TSYM, TCLOB, TSEXP):
                lines.append("marshal_calls 1 %d %s" % (h, " ".join(ty_tokens(t) + gv_tokens(g))))
    ctx.correspond("K11-marshal", lines, oracle=oracle, classify=classify_case,
                   nontrivial=lambda ln, m: m not in ("badinput", "illtyped"))
    # MarshalText determinism: the same value marshalled repeatedly (maps iterate in random order)
    det = ["marshal_text " + " ".join(ty_tokens(t) + gv_tokens(g)) for t, g in cases if mg.contains(t, ("M", "I"))]
    # the maps with many / near-equal keys come last in `cases`: keep them when the list is cut
    det = det[-40:] + det[:-40][:ctx.scale(400, 4000)]
    outs = [run_go(det) for _ in range(4)]
    bad = 0
    for i, ln in enumerate(det):
        if len({o[i] for o in outs}) != 1:
            bad += 1
            ctx.fail("property", "K11-determinism", ln, "MarshalText gave different bytes on repeated calls: %s" % [o[i][:80] for o in outs])
    ctx.count("K11-determinism", len(det) * 4, det, sample=det[0] if det else None, nondeterministic=bad)
    # time.Time: Go only, judged on the printed value (instant + zone offset survive; precision becomes nanoseconds)
    tl = []
    for _ in range(ctx.scale(60, 600)):
        tl.append("roundtrip %s TIME TM%s" % (ctx.rng.choice("tb"), mg.some_ts(ctx.rng).hex()))
    to = run_go(tl)
    for ln, o in zip(tl, to):
        if o.split(" ")[0] in ("panic", "fatal", "err"):
            ctx.fail("property", "K11-time", ln, "time.Time round trip: " + o)
    ctx.count("K11-time", len(tl), tl, sample=tl[0])
    # a struct whose only fields are annotation fields used to recurse without bound: now an error
    ln = "marshal_text ST 1 x41 en x2c616e6e6f746174696f6e73 L SYM S 1 Lnil"
    o = run_go([ln], parallel=False)[0]
    if o != "err":
        ctx.fail("property", "K11-marshal", ln, "real code: " + o)
    ctx.count("K11-marshal", 1, [ln])
