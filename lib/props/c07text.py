"""C07 (text part) — malformed Ion text must end in an error.

The judge of "malformed" is the extracted specification decoder Text/SpecText.tdecode: whenever it
says a text is outside the Ion 1.0 text grammar, the real Reader's plain traversal must stop with
Err() != nil and stay there (`btrav` trace ending in e1 F e1 F e1).  Texts are produced by applying
a catalogue of grammar-invalidating edits at every applicable position of documents rendered by
lib/textgen.py, plus a fixed list of malformed literals placed in every syntactic context."""
import random
import re

from vlib import *
import iongen
import textgen
import c02

THEOREMS = []
LEVEL = "other"
EXPLANATION = ("Documents rendered by the spec-derived printer are damaged by a catalogue of edits (truncation at every "
               "offset, byte deletion / insertion / replacement at every position with structural characters, digits, "
               "underscores, quotes, backslashes, non-UTF-8 bytes) and a fixed list of malformed literals (digit grouping, "
               "leading zeros, calendar fields, offsets, escapes, separators, dangling annotations and field names, base64 "
               "padding, non-ASCII clobs, unterminated strings / comments / containers) is placed at top level, in a list, "
               "an s-expression, a struct field and under an annotation.  Whenever the specification decoder "
               "SpecText.tdecode rejects the text, the real Reader's full traversal must end with Err() != nil and two "
               "further Next() calls must keep returning false with the error still set.")
ASSUMPTIONS = ["only texts the specification decoder rejects are judged; the decoder is lenient in the corners where the "
               "grammar sources disagree, so those corners are not claimed as malformed"]

CLASS_D08 = "text-dangling-annotation-accepted"
CLASS_D09 = "text-underscore-in-exponent-accepted"
CLASS_D30 = "text-invalid-utf8-accepted"
CLASS_D31 = "text-escape-of-non-scalar-accepted"

MALFORMED = [
    # a symbol identifier $n whose n no table can define
    b"$9223372036854775808", b"$99999999999999999999", b"{$9223372036854775808:1}", b"$18446744073709551616::1", b"[$9223372036854775808]",
    # digit grouping, leading zeros, radix forms
    b"1__0", b"1_", b"0x_1", b"0x1_", b"0x", b"0b", b"0b2", b"0b1_", b"0b_1", b"1_.0", b"1._0", b"1.0_", b"1.0__1", b"007", b"00", b"-007",
    b"-_1", b"00.5", b"01e0", b"1e", b"1d", b"1e+", b"1d-", b"1e5_0", b"1d5_0", b"1e_5", b"1.5e1_0", b"--1", b"1.2.3", b"1e1.5", b"+1", b"1x",
    b"12a", b"1.5a", b"1e5a", b"0x1G", b"0b12", b"1d5e", b".5", b"-.5", b"1_000_", b"0_1",
    # timestamps
    b"2000-13-01T", b"2000-00-01T", b"2001-02-30T", b"2001-02-29T", b"1900-02-29T", b"2000-04-31T", b"2000-01-00T", b"2000-01-32T", b"0000T",
    b"0000-01-01T", b"2000-01-01T24:00Z", b"2000-01-01T00:60Z", b"2000-01-01T00:00:60Z", b"2000-01-01T00:00+24:00", b"2000-01-01T00:00-00:60",
    b"2000-01-01T00:00", b"2000-01-01T00:00:00", b"2000-01-01T00:00:00.Z", b"2000-01-01T00:00:00.5", b"2000-01-01T00Z", b"2000-01-01T0:00Z",
    b"2000-1-01T", b"2000-01-1T", b"2000-01", b"2000-", b"2000-01-01T00:00z", b"2000-01-01t00:00Z", b"2000t", b"2000-01-01T00:00+0100",
    b"2000-01-01T00:00+01", b"2000-01-01T00:00Z5", b"2000Ta", b"2000-01T00:00Z", b"2000T00:00Z", b"20000-01-01T", b"200-01-01T",
    b"2000-01-01T00:00:00.1_0Z", b"2000-01-01T00:00:00,5Z", b"2000-01-01T+01:00", b"2000-01-01T-00:00", b"2000-01-01TZ", b"2000-01T+01:00", b"2000TZ",
    # strings, escapes
    b'"abc', b"'abc", b"'''abc", b"'''abc''", b'"\\q"', b'"\\x4"', b'"\\xg0"', b'"\\u12"', b'"\\u12g4"', b'"\\U0001F60"', b'"\\U00110000"',
    b'"\\UFFFFFFFF"', b'"\\uD800"', b'"\\uDC00"', b'"\\uD800\\u0041"', b'"\\uDC00\\uD800"', b'"\\U0000D800"', b'"a\nb"', b"'a\nb'", b'"a\\"',
    b'"a\xffb"', b'"\xc3"', b'"\xc3\x28"', b'"\xed\xa0\x80"', b'"\xf4\x90\x80\x80"', b'"\xc0\x80"', b'"\xe0\x80\x80"', b"'a\xffb'", b"'''a\xffb'''",
    b'"\x00"', b'"\x01"', b'"\x1f"', b"'\x07'",
    # comments
    b"/* abc", b"/*/", b"/* abc *", b"1 /", b"/ 1", b"/*a*/ /",
    # lobs
    b"{{ YQ= }}", b"{{ YQ }}", b"{{ YQ=== }}", b"{{ Y }}", b"{{ YQ=a }}", b"{{ =YQ= }}", b"{{ Y=Q= }}", b"{{ YW(= }}", b"{{ YWJj } }", b"{{ YWJj }",
    b"{{ YWJj", b'{{ "\xc3\xa9" }}', b'{{ "a\\u0041" }}', b'{{ "a\\U00000041" }}', b'{{ "a" "b" }}', b"{{ '''a''' \"b\" }}", b'{{ "a" } }', b'{{ "a"',
    b'{{ "a" /*c*/ }}', b"{{ '''a''' /*c*/ '''b''' }}", b"{{ '''a''' // c\n '''b''' }}", b'{ { "a" }}', b"{{ 'a' }}", b'{{ "a\nb" }}', b'{{ "\x80" }}',
    b"{{ /*c*/ YWJj }}", b'{{ "a"x }}', b"{{ '''\xc3\xa9''' }}",
    # symbols, keywords, annotations
    b"a::", b"a::b::", b"'a'::", b"a:: ::b", b"a: :b", b"::a", b"a:::b", b"null::1", b"true::1", b"false::1", b"nan::1", b"null.int::1", b"+::1",
    b"1::a", b'"a"::1', b"a::,", b"$99", b"$10", b"$99::1", b"null.foo", b"null.", b"null.Int", b"null.int5", b"nul.int", b"+", b"a + b", b"+inf5",
    b"a\\b", b"#", b"a#", b"@a", b"\x01", b"\x7f", b"a\x00", b"\xff", b"\xc3\xa9", b"a.b", b"+infinity", b"-infx",
    # containers, separators
    b"[1,,2]", b"[,1]", b"[,]", b"[1 2]", b"[1,", b"[1", b"[", b"]", b"[1)", b"[1}", b"(1]", b"(1", b"(", b")", b"{a:}", b"{:1}", b"{a}", b"{a:1,,}", b"{,}",
    b"{,a:1}", b"{a 1}", b"{a:1 b:2}", b"{a:1", b"{a:", b"{a", b"{", b"}", b"{a:1]", b"{a::1}", b"{a:b:1}", b"{1:1}", b"{null:1}", b"{nan:1}", b"{true:1}",
    b"{false:1}", b"{null.int:1}", b"{+:1}", b"{[a]:1}", b"{a:1,b}", b"{a:1;b:2}", b"{$99:1}", b"{a:b::}", b"[a::]", b"(a::)", b"{a:b::}", b"{'a'::1}",
    b"{{a:1}}", b"[1;2]", b"[1:2]", b"(a:b)", b"(a,b)", b"[+]", b"[a+b]", b"{a:+}", b"{a:1}}", b"[[1]", b"((1)", b"{a:{b:1}", b"[1]]",
]
CONTEXTS = [b"%s", b" %s ", b"[%s]", b"[1, %s]", b"(%s)", b"(a %s b)", b"{f:%s}", b"{f:%s, g:1}", b"x::%s", b"1 %s 2", b"[{f:(%s)}]"]

INSERTS = [b",", b":", b"::", b'"', b"'", b"'''", b"\\", b"_", b"0", b"9", b"a", b"}", b"]", b")", b"{", b"[", b"(", b"{{", b"}}", b"\xff", b"\x80",
           b"/*", b"*/", b"//", b".", b"-", b"+", b"e", b"d", b"T", b"Z", b"=", b"\x00", b"\n", b" "]


CLASS_CMT = "text-block-comment-opening-star-closes"
CLASS_TSSTOP = "text-timestamp-without-stop-character-accepted"
CLASS_TSUS = "text-underscore-in-timestamp-fraction-accepted"
CLASS_CTRL = "text-control-character-in-quoted-symbol-accepted"
CLASS_NULLDOT = "text-whitespace-inside-typed-null-accepted"
CLASS_DOT = "text-sexp-dot-operator-accepted-as-annotation"


def strip_comments(text):
    return re.sub(rb"/\*.*?\*/|//[^\n\r]*", b" ", text, flags=re.S)


def classify_text(text):
    """heuristic attribution of an accepted malformed text to a known class, most specific trigger first"""
    try:
        text.decode("utf-8")
    except UnicodeDecodeError:
        return CLASS_D30
    if re.search(rb"::\s*($|[\]\)\},])", strip_comments(text)):
        return CLASS_D08
    if re.search(rb"[0-9]T[0-9:]*\.[0-9]*_", text):
        return CLASS_TSUS
    if re.search(rb"[0-9.][eEdD][+-]?[0-9_]*_", text):
        return CLASS_D09
    if re.search(rb"(^|[^0-9-])[0-9]{4}(-[0-9]{2})?T[^\s{}\[\](),\"'/]|[0-9]{4}-[0-9]{2}-[0-9]{2}T[^\s{}\[\](),\"'/0-9]", text):
        return CLASS_TSSTOP
    if re.search(rb"\\u[dD][89a-fA-F][0-9a-fA-F]{2}|\\U0000[dD][89a-fA-F]|\\U(?!000[0-9a-fA-F]{5}|0010[0-9a-fA-F]{4})", text):
        return CLASS_D31
    if re.search(rb"'[^']*[\x00-\x08\x0e-\x1f]", text):
        return CLASS_CTRL
    if re.search(rb"null\.\s", text):
        return CLASS_NULLDOT
    if re.search(rb"(^|[^!#%&*+\-./;<=>?@^`|~])\.\s*::", strip_comments(text)):
        return CLASS_DOT
    if b"/*/" in text:
        return CLASS_CMT
    return None


_classified = {}


def classify_case(line, model_out, go_out):
    if line in _classified:
        return _classified[line]
    try:
        return classify_text(bytes.fromhex(line.split(" ")[2][1:]))
    except Exception:
        return None


def rejected(go_out):
    """the traversal ended with an error that stays"""
    return go_out.endswith("e1 F e1 F e1") and "panic" not in go_out


def base_documents(ctx, n):
    rng = ctx.rng
    docs = []
    while len(docs) < n:
        f = iongen.gen_forest(rng, {"depth": rng.choice([0, 1, 2]), "p_annot": 0.3})
        f = f[:3]
        t = textgen.render(f, random.Random(rng.getrandbits(64)), vtff=0.0, repairs=("cmt",))
        if 0 < len(t) <= 160:
            docs.append(t)
    return docs


def edits_of(doc, rng, per_doc):
    out = []
    n = len(doc)
    for i in range(1, n):                        # truncation at every offset
        out.append(("truncate", doc[:i]))
    picks = []
    for i in range(n):
        picks.append(("delete", doc[:i] + doc[i + 1:]))
    for _ in range(per_doc):
        i = rng.randint(0, n)
        ins = rng.choice(INSERTS)
        picks.append(("insert", doc[:i] + ins + doc[i:]))
        j = rng.randint(0, n - 1)
        picks.append(("replace", doc[:j] + rng.choice(INSERTS) + doc[j + 1:]))
        a, b = sorted((rng.randint(0, n), rng.randint(0, n)))
        picks.append(("cut", doc[:a] + doc[b:]))
        picks.append(("swap", doc[:a] + doc[b:] + doc[a:b]))
    rng.shuffle(picks)
    return out + picks[:per_doc * 3 + n // 2]


def run(ctx):
    rng = ctx.rng
    texts = []
    for m in MALFORMED:
        for c in CONTEXTS:
            texts.append(("catalogue", c % m if b"%s" in c else m))
    docs = base_documents(ctx, ctx.scale(250, 5000))
    for d in docs:
        for kind, t in edits_of(d, rng, ctx.scale(12, 40)):
            texts.append((kind, t))
    seen = set()
    uniq = []
    for k, t in texts:
        if t not in seen:
            seen.add(t)
            uniq.append((k, t))
    spec = c02.tdecode_many([t for _, t in uniq])
    bad = [(k, t) for (k, t), s in zip(uniq, spec) if s is None]
    crash = [(k, t, s) for (k, t), s in zip(uniq, spec) if s is not None and s.startswith("?")]
    for k, t, s in crash:
        ctx.notes.append("specification decoder did not answer on %r: %s" % (t[:100], s))
    kinds = {}
    for k, _ in bad:
        kinds[k] = kinds.get(k, 0) + 1
    ctx.count("spec-rejects", len(uniq), [], generated=len(uniq), rejected_by_spec=len(bad), by_edit=kinds)
    lines = ["btrav 0 x" + t.hex() for _, t in bad]
    go = run_go(lines)
    hist = {}
    nfail = 0
    for (k, t), ln, g in zip(bad, lines, go):
        if rejected(g):
            continue
        nfail += 1
        cls = classify_text(t)
        _classified[ln] = cls
        hist[cls or "unclassified"] = hist.get(cls or "unclassified", 0) + 1
        how = "panics" if "panic" in g else ("does not answer (%s)" % g if g in ("timeout", "fatal") or g.startswith("fatal") else "reads it without a lasting error")
        ctx.fail("property", "C07-text-malformed", ln,
                 "outside the Ion text grammar (specification decoder) but the Reader %s: text %r ; trace tail '%s'" % (how, t[:200], g[-80:]), cls)
    ctx.count("C07-text-malformed", len(lines), lines, sample=lines[len(lines) // 2][:200] if lines else None,
              accepted_although_malformed=nfail, failure_classes=hist)


def replay(ctx, rp):
    ln = rp["case"]
    text = bytes.fromhex(ln.split(" ")[2][1:])
    spec = c02.tdecode_many([text])[0]
    go = run_go([ln])[0]
    print("replay case: %r\n  specification: %s\n  real: %s" % (text[:400], "invalid" if spec is None else spec, go))
    if spec is None and not rejected(go):
        ctx.fail("property", "C07-text-malformed", ln, "outside the grammar but the Reader's trace is " + go[-120:], classify_case(ln, None, go))
    ctx.count("C07-text-malformed", 1, [ln])
