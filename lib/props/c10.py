"""C10 — symbols in a stream resolve against the symbol table in force at that point.

The module generates histories (version markers, replacing / appending local symbol tables with
imports, user values that use symbol IDs), renders each in binary and in text, runs the real Reader
with a catalog (`cattrav`) next to the extracted model, and judges the real Reader's trace with an
independent Python implementation of the Ion symbol-context rules that works from the REQUEST LINE
alone (it parses the stream bytes itself: a small binary parser and a small text parser for the subset
the generator emits).
"""
import itertools
import re

from vlib import *

THEOREMS = ["C10_step_refines", "C10_step_invariant", "C10_history", "C10_history_from", "C10_resolve",
            "C10_resolve_system", "C10_step_wf", "C10_import", "C10_never_surface", "C10_never_surface_nocat",
            "C10_step_refines_any_struct_refuted", "C10_step_deviations", "C10_resolve_overflow_refuted",
            "C10_duplicates_agree"]
LEVEL = "other"

SYSTEM = [b"$ion", b"$ion_1_0", b"$ion_symbol_table", b"name", b"version", b"imports", b"symbols", b"max_id",
          b"$ion_shared_symbol_table"]
SYS_SID = {t: i + 1 for i, t in enumerate(SYSTEM)}
LST = b"$ion_symbol_table"
I63 = 1 << 63

# ion.Type numbers (trace token y<n>)
TNULL, TBOOL, TINT, TFLOAT, TDEC, TTS, TSYM, TSTR, TCLOB, TBLOB, TLIST, TSEXP, TSTRUCT = range(1, 14)
TYNAME = {TNULL: "null", TBOOL: "bool", TINT: "int", TFLOAT: "float", TDEC: "decimal", TTS: "timestamp", TSYM: "symbol",
          TSTR: "string", TCLOB: "clob", TBLOB: "blob", TLIST: "list", TSEXP: "sexp", TSTRUCT: "struct"}
TYOFNAME = {v: k for k, v in TYNAME.items()}

# known-finding classes (confirmed deviations of ion-go from the Ion rules)
K_IVM = "text-ivm-surfaces"
K_NONSTR = "symbols-nonstring-empty-text"
K_QUOTED = "imports-quoted-no-append"
K_OVER = "maxid-overflow"
K_NULLLIST = "symbols-null-list-error"
K_FIELD = "field-unknown-text-error"
K_NULLSTRUCT = "text-null-struct-surfaces"
DEVS = [K_IVM, K_NONSTR, K_QUOTED, K_NULLLIST, K_FIELD, K_NULLSTRUCT]


def hx(b):
    return "x" + bytes(b).hex()


# =============================================================================================
# data model shared by generator and oracle
#   symbol   ("s", sid)  |  ("t", text, quoted)         (text form only in the text format)
#   value    (annots, body);  body = ("null", ty) ("bool", b) ("int", z) ("str", bytes) ("sym", symbol)
#                                    ("list", [value]) ("sexp", [value]) ("struct", [(symbol, value)])
#   stream   list of ("ivm",) | ("val", value)
# =============================================================================================
def S(n):
    return ("s", n)


def T(text, quoted=False):
    return ("t", text, quoted)


def V(body, *annots):
    return (list(annots), body)


def vint(z, *annots):
    return V(("int", z), *annots)


def vstr(t, *annots):
    return V(("str", t), *annots)


def vsym(sym, *annots):
    return V(("sym", sym), *annots)


def vlist(items, *annots):
    return V(("list", list(items)), *annots)


def vstruct(fields, *annots):
    return V(("struct", list(fields)), *annots)


def vnull(ty, *annots):
    return V(("null", ty), *annots)


# =============================================================================================
# GENERATOR SIDE: binary encoder written from the Ion binary specification, text renderer
# =============================================================================================
def varuint(v):
    out = [0x80 | (v & 0x7F)]
    v >>= 7
    while v > 0:
        out.insert(0, v & 0x7F)
        v >>= 7
    return out


def be(v):
    out = []
    while v > 0:
        out.insert(0, v & 255)
        v >>= 8
    return out


def b_tl(code, body):
    n = len(body)
    if n < 14:
        return [code << 4 | n] + body
    return [code << 4 | 14] + varuint(n) + body


def b_sid(sym):
    """binary has symbol IDs only: text symbols must be system symbols"""
    if sym[0] == "s":
        return sym[1]
    return SYS_SID[sym[1]]


def b_code(ty):
    return {TNULL: 0, TBOOL: 1, TINT: 2}.get(ty, ty)


def b_value(v):
    annots, body = v
    k = body[0]
    if k == "null":
        e = [b_code(body[1]) << 4 | 15]
    elif k == "bool":
        e = [0x11 if body[1] else 0x10]
    elif k == "int":
        e = b_tl(2 if body[1] >= 0 else 3, be(abs(body[1])))
    elif k == "str":
        e = b_tl(8, list(body[1]))
    elif k == "sym":
        e = b_tl(7, be(b_sid(body[1])))
    elif k in ("list", "sexp"):
        inner = []
        for x in body[1]:
            inner += b_value(x)
        e = b_tl(11 if k == "list" else 12, inner)
    else:
        inner = []
        for name, x in body[1]:
            inner += varuint(b_sid(name)) + b_value(x)
        e = b_tl(13, inner)
    if annots:
        ab = []
        for a in annots:
            ab += varuint(b_sid(a))
        e = b_tl(14, varuint(len(ab)) + ab + e)
    return e


def b_stream(items):
    out = [0xE0, 1, 0, 0xEA]
    for it in items:
        if it[0] == "ivm":
            out += [0xE0, 1, 0, 0xEA]
        else:
            out += b_value(it[1])
    return bytes(out)


IDENT = re.compile(rb"^[A-Za-z_$][A-Za-z0-9_$]*$")


def t_sym(sym):
    if sym[0] == "s":
        return b"$%d" % sym[1]
    if sym[2] or not IDENT.match(sym[1]) or sym[1] in (b"null", b"true", b"false", b"nan"):
        return b"'" + sym[1] + b"'"
    return sym[1]


def t_value(v):
    annots, body = v
    k = body[0]
    if k == "null":
        e = b"null" if body[1] == TNULL else b"null." + TYNAME[body[1]].encode()
    elif k == "bool":
        e = b"true" if body[1] else b"false"
    elif k == "int":
        e = b"%d" % body[1]
    elif k == "str":
        e = b'"' + body[1] + b'"'
    elif k == "sym":
        e = t_sym(body[1])
    elif k == "list":
        e = b"[" + b",".join(t_value(x) for x in body[1]) + b"]"
    elif k == "sexp":
        e = b"(" + b" ".join(t_value(x) for x in body[1]) + b")"
    else:
        e = b"{" + b",".join(t_sym(n) + b":" + t_value(x) for n, x in body[1]) + b"}"
    return b"".join(t_sym(a) + b"::" for a in annots) + e


def t_stream(items):
    return b" ".join(b"$ion_1_0" if it[0] == "ivm" else t_value(it[1]) for it in items)


def has_text_only_syms(v):
    """does the value use a symbol that the binary rendering cannot express (non-system text)?"""
    annots, body = v
    for a in annots:
        if a[0] == "t" and a[1] not in SYS_SID:
            return True
    k = body[0]
    if k == "sym":
        return body[1][0] == "t" and body[1][1] not in SYS_SID
    if k in ("list", "sexp"):
        return any(has_text_only_syms(x) for x in body[1])
    if k == "struct":
        return any((n[0] == "t" and n[1] not in SYS_SID) or has_text_only_syms(x) for n, x in body[1])
    return False


# =============================================================================================
# ORACLE SIDE 1: parsers of the request line (independent of the renderers above)
# =============================================================================================
class Unparsable(Exception):
    pass


def rd_varuint(b, i, end):
    v = 0
    while True:
        if i >= end:
            raise Unparsable("varuint")
        c = b[i]
        i += 1
        v = (v << 7) | (c & 0x7F)
        if c & 0x80:
            return v, i


def pb_value(b, i, end, annotated=False):
    """one binary value at b[i:end] -> (value, next)"""
    if i >= end:
        raise Unparsable("eof")
    td = b[i]
    code, ln = td >> 4, td & 15
    i += 1
    if code == 14:
        if annotated or ln in (0, 15):
            raise Unparsable("annotation wrapper")
        if ln == 14:
            ln, i = rd_varuint(b, i, end)
        stop = i + ln
        if stop > end:
            raise Unparsable("wrapper length")
        alen, i = rd_varuint(b, i, stop)
        astop = i + alen
        annots = []
        while i < astop:
            sid, i = rd_varuint(b, i, astop)
            annots.append(S(sid))
        (_, body), j = pb_value(b, i, stop, True)
        if j != stop or not annots:
            raise Unparsable("wrapper content")
        return (annots, body), stop
    if code == 1:
        if ln == 15:
            return ([], ("null", TBOOL)), i
        if ln > 1:
            raise Unparsable("bool")
        return ([], ("bool", ln == 1)), i
    if ln == 15:
        ty = {0: TNULL, 2: TINT, 3: TINT, 4: TFLOAT, 5: TDEC, 6: TTS, 7: TSYM, 8: TSTR, 9: TCLOB, 10: TBLOB, 11: TLIST, 12: TSEXP,
              13: TSTRUCT}.get(code)
        if ty is None:
            raise Unparsable("null of code %d" % code)
        return ([], ("null", ty)), i
    if code == 13 and ln == 1:
        raise Unparsable("sorted struct not used by this generator")
    if ln == 14:
        ln, i = rd_varuint(b, i, end)
    stop = i + ln
    if stop > end:
        raise Unparsable("length beyond container")
    raw = b[i:stop]
    if code in (2, 3):
        z = int.from_bytes(raw, "big")
        return ([], ("int", -z if code == 3 else z)), stop
    if code == 7:
        return ([], ("sym", S(int.from_bytes(raw, "big")))), stop
    if code == 8:
        return ([], ("str", bytes(raw))), stop
    if code in (11, 12):
        items = []
        while i < stop:
            x, i = pb_value(b, i, stop)
            items.append(x)
        return ([], ("list" if code == 11 else "sexp", items)), stop
    if code == 13:
        fields = []
        while i < stop:
            sid, i = rd_varuint(b, i, stop)
            x, i = pb_value(b, i, stop)
            fields.append((S(sid), x))
        return ([], ("struct", fields)), stop
    raise Unparsable("type code %d" % code)


def parse_binary(b):
    if b[:4] != b"\xe0\x01\x00\xea":
        raise Unparsable("no BVM")
    items = []
    i = 4
    while i < len(b):
        if b[i:i + 4] == b"\xe0\x01\x00\xea":
            items.append(("ivm",))
            i += 4
            continue
        v, i = pb_value(b, i, len(b))
        items.append(("val", v))
    return items


TOKEN = re.compile(rb"""\s*(?:
    (?P<dc>::) | (?P<p>[{}\[\](),:]) | "(?P<str>[^"\\]*)" | '(?P<q>[^'\\]*)' |
    (?P<tn>null\.[a-z]+) | (?P<int>-?[0-9]+) | (?P<id>[A-Za-z_$][A-Za-z0-9_$]*) )""", re.X)


def tokenize(txt):
    toks = []
    i = 0
    n = len(txt)
    while True:
        while i < n and txt[i] in b" \t\r\n":
            i += 1
        if i >= n:
            return toks
        m = TOKEN.match(txt, i)
        if not m:
            raise Unparsable("text at %d" % i)
        i = m.end()
        kind = m.lastgroup
        toks.append((kind, m.group(kind)))


SID_ID = re.compile(rb"^\$[0-9]+$")


def tok_symbol(tk):
    """a token that is a symbol -> symbol, else None"""
    kind, s_ = tk
    if kind == "q":
        return T(s_, True)
    if kind == "id" and s_ not in (b"null", b"true", b"false", b"nan"):
        if SID_ID.match(s_):
            return S(int(s_[1:]))
        return T(s_, False)
    return None


class TextParser:
    def __init__(self, toks):
        self.t = toks
        self.i = 0

    def peek(self, k=0):
        return self.t[self.i + k] if self.i + k < len(self.t) else (None, None)

    def next(self):
        tk = self.peek()
        self.i += 1
        return tk

    def value(self):
        annots = []
        while tok_symbol(self.peek()) is not None and self.peek(1)[0] == "dc":
            annots.append(tok_symbol(self.next()))
            self.next()
        kind, s_ = self.next()
        if kind == "tn":
            name = s_[5:].decode()
            if name not in TYOFNAME:
                raise Unparsable("null." + name)
            return (annots, ("null", TYOFNAME[name]))
        if kind == "int":
            return (annots, ("int", int(s_)))
        if kind == "str":
            return (annots, ("str", s_))
        if kind == "id" and s_ == b"null":
            return (annots, ("null", TNULL))
        if kind == "id" and s_ in (b"true", b"false"):
            return (annots, ("bool", s_ == b"true"))
        sym = tok_symbol((kind, s_))
        if sym is not None:
            return (annots, ("sym", sym))
        if kind == "p" and s_ == b"[":
            items = []
            if self.peek() == ("p", b"]"):
                self.next()
                return (annots, ("list", items))
            while True:
                items.append(self.value())
                kind, s_ = self.next()
                if (kind, s_) == ("p", b"]"):
                    return (annots, ("list", items))
                if (kind, s_) != ("p", b","):
                    raise Unparsable("list separator")
        if kind == "p" and s_ == b"(":
            items = []
            while self.peek() != ("p", b")"):
                if self.peek()[0] is None:
                    raise Unparsable("open sexp")
                items.append(self.value())
            self.next()
            return (annots, ("sexp", items))
        if kind == "p" and s_ == b"{":
            fields = []
            if self.peek() == ("p", b"}"):
                self.next()
                return (annots, ("struct", fields))
            while True:
                tk = self.next()
                name = tok_symbol(tk)
                if name is None:
                    if tk[0] == "str":
                        name = T(tk[1], True)
                    else:
                        raise Unparsable("field name")
                if self.next() != ("p", b":"):
                    raise Unparsable("field colon")
                fields.append((name, self.value()))
                kind, s_ = self.next()
                if (kind, s_) == ("p", b"}"):
                    return (annots, ("struct", fields))
                if (kind, s_) != ("p", b","):
                    raise Unparsable("struct separator")
        raise Unparsable("value token %r" % (s_,))


def parse_text(txt):
    p = TextParser(tokenize(txt))
    items = []
    while p.peek()[0] is not None:
        # an unquoted, unannotated $ion_1_0 at top level is the text version marker
        if p.peek() == ("id", b"$ion_1_0") and p.peek(1)[0] != "dc":
            p.next()
            items.append(("ivm",))
            continue
        items.append(("val", p.value()))
    return items


def parse_catalog(toks):
    """descriptors S <name> <ver> <n> <sym>*n <nadj> <maxid>*nadj  -> list of (name, version, slots)"""
    cat = []
    i = 0
    while i < len(toks):
        if toks[i] != "S":
            raise Unparsable("descriptor " + toks[i])
        name = bytes.fromhex(toks[i + 1][1:])
        ver = int(toks[i + 2])
        n = int(toks[i + 3])
        syms = [bytes.fromhex(x[1:]) for x in toks[i + 4:i + 4 + n]]
        i += 4 + n
        nadj = int(toks[i])
        adj = [int(x) for x in toks[i + 1:i + 1 + nadj]]
        i += 1 + nadj
        slots = list(syms)
        for m in adj:
            slots = slots[:m] + [None] * (m - len(slots))
        cat.append((name, ver, slots))
    return cat


_CASES = {}


def parse_line(line):
    c = _CASES.get(line)
    if c is None:
        t = line.split(" ")
        data = bytes.fromhex(t[2][1:]) if t[0] == "cattrav" else bytes.fromhex(t[1][1:])
        rest = t[3:] if t[0] == "cattrav" else t[2:]
        is_text = data[:1] != b"\xe0"
        items = parse_text(data) if is_text else parse_binary(data)
        c = (is_text, items, parse_catalog(rest))
        if len(_CASES) > 20000:
            _CASES.clear()
        _CASES[line] = c
    return c


# =============================================================================================
# ORACLE SIDE 2: the Ion rules
# A context is a list of segments ("T", [text-or-None, ...]) / ("G", n) (n slots of unknown text),
# so that declared max_ids near 2^63 stay representable.
# =============================================================================================
SYSTEM_CTX = (("T", tuple(SYSTEM)),)


def seg_len(sg):
    return len(sg[1]) if sg[0] == "T" else sg[1]


def ctx_size(cx):
    return sum(seg_len(sg) for sg in cx)


def ctx_lookup(cx, sid):
    """('k', text) | ('u',) | ('err',)   — $0 has no text, an ID above the maximum is an error"""
    if sid == 0:
        return ("u",)
    j = sid - 1
    for sg in cx:
        n = seg_len(sg)
        if j < n:
            if sg[0] == "G" or sg[1][j] is None:
                return ("u",)
            return ("k", sg[1][j])
        j -= n
    return ("err",)


def ctx_slots(cx):
    out = []
    for sg in cx:
        out += list(sg[1]) if sg[0] == "T" else [None] * sg[1]
    return out


def fit(slots, m):
    """exactly m slots: the first m of the table, padded with unknown text"""
    if m <= len(slots):
        return (("T", tuple(slots[:m])),)
    return (("T", tuple(slots)), ("G", m - len(slots)))


class StreamError(Exception):
    """the stream is invalid at this point"""


class Interp:
    def __init__(self, is_text, catalog, devs=frozenset()):
        self.is_text = is_text
        self.cat = catalog
        self.devs = devs
        self.cx = SYSTEM_CTX
        self.out = []
        self.over = False          # some table declared imports whose slots reach 2^63

    # ---- symbols -------------------------------------------------------------------------
    def res(self, sym):
        """('k', text) | ('u', sid) ; raises StreamError for an ID out of range"""
        if sym[0] == "t":
            return ("k", sym[1])
        r = ctx_lookup(self.cx, sym[1])
        if r[0] == "err":
            raise StreamError("symbol ID %d above the context's maximum %d" % (sym[1], ctx_size(self.cx)))
        if r[0] == "u":
            return ("u", sym[1])
        return r

    def text_of(self, sym):
        r = self.res(sym)
        return r[1] if r[0] == "k" else None

    @staticmethod
    def show(r):
        return "k" + r[1].hex() if r[0] == "k" else "u.%d" % r[1]

    # ---- user values: the expected trace -------------------------------------------------
    def trace(self, v, field):
        annots, body = v
        k = body[0]
        # everything the reader resolves when it moves onto the value
        f = "nil" if field is None else self.show(self.res(field))
        a = "a[" + "".join(self.show(self.res(x)) + ";" for x in annots) + "]"
        sv = self.show(self.res(body[1])) if k == "sym" else None
        o = self.out
        o += ["T", f, a]
        if k == "null":
            o += ["y%d" % body[1], "n1"]
        elif k == "bool":
            o += ["y2", "n0", "b1" if body[1] else "b0"]
        elif k == "int":
            o += ["y3", "n0", "I%d" % body[1]]
        elif k == "str":
            o += ["y8", "n0", "S" + hx(body[1])]
        elif k == "sym":
            o += ["y7", "n0", sv]
        else:
            o += ["y%d" % {"list": TLIST, "sexp": TSEXP, "struct": TSTRUCT}[k], "n0", "ok"]
            if k == "struct":
                for name, x in body[1]:
                    self.trace(x, name)
            else:
                for x in body[1]:
                    self.trace(x, None)
            o += ["F", "ok"]

    # ---- symbol tables -------------------------------------------------------------------
    def check_symbols(self, v):
        """a table struct is read like any value: an ID out of range anywhere in it is an error"""
        annots, body = v
        for x in annots:
            self.res(x)
        k = body[0]
        if k == "sym":
            self.res(body[1])
        elif k in ("list", "sexp"):
            for x in body[1]:
                self.check_symbols(x)
        elif k == "struct":
            for name, x in body[1]:
                self.res(name)
                self.check_symbols(x)

    def named(self, fields):
        """[(text-or-None, value)]; a field whose name has no text takes no part (ion-go: error)"""
        out = []
        for name, x in fields:
            t = self.text_of(name)
            if t is None and K_FIELD in self.devs:
                raise StreamError("field without text (ion-go)")
            out.append((t, x))
        return out

    def import_slots(self, v):
        annots, body = v
        if body[0] != "struct":
            return ()                                  # not an import declaration (also null.struct)
        fs = self.named(body[1])

        def first(nm):
            for t, x in fs:
                if t == nm:
                    return x[1]
            return None
        nb, vb, mb = first(b"name"), first(b"version"), first(b"max_id")
        name = nb[1] if nb is not None and nb[0] == "str" else b""
        ver = vb[1] if vb is not None and vb[0] == "int" else None
        if mb is not None and mb[0] == "null" and mb[1] == TINT:
            raise StreamError("max_id: null.int")
        maxid = mb[1] if mb is not None and mb[0] == "int" and mb[1] >= 0 else None
        if name in (b"", b"$ion"):
            return ()
        if ver is None or ver < 1:
            ver = 1
        exact = [sl for (n, v_, sl) in self.cat if n == name and v_ == ver]
        if exact:
            return fit(exact[0], len(exact[0]) if maxid is None else maxid)
        if maxid is None:
            raise StreamError("import %r/%d without usable max_id and without exact match" % (name, ver))
        same = [(v_, sl) for (n, v_, sl) in self.cat if n == name]
        if same:
            best = max(v_ for v_, _ in same)
            return fit([sl for v_, sl in same if v_ == best][0], maxid)
        return (("G", maxid),) if maxid else ()

    def table(self, v):
        """the context after the symbol table v (annotations already resolved)"""
        annots, body = v
        if body[0] == "null":
            return SYSTEM_CTX                          # no imports, no symbols
        self.check_symbols(v)
        fs = self.named(body[1])
        imps = [x for t, x in fs if t == b"imports"]
        syms = [x for t, x in fs if t == b"symbols"]
        if len(imps) > 1 or len(syms) > 1:
            raise StreamError("repeated imports/symbols field")
        # field order matters only for which error comes first; any error ends the stream here
        append = False
        islots = ()
        if imps:
            ib = imps[0][1]
            if ib[0] == "sym":
                append = self.text_of(ib[1]) == LST
                if append and K_QUOTED in self.devs and ib[1][0] == "t" and ib[1][2]:
                    append = False
            elif ib[0] == "list":
                for d in ib[1]:
                    islots += self.import_slots(d)
        local = []
        if syms:
            sb = syms[0][1]
            if sb[0] == "list":
                for x in sb[1]:
                    if x[1][0] == "str":
                        local.append(x[1][1])
                    else:
                        local.append(b"" if K_NONSTR in self.devs else None)
            elif sb == ("null", TLIST) and K_NULLLIST in self.devs:
                raise StreamError("symbols: null.list (ion-go)")
        if 9 + ctx_size(islots) >= I63:
            self.over = True
        base = self.cx if append else SYSTEM_CTX + islots
        return base + ((("T", tuple(local)),) if local else ())

    # ---- the stream ----------------------------------------------------------------------
    def run(self, items):
        """fills self.out; returns None, or the reason the stream is invalid (self.out = what precedes)"""
        try:
            for it in items:
                if it[0] == "ivm":
                    if self.is_text and K_IVM in self.devs:
                        self.out += ["T", "nil", "a[]", "y7", "n0", "k" + SYSTEM[1].hex()]
                    else:
                        self.cx = SYSTEM_CTX
                    continue
                v = it[1]
                annots, body = v
                is_table = False
                if annots and (body[0] == "struct" or body == ("null", TSTRUCT)):
                    is_table = self.text_of(annots[0]) == LST
                    if is_table and body[0] == "null" and self.is_text and K_NULLSTRUCT in self.devs:
                        is_table = False
                if is_table:
                    for x in annots:
                        self.res(x)
                    self.cx = self.table(v)
                else:
                    self.trace(v, None)
        except StreamError as e:
            return str(e)
        return None


END_OK = ["F", "e0", "F", "e0", "F", "e0"]
END_ERR = ["e1", "F", "e1", "F", "e1"]


PROJ = re.compile(r"(?<![0-9a-zA-Z])k([0-9a-f]*)\.-?[0-9]+")


def project(trace):
    """drop the symbol IDs of tokens whose text is known (k<hex>.<sid> -> k<hex>, also inside a[...])"""
    return PROJ.sub(r"k\1", trace).split(" ")


def expectation(case, devs=frozenset()):
    is_text, items, cat = case
    ip = Interp(is_text, cat, devs)
    why = ip.run(items)
    return ip, why


def compare(ip, why, go):
    """None when the real trace is what the rules give; else how it differs"""
    g = project(go)
    if g and g[0] in ("panic", "fatal", "timeout", "badinput", "harnesserror") or "panic" in g or "outoffuel" in g:
        return "real code: " + go[:120]
    if why is None:
        exp = ip.out + END_OK
        if g != exp:
            return "expected trace '%s'" % " ".join(exp)
        return None
    # the stream is invalid after ip.out (possibly inside a container): the reader must stop with an error
    # and surface nothing beyond what precedes the offending item
    n = len(ip.out)
    # a partially traversed container: the tokens of the complete sub-values before the failing one
    if g[:n] != ip.out:
        return "stream invalid (%s): expected '%s' and then an error" % (why, " ".join(ip.out))
    tail = g[n:]
    if tail[-5:] != END_ERR or any(x not in ("F", "err", "ok", "e1") for x in tail) or not tail or tail[0] != "F":
        return "stream invalid (%s): expected the reader to stop with an error after '%s', got tail '%s'" % (
            why, " ".join(ip.out[-12:]), " ".join(tail))
    return None


def judge(line, go):
    try:
        case = parse_line(line)
    except Unparsable as e:
        return "oracle cannot parse the request (%s)" % e
    ip, why = expectation(case)
    return compare(ip, why, go)


def oracle(line, go):
    t = line.split(" ", 1)[0]
    if t != "cattrav":
        return None
    return judge(line, go)


def classify_case(line, m, g):
    """the known deviation (exactly) that explains the real answer, if any"""
    if not line.startswith("cattrav "):
        return None
    try:
        case = parse_line(line)
    except Unparsable:
        return None
    ip, why = expectation(case)
    if compare(ip, why, g) is None:
        return None
    if ip.over:
        return K_OVER
    for k in range(1, len(DEVS) + 1):
        for sub in itertools.combinations(DEVS, k):
            ip2, why2 = expectation(case, frozenset(sub))
            if compare(ip2, why2, g) is None:
                return sub[0]
    return None


# =============================================================================================
# GENERATORS
# =============================================================================================
CAT_TABLES = {"A1": (b"A", 1, [b"a1", b"a2"]), "A2": (b"A", 2, [b"a1", b"a2", b"a3"]), "B1": (b"B", 1, [b"b1"])}
# catalogs are registered in the order given: ascending and non-ascending versions of the same name ("latest" is the
# highest version, not the last one registered)
CATALOGS = [[], ["A1"], ["A2"], ["A1", "A2", "B1"], ["A2", "A1"], ["B1", "A2", "A1"]]
# (A,3,2) and (A,3,3): no exact match in any catalog -> the latest version, trimmed / exactly fitting (with max_id 2 the
# latest and the older version give the same slots; with 3 they differ)
IMPORT_ALPHA = [(b"A", 1, 2), (b"A", 1, None), (b"A", 2, 5), (b"A", 3, 2), (b"A", 3, 3), (b"C", 1, 3), (b"C", 1, None)]


def desc_of(key):
    name, ver, syms = CAT_TABLES[key]
    return ["S", hx(name), str(ver), str(len(syms))] + [hx(x) for x in syms] + ["0"]


def cat_tokens(keys):
    return [x for k in keys for x in desc_of(k)]


def cat_spec(keys):
    return [(CAT_TABLES[k][0], CAT_TABLES[k][1], list(CAT_TABLES[k][2])) for k in keys]


# struct fields are unordered: the order in which a table's (and an import's) fields are written is rotated through
# every permutation by this counter, so that `symbols` also comes before `imports`, `max_id` before `name`, ...
_FIELD_ORDER = [0]


def _permuted(fs):
    import itertools
    _FIELD_ORDER[0] += 1
    perms = list(itertools.permutations(range(len(fs))))
    return [fs[i] for i in perms[_FIELD_ORDER[0] % len(perms)]]


def import_struct(name, ver, maxid):
    fs = [(T(b"name"), vstr(name)), (T(b"version"), vint(ver))]
    if maxid is not None:
        fs.append((T(b"max_id"), vint(maxid)))
    return vstruct(_permuted(fs))


def table_value(imports, symbols, ann=None):
    """imports: None (no field) | 'append' | list of (name, ver, maxid);  symbols: None | list of texts"""
    fs = []
    if imports == "append":
        fs.append((T(b"imports"), vsym(T(LST))))
    elif imports is not None:
        fs.append((T(b"imports"), vlist([import_struct(*d) for d in imports])))
    if symbols is not None:
        fs.append((T(b"symbols"), vlist([vstr(x) for x in symbols])))
    return vstruct(_permuted(fs), ann or T(LST))


def probe(sid, form):
    if form == 0 and sid != 2:
        return vsym(S(sid))
    if form == 1 or (form == 0 and sid == 2):      # a bare top-level SID 2 is left out (version-marker look-alike)
        return vint(1, S(sid))
    return vstruct([(S(sid), vint(1))])


class Hist:
    """builds a stream item by item, following the context with the rules (to know which IDs to probe)"""

    def __init__(self, catalog_keys):
        self.keys = catalog_keys
        self.ip = Interp(False, cat_spec(catalog_keys))
        self.items = []
        self.dead = None
        self.k = 0
        self.valid_len = None      # number of items before the closing out-of-range probe (all tables valid)

    def add(self, item):
        self.items.append(item)
        if self.dead is None:
            self.dead = self.ip.run([item])
            self.ip.out = []

    def probes(self, sysn=2, full=True):
        """user values probing the whole context in force"""
        if self.dead is not None:
            self.add(("val", vsym(S(4))))
            return
        n = ctx_size(self.ip.cx)
        self.k += 1
        k = self.k
        sids = [0] + [1 + (k * 2 + j) % 9 for j in range(sysn)] + (list(range(10, n + 1)) if n < 64 else [10, n])
        for j, sid in enumerate(sids):
            self.add(("val", probe(sid, (sid + k) % 3)))
        if full and n >= 10:
            # each form at least once on a non-system slot, nested too
            self.add(("val", vlist([vsym(S(n)), vint(2, S(10), S(n)), vstruct([(S(n), vsym(S(10)))])])))

    def finish(self):
        """the ID just above the maximum: the stream must fail there"""
        if self.dead is None:
            n = ctx_size(self.ip.cx)
            self.valid_len = len(self.items)
            self.add(("val", probe(n + 1, self.k % 3)))
            self.add(("val", vint(7)))
        return self

    def lines(self, binary=True, text=True, errprobe=True):
        out = []
        cat = cat_tokens(self.keys)
        if binary and not any(it[0] == "val" and has_text_only_syms(it[1]) for it in self.items):
            out.append(" ".join(["cattrav", "0", hx(b_stream(self.items))] + cat))
        if text:
            out.append(" ".join(["cattrav", "0", hx(t_stream(self.items))] + cat))
        return out


def history_alphabet(full):
    """table items: ('ivm',) | ('rep', imports, nsyms) | ('app', nsyms)"""
    imps = [[]] + [[d] for d in IMPORT_ALPHA]
    if full:
        imps += [[d, e] for d in IMPORT_ALPHA for e in IMPORT_ALPHA]
    items = [("ivm",)]
    for il in imps:
        for ns in ((0, 1, 2) if full else (0, 1)):
            items.append(("rep", il, ns))
    for ns in ((0, 1, 2) if full else (0, 1)):
        items.append(("app", ns))
    return items


def build_history(keys, seq, sysn=2, variant=0):
    h = Hist(keys)
    h.probes(sysn=9 if variant == 0 else sysn, full=False)
    for pos, it in enumerate(seq):
        if h.dead is not None:
            return None                       # an item after an invalid table adds nothing
        texts = [b"s%d%s" % (pos, c) for c in (b"x", b"y")]
        if it[0] == "ivm":
            h.add(("ivm",))
        elif it[0] == "rep":
            il = it[1]
            # an empty imports list is written either as [] or by leaving the field out
            imports = il if (il or (pos + variant) % 2) else None
            h.add(("val", table_value(imports, texts[:it[2]] if (it[2] or (pos + variant) % 2 == 0) else None)))
        else:
            h.add(("val", table_value("append", texts[:it[1]])))
        h.probes(sysn=sysn)
    return h.finish()


def gen_histories(ctx):
    """exhaustive length <= 2 over the reduced alphabet and length 1 over the full one; sampled beyond"""
    rng = ctx.rng
    hs = []
    small = history_alphabet(False)
    full = history_alphabet(True)
    for keys in CATALOGS:
        for it in full:
            hs.append(build_history(keys, [it]))
        for n in (2, 3) if ctx.thorough() else (2,):
            for seq in itertools.product(small, repeat=n):
                hs.append(build_history(keys, list(seq)))
    # sampled: length 2..4 over the full alphabet, the catalog in any order
    nsample = ctx.scale(1600, 30000)
    for _ in range(nsample):
        keys = list(rng.choice(CATALOGS))
        rng.shuffle(keys)
        n = rng.choice([2, 3, 3, 4, 4])
        seq = []
        for _ in range(n):
            r = rng.random()
            if r < 0.15:
                seq.append(("ivm",))
            elif r < 0.45:
                seq.append(("app", rng.choice([0, 1, 1, 2])))
            else:
                # invalid tables end a history: make them rarer so that long histories survive
                il = [rng.choice(IMPORT_ALPHA) for _ in range(rng.choice([0, 1, 1, 2]))]
                if rng.random() < 0.6:
                    il = [d for d in il if d[2] is not None or (d[0] == b"A" and ("A%d" % d[1]) in keys)]
                seq.append(("rep", il, rng.choice([0, 1, 2])))
        h = None
        while h is None and seq:
            h = build_history(keys, seq, variant=rng.randint(0, 3))
            seq = seq[:-1]
        if h is not None:
            hs.append(h)
    return [h for h in hs if h is not None]


# ---- malformed / boundary tables -------------------------------------------------------------
def malformed_tables():
    """(label, [values...]) — each a sequence of top-level values forming or resembling a symbol table"""
    A12 = import_struct(b"A", 1, 2)
    B11 = import_struct(b"B", 1, 1)
    imp = lambda *fs: vstruct(list(fs))
    nm, ver, mx = T(b"name"), T(b"version"), T(b"max_id")
    IM, SY = T(b"imports"), T(b"symbols")
    syms = (SY, vlist([vstr(b"q1"), vstr(b"q2")]))
    tb = lambda *fs, **kw: vstruct(list(fs), *(kw.get("ann") or [T(LST)]))
    out = []
    # wrong types for imports
    for i, x in enumerate([vint(5), vstr(b"A"), V(("bool", True)), imp((nm, vstr(b"A")), (ver, vint(1)), (mx, vint(2))),
                           V(("sexp", [A12])), vnull(TNULL), vnull(TLIST), vnull(TSYM), vnull(TSTRUCT), vsym(S(4)), vsym(S(0)),
                           vsym(T(b"imports")), vstr(LST), vlist([vsym(T(LST))]),
                           vlist([vint(1), vstr(b"A"), vnull(TSTRUCT), vnull(TNULL), vlist([A12]), V(("sexp", [])), vsym(S(3)), A12]),
                           vlist([vnull(TSTRUCT), B11, vnull(TLIST), A12])]):
        out.append(("imports-type-%d" % i, [tb((IM, x), syms)]))
        out.append(("imports-type-%d-r" % i, [tb(syms, (IM, x))]))
    # wrong types for symbols
    for i, x in enumerate([vint(5), vstr(b"q"), vstruct([(nm, vstr(b"q"))]), V(("sexp", [vstr(b"q1")])), vnull(TNULL), vnull(TSTR),
                           vnull(TSEXP), vsym(S(4)), V(("bool", False)), vlist([])]):
        out.append(("symbols-type-%d" % i, [tb((IM, vlist([A12])), (SY, x))]))
    out.append(("symbols-null-list", [tb((SY, vnull(TLIST)))]))
    out.append(("symbols-null-list-imp", [tb((IM, vlist([A12])), (SY, vnull(TLIST)))]))
    out.append(("symbols-null-list-app", [tb((IM, vsym(T(LST))), (SY, vnull(TLIST)))]))
    # entries of symbols that are not strings
    for i, x in enumerate([vint(5), vnull(TNULL), vnull(TSTR), vsym(S(4)), vsym(T(b"name")), vlist([vstr(b"z")]), vstruct([]),
                           V(("bool", True)), vnull(TSYM), V(("sexp", [])), vstr(b"")]):
        out.append(("symbols-entry-%d" % i, [tb((SY, vlist([vstr(b"q1"), x, vstr(b"q3")])))]))
        out.append(("symbols-entry-%d-last" % i, [tb((IM, vlist([A12])), (SY, vlist([x])))]))
    # import fields
    names = [vint(1), vsym(T(b"name")), vsym(S(4)), vnull(TSTR), vnull(TNULL), vstr(b""), vstr(b"$ion"), vlist([vstr(b"A")]), None,
             vstr(b"a"), vstr(b"AA")]
    for i, x in enumerate(names):
        for m in (2, None):
            fs = ([(nm, x)] if x is not None else []) + [(ver, vint(1))] + ([(mx, vint(m))] if m is not None else [])
            out.append(("import-name-%d-%s" % (i, m), [tb((IM, vlist([imp(*fs), B11])), syms)]))
    vers = [vstr(b"1"), vnull(TINT), vnull(TNULL), vsym(S(5)), V(("bool", True)), None, vint(0), vint(-1), vint(2), vint(3), vint(7),
            vint(2147483647)]
    for i, x in enumerate(vers):
        for m in (2, 4, None):
            fs = [(nm, vstr(b"A"))] + ([(ver, x)] if x is not None else []) + ([(mx, vint(m))] if m is not None else [])
            out.append(("import-version-%d-%s" % (i, m), [tb((IM, vlist([imp(*fs)])), syms)]))
            out.append(("import-version-%d-%s-order" % (i, m), [tb((IM, vlist([imp(*reversed(fs))])), syms)]))
    maxs = [vstr(b"2"), V(("bool", True)), vnull(TNULL), vnull(TINT), vsym(S(8)), vnull(TSTR), vlist([vint(2)]), vint(-1), vint(-5),
            vint(0), vint(1), vint(3), vint(40)]
    for i, x in enumerate(maxs):
        for (n_, v_) in ((b"A", 1), (b"A", 3), (b"C", 1), (b"", 1), (b"$ion", 1)):
            out.append(("import-maxid-%d-%s-%d" % (i, n_.decode(), v_),
                        [tb((IM, vlist([imp((nm, vstr(n_)), (ver, vint(v_)), (mx, x)), B11])), syms)]))
    # repeated fields
    out.append(("dup-symbols", [tb(syms, syms)]))
    out.append(("dup-symbols-2", [tb((SY, vlist([])), (IM, vlist([A12])), (SY, vlist([vstr(b"z")])))]))
    out.append(("dup-symbols-3", [tb((SY, vint(1)), syms)]))
    out.append(("dup-imports", [tb((IM, vlist([A12])), (IM, vlist([B11])), syms)]))
    out.append(("dup-imports-2", [tb((IM, vlist([])), syms, (IM, vlist([])))]))
    out.append(("dup-imports-3", [tb((IM, vsym(T(LST))), (IM, vsym(T(LST))))]))
    out.append(("dup-imports-4", [tb((IM, vnull(TNULL)), syms, (IM, vlist([A12])))]))
    # unknown extra fields (open content): system symbols and (text only) other names
    for i, (f, x) in enumerate([(nm, vstr(b"A")), (ver, vint(1)), (mx, vint(3)), (T(b"$ion"), vint(1)),
                                (T(b"$ion_shared_symbol_table"), vlist([vstr(b"k")])), (T(LST), vstruct([syms])),
                                (T(b"$ion_1_0"), vsym(S(2))), (T(b"foo"), vint(1)), (T(b"Symbols"), vlist([vstr(b"k")])),
                                (T(b"symbols", True), vlist([vstr(b"k")]))]):
        out.append(("extra-field-%d" % i, [tb((f, x), (IM, vlist([A12])), syms)]))
        out.append(("extra-field-%d-end" % i, [tb((IM, vlist([A12])), syms, (f, x))]))
        if i >= 3:       # (a second name/version/max_id inside one import is left out: the rules do not say which one counts)
            out.append(("extra-import-field-%d" % i, [tb((IM, vlist([imp((nm, vstr(b"A")), (f, x), (ver, vint(2)), (mx, vint(4)))])), syms)]))
    out.append(("extra-import-field-syms", [tb((IM, vlist([imp((nm, vstr(b"A")), syms, (IM, vlist([B11])), (mx, vint(1)))])), syms)]))
    # a field whose name has no text
    out.append(("field-sid0", [tb((S(0), vint(1)), syms)]))
    out.append(("field-sid0-end", [tb(syms, (S(0), vlist([vstr(b"k")])))]))
    out.append(("field-sid0-import", [tb((IM, vlist([imp((nm, vstr(b"A")), (S(0), vint(1)), (mx, vint(2)))])), syms)]))
    out.append(("field-sid0-import-end", [tb((IM, vlist([imp((nm, vstr(b"C")), (mx, vint(2)), (S(0), vnull(TNULL)))])), syms)]))
    out.append(("field-placeholder", [tb((IM, vlist([import_struct(b"C", 1, 2)]))), tb((S(10), vint(1)), syms)]))
    out.append(("field-placeholder-import", [tb((IM, vlist([import_struct(b"C", 1, 2)]))),
                                             tb((IM, vlist([imp((S(11), vint(1)), (nm, vstr(b"A")), (mx, vint(2)))])), syms)]))
    # annotations
    out.append(("ann-two", [tb(syms, ann=[T(LST), T(b"name")])]))
    out.append(("ann-two-same", [tb(syms, ann=[T(LST), T(LST)])]))
    out.append(("ann-sid3", [tb(syms, ann=[S(3)])]))
    out.append(("ann-quoted", [tb(syms, ann=[T(LST, True)])]))
    out.append(("ann-not-first", [tb(syms, ann=[T(b"name"), T(LST)])]))
    out.append(("ann-not-first-sid0", [tb(syms, ann=[S(0), T(LST)])]))
    out.append(("ann-shared", [tb(syms, (nm, vstr(b"A")), (ver, vint(1)), ann=[T(b"$ion_shared_symbol_table")])]))
    out.append(("ann-other", [tb(syms, ann=[T(b"imports")])]))
    out.append(("ann-none", [vstruct([syms])]))
    # nested: must surface as values
    good = tb((IM, vlist([A12])), syms)
    out.append(("nested-list", [vlist([good])]))
    out.append(("nested-sexp", [V(("sexp", [good]))]))
    out.append(("nested-struct", [vstruct([(SY, good)])]))
    out.append(("nested-list-annot", [vlist([good], T(LST))]))
    out.append(("nested-in-table", [tb((T(LST), good), (SY, vlist([vstr(b"w")])))]))
    # $ion_symbol_table:: on something that is not a struct
    for i, x in enumerate([vlist([vstr(b"q1")], T(LST)), vint(1, T(LST)), vnull(TNULL, T(LST)), vnull(TLIST, T(LST)),
                           vstr(b"q", T(LST)), vsym(S(3), T(LST)), V(("sexp", []), T(LST)), V(("bool", True), T(LST)),
                           vnull(TSYM, T(LST))]):
        out.append(("not-struct-%d" % i, [x]))
    out.append(("null-struct", [vnull(TSTRUCT, T(LST))]))
    out.append(("null-struct-2ann", [vnull(TSTRUCT, T(LST), T(b"name"))]))
    out.append(("null-struct-not-first", [vnull(TSTRUCT, T(b"name"), T(LST))]))
    out.append(("empty-struct", [tb()]))
    # append spellings
    out.append(("append-sid3", [tb((IM, vsym(S(3))), syms)]))
    out.append(("append-ident", [tb((IM, vsym(T(LST))), syms)]))
    out.append(("append-quoted", [tb((IM, vsym(T(LST, True))), syms)]))
    out.append(("append-quoted-after", [tb(syms, (IM, vsym(T(LST, True))))]))
    out.append(("append-after", [tb(syms, (IM, vsym(S(3))))]))
    out.append(("append-annotated", [tb((IM, vsym(S(3), T(b"name"))), syms)]))
    out.append(("append-twice", [tb((IM, vsym(S(3))), syms), tb((IM, vsym(T(LST))), (SY, vlist([vstr(b"r1")])))]))
    # symbols of a table that reference IDs out of range
    out.append(("table-sid-out-of-range", [tb((SY, vlist([vstr(b"q1"), vsym(S(10))])))]))
    out.append(("table-field-out-of-range", [tb(syms, (S(10), vint(1)))]))
    out.append(("table-ann-out-of-range", [tb(syms, ann=[T(LST), S(10)])]))
    return out


def gen_malformed(ctx):
    hs = []
    for label, vals in malformed_tables():
        for keys in ([], ["A1", "A2", "B1"]):
            for prior in (0, 1, 2):
                h = Hist(keys)
                if prior == 1:
                    h.add(("val", table_value(None, [b"p1"])))
                elif prior == 2:
                    h.add(("val", table_value([(b"B", 1, 1)], [b"p1", b"p2"])))
                    h.probes(sysn=1, full=False)
                for v in vals:
                    h.add(("val", v))
                    h.probes(sysn=1)
                # the context must still be extendable afterwards
                if h.dead is None:
                    h.add(("val", table_value("append", [b"e1"])))
                    h.probes(sysn=1, full=False)
                hs.append(h.finish())
    return hs


def gen_ivm_text(ctx):
    """version markers and their look-alikes in text (D15) and in binary"""
    hs = []
    t1 = table_value(None, [b"a"])
    t2 = table_value([(b"A", 1, 2)], [b"x"])
    for keys in ([], ["A1"]):
        for first in (t1, t2):
            for mid in ([("ivm",)], [("ivm",), ("ivm",)], [("val", vsym(T(b"$ion_1_0", True)))], [("val", vsym(T(b"$ion_1_0"), T(b"name")))],
                        [("val", vlist([vsym(T(b"$ion_1_0"))]))], [("val", V(("sexp", [vsym(T(b"$ion_1_0"))])))],
                        [("val", vstruct([(T(b"$ion_1_0"), vsym(T(b"$ion_1_0")))]))], [("val", vint(1, T(b"$ion_1_0")))],
                        [("val", vsym(T(b"$ion_1_1", True)))], [("val", vsym(T(b"$ion_1_0x")))]):
                for after in (None, table_value("append", [b"z"])):
                    h = Hist(keys)
                    h.add(("val", first))
                    h.probes(sysn=1, full=False)
                    for it in mid:
                        h.add(it)
                    h.probes(sysn=1, full=False)
                    if after is not None:
                        h.add(("val", after))
                        h.probes(sysn=1, full=False)
                    hs.append(h.finish())
    # the minimal D15 example: the marker does not reset, $10 still resolves
    h = Hist([])
    h.add(("val", t1))
    h.add(("ivm",))
    h.add(("val", vsym(S(10))))
    hs.append(h)
    return hs


def gen_overflow(ctx):
    """a handful of tables whose declared import max_ids sum up to 2^63 .. 2^64 and beyond (D17)"""
    lines = []
    M = I63 - 1
    for keys in ([], ["A1"]):
        for names, probes in [
            ((b"C", b"C", b"C"), [10, 9, 12]),
            ((b"C", b"D"), [8, 9]),
            ((b"A", b"C", b"C"), [10, 11, 12, 13]),
            ((b"C",), [10, M + 9]),
        ]:
            items = [("val", table_value([(n, 1, M) for n in names], [b"x"]))] + [("val", vsym(S(p))) for p in probes]
            cat = cat_tokens(keys)
            lines.append(" ".join(["cattrav", "0", hx(b_stream(items))] + cat))
            lines.append(" ".join(["cattrav", "0", hx(t_stream(items))] + cat))
    return lines


def gen_reported(ctx):
    """NOT part of run(): inputs on which ion-go departs from the rules outside the known classes (reported to the
    owner of KNOWN_FINDINGS.txt; enable once they have a class).
      * imports: a symbol whose TEXT is $ion_symbol_table but whose ID is not 3 does not append (readImports tests
        LocalSID == 3; same root as imports-quoted-no-append, reachable in binary too)
      * an import version beyond int32 / a max_id beyond int64 is an error (IntValue / Int64Value) instead of a
        version with no exact match / a large max_id"""
    IM, SY, nm, ver, mx = T(b"imports"), T(b"symbols"), T(b"name"), T(b"version"), T(b"max_id")
    tb = lambda *fs: vstruct(list(fs), T(LST))
    hs = []
    for keys in ([], ["A1", "A2", "B1"]):
        h = Hist(keys)
        h.add(("val", tb((SY, vlist([vstr(LST), vstr(b"b")])))))
        h.add(("val", tb((IM, vsym(S(10))), (SY, vlist([vstr(b"c")])))))
        h.probes()
        hs.append(h.finish())
        for v_ in (1 << 31, 1 << 63):
            h = Hist(keys)
            h.add(("val", tb((IM, vlist([vstruct([(nm, vstr(b"A")), (ver, vint(v_)), (mx, vint(2))])])))))
            h.probes()
            hs.append(h.finish())
    return [ln for h in hs for ln in h.lines()]


def nontrivial(line, m):
    return " y" in (m or "")


# =============================================================================================
# second component: the model's history semantics against the Python rules
# =============================================================================================
def show_slots(slots):
    if not slots:
        return "-"
    return "".join(("u," if x is None else "t" + x.hex() + ",") for x in slots)


# Drv/DrvSymctx.v history_of does not take `$ion_symbol_table::null.struct` for a table (the reader model and the
# real binary reader consume it and reset to the system table): such streams are left out of this component.
CTXHIST_SKIP_NULL_STRUCT = False


def ctxhist_check(ctx, hists):
    comp = "K7-ctxhist"
    lines, exps = [], []
    seen = set()
    for h in hists:
        # the stream without the out-of-range probe; only histories all of whose tables are valid
        if h.valid_len is None:
            continue
        good = h.items[:h.valid_len]
        ip = Interp(False, cat_spec(h.keys))
        if ip.run(good) is not None:
            continue
        if ip.over or any(it[0] == "val" and has_text_only_syms(it[1]) for it in good):
            continue
        if CTXHIST_SKIP_NULL_STRUCT and any(it[0] == "val" and it[1][1] == ("null", TSTRUCT) and it[1][0] and it[1][0][0] in (T(LST), S(3))
                                            for it in good):
            continue
        ln = " ".join(["ctxhist", hx(b_stream(good))] + cat_tokens(h.keys))
        if ln in seen:
            continue
        seen.add(ln)
        lines.append(ln)
        exps.append(show_slots(ctx_slots(ip.cx)))
    outs = run_model(lines)
    regular = 0
    for ln, e, o in zip(lines, exps, outs):
        t = (o or "").split(" ")
        if len(t) != 4 or t[0] != "ok":
            ctx.fail("tie", comp, ln, "model: %s ; expected an ok answer with the slots %s" % (o, e))
            continue
        if t[2] != e:
            ctx.fail("tie", comp, ln, "model's specification context %s ; the Ion rules (Python) give %s" % (t[2], e))
        elif t[3] == "1":
            regular += 1
            if t[1] != t[2]:
                ctx.fail("tie", comp, ln, "regular history but the model's reader context %s differs from the specification's %s" % (t[1], t[2]))
    ctx.count(comp, len(lines), lines, sample=(lines[len(lines) // 2][:200] + " => " + str(outs[len(lines) // 2])[:200]) if lines else None,
              regular=regular)


def run(ctx):
    hists = gen_histories(ctx)
    lines = []
    seen = set()
    for h in hists:
        for ln in h.lines():
            if ln not in seen:
                seen.add(ln)
                lines.append(ln)
    ctx.correspond("K7-reader-catalog", lines, oracle=oracle, classify=classify_case, nontrivial=nontrivial)
    mal = gen_malformed(ctx) + gen_ivm_text(ctx)
    mlines = []
    for h in mal:
        for ln in h.lines():
            if ln not in seen:
                seen.add(ln)
                mlines.append(ln)
    mlines += gen_overflow(ctx)
    ctx.correspond("K7-reader-catalog-malformed", mlines, oracle=oracle, classify=classify_case, nontrivial=nontrivial)
    ctxhist_check(ctx, hists + mal)


ASSUMPTIONS = [
    "Go == model only on the inputs sampled (single table items over the full alphabet and pairs over the reduced alphabet exhaustively)",
    "the oracle reads the request's bytes with its own parsers of the Ion subset the generator emits",
]
EXPLANATION = (
    "K7-reader-catalog: ion.NewReaderCat over streams that interleave user values with version markers, replacing tables "
    "(imports lists of 0..2 declarations drawn from (A,1,2) (A,1,-) (A,2,5) (A,3,2) (A,3,3) (C,1,3) (C,1,-), 0..2 fresh symbols) and "
    "appending tables (imports: $ion_symbol_table), under the catalogs {} {A1} {A2} {A1,A2,B1} {A2,A1} {B1,A2,A1}, registered in "
    "that order (A v1 [a1,a2], A v2 [a1,a2,a3], B v1 [b1]), each rendered in binary (own encoder) and in text. Every history of one table item over the full alphabet and every "
    "history of two items over the reduced alphabet (<= 1 import, <= 1 symbol) exhaustively (three items in the thorough tier), "
    "sampled histories of 2..4 items over the full alphabet with shuffled catalogs. After every item user values probe the whole "
    "context: $0, system IDs, every slot in force as symbol value / annotation / field name (top level and nested), and at the "
    "end the ID just above the maximum (must fail). K7-reader-catalog-malformed: wrong types, typed nulls, missing / repeated / "
    "extra fields, fields without text, non-string symbols entries, negative or null max_id, version 0/-1, names ''/$ion, "
    "$ion_symbol_table as non-first annotation / nested / on non-structs, version-marker look-alikes, a handful of max_id sums "
    "near 2^63..2^64. The oracle is an independent Python implementation of the Ion symbol-context rules applied to the "
    "bytes of the request (own binary and text parsers) and judges the REAL Reader's trace: text known -> that text, unknown "
    "-> $sid, invalid -> the reader stops with an error and surfaces nothing more; symbol-table structs never surface. "
    "K7-ctxhist: the model's specification (LstSpec.spec_history) and its abstraction of the reader tables (impl_history) "
    "against the same Python rules on the binary renderings of all valid histories.")
