"""C12 — any Writer call sequence ends in a correct stream or an error (binary configurations)."""
import itertools
from vlib import *
import iongen
import binlib

import c12text
THEOREMS = ["C12_binary_no_panic", "C12_binary_sticky", "C12_binary_error_recorded", "C12_binary_first_failure", "C12_binary_lst_no_panic", "C12_binary_lst_total", "C12_binary_finish_clean", "C12_binary_finish_clean_lst", "C12_binary_denote", "C12_binary_denote_show", "C12_binary_denote_writer", "C12_binary_batches_decode", "C12_binary_final_finish_enough", "C12_binary_lockstep", "C12_ex_finish_inside", "C12_ex_two_batches", "C12_text_denote", "C12_text_denote_bytes", "C12_text_denote_bytes_plain", "C12_text_denote_reads_back_partial", "C12_text_final_finish_enough", "C12_text_lockstep", "C12_text_bytes_all_calls_refuted", "C12_binary_denote_budget", "C12_binary_final_finish_no_refusal", "C19_binary_fault_split_from", "C19_binary_fault_split", "C19_binary_fault_split_bytes", "C19_binary_fault_is_finish", "C19_binary_fault_trichotomy", "C19_binary_buffered_calls_ignore_sink", "C19_binary_budget_total", "C12_binary_lst_denote", "C12_binary_lst_final_finish_no_refusal", "C12_binary_lst_denote_writer", "C12_binary_lst_lockstep", "C12_binary_lst_unknown_symbol", "C19_binary_lst_fault_split"] + c12text.THEOREMS
EXTRA_MODULES = ["C12bin3", "C12bin4", "C12text2"]
LEVEL = "proof"
ASSUMPTIONS = ["Go == model only on the call sequences sampled (exhaustive for short sequences over the reduced alphabet)",
               "binary no-panic theorem is for NewBinaryWriter without shared tables; the fixed-table writer is covered by correspondence",
               "'final Finish nil => bytes denote the successful calls' is the theorem C12_binary_denote for the growing-table binary Writer with a never-failing sink and tokens with text; for the fixed-table writer, failing sinks and the text Writer it is decided by the oracle (independent decoders) on the real code"] + c12text.ASSUMPTIONS
TRUSTED_EXTRA = c12text.TRUSTED_EXTRA
EXPLANATION = ("Coq theorems for every call sequence: no call panics (binary growing-table Writer and text Writer), a recorded "
               "error makes every later call fail unchanged, a failing call other than Finish records the error (binary and "
               "text). K3/K4 with the misuse alphabet: every call sequence up to a bounded length over a reduced alphabet "
               "(exhaustive) plus random long mostly-legal sequences, on the binary Writer with a growing table and "
               "with a fixed table; the model (Bin/BinWriter.v) must predict every per-call result and the bytes. "
               "Oracle on the real code: no panic; an error returned by any call other than Finish is permanent; a "
               "final Finish that returns nil leaves bytes that the independent decoder maps to exactly the values of "
               "the successful calls, batch by batch.")

ALPHA = [["FN", "tk,x61,-1"], ["AN", "tk,x62,-1"], ["NULL"], ["INT", "1"], ["SYM", "tk,x666f6f,-1"], ["SFS", "x6e6577"],
         ["STR", "x68"], ["BL"], ["EL"], ["BS"], ["ES"], ["BT"], ["ET"], ["FIN"],
         ["BIG", "nil"], ["DEC", "nil"], ["NT", "99"], ["SYM", "tk,-,-1"], ["FN", "tk,-,-1"], ["AN", "tk,-,-1"]]


def oracle_seq(calls, go):
    """calls: list of token lists; go: harness answer. Returns failure text or None."""
    t = go.split(" ")
    if t[0] == "panic":
        return "call #%s panicked" % t[1]
    if t[0] != "ok":
        return "real code: " + go[:100]
    res = t[1][1:]
    if len(res) != len(calls):
        return "result count mismatch"
    failed = False
    for c, r in zip(calls, res):
        if failed and r == "1":
            return "call %s returned nil after an earlier call had returned an error" % c[0]
        if r == "0" and c[0] != "FIN":
            failed = True
    return None


def check_values(ctx, component, items):
    """items: (line, calls, go). For sequences whose last call is a successful Finish, decode the bytes."""
    todo = []
    for ln, calls, go in items:
        t = go.split(" ")
        if t[0] != "ok" or not calls or calls[-1][0] != "FIN" or t[1][-1] != "1":
            continue
        ok_calls = [c for c, r in zip(calls, t[1][1:]) if r == "1"]
        todo.append((ln, ok_calls, t[2]))
    dec = binlib.sdecode_many([h for _, _, h in todo])
    n = 0
    n_table = 0
    for (ln, ok_calls, h), d in zip(todo, dec):
        n += 1
        if oracle_silent(ctx, component, ln, d):
            continue
        try:
            batches = iongen.forest_of_calls(ok_calls)
        except iongen.Malformed as e:
            ctx.fail("property", component, ln, "final Finish returned nil although the successful calls are not complete values (%s); bytes %s" % (e, h[:120]))
            continue
        if batches and batches[-1] is None:
            ctx.fail("property", component, ln, "final Finish returned nil with values left unflushed")
            continue
        if iongen.writes_top_level_table(batches):
            n_table += 1          # the calls spell a local symbol table at the top level: not a user value (see iongen)
            continue
        exp = " ".join(x for x in (iongen.show_forest(b) for b in batches) if x)
        if d is None:
            if h == "x" and exp == "":
                continue
            ctx.fail("property", component, ln, "final Finish returned nil but the bytes are not valid Ion: " + h[:160], classify_case(ln))
        elif d != exp:
            ctx.fail("property", component, ln, "bytes decode to '%s' but the successful calls denote '%s'" % (d[:200], exp[:200]), classify_case(ln))
    ctx.count(component + "-values", n, [], skipped_top_level_symbol_table=n_table)


UNDEFINED_SID = "binary-writer-writes-an-id-only-symbol-its-table-does-not-define"


def classify_case(line):
    """a call names a symbol by ID only (a SymbolToken without text, or WriteSymbolFromString("$n")) with an ID far outside
    any table this Writer can have (>= 1000 here, or negative other than the 'unknown' marker -1)"""
    import re
    for m in re.finditer(r"tk,-,(-?\d+)", line):
        n = int(m.group(1))
        if n >= 1000 or n <= -2:
            return UNDEFINED_SID
    for m in re.finditer(r"SFS x24((?:3\d)+)(?= |$)", line):
        if int(bytes.fromhex(m.group(1)).decode()) >= 1000:
            return UNDEFINED_SID
    return None


def undefined_sid_sequences():
    """symbols named by ID only, with an ID no table of the Writer defines: as a value, an annotation, a field name,
    through WriteSymbolFromString, at top level and nested, before and after legitimate symbols"""
    out = []
    for n in ("1000", "2147483648", "-5"):
        t = "tk,-," + n
        out += [[["SYM", t]], [["AN", t], ["INT", "1"]], [["BT"], ["FN", t], ["INT", "1"], ["ET"]],
                [["SYM", "tk,x666f6f,-1"], ["SYM", t], ["SYM", "tk,x666f6f,-1"]],
                [["BL"], ["AN", "tk,x62,-1"], ["SYM", t], ["EL"], ["FIN"], ["INT", "2"]]]
    out += [[["SFS", "x2431303030"]], [["BS"], ["SFS", "x2431303030"], ["ES"]]]
    return out


def run(ctx):
    rng = ctx.rng
    maxlen = ctx.scale(3, 4)
    seqs = []
    for n in range(1, maxlen + 1):
        for combo in itertools.product(range(len(ALPHA)), repeat=n):
            seqs.append([ALPHA[i] for i in combo])
    if not ctx.thorough():
        # all of length <= 2 and a seeded half of length 3, plus the legal-prefix extensions
        keep = [q for q in seqs if len(q) <= 2]
        rest = [q for q in seqs if len(q) == 3]
        rng.shuffle(rest)
        seqs = keep + rest[:3500]
    # random long: legal forests with one misuse injected, Finish in the middle, reuse after Finish
    longs = []
    for _ in range(ctx.scale(1200, 30000)):
        f = iongen.gen_forest(rng, {"depth": 3})
        toks = iongen.split_calls(iongen.calls_of_forest(f, rng))
        r = rng.random()
        if r < 0.35:
            toks.insert(rng.randint(0, len(toks)), rng.choice(ALPHA))
        elif r < 0.5 and len(toks) > 2:
            del toks[rng.randint(0, len(toks) - 2)]
        elif r < 0.75:
            f2 = iongen.gen_forest(rng, {"depth": 2})
            toks = toks + iongen.split_calls(iongen.calls_of_forest(f2, rng))
        longs.append(toks)
    # length-boundary forests (legal sequences), also written in two batches on one Writer
    for f in binlib.boundary_forests():
        toks = iongen.split_calls(iongen.calls_of_forest(f, rng))
        if sum(len(t) for c in toks for t in c) < 60000:
            longs.append(toks)
            if rng.random() < 0.3:
                longs.append(toks + toks)
    for config in ("bw -", "bwl - 2 x61 x666f6f"):
        lines, callss = [], []
        for q in seqs + longs + undefined_sid_sequences():
            q2 = q if (q and q[-1][0] == "FIN") else q + [["FIN"]]
            lines.append(config + " " + " ".join(" ".join(c) for c in q2))
            callss.append(q2)
        comp = "K3-proto-" + ("growing" if config == "bw -" else "fixed")
        mo, go = ctx.correspond(comp, lines, nontrivial=lambda ln, m: not m.startswith("badinput"))
        for ln, calls, g in zip(lines, callss, go):
            why = oracle_seq(calls, g)
            if why:
                ctx.fail("property", comp, ln, why, classify_case(ln))
        check_values(ctx, comp, list(zip(lines, callss, go)))
    # text and pretty writers: K4 with the same alphabet + forests
    c12text.run(ctx, ("proto", "forests"))
