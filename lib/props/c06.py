"""C06 — no input can crash, hang or exhaust memory in a Reader, Decoder or Unmarshal."""
from vlib import *
import iongen
import binlib
import cursor

THEOREMS = ["C06bin_never_panics_default", "C06bin_every_call_returns_default", "C06bin_next_terminates", "C06bin_traverse_memory_default", "C06bin_memory_follows_input", "C06bin_default_ts_total", "tr_no_panic", "tr_no_panic_text", "tr_progress_whitespace", "tr_progress_strings", "tr_progress_skip_container", "tr_fuel_linear", "C17_plain_safe", "C17_plain_unmarshal_safe", "C06text_tokenizer_next", "C06text_tokenizer_read_value", "C06text_tokenizer_read_number", "C06text_tokenizer_lobs", "C06text_tokenizer_finish_value", "C06text_skip_value", "C06text_tokenizer_misc", "C06text_step_in_out", "C06text_next_inner", "C06text_read_local_symbol_table", "C06text_next", "C06text_op_any_state", "C06text_never_out_of_fuel", "C06text_parsers_total", "C06text_never_out_of_fuel_text"]
EXTRA_MODULES = ["C06text"]
LEVEL = "other"
EXPLANATION = ("hostile inputs (grammar-aware documents: typed nulls in every slot of a symbol-table struct, extreme "
               "lengths / exponents / IDs / max_id, maximal VarUInts, deep nesting; byte mutations of valid documents; all "
               "short byte strings after a version marker; hostile text) are run in an isolated worker (recover, "
               "ulimit -v, wall-clock limit) through the plain traversal, random navigation programs, Decoder.Decode and "
               "Unmarshal into 18 target kinds; outcome classes panic / fatal / timeout / allocation out of proportion "
               "are violations.  K2 ties the binary reader model (explicit Panic outcomes, fuel, allocation counter) to "
               "the same inputs.")

TARGETS = ["int", "int8", "uint64", "string", "bool", "float32", "bytes", "slice", "ints", "map", "struct", "iface",
           "ptr", "decimal", "timestamp", "bigint", "array", "symtok"]
BVM = [0xE0, 1, 0, 0xEA]


def lst_hostile_text():
    """typed nulls and wrong types in every slot of a symbol-table struct (text form)"""
    vals = ["null", "null.int", "null.string", "null.symbol", "null.list", "null.struct", "null.bool", "1", "-1", "\"s\"", "sym", "[]", "{}",
            "9223372036854775807", "9223372036854775808", "18446744073709551616", "-9223372036854775808", "1.5", "2020T", "$ion_symbol_table", "$3", "$0", "$99"]
    out = []
    for v in vals:
        out.append("$ion_symbol_table::{imports:%s} $10" % v)
        out.append("$ion_symbol_table::{symbols:%s} $10" % v)
        out.append("$ion_symbol_table::{symbols:[%s, \"a\"]} $10 $11" % v)
        out.append("$ion_symbol_table::{imports:[%s]} $10" % v)
        for f in ("name", "version", "max_id"):
            base = {"name": "\"x\"", "version": "1", "max_id": "2"}
            base[f] = v
            out.append("$ion_symbol_table::{imports:[{name:%s,version:%s,max_id:%s}]} $10 $11 $12" % (base["name"], base["version"], base["max_id"]))
        out.append("$ion_symbol_table::{%s:1, %s:2}" % (v if v.isidentifier() else "a", "imports"))
    out += ["$ion_symbol_table::null.struct $10", "$ion_symbol_table::{imports:[{name:\"a\",version:1,max_id:9223372036854775807},{name:\"b\",version:1,max_id:9223372036854775807}],symbols:[\"x\"]} $8 $9",
            "$ion_symbol_table::{symbols:[\"a\"],symbols:[\"b\"]}", "$ion_symbol_table::{imports:$ion_symbol_table,imports:$ion_symbol_table}"]
    return [t.encode() for t in out]


def hostile_text():
    t = [b"[" * 200000, b"(" * 100000 + b")" * 100000, b"{a:" * 50000, b"'''" * 30000, b"a::" * 100000 + b"1", b"/*" + b"*" * 100000,
         b"\"" + b"\\" * 99999, b"1" + b"0" * 200000, b"1e" + b"9" * 100, b"1d" + b"9" * 100, b"0x" + b"f" * 100000, b"0b" + b"1" * 100000,
         b"2020-01-01T00:00:00." + b"9" * 100000 + b"Z", b"{{" + b"A" * 100001 + b"}}", b"{{\"" + b"a" * 100000, b"$" + b"9" * 40, b"$18446744073709551616",
         b"$ion_1_0 " * 20000, b"null." + b"x" * 100000, b"+inf" * 3, b"-" * 100000, b"\x00" * 1000, b"\xff" * 1000, b"'" * 99999, b"\r" * 100000]
    return t


def hostile_binary(rng):
    docs = []
    # extreme lengths
    for t in range(0, 15):
        for lenbytes in ([0x3F, 0x7F, 0x7F, 0x7F, 0x7F, 0xFF], [0x01, 0x7F, 0x7F, 0x7F, 0x7F, 0x7F, 0x7F, 0x7F, 0x7F, 0xFF], [0x7F] * 9 + [0xFF],
                         [0x00] * 9 + [0x80], [0x0F, 0xFF, 0xFF], [0x81], [0xFF]):
            docs.append(BVM + [t << 4 | 0x0E] + lenbytes + [0] * rng.choice([0, 1, 7]))
    # annotation wrappers with inconsistent inner lengths, huge annot lengths
    docs += [BVM + [0xE3, 0x85, 0x84, 0x20], BVM + [0xEE, 0x7F, 0x7F, 0xFF, 0x81, 0x84, 0x20], BVM + [0xE4, 0x81, 0x84, 0x8E, 0xFF],
             BVM + [0xE6, 0x81, 0x84, 0xBE, 0x7F, 0x7F, 0xFF], BVM + [0xE3, 0x81, 0xFF, 0x20], BVM + [0xE3, 0x81, 0x84] + [0x8E] + [0x7F] * 9 + [0xFC]]
    # decimal / timestamp exponents, symbol ids, field ids at the edges
    docs += [BVM + [0x5A, 0x07, 0x7F, 0x7F, 0x7F, 0xFF, 0x01], BVM + [0x5B, 0x47] + [0x7F] * 8 + [0xFF, 1], BVM + [0x78] + [0xFF] * 8, BVM + [0x79] + [0xFF] * 9,
             BVM + [0xDE, 0x8B] + [0x7F] * 9 + [0xFF, 0x20], BVM + [0xD3, 0xFF, 0x20, 0x20],
             BVM + [0x6E, 0x8E, 0x80, 0x0F, 0xD0, 0x81, 0x81, 0x80, 0x80, 0x80, 0x07, 0x7F, 0x7F, 0x7F, 0xFF, 0x01],
             BVM + [0x67, 0x80, 0x0F, 0xD0, 0x81, 0x81, 0x8A, 0xBC], BVM + [0x6F], BVM + [0x62, 0x80, 0x80], BVM + [0x68, 0xC0] + [0xFF] * 7]
    # binary symbol tables with typed nulls / huge max_id
    def lst(fields):
        body = []
        for fid, v in fields:
            body += [0x80 | fid] + v
        st = ([0xD0 | len(body)] if len(body) < 14 and len(body) != 1 else [0xDE] + iongen.varuint(len(body))) + body
        return [0xE0 | (2 + len(st))] + [0x81, 0x83] + st if 2 + len(st) < 14 else [0xEE] + iongen.varuint(2 + len(st)) + [0x81, 0x83] + st
    nulls = [[0x0F], [0x2F], [0x7F], [0x8F], [0xBF], [0xDF], [0x1F]]
    for nv in nulls:
        docs.append(BVM + lst([(6, nv)]) + [0x71, 0x0A])
        docs.append(BVM + lst([(7, nv)]) + [0x71, 0x0A])
        docs.append(BVM + lst([(6, [0xB0 | (len(nv))] + nv)]) + [0x71, 0x0A])
        for fid in (4, 5, 8):
            imp = [0x80 | fid] + nv + [0x84, 0x81, 0x78]
            docs.append(BVM + lst([(6, [0xB0 | (1 + len(imp))] + [0xD0 | len(imp)] + imp)]) + [0x71, 0x0A])
    big = [0x28] + [0x7F] + [0xFF] * 7
    imp = [0x84, 0x81, 0x61, 0x85, 0x21, 0x01, 0x88] + big
    docs.append(BVM + lst([(6, [0xBE] + iongen.varuint(2 * (1 + len(imp))) + ([0xDE, 0x80 | len(imp)] + imp)[:0] + [0xD0 | 0x0E, 0x80 | len(imp)] + imp + [0xDE, 0x80 | len(imp)] + imp)]) + [0x71, 0x08])
    # container / scalar lengths just below 2^64 and around 2^63, 2^32, 2^31 (10-byte and shorter VarUInts)
    for t in (0x2, 0x3, 0x4, 0x5, 0x6, 0x7, 0x8, 0x9, 0xA, 0xB, 0xC, 0xD, 0xE):
        for base in (1 << 64, 1 << 63, 1 << 32, 1 << 31):
            # below each boundary, and for 2^63 / 2^31 / 2^32 also AT and ABOVE it (a length >= 2^63 is negative as an
            # int64, and pos + length need not wrap)
            ks = list(range(1, 24)) + [100, 4096] + ([0, -1, -2, -100, -4096, -(1 << 62)] if base != (1 << 64) else [])
            for k in ks:
                v = base - k
                if 0 < v < (1 << 64):
                    g = [v & 0x7F]
                    v >>= 7
                    while v:
                        g.insert(0, v & 0x7F)
                        v >>= 7
                    g[-1] |= 0x80
                    docs.append(BVM + [t << 4 | 0x0E] + g + [0x21, 0x01, 0x21, 0x02])
    # decimal and timestamp-fraction exponents over the whole int32 range and beyond
    exps = set()
    for k in range(3, 34):
        for d in (-1, 0, 1):
            for m in (1, 3):
                exps.add(m * (1 << k) + d)
    exps |= {715827892, 1431655774, 1000000000, 2147483647, 2147483648, 99999, 20, 21, 30}
    for e in sorted(exps):
        for sign in (1, -1):
            ev = iongen.varint(sign * e)
            for coef in ([0x01], []):
                body = ev + coef
                docs.append(BVM + ([0x50 | len(body)] if len(body) < 14 else [0x5E] + iongen.varuint(len(body))) + body)
                tb = [0x80, 0x0F, 0xD0, 0x81, 0x81, 0x80, 0x80, 0x80] + ev + coef
                docs.append(BVM + ([0x60 | len(tb)] if len(tb) < 14 else [0x6E] + iongen.varuint(len(tb))) + tb)
    # deep nesting
    for depth in (1000, 20000):
        d = [0x20]
        for _ in range(depth):
            n = len(d)
            d = ([0xB0 | n] if n < 14 else [0xBE] + iongen.varuint(n)) + d
        docs.append(BVM + d)
    docs.append(BVM + [0xBE, 0x8E] * 3000)
    return docs


def refuted(ctx, stage):
    """fail fast: once unlisted property failures exist, the later (slower) stages add nothing to the verdict, and on a
    tree where calls hang they would take the check past any sensible time limit"""
    known = load_known().get(ctx.prop, {})
    n = sum(1 for f in ctx.failures if f.kind == "property" and not (f.klass and f.klass in known))
    if n:
        ctx.notes.append("stopped before stage '%s': %d property failures already found" % (stage, n))
    return n > 0


def run(ctx):
    rng = ctx.rng
    bins = hostile_binary(rng)
    n_hostile = len(bins)
    forests = binlib.gen_forests(ctx, ctx.scale(300, 5000), {"depth": 3})
    for d in binlib.encode_docs(ctx, forests, True):
        for _ in range(6):
            e = list(d)
            for _ in range(rng.choice([1, 1, 2, 4])):
                k = rng.random()
                i = rng.randrange(4, len(e)) if len(e) > 4 else 4
                if k < 0.5 and i < len(e):
                    e[i] = rng.choice([0, 0x0E, 0x0F, 0x7F, 0x80, 0xFF, e[i] ^ (1 << rng.randrange(8)), rng.randrange(256)])
                elif k < 0.7:
                    e = e[:i]
                elif k < 0.85:
                    e[i:i] = [rng.choice([0x8E, 0xBE, 0xDE, 0xEE, 0x7F, 0xFF, 0x00])] * rng.choice([1, 2, 9])
                else:
                    e[i:i] = rng.choice([[0xE0, 1, 0, 0xEA], [0xD1], [0xE3, 0x81, 0x83, 0xD0]])
            bins.append(e)
    short = [BVM + [a] for a in range(256)]
    pairs = [(a, b) for a in range(256) for b in range(256)]
    if not ctx.thorough():
        rng.shuffle(pairs)
        pairs = pairs[:6000]
    short += [BVM + [a, b] for a, b in pairs]
    if ctx.thorough():
        short += [BVM + [rng.randrange(256) for _ in range(3)] for _ in range(200000)]
    bins += short
    texts = lst_hostile_text() + hostile_text()

    # 0. Readers, Decoders and Unmarshal created WITH A CATALOG (NewReaderCat, ion.System): symbol-table histories over
    #    catalogs whose tables are shorter / longer than the declared max_id, every symbol ID of the context probed
    #    (the reserved gaps too), in binary and in text; model vs code for cattrav, no-crash oracle for both
    import c10
    hs = c10.gen_histories(ctx)
    rng.shuffle(hs)
    cat_lines = []
    for h in hs[: ctx.scale(700, 12000)]:
        cat_lines += h.lines()
    cat_lines = sorted(set(cat_lines))
    ctx.correspond("K7-catalog-readers", cat_lines, oracle=bad_outcome, nontrivial=lambda ln, m: True)
    sys_lines = ["catsys" + ln[len("cattrav"):] for ln in cat_lines]
    sys_out = run_go(sys_lines)
    nbad = 0
    for ln, g in zip(sys_lines, sys_out):
        if not g.startswith("trav:") or "panic" in g or g.startswith(("fatal", "timeout")):
            nbad += 1
            ctx.fail("property", "C06-system-catalog", ln[:3000], "ion.System{Catalog} reader / Unmarshal: " + g[:200])
    ctx.count("C06-system-catalog", len(sys_lines), sys_lines, crashes=nbad, sample=(sys_lines[0][:160] + " => " + sys_out[0]) if sys_lines else None)
    if refuted(ctx, "catalog"):
        return

    # 1. plain traversal: model vs real reader on every binary input
    lines = ["btrav 0 " + iongen.hx(b) for b in bins]
    mo, go = ctx.correspond("K2-binreader-hostile", lines, canon=binlib.canon_trace_full, nontrivial=lambda ln, m: True,
                            oracle=bad_outcome, classify=classify_case)
    if refuted(ctx, "entry points"):
        return
    # 2. the other entry points, real code only
    others = []
    def some(n):
        """every constructed hostile document plus a sample of the mutated ones"""
        rest = bins[n_hostile:]
        return bins[:n_hostile] + (rng.sample(rest, n) if len(rest) > n else rest)
    for b in some(ctx.scale(2500, 60000)) + [list(t) for t in texts]:
        h = iongen.hx(b)
        others.append("decany 0 " + h)
        others.append("unm %s %s" % (rng.choice(TARGETS), h))
        others.append("unm struct " + h)
    for t in texts:
        others.append("btrav 0 " + iongen.hx(t))
    # random navigation programs on hostile inputs
    progs = []
    for b in bins[:n_hostile]:
        for p in (["N", "SI", "N", "ER", "SO", "N"], ["N", "SI", "SO", "ER", "N"], ["N", "TS", "DE", "N", "ER"]):
            progs.append("brd 0 %s %s" % (iongen.hx(b), " ".join(p)))
    for b in some(ctx.scale(1500, 30000))[n_hostile:]:
        p = [rng.choice(cursor.OPS + ["N", "N", "SI", "SO", "SZ"]) for _ in range(rng.choice([5, 15, 40]))]
        progs.append("brd 0 %s %s" % (iongen.hx(b), " ".join(p)))
    mo2, go2 = ctx.correspond("K2-binreader-hostile-programs", progs, canon=binlib.canon_trace_full,
                              nontrivial=lambda ln, m: True, oracle=bad_outcome, classify=classify_case)
    # text: skip / step-out programs on hostile and truncated text (the skipper is a second grammar)
    tdocs = [bytes(t) for t in texts if len(t) < 5000]
    import textgen
    for f in forests[:ctx.scale(150, 3000)]:
        try:
            tx = bytes(textgen.render(f, rng))
        except Exception:
            continue
        tdocs.append(tx)
        for _ in range(3):
            tdocs.append(tx[:rng.randint(0, len(tx))])
    for t in ("[ \'\'\'abc", "{a: \'\'\'x", "( \"abc", "[ {{ \"cl", "[ {{ AAA", "[ /* c", "[[[ \'q", "{a:[ \'\'\'a\'\'\' \'\'\'b", "[1, 2", "(a b", "{a:1,", "[ \'\'\'a\\"):
        tdocs.append(t.encode())
    for tx in tdocs:
        for prog in (["N", "N", "N", "ER"], ["N", "SI", "SO", "N", "ER"], ["N", "SI", "N", "SO", "N", "ER"], ["N", "SI", "N", "N", "SO", "SO", "N"]):
            others.append("brd 0 %s %s" % (iongen.hx(tx), " ".join(prog)))
    go3 = run_go(others, per_case_timeout=20)
    nbad = 0
    for ln, g in zip(others, go3):
        why = bad_outcome(ln, g)
        if why:
            nbad += 1
            ctx.fail("property", "C06-entrypoints", ln[:4000], why, classify_case(ln, None, g))
    ctx.count("C06-entrypoints", len(others), others[:2000], bad=nbad, sample=others[1][:120])
    if refuted(ctx, "memory"):
        return
    # 3. memory: allocation must follow the input size
    mem = ["memtrav " + iongen.hx(b) for b in rng.sample(bins[:n_hostile], min(n_hostile, 150)) + bins[n_hostile:n_hostile + 120] + [list(t) for t in texts]]
    # one process per case: heap growth (HeapSys) of a fresh process is the peak the case needed
    gm = [run_go([m], per_case_timeout=60, parallel=False)[0] for m in mem]
    worst = 0
    for ln, g in zip(mem, gm):
        why = bad_outcome(ln, g)
        n = (len(ln) - 9) // 2
        if why:
            ctx.fail("property", "C06-memory", ln[:4000], why, classify_case(ln, None, g))
        elif g.startswith("ok"):
            a = int(g.split(" ")[1])
            worst = max(worst, a / (n + 1))
            if a > 256 * n + (96 << 20):
                ctx.fail("property", "C06-memory", ln[:4000], "heap grew by %d bytes for %d bytes of input" % (a, n), classify_case(ln, None, g))
    ctx.count("C06-memory", len(mem), [], worst_alloc_per_input_byte=round(worst, 1))
    if refuted(ctx, "deep nesting"):
        return
    # deep text nesting through Decoder (recursion per level)
    deep = ["decany 0 " + iongen.hx(b"[" * n) for n in (10000, 6000000)]
    gd = run_go(deep, per_case_timeout=120, parallel=False)
    for ln, g in zip(deep, gd):
        why = bad_outcome(ln, g)
        if why:
            ctx.fail("property", "C06-entrypoints", ln[:200] + "...(%d bytes)" % ((len(ln) - 10) // 2), why, classify_case(ln, None, g))
    ctx.count("C06-deep-nesting", len(deep), [])


def bad_outcome(line, go):
    t = (go or "").split(" ")
    if t[0] in ("panic", "fatal", "timeout") or "panic" in t or "outoffuel" in t:
        return "real code outcome: " + " ".join(t[-3:])
    return None


def classify_case(line, m, g):
    t = line.split(" ")
    if t[0] == "decany" and g and g.startswith("fatal") and len(t[2]) > 2000000:
        body = t[2][1:]
        if set(body[i:i + 2] for i in range(0, min(len(body), 4000), 2)) <= {"5b"}:
            return "decoder-recursion-per-nesting-level"
    return None
