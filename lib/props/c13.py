"""C13 — numbers are never silently truncated, wrapped or rounded."""
from vlib import *

THEOREMS = ["C13_uint_len", "C13_int_len", "C13_bigint_len", "C13_varuint_len", "C13_varint_len",
            "C13_tag_len", "C13_uint_roundtrip", "C13_magnitude_u64", "C13_int_roundtrip",
            "C13_bigint_roundtrip", "C13_bigmag_roundtrip", "C13_varuint_roundtrip", "C13_varint_roundtrip", "C13_varuint_exact", "C13acc_bin_reachable", "C13acc_bin_step", "C13acc_bin_int_size", "C13acc_bin_int_size_never_small", "C13acc_bin_int_size_exact_i64", "C13acc_bin_int_value", "C13acc_bin_int64_value", "C13acc_bin_bigint_value", "C13acc_bin_integers", "C13acc_bin_typed_null", "C13acc_bin_typed_null_any_err", "C13acc_bin_typed_null_is_null", "C13acc_bin_wrong_type", "C13acc_bin_accessor_state", "C13acc_text_reachable", "C13acc_text_step", "C13acc_text_parse_int", "C13acc_text_int_size", "C13acc_text_int_value", "C13acc_text_int64_value", "C13acc_text_bigint_value", "C13acc_text_integers", "C13acc_text_spelled_integer", "C13acc_text_typed_null", "C13acc_text_typed_null_is_null", "C13acc_text_wrong_type", "C13acc_text_accessor_state", "C13acc_narrow_widen", "C13acc_uses_f32_iff", "C13acc_float_four_bytes", "C13acc_float_eight_bytes", "C13acc_float_read_back", "C13acc_read_float_four", "C13enc_bin_spec_reads", "C13enc_bin_int_top", "C13enc_bin_size_never_small", "C13enc_bin_size_exact", "C13enc_bin_size_big", "C13enc_bin_int", "C13enc_bin_int_after", "C13enc_bin_int_field", "C13enc_bin_int_spec_top", "C13enc_bin_int_spec", "C13enc_bin_ok_inline", "C13enc_bin_ok_minimal_varuint", "C13enc_text_int_top", "C13enc_text_int", "C13enc_text_int_at_rest", "C13enc_text_spells_dec", "C13enc_text_spells_radix", "C13enc_text_int_top_dec", "C13enc_text_int_top_radix"]
EXTRA_MODULES = ["C13acc", "C13enc"]

U64 = 1 << 64


# ---- independent (spec-derived) oracles in Python big integers -------------------
def be_min(v, atleast=0):
    out = []
    while v > 0:
        out.insert(0, v & 255)
        v >>= 8
    while len(out) < atleast:
        out.insert(0, 0)
    return out


def spec_int(n):
    if n == 0:
        return []
    mag = be_min(abs(n))
    if mag[0] & 0x80:
        mag.insert(0, 0)
    if n < 0:
        mag[0] |= 0x80
    return mag


def spec_varuint(v):
    out = [0x80 | (v & 0x7F)]
    v >>= 7
    while v > 0:
        out.insert(0, v & 0x7F)
        v >>= 7
    return out


def spec_varint(n):
    mag = abs(n)
    groups = [mag & 0x7F]
    mag >>= 7
    while mag > 0:
        groups.insert(0, mag & 0x7F)
        mag >>= 7
    if groups[0] & 0x40:
        groups.insert(0, 0)
    if n < 0:
        groups[0] |= 0x40
    groups[-1] |= 0x80
    return groups


def hexs(bs):
    return "x" + "".join("%02x" % b for b in bs)


def unhex(t):
    return list(bytes.fromhex(t[1:]))


def oracle(line, go):
    t = line.split(" ")
    cmd = t[0]
    g = go.split(" ")
    if cmd == "readsignmag" and t[1] == "x":
        return None  # readBigInt is only called with length > 0 (precondition of an internal helper)
    if g[0] in ("panic", "fatal", "timeout"):
        return "real code %s" % go
    try:
        if cmd == "uintlen":
            exp = "ok %d" % len(be_min(int(t[1]), 1))
        elif cmd == "appenduint":
            exp = "ok " + hexs(be_min(int(t[1]), 1))
        elif cmd in ("intlen", "bigintlen"):
            exp = "ok %d" % len(spec_int(int(t[1])))
        elif cmd in ("appendint", "appendbigint"):
            exp = "ok " + hexs(spec_int(int(t[1])))
        elif cmd == "varuintlen":
            exp = "ok %d" % len(spec_varuint(int(t[1])))
        elif cmd == "appendvaruint":
            exp = "ok " + hexs(spec_varuint(int(t[1])))
        elif cmd == "varintlen":
            exp = "ok %d" % len(spec_varint(int(t[1])))
        elif cmd == "appendvarint":
            exp = "ok " + hexs(spec_varint(int(t[1])))
        elif cmd == "taglen":
            l = int(t[1])
            exp = "ok %d" % (1 if l < 14 else 1 + len(spec_varuint(l)))
        elif cmd == "appendtag":
            c, l = int(t[1]), int(t[2])
            exp = "ok " + hexs([c | l] if l < 14 else [c | 14] + spec_varuint(l))
        elif cmd == "readvaruint":
            mx, bs = min(int(t[1]), 10), unhex(t[2])
            v, n = 0, 0
            exp = "err"
            for b in bs[:mx]:
                v = (v << 7) | (b & 0x7F)
                n += 1
                if b & 0x80:
                    exp = "ok %d %d %s" % (v, n, hexs(bs[n:])) if v < U64 else "err"
                    break
            if go == "err" and exp != "err":
                return None  # refusing a representable value is not a silent change
        elif cmd == "readvarint":
            mx, bs = min(int(t[1]), 10), unhex(t[2])
            v, n = 0, 0
            exp = "err"
            if int(t[1]) > 0 and bs:
                neg = bool(bs[0] & 0x40)
                for b in bs[:mx]:
                    v = (v << 7) | (b & (0x3F if n == 0 else 0x7F))
                    n += 1
                    if b & 0x80:
                        sv = -v if neg else v
                        exp = ("ok %d %d %d %s" % (sv, 1 if neg else 0, n, hexs(bs[n:]))
                               if -(1 << 63) <= sv < (1 << 63) else "err")
                        break
            if go == "err" and exp != "err":
                return None
        elif cmd == "readsignmag":
            bs = unhex(t[1])
            if not bs:
                return None
            v = int.from_bytes(bytes([bs[0] & 0x7F] + bs[1:]), "big")
            exp = "ok %d" % (-v if bs[0] & 0x80 else v)
        else:
            return None
    except Exception as e:  # malformed request: not a property matter
        return None
    if go != exp:
        return "spec-derived oracle expects '%s'" % exp
    return None


def boundaries(maxbits):
    s = set()
    for k in range(0, maxbits + 1):
        for d in (-2, -1, 0, 1, 2):
            v = (1 << k) + d
            if v >= 0:
                s.add(v)
    return s


def classify(line, m, g):
    t = line.split(" ")
    if t[0] == "readvaruint" and g.startswith("ok") and m == g:
        return None
    return None


def gen_lines(ctx):
    rng = ctx.rng
    lines = []
    u64s = {v for v in boundaries(64) if v < U64}
    u64s |= set(range(0, 1 << 16)) if ctx.thorough() else set(range(0, 1 << 16, 7)) | set(range(0, 600))
    u64s |= {rng.getrandbits(rng.randint(1, 64)) for _ in range(ctx.scale(3000, 60000))}
    i64s = set()
    for v in u64s:
        if v < (1 << 63):
            i64s.add(v)
            i64s.add(-v)
    i64s.add(-(1 << 63))
    bigs = set()
    for v in boundaries(80) | {rng.getrandbits(rng.randint(60, 700)) for _ in range(ctx.scale(800, 20000))}:
        bigs.add(v)
        bigs.add(-v)
    for v in sorted(u64s):
        lines += ["uintlen %d" % v, "appenduint %d" % v, "varuintlen %d" % v, "appendvaruint %d" % v, "taglen %d" % v]
    for v in sorted(i64s):
        lines += ["intlen %d" % v, "appendint %d" % v, "varintlen %d" % v, "appendvarint %d" % v]
    for v in sorted(bigs) + sorted(x for x in i64s if abs(x) < 70000 or rng.random() < 0.05):
        lines += ["bigintlen %d" % v, "appendbigint %d" % v]
    for code in range(0, 256, 16):
        for l in list(range(0, 20)) + [127, 128, 16383, 16384, (1 << 21) - 1, 1 << 21, (1 << 63) - 1, 1 << 63, U64 - 1]:
            lines.append("appendtag %d %d" % (code, l))
    # read side: valid encodings with padding, truncations, over-long forms, random bytes
    rd = []
    some = sorted(u64s)
    pick = some if ctx.thorough() else rng.sample(some, min(len(some), 2500)) + [v for v in some if v in boundaries(64)]
    for v in pick:
        enc = spec_varuint(v)
        for pad in (0, 1, 10 - len(enc)):
            if pad < 0 or len(enc) + pad > 10:
                continue
            e = [0] * pad + enc
            for mx in {len(e), len(e) - 1, 10, 11, rng.randint(0, 12), 1 << 64 - 1}:
                if mx >= 0:
                    rd.append("readvaruint %d %s" % (mx, hexs(e + [rng.randrange(256) for _ in range(rng.randint(0, 3))])))
    for _ in range(ctx.scale(2000, 40000)):
        n = rng.randint(0, 12)
        bs = [rng.choice([0, 1, 0x7F, 0x80, 0xFF, rng.randrange(256)]) for _ in range(n)]
        rd.append("readvaruint %d %s" % (rng.choice([0, 1, 2, 9, 10, 11, n, U64 - 1]), hexs(bs)))
        rd.append("readvarint %d %s" % (rng.choice([0, 1, 2, 9, 10, 11, n, U64 - 1]), hexs(bs)))
        rd.append("readsignmag %s" % hexs(bs))
    # over-long varuints at and beyond 2^64
    for top in (1, 2, 3, 0x7F):
        for tail in (0, 4, 0x7F):
            rd.append("readvaruint 10 " + hexs([top] + [0] * 8 + [0x80 | tail]))
            rd.append("readvarint 10 " + hexs([top] + [0] * 8 + [0x80 | tail]))
            rd.append("readvarint 10 " + hexs([0x40 | (top & 0x3F)] + [0x7F] * 8 + [0x80 | tail]))
    ipick = sorted(i64s) if ctx.thorough() else rng.sample(sorted(i64s), min(len(i64s), 2500)) + [v for v in i64s if abs(v) in boundaries(63)]
    for v in ipick:
        enc = spec_varint(v)
        rd.append("readvarint %d %s" % (rng.choice([len(enc), 10, len(enc) - 1, 20]), hexs(enc + [rng.randrange(256)])))
        if v != 0:
            rd.append("readsignmag %s" % hexs(spec_int(v)))
            rd.append("readsignmag %s" % hexs([spec_int(v)[0] & 0x80, 0] + [spec_int(v)[0] & 0x7F] + spec_int(v)[1:]))
    for v in sorted(bigs)[:: (1 if ctx.thorough() else 5)]:
        if v != 0:
            rd.append("readsignmag %s" % hexs(spec_int(v)))
    return lines + rd


def run(ctx):
    lines = gen_lines(ctx)
    ctx.correspond("K1-codecs", lines, oracle=oracle, classify=classify_case,
                   nontrivial=lambda ln, m: m not in ("badinput",))
    run_accessors(ctx)
    run_floats(ctx)
    run_decimals(ctx)


ALL_ACC = ["BO", "SZ", "IV", "I6", "BI", "FL", "DE", "TS", "ST", "SY", "BY", "SI"]


def int_expect(z):
    """tokens the accessors SZ IV I6 BI must give for the Ion integer z (SZ: any width that holds it)"""
    iv = "I%d" % z if -2 ** 31 <= z < 2 ** 31 else "err"
    i6 = "I%d" % z if -2 ** 63 <= z < 2 ** 63 else "err"
    minsz = 1 if -2 ** 31 <= z < 2 ** 31 else (2 if -2 ** 63 <= z < 2 ** 63 else 3)
    return minsz, iv, i6, "I%d" % z


def run_accessors(ctx):
    import iongen
    import cursor
    import binlib
    rng = ctx.rng
    ints = set()
    for k in (7, 8, 15, 16, 31, 32, 33, 56, 62, 63, 64, 65, 70, 80):
        for d in (-2, -1, 0, 1, 2):
            ints.add((1 << k) + d)
            ints.add(-((1 << k) + d))
    ints |= set(range(-300, 300, 7)) | {0, 1, -1}
    ints |= {rng.getrandbits(rng.randint(1, 90)) * rng.choice([1, -1]) for _ in range(ctx.scale(300, 5000))}
    lines, exp = [], []
    for z in sorted(ints):
        f = [([], ("int", z))]
        for free in (False, True, True):
            doc = iongen.Enc(rng, free).stream(f)
            lines.append("brd 0 %s N SZ IV I6 BI" % iongen.hx(doc))
            exp.append(int_expect(z))
        for txt in (str(z), ("-" if z < 0 else "") + "0x%X" % abs(z), ("-" if z < 0 else "") + "0b" + bin(abs(z))[2:]):
            lines.append("brd 0 %s N SZ IV I6 BI" % iongen.hx(txt.encode()))
            exp.append(int_expect(z))
    bl = [l for l in lines if l.split(" ")[2].startswith("xe00100ea")]
    mo, go = ctx.correspond("K2-int-accessors-binary", bl, nontrivial=lambda ln, m: m.startswith("T"))
    outs = dict(zip(bl, go))
    tl = [l for l in lines if l not in outs]
    for l, g in zip(tl, run_go(tl)):
        outs[l] = g
    ctx.count("C13-int-accessors-text", len(tl), tl)
    for ln, (minsz, iv, i6, bi) in zip(lines, exp):
        t = outs[ln].split(" ")
        why = None
        if len(t) != 5 or t[0] != "T":
            why = "unexpected answer " + outs[ln][:80]
        else:
            if not (t[1].startswith("z") and t[1][1:].isdigit() and int(t[1][1:]) >= minsz):
                why = "IntSize %s names a width too small (needs >= %d)" % (t[1], minsz)
            elif t[2] != iv:
                why = "IntValue gave %s, expected %s" % (t[2], iv)
            elif t[3] != i6:
                why = "Int64Value gave %s, expected %s" % (t[3], i6)
            elif t[4] != bi:
                why = "BigIntValue gave %s, expected %s" % (t[4], bi)
        if why:
            ctx.fail("property", "C13-int-accessors", ln, why)
    # accessor x value type x nullness (finite): every accessor on every type, null and not
    vals = [("null", 1)] + [("null", t) for t in range(2, 14)] + [("bool", True), ("int", 5), ("int", 2 ** 70), ("float", 0x3FF8000000000000),
            ("dec", 15, -1, False), ("ts", (2001, 2, 3, 4, 5, 6, 0, 0, 1, 5, 0)), ("sym", b"s"), ("str", b"x"), ("clob", b"c"), ("blob", b"b"),
            ("list", []), ("sexp", []), ("struct", [])]
    ml, mexp = [], []
    for body in vals:
        f = [([], body)]
        doc = iongen.Enc(rng, False).stream(f)
        for acc in ALL_ACC:
            prog = ["N", acc, "TY", "NU"]
            ml.append("brd 0 %s %s" % (iongen.hx(doc), " ".join(prog)))
            mexp.append(cursor.run_program(f, [p for p in prog if p != "SZ"]) if acc != "SZ" else None)
    mo, go = ctx.correspond("K2-accessor-matrix", ml, canon=binlib.canon_trace_full, nontrivial=lambda ln, m: True)
    for ln, e, g in zip(ml, mexp, go):
        if e is not None and iongen.project_trace(g) != e:
            ctx.fail("property", "C13-accessor-matrix", ln, "reader '%s' ; documented behaviour '%s'" % (iongen.project_trace(g), e))
    ctx.count("C13-accessor-matrix", len(ml), [], exhaustive=True)


def run_floats(ctx):
    import iongen
    import binlib
    rng = ctx.rng
    bits = set(iongen.FLOAT_EDGES)
    for f in binlib.boundary_forests():
        for v in f:
            if v[1][0] == "float":
                bits.add(v[1][1])
    for _ in range(ctx.scale(1500, 40000)):
        e = rng.choice([0, 1, 2046, 2047, 896, 897, 898, 1150, 1151, 872, 873, 874, 880, rng.randrange(2048)])
        m = rng.choice([0, 1, 1 << 28, 1 << 29, (1 << 29) - 1, (1 << 29) + 1, (1 << 52) - 1, rng.getrandbits(52), rng.getrandbits(23) << 29, rng.getrandbits(3) << 49])
        bits.add((rng.getrandbits(1) << 63) | (e << 52) | m)
    bits = sorted(bits)
    wl = ["bw - FLOAT %d FIN" % b for b in bits]
    mo, go = ctx.correspond("K10-float-write", wl, nontrivial=lambda ln, m: m.startswith("ok"))
    rl, want = [], []
    for b, g in zip(bits, go):
        p = g.split(" ")
        if p[0] != "ok":
            ctx.fail("property", "C13-float", "bw - FLOAT %d FIN" % b, "write failed: " + g[:80])
            continue
        rl.append("btrav 0 " + p[2])
        nan = (b >> 52) & 0x7FF == 0x7FF and b & ((1 << 52) - 1)
        want.append(iongen.NAN if nan else b)
    mo2, go2 = ctx.correspond("K10-float-read", rl, nontrivial=lambda ln, m: True)
    for ln, w, g in zip(rl, want, go2):
        t = g.split(" ")
        if len(t) < 6 or t[5] != "F%d" % w:
            ctx.fail("property", "C13-float", ln, "float bits %d written, read back as %s (a float may be stored in 32 bits only when that is lossless)" % (w, " ".join(t[3:7])))


def run_decimals(ctx):
    """decimal exponents and coefficients through the binary Writer: every exponent at the ends of the int32 range and at
    the VarInt width boundaries, coefficients at the Int width boundaries; the independent decoder must recover both"""
    import iongen
    import binlib
    rng = ctx.rng
    exps = [-2 ** 31, -2 ** 31 + 1, 2 ** 31 - 1, 2 ** 31 - 2, 0, -1, 1, -63, -64, -65, 63, 64, 65, -8191, -8192, -8193, 8191, 8192,
            -2 ** 20, 2 ** 20 - 1, 2 ** 20, -2 ** 27, 2 ** 27 - 1, 2 ** 27]
    cos = [0, 1, -1, 127, 128, -128, 255, 256, 32767, 32768, 2 ** 63 - 1, 2 ** 63, -2 ** 63, 2 ** 64, 10 ** 30, -(10 ** 30)]
    forests = [[([], ("dec", co, ex, False))] for ex in exps for co in cos] + [[([], ("dec", 0, ex, True))] for ex in exps]
    for _ in range(ctx.scale(300, 6000)):
        forests.append([([], ("dec", rng.choice(cos + [rng.getrandbits(rng.randint(1, 90))]) * rng.choice([1, -1]),
                           rng.choice(exps + [rng.randint(-2 ** 31, 2 ** 31 - 1)]), False))])
    lines = ["bw - " + " ".join(iongen.calls_of_forest(f, rng)) for f in forests]
    mo, go = ctx.correspond("K3-decimal-write", lines, nontrivial=lambda ln, m: m.startswith("ok"))
    parsed = [binlib.parse_bw(g) for g in go]
    dec = binlib.sdecode_many([p[1] if p else "x" for p in parsed])
    for ln, f, p, d, g in zip(lines, forests, parsed, dec, go):
        if oracle_silent(ctx, "C13-decimal", ln, d):
            continue
        e = iongen.show_forest(f)
        if p is None or "0" in p[0]:
            ctx.fail("property", "C13-decimal", ln, "WriteDecimal refused or crashed: " + g[:160])
        elif d != e:
            ctx.fail("property", "C13-decimal", ln, "decimal written as %s but the bytes denote %s" % (e[:120], str(d)[:120]))
    ctx.count("C13-decimal", len(lines), lines, sample=lines[0])


def classify_case(line, m, g):
    """known-finding classes for C13 (narrow, by input shape)"""
    t = line.split(" ")
    if t[0] == "readvaruint" and g.startswith("ok"):
        bs = unhex(t[2])
        v, n = 0, 0
        for b in bs[:min(int(t[1]), 10)]:
            v = (v << 7) | (b & 0x7F)
            n += 1
            if b & 0x80:
                break
        if v >= U64:
            return "varuint-ge-2^64-wraps"
    if t[0] == "readvarint" and g.startswith("ok"):
        bs = unhex(t[2])
        v, n = 0, 0
        for b in bs[:min(int(t[1]), 10)]:
            v = (v << 7) | (b & (0x3F if n == 0 else 0x7F))
            n += 1
            if b & 0x80:
                break
        if v >= (1 << 63):
            return "varint-ge-2^63-wraps"
    return None


LEVEL = "proof"
EXPLANATION = ("Theorems over the Gallina model of bits.go / the read codecs of bitstream.go (length = bytes "
               "emitted; read∘append = id for every uint64/int64/big value); the model is tied to the Go functions "
               "by running both on the same boundary-directed inputs (K1).")
