"""C15 — timestamps keep instant, offset, precision and fraction digits in both formats."""
import datetime
import re
from vlib import *

EXTRA_MODULES = ["C15text", "C15reject", "C15reject2"]
THEOREMS = [
    "C15_text_roundtrip", "C15_text_roundtrip_cfg", "C15_text_valid_literal", "C15_text_spec_accepts", "C15_text_grammar",
    "C15_text_nano_zero_digits", "C15_text_ex_wf4", "C15_text_ex_wf5", "C15_text_ex_strings",
    "C15_text_accepts_only_valid", "C15_text_accepts_only_valid_strict_all", "C15_text_frac_fields_denote", "C15_text_fields_nine", "C15_text_fields_no_carry", "C15_text_fields_carry", "C15_text_next_second_spec", "C15_text_round_is_frac_ns", "C15_text_accepts_year_in_range_refuted", "C15_text_accepts_year_except_carry",
    "C15_text_accepts_only_literals", "C15_text_accepts_only_valid_partial", "C15_text_accepts_only_valid_strict",
    "C15_text_accepts_only_spellings_refuted", "C15_text_sign_defect", "C15_text_rejects_invalid", "C15_text_rejects_underscore",
    "C15_text_rejects_bad_char", "C15_text_ex_february", "C15_text_ex_offset_day", "C15_text_ex_case_and_sign", "C15_text_ex_accepted",
    "C15_days_civil_inverse", "C15_civil_days_inverse", "C15_civil_valid", "C15_date_fields", "C15_wf_year",
    "C15_binary_roundtrip",
    "C15_binary_reject_patched", "C15_binary_reject_refuted", "C15_binary_minute60_witness",
    "C15_binary_reject_except_known", "C15_binary_hour24", "C15_binary_hour_without_minute", "C15_binary_year_patched",
    "C15_binary_rounding_patched", "C15_binary_rounding_refuted", "C15_text_rounding_patched", "C15_text_rounding_refuted",
    "C15_exponent_panic_pinned", "C15_exponent_patched",
    "C15_ex_wf1", "C15_ex_wf2", "C15_ex_wf3", "C15_ex_text", "C15_ex_text_reject",
]

COMPONENT = "K9-timestamp"

# ---------------------------------------------------------------------------------------------
# independent calendar (integer arithmetic, cross-checked against datetime below)
# ---------------------------------------------------------------------------------------------
def leap(y):
    return y % 4 == 0 and (y % 100 != 0 or y % 400 == 0)


def dim(y, m):
    return [31, 29 if leap(y) else 28, 31, 30, 31, 30, 31, 31, 30, 31, 30, 31][m - 1]


def day_number(y, m, d):
    """days since 0001-01-01 (which is 0); any integer year (proleptic Gregorian)"""
    y0 = y - 1
    n = 365 * y0 + y0 // 4 - y0 // 100 + y0 // 400
    for k in range(1, m):
        n += dim(y, k)
    return n + d - 1


def civil(n):
    """inverse of day_number by search on the year (independent of the Coq algorithm)"""
    y = n // 366 + 1
    while day_number(y + 1, 1, 1) <= n:
        y += 1
    while day_number(y, 1, 1) > n:
        y -= 1
    r = n - day_number(y, 1, 1)
    m = 1
    while r >= dim(y, m):
        r -= dim(y, m)
        m += 1
    return y, m, r + 1


for _y, _m, _d in ((1, 1, 1), (1999, 12, 31), (2000, 2, 29), (2100, 3, 1), (9999, 12, 31), (2400, 2, 29)):
    assert day_number(_y, _m, _d) == datetime.date(_y, _m, _d).toordinal() - 1
    assert civil(day_number(_y, _m, _d)) == (_y, _m, _d)


def shift_minutes(y, mo, d, h, mi, delta):
    """(y, mo, d, h, mi) + delta minutes"""
    tot = (day_number(y, mo, d) * 24 + h) * 60 + mi + delta
    dn, rem = divmod(tot, 1440)
    yy, mm, dd = civil(dn)
    return yy, mm, dd, rem // 60, rem % 60


def add_second(F):
    """local fields + 1 s (nsec := 0)"""
    y, mo, d, h, mi, s = F[:6]
    tot = ((day_number(y, mo, d) * 24 + h) * 60 + mi) * 60 + s + 1
    dn, rem = divmod(tot, 86400)
    yy, mm, dd = civil(dn)
    return (yy, mm, dd, rem // 3600, rem % 3600 // 60, rem % 60, 0) + tuple(F[7:])


# ---------------------------------------------------------------------------------------------
# Ion text timestamps, from the specification
# ---------------------------------------------------------------------------------------------
RE_Y = re.compile(r"^(\d{4})T$")
RE_YM = re.compile(r"^(\d{4})-(\d\d)T$")
RE_YMD = re.compile(r"^(\d{4})-(\d\d)-(\d\d)T?$")
RE_FULL = re.compile(r"^(\d{4})-(\d\d)-(\d\d)T(\d\d):(\d\d)(?::(\d\d)(?:\.(\d+))?)?(Z|[+-]\d\d:\d\d)$")
# the same shapes with out-of-range numbers allowed: "names a date or time"
RE_SHAPE = re.compile(r"^\d{4}(T|-\d\d(T|-\d\d(T|T\d\d:\d\d(:\d\d(\.\d+)?)?(Z|[+-]\d\d:\d\d))?))$")


def spec_parse(text):
    """None if not a valid Ion timestamp literal, else the list of acceptable field tuples
    (two when a >9-digit fraction is an exact tie)."""
    m = RE_Y.match(text)
    if m:
        y = int(m.group(1))
        return [(y, 1, 1, 0, 0, 0, 0, 0, 0, 1, 0)] if y >= 1 else None
    m = RE_YM.match(text)
    if m:
        y, mo = int(m.group(1)), int(m.group(2))
        return [(y, mo, 1, 0, 0, 0, 0, 0, 0, 2, 0)] if y >= 1 and 1 <= mo <= 12 else None
    m = RE_YMD.match(text)
    if m:
        y, mo, d = int(m.group(1)), int(m.group(2)), int(m.group(3))
        ok = y >= 1 and 1 <= mo <= 12 and 1 <= d <= dim(y, mo)
        return [(y, mo, d, 0, 0, 0, 0, 0, 0, 3, 0)] if ok else None
    m = RE_FULL.match(text)
    if not m:
        return None
    y, mo, d, h, mi = (int(m.group(i)) for i in range(1, 6))
    if not (y >= 1 and 1 <= mo <= 12 and 1 <= d <= dim(y, mo) and h < 24 and mi < 60):
        return None
    s = int(m.group(6)) if m.group(6) is not None else 0
    if s >= 60:
        return None
    z = m.group(8)
    if z == "Z":
        off, kind = 0, 1
    else:
        oh, om = int(z[1:3]), int(z[4:6])
        if oh >= 24 or om >= 60:
            return None
        off = oh * 60 + om
        if z[0] == "-":
            off = -off
        kind = 2 if off != 0 else (0 if z[0] == "-" else 1)
    prec = 4 if m.group(6) is None else (5 if m.group(7) is None else 6)
    fs = m.group(7)
    if fs is None:
        return [(y, mo, d, h, mi, s, 0, off, kind, prec, 0)]
    if len(fs) <= 9:
        return [(y, mo, d, h, mi, s, int(fs.ljust(9, "0")), off, kind, 6, len(fs))]
    scale = 10 ** (len(fs) - 9)
    q, r = divmod(int(fs), scale)
    cands = [q + 1] if 2 * r > scale else [q] if 2 * r < scale else [q, q + 1]
    out = []
    for ns in cands:
        F = (y, mo, d, h, mi, s, ns, off, kind, 6, 9)
        if ns == 10 ** 9:
            F = add_second(F)
        out.append(F)
    return out


def spec_format(F):
    y, mo, d, h, mi, s, ns, off, kind, prec, nfrac = F
    if prec == 1:
        return "%04dT" % y
    if prec == 2:
        return "%04d-%02dT" % (y, mo)
    if prec == 3:
        return "%04d-%02d-%02dT" % (y, mo, d)
    z = "-00:00" if kind == 0 else "Z" if kind == 1 else "%s%02d:%02d" % ("+" if off > 0 else "-", abs(off) // 60, abs(off) % 60)
    t = "%04d-%02d-%02dT%02d:%02d" % (y, mo, d, h, mi)
    if prec >= 5:
        t += ":%02d" % s
    if prec == 6:
        t += "." + ("%09d" % ns)[:nfrac]
    return t + z


# ---------------------------------------------------------------------------------------------
# Ion binary timestamps, from the specification
# ---------------------------------------------------------------------------------------------
def varuint(v):
    out = [0x80 | (v & 0x7F)]
    v >>= 7
    while v > 0:
        out.insert(0, v & 0x7F)
        v >>= 7
    return out


def varint(n, negzero=False):
    mag = abs(n)
    groups = [mag & 0x7F]
    mag >>= 7
    while mag > 0:
        groups.insert(0, mag & 0x7F)
        mag >>= 7
    if groups[0] & 0x40:
        groups.insert(0, 0)
    if n < 0 or negzero:
        groups[0] |= 0x40
    groups[-1] |= 0x80
    return groups


def int_bytes(n):
    if n == 0:
        return []
    mag = list(abs(n).to_bytes((abs(n).bit_length() + 7) // 8, "big"))
    if mag[0] & 0x80:
        mag.insert(0, 0)
    if n < 0:
        mag[0] |= 0x80
    return mag


def tagged(body):
    if len(body) < 14:
        return [0x60 | len(body)] + body
    return [0x6E] + varuint(len(body)) + body


def raw_encode(offset, fields, frac=None, unknown=False):
    """offset (minutes) or unknown, the given UTC field list (1..6 numbers), optional (exp, coef)"""
    body = [0xC0] if unknown else varint(offset)
    for f in fields:
        body += varuint(f)
    if frac is not None:
        body += varint(frac[0]) + int_bytes(frac[1])
    return tagged(body)


def spec_encode(F):
    y, mo, d, h, mi, s, ns, off, kind, prec, nfrac = F
    if prec <= 3:
        return raw_encode(0, [y, mo, d][:prec], unknown=True)
    uy, umo, ud, uh, umi = shift_minutes(y, mo, d, h, mi, -off)
    fs = [uy, umo, ud, uh, umi] + ([s] if prec >= 5 else [])
    frac = (-nfrac, ns // 10 ** (9 - nfrac)) if prec == 6 else None
    return raw_encode(off, fs, frac, unknown=(kind == 0))


class Unjudged(Exception):
    pass


def rd_varuint(bs, i, end):
    v = 0
    n = 0
    while True:
        if i >= end or i >= len(bs) or n >= 10:
            raise Unjudged()
        b = bs[i]
        i += 1
        n += 1
        v = (v << 7) | (b & 0x7F)
        if b & 0x80:
            return v, i


def rd_varint(bs, i, end):
    if i >= end or i >= len(bs):
        raise Unjudged()
    neg = bool(bs[i] & 0x40)
    v = bs[i] & 0x3F
    n = 1
    last = bs[i] & 0x80
    i += 1
    while not last:
        if i >= end or i >= len(bs) or n >= 10:
            raise Unjudged()
        v = (v << 7) | (bs[i] & 0x7F)
        last = bs[i] & 0x80
        i += 1
        n += 1
    return (-v if neg else v), neg, i


def spec_decode(bs):
    """('ok', [field tuples]) | ('invalid', reason) | raises Unjudged.
    'invalid' is only claimed for the impossibilities named by the property."""
    if not bs or bs[0] >> 4 != 6 or bs[0] & 15 == 15:
        raise Unjudged()
    i = 1
    ln = bs[0] & 15
    if ln == 14:
        ln, i = rd_varuint(bs, i, len(bs))
    end = i + ln
    if end != len(bs):
        raise Unjudged()
    off, negz, i = rd_varint(bs, i, end)
    fs = []
    while i < end and len(fs) < 6:
        v, i = rd_varuint(bs, i, end)
        fs.append(v)
    if len(fs) == 0:
        return "invalid", "no year (the offset must be followed by at least the year)"
    if len(fs) == 4:
        return "invalid", "hour without minute"
    y = fs[0]
    mo = fs[1] if len(fs) > 1 else 1
    d = fs[2] if len(fs) > 2 else 1
    h = fs[3] if len(fs) > 3 else 0
    mi = fs[4] if len(fs) > 4 else 0
    s = fs[5] if len(fs) > 5 else 0
    if not 1 <= mo <= 12:
        return "invalid", "month %d" % mo
    if y > 10 ** 6:
        raise Unjudged()
    if not 1 <= d <= dim(y, mo):
        return "invalid", "day %d of %04d-%02d" % (d, y, mo)
    if h >= 24:
        return "invalid", "hour %d" % h
    if mi >= 60:
        return "invalid", "minute %d" % mi
    if s >= 60:
        return "invalid", "second %d" % s
    if len(fs) <= 3:
        if i != end:
            raise Unjudged()
        if not 1 <= y <= 9999:
            return "invalid", "year %d" % y
        return "ok", [(y, mo, d, 0, 0, 0, 0, 0, 0, len(fs), 0)]
    if abs(off) >= 1440:
        return "invalid", "offset of %d minutes (a local offset is within -23:59..+23:59)" % off
    ly, lmo, ld, lh, lmi = shift_minutes(y, mo, d, h, mi, off)
    if not 1 <= ly <= 9999:
        return "invalid", "local year %d" % ly
    kind = 2 if off != 0 else (0 if negz else 1)
    prec = 4 if len(fs) == 5 else 5
    base = (ly, lmo, ld, lh, lmi, s)
    if i == end:
        return "ok", [base + (0, off, kind, prec, 0)]
    if prec != 5:
        raise Unjudged()
    exp, _, i = rd_varint(bs, i, end)
    cb = bs[i:end]
    coef = 0
    if cb:
        coef = int.from_bytes(bytes([cb[0] & 0x7F] + cb[1:]), "big")
        if cb[0] & 0x80:
            if coef != 0:
                raise Unjudged()      # negative fraction: not addressed by the property
    if exp == 0 and coef == 0:
        return "ok", [base + (0, off, kind, 5, 0)]
    if exp >= 0:
        raise Unjudged()              # 0d+N fractions: not addressed by the property
    nd = -exp
    if nd > 200 or coef >= 10 ** nd:
        raise Unjudged()
    if nd <= 9:
        return "ok", [base + (coef * 10 ** (9 - nd), off, kind, 6, nd)]
    scale = 10 ** (nd - 9)
    q, r = divmod(coef, scale)
    cands = [q + 1] if 2 * r > scale else [q] if 2 * r < scale else [q, q + 1]
    out = []
    for ns in cands:
        F = base + (ns, off, kind, 6, 9)
        if ns == 10 ** 9:
            F = add_second(F)
        out.append(F)
    return "ok", out


# ---------------------------------------------------------------------------------------------
# helpers on request / response lines
# ---------------------------------------------------------------------------------------------
def hx_text(s):
    return "x" + s.encode("latin-1").hex()


def hx(bs):
    return "x" + bytes(bs).hex()


def unhx(t):
    return list(bytes.fromhex(t[1:]))


def parse_ok(resp):
    t = resp.split(" ")
    if t[0] != "ok" or len(t) != 12:
        return None
    return tuple(int(x) for x in t[1:])


def wf(F):
    """the hypotheses of the round-trip theorems (wf_ts), on harness arguments"""
    y, mo, d, h, mi, s, ns, off, kind, prec, nfrac = F
    if not (1 <= y <= 9999 and 1 <= mo <= 12 and 1 <= d <= dim(y, mo) and 0 <= h < 24 and 0 <= mi < 60 and 0 <= s < 60):
        return False
    if not (0 <= ns < 10 ** 9 and abs(off) < 1440 and 1 <= prec <= 6 and 0 <= nfrac <= 9):
        return False
    if (prec == 6) != (nfrac >= 1):
        return False
    if ns % 10 ** (9 - nfrac) != 0:
        return False
    if prec <= 3:
        if kind != 0 or off != 0 or (h, mi, s) != (0, 0, 0) or (prec < 3 and d != 1) or (prec < 2 and mo != 1):
            return False
    else:
        if (kind == 2) != (off != 0):
            return False
        if prec == 4 and s != 0:
            return False
    return True


# expectations of the chained round-trip stage: request line -> original fields
EXPECT = {}


def oracle(line, go):
    t = line.split(" ")
    cmd = t[0]
    if go.split(" ")[0] in ("fatal", "timeout"):
        return "real code %s" % go
    try:
        if cmd in ("ts_format", "ts_write"):
            F = tuple(int(x) for x in t[2:])
            if t[1] != "0" or not wf(F):
                return None                     # outside the property's quantifier: correspondence only
            if not go.startswith("ok x"):
                return "well-formed timestamp not written: %s" % go
            if cmd == "ts_format":
                text = bytes(unhx(go.split(" ")[1])).decode("latin-1")
                got = spec_parse(text)
                if got is None:
                    return "'%s' is not a valid Ion timestamp literal" % text
                if F not in got:
                    return "literal '%s' denotes %s, not the timestamp %s" % (text, got[0], F)
            else:
                bs = unhx(go.split(" ")[1])
                try:
                    st, got = spec_decode(bs)
                except Unjudged:
                    return "binary form %s is not a well-formed Ion timestamp" % hx(bs)
                if st != "ok":
                    return "binary form %s is invalid: %s" % (hx(bs), got)
                if F not in got:
                    return "binary form %s denotes %s, not the timestamp %s" % (hx(bs), got[0], F)
            return None
        if cmd == "ts_parse":
            text = bytes(unhx(t[1])).decode("latin-1")
            if go == "panic":
                return "ParseTimestamp panics on '%s'" % text
            exp = EXPECT.get(line)
            if exp is not None:
                if parse_ok(go) != exp:
                    return "round trip through text '%s': expected %s" % (text, exp)
                return None
            want = spec_parse(text)
            got = parse_ok(go)
            if got is not None and not (1 <= got[0] <= 9999):
                # C15_text_accepts_year_except_carry: the only way ParseTimestamp returns a year outside 1..9999
                return "'%s' is accepted as a timestamp in year %d, which no Ion timestamp can carry" % (text, got[0])
            if want is not None:
                if any(F[0] > 9999 for F in want):
                    return None
                if parse_ok(go) not in want:
                    return "valid literal '%s' denotes %s" % (text, " or ".join(map(str, want)))
                return None
            if RE_SHAPE.match(text) and go != "err":
                return "'%s' names an impossible date, time or offset but is accepted" % text
            if go != "err":
                # every accepted string must be a timestamp literal (C15_text_accepts_only_literals); the one lenient
                # normalisation of ParseTimestamp is a final lower-case t on the three date-only forms
                norm = text[:-1] + "T" if text.endswith("t") and len(text) in (5, 8, 11) else text
                if spec_parse(norm) is None:
                    return "'%s' is not an Ion timestamp literal but ParseTimestamp accepts it" % text
            return None
        if cmd == "ts_read":
            bs = unhx(t[1])
            if go == "panic":
                return "reading %s panics" % t[1]
            exp = EXPECT.get(line)
            if exp is not None:
                if parse_ok(go) != exp:
                    return "round trip through binary %s: expected %s" % (t[1], exp)
                return None
            try:
                st, want = spec_decode(bs)
            except Unjudged:
                return None
            if st == "invalid":
                if go != "err":
                    return "binary timestamp with %s is accepted" % want
                return None
            if parse_ok(go) not in want:
                return "binary timestamp %s denotes %s" % (t[1], " or ".join(map(str, want)))
            return None
    except Exception as e:  # malformed request: not a property matter
        return None
    return None


def bin_fraction(bs):
    """(exponent, coefficient) of the fraction of a six-field binary timestamp, or None"""
    try:
        i = 1
        ln = bs[0] & 15
        if ln == 14:
            ln, i = rd_varuint(bs, i, len(bs))
        end = i + ln
        _, _, i = rd_varint(bs, i, end)
        for _ in range(6):
            _, i = rd_varuint(bs, i, end)
        if i >= end:
            return None
        exp, _, i = rd_varint(bs, i, end)
        cb = bs[i:end]
        coef = int.from_bytes(bytes([cb[0] & 0x7F] + cb[1:]), "big") if cb else 0
        return exp, coef
    except Exception:
        return None


def classify_case(line, m, g):
    """known-finding classes (narrow, by input shape)"""
    t = line.split(" ")
    try:
        if t[0] == "ts_read":
            bs = unhx(t[1])
            if g == "panic":
                fr = bin_fraction(bs)
                if fr is not None and (fr[0] >= (1 << 31) - 8 or fr[0] == -(1 << 31)):
                    return "bin-fraction-exponent-shiftl-panic"
                return None
            try:
                st, want = spec_decode(bs)
            except Unjudged:
                return None
            if st == "invalid" and g.startswith("ok"):
                if want.startswith("hour") or want.startswith("minute") or want.startswith("second"):
                    return "bin-time-field-out-of-range-accepted"
                if "year" in want:
                    return "bin-year-outside-1-9999-accepted"
            if st == "ok" and g.startswith("ok"):
                fr = bin_fraction(bs)
                # float64 arithmetic in Decimal.round: coefficient beyond 2^52 or a divisor beyond 10^22
                if fr is not None and fr[0] < -9 and (fr[1] >= (1 << 52) or -fr[0] - 9 > 22):
                    return "bin-fraction-float64-rounding"
        if t[0] == "ts_parse":
            text = bytes(unhx(t[1])).decode("latin-1")
            if g == "panic" and re.match(r"^.{19}\.\d*$", text, re.S):
                return "text-fraction-without-offset-panic"
            if re.match(r"^9999-12-31T23:59:59\.9{9}[5-9]\d*(Z|[+-]\d\d:\d\d)$", text) and g.startswith("ok 10000 "):
                return "text-fraction-rounding-carries-into-year-10000"
            m2 = RE_FULL.match(text)
            if m2 and m2.group(7) and len(m2.group(7)) > 15 and g.startswith("ok"):
                return "text-fraction-float64-rounding"
    except Exception:
        return None
    return None


# ---------------------------------------------------------------------------------------------
# generators
# ---------------------------------------------------------------------------------------------
def boundary_dates():
    ds = []
    for y in (1, 1999, 2000, 2001, 2100, 2400, 9999):
        for mo in range(1, 13):
            ds.append((y, mo, 1))
            ds.append((y, mo, dim(y, mo)))
            if dim(y, mo) > 28:
                ds.append((y, mo, 28))
    return ds


def boundary_offsets():
    s = {0, 1, -1, 1439, -1439}
    for k in range(0, 24):
        for e in (-1, 0, 1):
            for sg in (1, -1):
                v = sg * (k * 60 + e)
                if -1439 <= v <= 1439:
                    s.add(v)
    return sorted(s)


def frac_patterns(rng, nfrac):
    """nanosecond values that are multiples of 10^(9-nfrac): leading / trailing zero patterns"""
    unit = 10 ** (9 - nfrac)
    top = 10 ** nfrac
    vals = {0, 1, top - 1, top // 10, top // 2, 10 % top, 12 % top, 120 % top, 1200 % top,
            (top // 10) * 9, (top // 100) * 5 if top >= 100 else 5 % top, rng.randrange(top), rng.randrange(top)}
    return sorted(v * unit for v in vals if 0 <= v < top)


def make_ts(rng, date, tod, off, kind, prec, nfrac, ns):
    y, mo, d = date
    h, mi, s = tod
    if prec <= 3:
        return (y, mo if prec >= 2 else 1, d if prec >= 3 else 1, 0, 0, 0, 0, 0, 0, prec, 0)
    if prec == 4:
        s = 0
    if kind != 2:
        off = 0
    elif off == 0:
        off = 60
    return (y, mo, d, h, mi, s, ns if prec == 6 else 0, off, kind, prec, nfrac if prec == 6 else 0)


def gen_wf(ctx):
    rng = ctx.rng
    out = []
    dates = boundary_dates()
    offs = boundary_offsets()
    tods = [(0, 0, 0), (23, 59, 59), (12, 30, 45), (0, 0, 1), (23, 0, 0), (0, 59, 0)]
    # exhaustive over the calendar boundaries x offsets that can cross a day / month / year
    for date in dates:
        for tod in ((0, 0, 0), (23, 59, 59)):
            for off in (offs if date[0] in (1, 9999) or ctx.thorough() else offs[:: 7] + [1439, -1439, 1, -1]):
                out.append(make_ts(rng, date, tod, off, 2, rng.choice([4, 5]), 0, 0))
        for prec in (1, 2, 3):
            out.append(make_ts(rng, date, (0, 0, 0), 0, 0, prec, 0, 0))
        for kind in (0, 1):
            out.append(make_ts(rng, date, rng.choice(tods), 0, kind, rng.choice([4, 5]), 0, 0))
    # precisions x nfrac x zero patterns x kinds
    for nfrac in range(1, 10):
        for ns in frac_patterns(rng, nfrac):
            for kind in (0, 1, 2):
                date = rng.choice(dates)
                out.append(make_ts(rng, date, rng.choice(tods), rng.choice(offs), kind, 6, nfrac, ns))
    # year 1 and 9999 with offsets that cross year 0 / 10000
    for off in offs:
        out.append(make_ts(rng, (1, 1, 1), (0, 0, 0), off, 2, 6, 9, 1))
        out.append(make_ts(rng, (9999, 12, 31), (23, 59, 59), off, 2, 6, 9, 999999999))
    # random elsewhere
    for _ in range(ctx.scale(3500, 60000)):
        y = rng.choice([rng.randint(1, 9999), rng.randint(1900, 2100)])
        mo = rng.randint(1, 12)
        d = rng.randint(1, dim(y, mo))
        prec = rng.choice([1, 2, 3, 4, 5, 6, 6, 6])
        nfrac = rng.randint(1, 9)
        ns = rng.randrange(10 ** nfrac) * 10 ** (9 - nfrac)
        out.append(make_ts(rng, (y, mo, d), (rng.randint(0, 23), rng.randint(0, 59), rng.randint(0, 59)),
                           rng.randint(-1439, 1439), rng.choice([0, 1, 2, 2]), prec, nfrac, ns))
    seen = set()
    res = []
    for F in out:
        if F not in seen and wf(F):
            seen.add(F)
            res.append(F)
    return res


def gen_nonwf(ctx):
    """constructor uses outside wf_ts: correspondence only"""
    rng = ctx.rng
    out = []
    for _ in range(ctx.scale(1500, 20000)):
        y = rng.choice([1, 9999, rng.randint(1, 9999)])
        mo = rng.randint(1, 12)
        d = rng.randint(1, dim(y, mo))
        F = (y, mo, d, rng.randint(0, 23), rng.randint(0, 59), rng.randint(0, 59),
             rng.choice([0, 1, 100, 1230, 120000000, 999999999, rng.randrange(10 ** 9)]),
             rng.choice([0, 0, 60, -60, 1439, -1439, rng.randint(-1439, 1439)]),
             rng.randint(0, 2), rng.randint(0, 6), rng.choice([0, 1, 3, 5, 9, 10, 200]))
        out.append("%s %d %s" % (rng.choice(["ts_format", "ts_write"]), rng.choice([0, 1, 2]), " ".join(map(str, F))))
    return out


def text_catalogue(ctx):
    rng = ctx.rng
    out = set()
    bases = ["2000-02-29T23:59:59.123Z", "1999-12-31T00:00+05:30", "2001-06-15T12:30:45-08:00", "0001-01-01T00:00:00.0-00:00",
             "9999-12-31T23:59:59.999999999+23:59", "2100-02-28T01:02:03Z", "2400-02-29T", "2000-02T", "2000T", "2001-02-28"]
    out.update(bases)
    bad = []
    for y in ("0000", "0001", "1999", "2000", "2001", "2100", "2400", "9999"):
        for tail in ("T", "-00T", "-13T", "-12T", "-01-00T", "-01-32", "-02-30T", "-02-29", "-02-29T", "-04-31T", "-06-31", "-09-31T",
                     "-11-31T", "-12-32T", "-02-28T24:00Z", "-02-28T23:60Z", "-02-28T23:59:60Z", "-02-28T23:59:61Z", "-02-28T25:00:00Z",
                     "-02-28T24:00:00.0Z", "-12-31T23:59:60.5+00:00", "-02-30T12:00Z", "-13-01T12:00Z", "-01-00T12:00:00Z",
                     "-02-29T12:00:00-00:00", "-01-01T00:00+24:00", "-01-01T00:00-24:00", "-01-01T00:00+23:60", "-01-01T00:00+99:99",
                     "-01-01T00:00:00+24:00", "-01-01T00:00:00.000-25:00", "-01-01T00:00:00.5+00:60", "-01-01T00:00+23:59",
                     "-01-01T00:00-23:59", "-12-31T23:59:59.999999999-23:59"):
            bad.append(y + tail)
    out.update(bad)
    # truncations / case / separators (not judged unless they name a date; the model must agree)
    for b in bases + ["2000-01-01T12:30:00.123", "2000-01-01T12:30:00.", "2000-01-01T12:30:00", "2000-01-01T12:30",
                      "2000-01-01t12:30Z", "2000-01-01T12:30z", "+123T", "2000-+1T", "2000-01-+1", "+200T", "-200T", "2000--1T", "2000-01--1",
                      "+999-01-01", "2000-+1-01T12:30Z", "2000-01-+1T12:30:00Z", "2000-01-01T+1:30Z", "2000-01-01T12:+3Z", "2000-01-01T12:30:+5Z",
                      "2000-01-01T12:30:00.+5Z", "2000t", "2000-01t", "2000-01-01t", " 2000T", "2000T ", "2000-1-01T", "2000-01-1T", "200T", "2000-01-01T1:30:00Z",
                      "2000-01-01T12:30:4+.1234567890Z", "2000-01-01T12:30:4-.1234567890Z", "2000-01-01T12:30:00,5Z",
                      "2000-01-01T12:30:00.5z", "2000-01-01T12:30:00.5+1:00", "2000-01-01T12:30:00.5+01:0", "2000-01-01T12:30:00.5+01:000",
                      "2000-01-01T12:30+-1:30", "2000-01-01T12:30+01:-3", "20000-01-01T", "2000-01-01T12:30:00.5Zjunk", "2000-01-01Tjunk"]:
        out.add(b)
        for k in range(0, len(b)):
            if rng.random() < 0.5:
                out.add(b[:k])
    # fractions: 1..9 digits exactly, then finer than nanoseconds
    for nd in range(1, 10):
        for fs in ("0" * nd, "9" * nd, "1" + "0" * (nd - 1), "0" * (nd - 1) + "1"):
            out.add("2000-01-01T00:00:59.%sZ" % fs)
            out.add("1999-12-31T23:59:59.%s-00:00" % fs)
    heads = ["000000000", "999999999", "499999999", "123456789", "000000001", "899999999", "500000000"]
    tails = ["4", "5", "6", "49", "50", "51", "4999999999", "5000000000", "5000000001", "49999999999999999999", "50000000000000000000",
             "50000000000000000001", "4" + "9" * 30, "5" + "0" * 30, "5" + "0" * 29 + "1", "0", "00000000000000000001", "9" * 20]
    for sec in ("00", "09", "59", "49", "19"):
        for hd in heads:
            for tl in tails:
                out.add("2000-01-01T12:30:%s.%s%sZ" % (sec, hd, tl))
    for z in ("Z", "-00:00", "+05:30", "-23:59"):
        out.add("9999-12-31T23:59:59.9999999995" + z)          # rounds up into year 10000 (known finding)
        out.add("9999-12-31T23:59:59.99999999949" + z)         # rounds down: stays in 9999
        out.add("9998-12-31T23:59:59.9999999995" + z)          # carries into 9999
        out.add("0001-01-01T00:00:00.0000000004" + z)
    for tl in tails:
        out.add("1999-12-31T23:59:59.999999999%s+01:00" % tl)
        out.add("2000-02-29T23:59:59.999999999%s-00:00" % tl)
    for _ in range(ctx.scale(2500, 60000)):
        nd = rng.randint(10, 34)
        fs = "".join(rng.choice("0123456789") for _ in range(nd))
        if rng.random() < 0.5:
            k = rng.randint(9, nd - 1)
            fs = fs[:9] + rng.choice(["4" + "9" * (nd - 10), "5" + "0" * (nd - 10), "5" + "0" * (nd - 11) + "1" if nd > 10 else "5"])
        out.add("2000-01-01T12:30:%02d.%s%s" % (rng.randint(0, 59), fs, rng.choice(["Z", "-00:00", "+05:30", "-08:00"])))
    return ["ts_parse " + hx_text(s) for s in sorted(out)]


def binary_catalogue(ctx):
    rng = ctx.rng
    out = []
    Y = 2000
    # impossible fields
    for y in (1, 1999, 2000, 2001, 2100, 2400, 9999):
        for mo, d in ((0, 1), (13, 1), (1, 0), (1, 32), (2, 30), (2, 29), (4, 31), (6, 31), (9, 31), (11, 31), (12, 32), (2, 28), (12, 31)):
            out.append(raw_encode(0, [y, mo]))
            out.append(raw_encode(0, [y, mo, d]))
            out.append(raw_encode(0, [y, mo, d, 12, 30]))
            out.append(raw_encode(0, [y, mo, d, 23, 59, 59], unknown=True))
        for h, mi, s in ((24, 0, 0), (23, 60, 0), (23, 59, 60), (10, 60, 0), (10, 0, 60), (0, 60, 60), (25, 0, 0), (23, 61, 0), (127, 0, 0), (0, 128, 0), (0, 0, 200)):
            out.append(raw_encode(0, [y, 1, 1, h, mi]))
            out.append(raw_encode(0, [y, 12, 31, h, mi, s]))
            out.append(raw_encode(330, [y, 6, 15, h, mi, s], (-3, 123)))
        out.append(raw_encode(0, [y, 1, 1, 12]))                 # hour without minute
        out.append(raw_encode(0, [y, 12, 31, 0], unknown=True))
    for y in (0, 10000, 12345, 1 << 31, (1 << 63) - 1, 1 << 63, (1 << 64) - 1, 292277026596, 292277026597):
        out.append(raw_encode(0, [y]))
        out.append(raw_encode(0, [y, 1, 1]))
        out.append(raw_encode(0, [y, 12, 31, 23, 59]))
        out.append(raw_encode(0, [y, 1, 1, 0, 0, 0], unknown=True))
    # year 0 / 10000 in the UTC fields of timestamps whose local year is 1 / 9999, and the other way round
    for off in (1, 60, 1439, -1, -60, -1439):
        out.append(raw_encode(off, [0, 12, 31, 23, 59]))
        out.append(raw_encode(off, [10000, 1, 1, 0, 0, 0]))
        out.append(raw_encode(off, [1, 1, 1, 0, 0]))
        out.append(raw_encode(off, [9999, 12, 31, 23, 59, 59]))
    # offsets
    for off in (0, 1, -1, 1439, -1439, 1440, -1440, 100000, -(1 << 62), (1 << 63) - 1):
        out.append(raw_encode(off, [Y, 1, 1, 0, 0]))
    out.append(tagged(varint(0, negzero=True) + varuint(Y) + varuint(1) + varuint(1) + varuint(0) + varuint(0)))
    out.append(tagged([0x40, 0x80] + varuint(Y) + varuint(1) + varuint(1) + varuint(0) + varuint(0)))
    # large field values (int conversions)
    for v in ((1 << 63) - 1, 1 << 63, (1 << 64) - 1, (1 << 64) - 24, (1 << 64) - 60):
        for pos in range(1, 6):
            fs = [Y, 1, 1, 1, 1, 1]
            fs[pos] = v
            out.append(raw_encode(0, fs))
    # fractions
    base = [Y, 1, 1, 0, 0, 59]
    for exp, coef in ((0, 0), (0, 1), (1, 0), (5, 0), (-1, 0), (-3, 0), (-9, 0), (-10, 0), (-1, 5), (-1, 10), (-1, -5), (-2, -6), (-3, -6), (-10, -5),
                      (-9, 999999999), (-9, 1000000000), (-10, 9999999995), (-10, 9999999994), (-10, 5), (-10, 4), (-11, 50), (-11, 49),
                      (-256, 0), (-256, 1), (-265, 5), (-300, 10 ** 299 * 5), (-29, 10 ** 28 * 5), (-30, 10 ** 29 * 5),
                      (-(1 << 31), 1), (-(1 << 31) + 1, 1), ((1 << 31) - 1, 1), ((1 << 31) - 8, 0), ((1 << 31) - 9, 0), (1 << 31, 0), (-(1 << 31) - 1, 0),
                      (-20, 1), (-21, 1), (11, 0), (12, 0), (12, 1), (-400, 1), (-309, 1), (-308, 1), (-317, 5 * 10 ** 316)):
        out.append(raw_encode(0, base, (exp, coef)))
    for nd in range(10, 40):
        for hd in (0, 999999999, 499999999, 123456789, 1):
            for tl in ("4" + "9" * (nd - 10), "5" + "0" * (nd - 10), ("5" + "0" * (nd - 11) + "1") if nd > 10 else "6", "0" * (nd - 9)):
                out.append(raw_encode(rng.choice([0, 60, -480]), base, (-nd, hd * 10 ** (nd - 9) + int(tl))))
    for _ in range(ctx.scale(3000, 60000)):
        nd = rng.randint(10, 40)
        out.append(raw_encode(rng.choice([0, 0, 330]), [rng.randint(1990, 2030), rng.randint(1, 12), rng.randint(1, 28), rng.randint(0, 23), rng.randint(0, 59), rng.randint(0, 59)],
                              (-nd, rng.randrange(10 ** nd))))
    # wrap probes: coefficients near 2^63 and 2^64
    for nd in (19, 20, 21, 22):
        for c in ((1 << 63) - 1, 1 << 63, (1 << 63) + 5 * 10 ** (nd - 10), (1 << 64) - 1, 1 << 64, (1 << 64) + 5 * 10 ** (nd - 1), 5 * 10 ** (nd - 1) + 1):
            if c < 10 ** nd:
                out.append(raw_encode(0, base, (-nd, c)))
    # structure: truncated / padded / overlong
    good = spec_encode((2000, 2, 29, 23, 59, 59, 123000000, 330, 2, 6, 3))
    for k in range(1, len(good)):
        out.append(good[:k])
    out.append(good + [0])
    out.append([0x6E, 0x80])
    out.append([0x60])
    out.append([0x6F])
    out.append([0x61, 0x80])
    out.append([0x61, 0xC0])
    out.append([0x6E] + varuint(len(good) - 1) + good[1:])
    out.append([0x62, 0x00, 0x80])
    out.append([0x6E, 0x01, 0xFF, 0xFF, 0xFF, 0xFF, 0xFF, 0xFF, 0xFF, 0xFF, 0xFF])     # length overruns
    for _ in range(ctx.scale(2000, 40000)):
        n = rng.randint(1, 12)
        body = [rng.choice([0x80, 0xC0, 0x81, 0x00, 0x7F, 0xFF, rng.randrange(256)]) for _ in range(n)]
        out.append(tagged(body))
    seen = set()
    res = []
    for bs in out:
        t = hx(bs)
        if t not in seen:
            seen.add(t)
            res.append("ts_read " + t)
    return res


def run(ctx):
    EXPECT.clear()
    wfs = gen_wf(ctx)
    stage1 = []
    for F in wfs:
        a = "0 " + " ".join(map(str, F))
        stage1.append("ts_format " + a)
        stage1.append("ts_write " + a)
    stage1 += gen_nonwf(ctx)
    mo, go = ctx.correspond(COMPONENT, stage1, oracle=oracle, classify=classify_case,
                            nontrivial=lambda ln, m: m.startswith("ok"))
    # stage 2: what the real code wrote is read back by the real code (and by the model)
    stage2 = []
    for ln, g in zip(stage1, go):
        t = ln.split(" ")
        if not g.startswith("ok x") or t[1] != "0":
            continue
        F = tuple(int(x) for x in t[2:])
        if not wf(F):
            continue
        req = ("ts_parse " if t[0] == "ts_format" else "ts_read ") + g.split(" ")[1]
        if req not in EXPECT:
            EXPECT[req] = F
            stage2.append(req)
    ctx.correspond(COMPONENT, stage2, oracle=oracle, classify=classify_case,
                   nontrivial=lambda ln, m: m.startswith("ok"))
    # reference encodings of the same timestamps (spec encoder, not the Writer), judged by the spec decoder
    ref = []
    for F in wfs[:: 3]:
        ref.append("ts_parse " + hx_text(spec_format(F)))
        ref.append("ts_read " + hx(spec_encode(F)))
    ref = [r for r in dict.fromkeys(ref) if r not in EXPECT]
    cat = [r for r in dict.fromkeys(text_catalogue(ctx) + binary_catalogue(ctx)) if r not in EXPECT]
    ctx.correspond(COMPONENT, ref + cat, oracle=oracle, classify=classify_case,
                   nontrivial=lambda ln, m: m not in ("badinput",))


LEVEL = "proof"
EXPLANATION = ("Theorems over the Gallina model of timestamp.go / the timestamp codec of bits.go, binarywriter.go and "
               "bitstream.go (calendar inverse on all integers by a 400-year sweep plus periodicity; binary and text round "
               "trips for every well-formed timestamp; rejection of impossible fields; rounding of sub-nanosecond fractions); "
               "the model is tied to ParseTimestamp / String / the binary Writer and Reader by running both on calendar-boundary "
               "grids, an invalid-field catalogue and random timestamps (K9), and the real code's answers are judged by an "
               "independent Python reading of the Ion specification.")
