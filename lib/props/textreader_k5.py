"""K5 — the text reader model (Text/Tokenizer.v, Text/Skipper.v, Text/TextReader.v) against the real
tokenizer / textReader / skipper, plus oracles on the real code's answers for the text side of
C06 (no panic), C07 (sticky error on catalogued malformed input), C08 (navigation independence) and
C02 (rendered forests decode to themselves).

run(ctx) registers components:
  K5-text-tables      character classes for every int in -2..257, escape table (exhaustive)
  K5-text-forests     iongen forests rendered by the printer below: full traversal + navigation programs
  K5-text-malformed   catalogue of malformed texts and every truncation of small valid documents
  K5-text-short       all strings of length <= 2 (thorough: 3) over a 24-character alphabet, in six contexts
  K5-text-skip        skipping-specific documents navigated with skip vs read
  K5-text-lst         symbol-table documents ($n, $ion_symbol_table::{...}, typed nulls, $ion_1_0)
  K5-text-ioerr       documents delivered by a failing io.Reader
"""
import base64
import itertools
import re
import struct

from vlib import *
import iongen

THEOREMS = []
LEVEL = "other"
EXPLANATION = ("K5: the extracted text reader model and the real code answer the same request lines: `trd` (a navigation "
               "program), `ttrav` (plain full traversal), `ttok`/`ttokv` (bare tokenizer), `tcls`/`tesc` (finite tables, "
               "exhaustive). Parsed floats are carried by the model as literal text and converted here with float(); "
               "timestamps are parsed by the simple driver-side parser Text/TextNum.v. Oracles on the real code: no "
               "panic token (C06), once Err is set every later Next is false (C07), a navigation program that skips, "
               "reads, steps out early or issues refused calls sees exactly the tokens of the plain traversal (C08), "
               "rendered forests decode to the forest (C02).")
TRUSTED_EXTRA = ["Text/TextNum.v parse_ts_text: a direct parser for tokenizer-shaped timestamp literals standing in for "
                 "ion.ParseTimestamp/time.Parse inside the text reader model (Num/Timestamp.v is the real model)",
                 "Python float() standing in for strconv.ParseFloat on the literal text the model carries (both are "
                 "correctly rounded)"]

# ---------------------------------------------------------------------------
# canonicalisation of model answers
# ---------------------------------------------------------------------------
NAN = 0x7FF8000000000000


def float_bits_of_text(lit):
    try:
        f = float(lit)
    except ValueError:
        return None
    b = struct.unpack(">Q", struct.pack(">d", f))[0]
    if (b >> 52) & 0x7FF == 0x7FF and b & ((1 << 52) - 1):
        b = NAN
    return b


def canon_model(out):
    if "Ftext" not in out:
        return out
    toks = out.split(" ")
    for i, t in enumerate(toks):
        if t.startswith("Ftext"):
            try:
                b = float_bits_of_text(bytes.fromhex(t[5:]).decode("latin-1"))
            except ValueError:
                b = None
            if b is not None:
                toks[i] = "F%d" % b
    return " ".join(toks)


# ---------------------------------------------------------------------------
# printer: iongen forests -> Ion text
# ---------------------------------------------------------------------------
KEYWORDS = {b"null", b"true", b"false", b"nan"}
TYPE_NAMES = {1: "null", 2: "bool", 3: "int", 4: "float", 5: "decimal", 6: "timestamp", 7: "symbol", 8: "string",
              9: "clob", 10: "blob", 11: "list", 12: "sexp", 13: "struct"}
IDENT = re.compile(rb"\A[A-Za-z_$][A-Za-z0-9_$]*\Z")
ESC = {0: "\\0", 7: "\\a", 8: "\\b", 9: "\\t", 10: "\\n", 12: "\\f", 13: "\\r", 11: "\\v", 0x5C: "\\\\"}


def esc_bytes(b, quote, rng=None, ascii_only=False):
    out = bytearray()
    for c in b:
        if c == quote:
            out += b"\\" + bytes([c])
        elif c in ESC:
            out += ESC[c].encode()
        elif c < 32 or c == 127 or (ascii_only and c >= 128):
            out += b"\\x%02x" % c
        else:
            out.append(c)
    return bytes(out)


VERSION_MARKER = re.compile(rb"\A\$ion_[0-9]+_[0-9]+\Z")


def sym_text(t, rng, pretty):
    # a bare $ion_1_0 at top level is the version marker, so text of that shape is quoted
    if IDENT.match(t) and t not in KEYWORDS and not iongen.looks_like_sid(t) and not VERSION_MARKER.match(t) \
            and not (pretty and rng.random() < 0.2):
        return t
    return b"'" + esc_bytes(t, 0x27) + b"'"


def float_text(bits):
    if bits == NAN:
        return b"nan"
    if bits == 0x7FF0000000000000:
        return b"+inf"
    if bits == 0xFFF0000000000000:
        return b"-inf"
    f = struct.unpack(">d", struct.pack(">Q", bits))[0]
    s = repr(f)
    if "e" not in s:
        s += "e0"
    return s.encode()


def ts_text(ts):
    y, mo, d, h, mi, s, ns, off, kind, prec, nfrac = ts
    if prec == 1:
        return b"%04dT" % y
    if prec == 2:
        return b"%04d-%02dT" % (y, mo)
    if prec == 3:
        return b"%04d-%02d-%02d" % (y, mo, d)
    out = b"%04d-%02d-%02dT%02d:%02d" % (y, mo, d, h, mi)
    if prec >= 5:
        out += b":%02d" % s
    if prec == 6:
        out += b"." + (b"%09d" % ns)[:nfrac]
    if kind == 0:
        out += b"-00:00"
    elif kind == 1:
        out += b"Z"
    else:
        out += b"%s%02d:%02d" % (b"-" if off < 0 else b"+", abs(off) // 60, abs(off) % 60)
    return out


def value_text(v, rng, pretty, indent=0, long_ok=True):
    annots, body = v
    out = b""
    for a in annots:
        out += sym_text(a, rng, pretty) + (b" :: " if pretty and rng.random() < 0.3 else b"::")
    k = body[0]
    nl = b"\n" + b"  " * (indent + 1) if pretty else b""
    nle = b"\n" + b"  " * indent if pretty else b""
    if k == "null":
        out += b"null" if body[1] == 1 and rng.random() < 0.5 else b"null." + TYPE_NAMES[body[1]].encode()
    elif k == "bool":
        out += b"true" if body[1] else b"false"
    elif k == "int":
        z = body[1]
        r = rng.random()
        if pretty and r < 0.2:
            out += (b"-" if z < 0 else b"") + b"0x%x" % abs(z)
        elif pretty and r < 0.3:
            out += (b"-" if z < 0 else b"") + b"0b" + bin(abs(z))[2:].encode()
        else:
            out += b"%d" % z
    elif k == "float":
        out += float_text(body[1])
    elif k == "dec":
        co, ex, nz = body[1], body[2], body[3]
        out += (b"-0" if nz else b"%d" % co) + b"d%d" % ex
    elif k == "ts":
        out += ts_text(body[1])
    elif k == "sym":
        out += sym_text(body[1], rng, pretty)
    elif k == "str":
        # adjacent long strings concatenate, so a value that is only whitespace-separated from its
        # neighbours (top level, s-expression) is not rendered as a long string
        if pretty and long_ok and rng.random() < 0.3:
            t = body[1]
            cut = rng.randint(0, len(t))
            # each ''' segment is UTF-8 text by itself: cut at a character boundary
            while 0 < cut < len(t) and 0x80 <= t[cut] <= 0xBF:
                cut -= 1
            out += b"'''" + esc_bytes(t[:cut], 0x27) + b"''' '''" + esc_bytes(t[cut:], 0x27) + b"'''"
        else:
            out += b'"' + esc_bytes(body[1], 0x22) + b'"'
    elif k == "clob":
        if pretty and rng.random() < 0.3:
            out += b"{{ '''" + esc_bytes(body[1], 0x27, ascii_only=True) + b"''' }}"
        else:
            out += b'{{"' + esc_bytes(body[1], 0x22, ascii_only=True) + b'"}}'
    elif k == "blob":
        b64 = base64.b64encode(body[1])
        if pretty and len(b64) > 4 and rng.random() < 0.3:
            cut = rng.randint(1, len(b64) - 1)
            b64 = b64[:cut] + b" \n" + b64[cut:]
        out += b"{{" + b64 + b"}}"
    elif k in ("list", "sexp"):
        op, cl, sep = (b"[", b"]", b",") if k == "list" else (b"(", b")", b" ")
        items = [value_text(x, rng, pretty, indent + 1, long_ok=(k == "list")) for x in body[1]]
        if pretty and k == "list" and items and rng.random() < 0.2:
            items[-1] += b","
            out += op + nl + (sep + nl).join(items) + nle + cl
        else:
            out += op + nl + (sep + nl).join(items) + (nle if items else b"") + cl
    else:
        items = []
        for name, x in body[1]:
            items.append(sym_text(name, rng, pretty) + (b": " if pretty else b":") + value_text(x, rng, pretty, indent + 1))
        out += b"{" + nl + (b"," + nl).join(items) + (nle if items else b"") + b"}"
    if pretty and rng.random() < 0.08:
        out += rng.choice([b" // c ] } \"\n", b" /* ' [ { */"])
    return out


def forest_text(vs, rng, pretty):
    sep = b"\n" if pretty else b" "
    return sep.join(value_text(v, rng, pretty, long_ok=False) for v in vs)


# ---------------------------------------------------------------------------
# value tree of a plain full traversal trace, navigation programs with expected answers
# ---------------------------------------------------------------------------
SCALAR_ACC = {"y2": "BO", "y3": "BI", "y4": "FL", "y5": "DE", "y6": "TS", "y7": "SY", "y8": "ST", "y9": "BY", "y10": "BY"}
ALL_ACC = ["BO", "SZ", "IV", "I6", "BI", "FL", "DE", "TS", "ST", "SY", "BY"]
ACC_TYPES = {"BO": {"y2"}, "SZ": {"y3"}, "IV": {"y3"}, "I6": {"y3"}, "BI": {"y3"}, "FL": {"y4"}, "DE": {"y5"}, "TS": {"y6"},
             "ST": {"y8"}, "SY": {"y7"}, "BY": {"y9", "y10"}}


class Node:
    __slots__ = ("fn", "an", "ty", "nu", "val", "kids")


def parse_trace(trace):
    """plain traversal trace -> list of top-level Nodes, or None when the traversal was not clean"""
    toks = trace.split(" ")
    if toks[-6:] != ["F", "e0", "F", "e0", "F", "e0"] or "panic" in toks or "err" in toks:
        return None
    pos = [0]

    def nodes():
        out = []
        while True:
            t = toks[pos[0]]
            pos[0] += 1
            if t == "F":
                return out
            if t != "T":
                raise ValueError
            n = Node()
            n.fn, n.an, n.ty, n.nu = toks[pos[0]:pos[0] + 4]
            pos[0] += 4
            n.val, n.kids = None, None
            if n.nu == "n0":
                if n.ty in SCALAR_ACC:
                    n.val = toks[pos[0]]
                    pos[0] += 1
                else:
                    if toks[pos[0]] != "ok":
                        raise ValueError
                    pos[0] += 1
                    n.kids = nodes()
                    if toks[pos[0]] != "ok":
                        raise ValueError
                    pos[0] += 1
            out.append(n)

    try:
        top = nodes()
    except (ValueError, IndexError):
        return None
    return top


def gen_nav(top, rng, style):
    """a navigation program over the tree and the tokens the plain traversal predicts for it.
    style: 'skipall' 'scalars' 'mixed' 'early' 'refused'"""
    ops, exp = [], []

    def emit(o, e):
        ops.append(o)
        exp.append(e)

    def header(n, in_struct):
        emit("FN", n.fn), emit("AN", n.an), emit("TY", n.ty), emit("NU", n.nu)
        if rng.random() < 0.2:
            emit("IS", "s1" if in_struct else "s0")

    def visit(nodes, depth, in_struct):
        for n in nodes:
            emit("N", "T")
            if style == "skipall" and depth == 0:
                continue
            r = rng.random()
            if style in ("mixed", "early", "refused") and r < 0.25:
                continue                                   # skipped without a look
            if style != "scalars" or rng.random() < 0.5:
                header(n, in_struct)
            if style == "refused":
                if depth == 0 and rng.random() < 0.3:
                    emit("SO", "err")
                if n.kids is None and rng.random() < 0.5:
                    emit("SI", "err")                      # scalar or null: refused
                if rng.random() < 0.5:
                    wrong = [a for a in ALL_ACC if n.ty not in ACC_TYPES[a]]
                    emit(rng.choice(wrong), "err")
                if rng.random() < 0.3:
                    emit("TY", n.ty), emit("NU", n.nu)
            if n.nu == "n1":
                continue
            if n.kids is None:
                if style in ("scalars", "refused") or rng.random() < 0.6:
                    emit(SCALAR_ACC[n.ty], n.val)
                    if n.ty == "y3" and rng.random() < 0.3:
                        emit("BI", n.val)
                continue
            # a container
            r = rng.random()
            if style == "scalars" or (style == "mixed" and r < 0.6) or (style in ("early", "refused") and r < 0.8):
                emit("SI", "ok")
                kids = n.kids
                if style == "early" or (style == "mixed" and rng.random() < 0.3):
                    k = rng.randint(0, len(kids))
                    visit(kids[:k], depth + 1, n.ty == "y13")
                    if k == len(kids) and rng.random() < 0.5:
                        emit("N", "F")
                else:
                    visit(kids, depth + 1, n.ty == "y13")
                    emit("N", "F")
                    if rng.random() < 0.2:
                        emit("N", "F")
                emit("SO", "ok")
                if rng.random() < 0.2:
                    emit("TY", "y0")

    visit(top, 0, False)
    emit("N", "F"), emit("ER", "e0"), emit("SO", "err"), emit("N", "F"), emit("ER", "e0")
    return ops, exp


STYLES = ["skipall", "scalars", "mixed", "mixed", "mixed", "early", "early", "early", "refused", "refused"]

# ---------------------------------------------------------------------------
# oracles on the real code's answers
# ---------------------------------------------------------------------------


def sticky_violation(go):
    """after Err reports an error every later Next must be false"""
    toks = go.split(" ")
    seen = False
    for t in toks:
        if t == "e1":
            seen = True
        elif seen and t == "T":
            return "Next returned true after Err had reported an error"
        elif seen and t == "e0":
            return "Err went back to nil"
    return None


def has_clob_hazard(doc):
    return b"{{" in doc


def classify_doc(doc, go, why=""):
    """known-finding class ids for property failures on the real code (the nil dereferences D02/D03 are fixed:
    a panic is never a known finding any more)"""
    return None


# ---------------------------------------------------------------------------
# correspondence with canonicalisation
# ---------------------------------------------------------------------------
def doc_of(line):
    t = line.split(" ")
    try:
        if t[0] in ("trd", "ttrav"):
            return bytes.fromhex(t[2][1:])
        if t[0] in ("ttok", "ttokv"):
            return bytes.fromhex(t[1][1:])
    except (ValueError, IndexError):
        pass
    return b""


def correspond(ctx, component, lines, expect=None, c08_class=None, panics_known=None):
    """lines through both sides; model answers canonicalised (Ftext -> bits).
    expect: optional list (same length) of expected Go answers or None entries (C08/C02 oracle).
    Returns (model, go)."""
    mo = [canon_model(m) for m in run_model(lines)]
    go = run_go(lines)
    keys, mism, hist = [], 0, {}
    for i, (ln, m, g) in enumerate(zip(lines, mo, go)):
        mt = m.split(" ")
        cls = "panic" if "panic" in mt else ("error" if ("e1" in mt or mt[-1] == "err") else "clean")
        hist[cls] = hist.get(cls, 0) + 1
        if not m.startswith("badinput"):
            keys.append(ln)
        doc = doc_of(ln)
        why = None
        if "panic" in g.split(" ") or g.startswith("fatal") or g == "timeout":
            why = "C06: the real code panicked / died: " + g[-60:]
        elif "outoffuel" in g and ln.split(" ")[0] in ("trd", "ttrav"):
            why = "C06: traversal did not finish within 4*len+16 steps"
        if why is None and ln.split(" ")[0] in ("trd", "ttrav"):
            sv = sticky_violation(g)
            if sv:
                why = "C07: " + sv
        if why is None and expect is not None and expect[i] is not None and g != expect[i][0]:
            why = "%s: real code answers '%s' but %s predicts '%s'" % (expect[i][1], g[:300], expect[i][2], expect[i][0][:300])
        if why:
            k = classify_doc(doc, g)
            if k is None and expect is not None and expect[i] is not None and c08_class:
                k = c08_class(doc, ln, g)
            ctx.fail("property", component, ln, "real code: %s ; model: %s ; %s" % (g[:400], m[:400], why), k)
        if m != g:
            mism += 1
            if not why:
                ctx.fail("tie", component, ln, "real code: %s ; model: %s ; input %r" % (g[:400], m[:400], doc[:80]))
            else:
                ctx.fail("tie", component, ln, "real code: %s ; model: %s ; input %r" % (g[:400], m[:400], doc[:80]),
                         "model-differs-on-a-property-failure")
    ctx.count(component, len(lines), keys,
              sample=(lines[len(lines) // 2][:200] + " => " + str(mo[len(lines) // 2])[:200]) if lines else None,
              mismatches=mism, model_outcomes=hist)
    return mo, go


def c08_classify(doc, line, go):
    """skipping a clob inside a container (D11) is repaired: no known class is left"""
    return None


def nav_lines(ctx, component, docs, per_doc):
    """full traversal of every doc, then per_doc navigation programs for the docs whose traversal is clean;
    the plain traversal of the real code is the reference for the programs (C08)."""
    rng = ctx.rng
    tl = ["ttrav 0 " + iongen.hx(d) for d in docs]
    mo, go = correspond(ctx, component + "-traverse", tl)
    lines, expect = [], []
    for d, g in zip(docs, go):
        top = parse_trace(g)
        if top is None:
            # still navigate: skip everything, then look at the error
            lines.append("trd 0 %s %s" % (iongen.hx(d), " ".join(["N"] * 6 + ["ER", "N", "ER"])))
            expect.append(None)
            continue
        styles = STYLES if per_doc >= len(STYLES) else rng.sample(STYLES, per_doc)
        for st in styles:
            ops, exp = gen_nav(top, rng, st)
            lines.append("trd 0 %s %s" % (iongen.hx(d), " ".join(ops)))
            expect.append((" ".join(exp), "C08", "the plain traversal of the same document"))
    correspond(ctx, component + "-navigate", lines, expect=expect, c08_class=c08_classify)
    return go


# ---------------------------------------------------------------------------
# generators
# ---------------------------------------------------------------------------
ALPHABET = [b"{", b"}", b"[", b"]", b"(", b")", b'"', b"'", b":", b",", b"/", b"*", b"\\", b" ", b"\n",
            b"0", b"1", b"a", b"e", b"$", b"+", b"-", b".", b"_"]

MALFORMED = [
    b'"abc', b'"abc\n"', b"'abc", b"'''abc", b"'''abc''", b"/* abc", b"/* abc *", b"[1, 2", b"(1 2", b"{a:1", b"{a:1,", b"{{aGk=",
    b"{{aGk=}", b'{{"abc"', b'{{"abc"}', b"{{'''abc'''", b'"\\q"', b'"\\x4"', b'"\\xZZ"', b'"\\u12"', b'"\\U0011"', b"'\\q'",
    b'{{"\\u0041"}}', b'{{"\\U00000041"}}', b"1__0", b"1_", b"_1", b"007", b"-007", b"00", b"0x", b"0x_1", b"0x1_", b"0b2", b"0b",
    b"1e5_0", b"1d5_0", b"1._5", b"1e", b"1d", b"1e+", b"1d-", b"a::", b"[a::]", b"(a::)", b"{a:b::}", b"a::b::", b"{a:}", b"{a}",
    b"{a:1 b:2}", b"{:1}", b"{1:2}", b"{a:1,,b:2}", b"{,}", b"[1,,2]", b"[,1]", b"[,]", b"[1 2]", b"12a", b"1.5x", b"0x1G", b"1a",
    b"2000-13-01", b"2000-13-01T", b"2000-00-01", b"2000-02-30", b"2001-02-29", b"2000-01-32T", b"2000-01-01T24:00Z",
    b"2000-01-01T00:60Z", b"2000-01-01T00:00:60Z", b"2000-01-01T00:00", b"2000-01-01T00:00:00", b"2000-01-01T00:00+24:00",
    b"2000-01-01T00:00+00:60", b"2000-01-01T00:00z", b"2000-01-01T0:00Z", b"2000-1-01", b"0000-01-01", b"0000T", b"2000-01-01T00:00:00.Z",
    b"-2000-01-01", b"2000-01-01T+01:00", b"20000-01-01", b"2000T1", b"2000-01T1", b"]", b")", b"}", b"[)", b"(]", b"{]", b"[}",
    b",", b":", b"::", b"a:b", b"1:2", b"a.b", b".", b"+", b"1 + 2", b"null.foo", b"null.", b"null.1", b"null.int.x", b"null .int",
    b"{{a}}", b"{{a=}}", b"{{aa=a}}", b"{{=}}", b"{{aGk=aGk=}}", b"{{aG k}}", b"{{ // c\n aGk= }}", b'{{"a" "b"}}', b"{{'''a''' // c\n '''b'''}}",
    b"{{'''a''' '''b'''}}", b"{{'a'}}", b"{{''a''}}", b'{{"\xc3\xa9"}}', b"{{'''\xc3\xa9'''}}", b'"\x01"', b"'''\x01'''", b'"a\tb"',
    b"'a\nb'", b'"a\\\nb"', b"'a\\\nb'", b"'''a\\\nb'''", b'"\xff"', b'"\\uD83D\\uDE00"', b'"\\uD800"', b'"\\U00110000"', b'"\\UFFFFFFFF"',
    b"+inf", b"-inf", b"+infx", b"-inf1", b"+inf//c\n", b"+inf/*c*/", b"+inf/", b"+in", b"-", b"- 1", b"-a", b"--1", b"-1", b"-0", b"-0x1",
    b"-0b1", b"1.", b".1", b"1.e1", b"1.d1", b"-0.", b"-0d0", b"0e0", b"-0e0", b"1e400", b"1e-400", b"1e0001", b"1d+01", b"1d99999999999",
    b"1d2147483647", b"1d-2147483648", b"1d2147483648", b"1.5d-2147483648", b"123456789012345678901234567890", b"-9223372036854775808",
    b"9223372036854775808", b"0x7fffffffffffffff", b"0x8000000000000000", b"-0x8000000000000000", b"0xFFFFFFFFFFFFFFFFFF", b"0b" + b"1" * 70,
    b"$0", b"$1", b"$9", b"$10", b"$99", b"'$1'", b"$-1", b"$+1", b"$1_0", b"$01", b"$ion_1_0", b"$ion_1_0 1", b"$99999999999999999999",
    b"$9223372036854775807", b"$9223372036854775808", b"{$1:1}", b"{$99:1}", b'{"$5":1}', b"{'''$6''':1}", b'{"a":1}', b"{'''a''' '''b''':1}",
    b"$4::1", b"$99::1", b"'a'::1", b'"a"::1', b"+::1", b"(+::1)", b"(.::1)", b"(a.b)", b"(a. b)", b"(a .b)", b"(.+)", b"(.)", b"(. )", b"(.a)",
    b"(1.)", b"(1.a)", b"(-a)", b"(-1)", b"(- 1)", b"(a-1)", b"(a/b)", b"(a//b\n)", b"(a/*b*/)", b"(a /)", b"(/)", b"(//)", b"(/*)", b"/", b"//",
    b"/*/", b"/**/", b"/***/", b"/*/ 1", b"1//", b"1/", b"1/2", b"a/", b"a//", b"a/b", b"[1//c\n,2]", b"[1/*c*/,2]", b"{a/*c*/:/*c*/1}",
    b"a/*c*/::/*c*/b", b"a ::b", b"a:: b", b"a : : b", b"null::1", b"true::1", b"nan::1", b"'null'::1", b"{null:1}", b"{true:1}", b"{nan:1}",
    b"{'null':1}", b"nullx", b"null_", b"truex", b"nan.int", b"true.int", b"null.int", b"null.list", b"null.struct", b"null.sexp", b"null.null",
    b"[null.list]", b"{a:null.struct}", b"a::null.int", b"$ion_symbol_table::null.struct 1", b"''", b"'' :: 1", b"{'':1}", b'""', b"''''''",
    b"'''''''", b"''''a'''", b"'''a''''", b"'''a'''''", b"'''a''' 'b'", b"'''a''' '''", b"'''a'''/**/'''b'''", b"'''a'''//\n'''b'''",
    b"'''a''' ''", b"'''a'' '''", b"\r\n1\r2\n\r3", b'"a\rb"', b"'''a\rb\r\nc'''", b'"a\\\r\nb"', b"1\r", b"//c\r2", b"\t1\x0b2", b"1\x0c2", b"\x00", b"1\x002",
    b"\xef\xbb\xbf1", b"\xe0\x01\x00", b"abc\xe9", b"a\x80", b"[[[[[[[[[[", b"]]]]", b"{{{{", b"}}}}", b"((((", b"[(])", b"({)}", b"{a:[}]",
    # the repaired spots: VT/FF as whitespace and stop characters, "/*/", the lone '.', yyyyT / yyyy-mmT stop check
    b"1\x0b", b"\x0ctrue", b"[1\x0b,\x0c2]", b"abc\x0bdef", b"1\x0b//c", b"{a\x0b:\x0c1}", b"a\x0b::\x0cb", b"(a\x0b+\x0cb)", b"null\x0b.int",
    b"2000T\x0b1", b"1.5\x0c", b"0x1\x0b", b"+inf\x0c", b"\x27\x27\x27a\x27\x27\x27\x0b\x27\x27\x27b\x27\x27\x27", b"{{\x0baGk=\x0c}}", b"\x27a\x27\x0b\x27b\x27",
    b"/*/ */ 1", b"/*/", b"/**/ 1", b"/* * / */ 1", b"/*/*/ 1", b"[/*/ */ 1]", b"(/*/ */)", b"1 /*/", b"/*",
    b"(.\t1)", b"(.::true)", b"(.)", b"( . )", b"(.\n)", b"(.\x0b1)", b"(.1)", b"(a.)", b"(..)", b"(.+.)", b"[.]", b".", b". 1", b"null.", b"null.\t",
    b"2000Ta", b"2024T0", b"2000-01T0", b"2000-01Ta", b"2000T ", b"2000T,", b"[2000T]", b"[2000T,1]", b"(2000T)", b"{a:2000-01T}", b"2000T//c", b"2000T/*c*/1",
    b"2000T/", b"2000-01T/1", b"2000T\x27a\x27", b"2000T{", b"2000T::a", b"a::2000T",
]

# the defects repaired in the text reader: dangling annotations, '_' in exponents and fractional seconds, UTF-8, escapes that are
# not scalar values, control characters in quoted symbols, "null. int", string field names "$n", $ion_symbol_table::null.struct
MALFORMED += [
    b"a::", b"[a::]", b"(a::)", b"a::b::", b"[a::,1]", b"{f:a::}", b"a:: ", b"a:://c", b"[a::/*c*/]", b"a::1",
    b"1e5_0", b"1.d-6_5", b"1_0e5", b"1_0.5_0e5", b"1e_5", b"1d_5", b"1e5_", b"1e+5_0", b"1d-5_0", b"-1_0d1_0",
    b"2000-01-01T00:00:00.1_0Z", b"2000-01-01T00:00:00.10Z", b"2000-01-01T00:00:00._1Z", b"2000-01-01T00:00:00.1_Z", b"2000-01-01T00:00:00.1_0+01:00",
    b'"a\xffb"', b"'a\xffb'", b"'''a\xff'''", b"'''\xc3''' '''\xa9'''", b'"\xc3\xa9"', b"'\xc3\xa9'", b"'''\xc3\xa9''' '''\xe6\x97\xa5'''", b'"\xc3"', b'"\xed\xa0\x80"',
    b'"\xf4\x90\x80\x80"', b'"\xc0\xaf"', b'"\xf0\x9f\x98\x80"', b"{'\xff':1}", b'{"\xff":1}', b"'\xff'::1", b"'''a''' '''\xff''' 1", b"'''\xff''' '''a'''",
    b'"\\uD800"', b'"\\U00110000"', b'"\\U0000D800"', b'"\\uD83D\\uDE00"', b"'\\uD83D\\uDE00'", b"'''\\uD83D\\uDE00'''", b'"\\uDE00"', b'"\\uD83Dx"', b'"\\uD83D\\u0041"',
    b'"\\uD83D\\uD83D"', b'"\\uD83D\\\n\\uDE00"', b'"\\uD83D"', b'"\\uD83D\\', b'"\\uD83D\\u', b'"\\uD83D\\uDE0"', b'"\\uDBFF\\uDFFF"', b'"\\UFFFFFFFF"', b'"\\U80000000"',
    b'"\\U0001F600"', b'"\\U0010FFFF"', b'"\\U0000DFFF"', b'"\\uD7FF\\uE000"', b'"\\xD8"', b'{{"\\uD800"}}', b"'''\\uD83D''' '''\\uDE00'''",
    b"'a\x07'", b"'a\tb'", b"'\x00'", b"'a\x1fb'", b"'a\x0bb'", b"{'\x01':1}", b"'\x01'::1", b"'\\x07'",
    b"null. int", b"null.int", b"null./**/int", b"null.//c\nint", b"null.\tint", b"null.\nint", b"null.\x0bint", b"null .int", b"null.1", b"null.'int'", b"null.$x", b"[null. list]",
    b'{"$5":1}', b"{'''$5''':1}", b"{$5:1}", b"{'$5':1}", b'{"name":1}', b'{"$99":1}', b'{"$-1":1}', b"{'''$''' '''5''':1}", b'{"$0":1}', b'$ion_symbol_table::{symbols:["a"]} {"$10":1,"a":2,$10:3}',
    b"$ion_symbol_table::null.struct 1", b"[$ion_symbol_table::null.struct]", b"a::$ion_symbol_table::null.struct", b"$ion_symbol_table::null.list 1", b"$ion_symbol_table::a::null.struct 1",
    b'$ion_symbol_table::{symbols:["a"]} $ion_symbol_table::null.struct $10', b'$ion_symbol_table::{symbols:["a"]} $ion_symbol_table::null.struct a $9',
    b"$ion_symbol_table::null. struct 1", b"$ion_symbol_table::null.struct", b"'$ion_symbol_table'::null.struct 1", b"$3::null.struct 1",
]

SKIP_DOCS = [
    b'[{{"}"}}, 2] 3', b'["]", \'\'\'}\'\'\' ] 1', b"( /* ) */ ) 2", b'{a:"}"} 5', b'[{{"\\""}}, 2] 3', b"[{{'''}'''}}, 2] 3", b"[{{'''a'''}}] 3",
    b'[{{"a"}}] 3', b'[{{ "a" }}] 3', b'({{"]"}}) 3', b'{a:{{"}"}}} 3', b'{a:{{"a"}}} 3', b'[{{"{{"}}] 3', b'[{{"}}"}}] 3', b"[{{aGk=}}] 3",
    b"[{{ aG k= }}] 3", b"[{{}}] 3", b"[{}] 3", b"[{ }] 3", b"[{a:{}}] 3", b"[[],(),{}] 3", b"[// ]\n 1] 3", b"[/* ] */ 1] 3", b"['//', 1] 3",
    b'["/*", 1] 3', b"[']', 1] 3", b"['\\'', ']'] 3", b'["\\"", "]"] 3', b"['''a''' ''']''', 1] 3", b"['''\\'''', ']'] 3", b"['''a'''''] 3",
    b"['''a''' // ]\n '''b'''] 3", b"['''a''' /* ] */ '''b'''] 3", b"(a'''b''') 3", b"(a'b') 3", b'(a"b") 3', b"(a// )\n) 3", b"(+// )\n) 3",
    b"(+/* ) */) 3", b"(a/**/b) 3", b"[1.5, 2e3, 3d4, 0x1f, 0b11, 2000-01-01T] 3", b"[2000-01-01T00:00Z, 2000-01-01T00:00:00.000+01:00] 3",
    b"[a::b::1, 'c'::2] 3", b"{a:b::1, 'c':d::2} 3", b"{a:[1,{b:(2)}]} 3", b"[1, 2, 3,] 3", b"{a:1,} 3", b"[null.list, null.struct, null] 3",
    b"[+inf, -inf, nan] 3", b"(+inf -inf nan) 3", b"(a +inf) 3", b"(- inf) 3", b"[a.b] 3", b"(a.b c) 3", b"({{\"a\"}} b) 3", b"[\"a\\\nb\", 1] 3",
    b"['a\\\nb', 1] 3", b"['''a\\\n''' , 1] 3", b"['''\nab\n''', 1] 3", b"[ \"\\\\\", 1] 3", b"['\\\\', 1] 3", b"[{{'''\\\\'''}}, 1] 3",
    b"[{{\"\\\\\"}}, 1] 3", b"[{{\"\\\\}\"}}, 1] 3", b"1 /* c */ 2 // d\n 3", b"abc/**/def 3", b"'a'/**/'b' 3", b"\"a\"/**/\"b\" 3", b"1/**/2 3",
    b"a::[1,2] b::{c:3} 4", b"a::{{\"x\"}} 3", b"[a::{{\"}\"}}] 3", b"[12a] 3", b"[1 2] 3", b"[1,,2] 3", b"[a:1] 3", b"{a} 3", b"{a:1 b:2} 3", b"(,) 3",
    b"[007] 3", b"[1__0] 3", b"[0x] 3", b"[2000-13-01] 3", b"[\"a\nb\"] 3", b"['a\nb'] 3", b"[\"\\q\"] 3", b"[1e5_0] 3", b"[{{a}}] 3", b"[{{\"\xc3\xa9\"}}] 3",
    b"[\"\x01\"] 3", b"['''\x01'''] 3", b"[$99] 3", b"[a::] 3", b"[null.foo] 3", b"{null:1} 3", b"[null::1] 3", b"[+::1] 3", b"{\"$99\":1} 3",
]

# clobs and deep nesting under the skipper
SKIP_DOCS += [
    b"[{{'''}''' '''}'''}}, 2] 3", b'[{{"a" "b"}}] 3', b"[{{'a'}}] 3", b"[{{ '''a''' // c\n '''b''' }}] 3", b"[{{'''a''' /* c */}}] 3", b'[{{"\\"}"}}, 1] 3', b"[{{'''\\'''}'''}}, 1] 3",
    b'[{{"a\nb"}}] 3', b"[{{'''a\nb'''}}] 3", b'[{{"}}"}}, {{"{{"}}] 3', b"({{'''''' ''''''}}) 3", b'{a:{{"}"}}, b:{{\'\'\'}\'\'\'}}} 3', b'[{{"}"} }] 3', b'[{{"}" }}] 3', b'[{{"}"', b"[{{'''}'''",
    b"[[[[[[[[[[[[[[[[[[[[1]]]]]]]]]]]]]]]]]]]] 3", b"[([{a:[({})]}])] 3", b"[[[[[[[[[[", b"[[[[]]]]] 3", b"[(])] 3", b"[(]) 3", b"{a:[}]} 3", b"[[[((({{{}}})))]]] 3", b"[{{}}] 3", b"[{{{}}}] 3",
]

# blobs whose base64 text contains "//" (inside {{ }} a slash is data, never a comment), skipped inside each container
SKIP_DOCS += [
    b"[{{ /9j//w== }}, 2] 3", b"[{{ //// }}, 2] 3", b"({{ //// }} a) 3", b"{a:{{ /9j//w== }}, b:1} 3", b"[{{////}}] 3", b"[{{ //\n// }}, 2] 3",
    b"[{{ ////\n}}, 2]\n3", b"[[{{ //// }}], 2] 3", b"{a:[{{ +/+/ }}, {{ //8= }}]} 3", b"[{{ //// }}, {{ //// }}] 3", b"[a::{{ //// }}] 3", b"[{{ /w== }}, 2] 3",
]

LST_DOCS = [
    b'$ion_symbol_table::{symbols:["a","b"]} $10 $11 $12', b'$ion_symbol_table::{symbols:["a"]} $ion_symbol_table::{symbols:["b"]} $10 $11',
    b'$ion_symbol_table::{symbols:["a"]} $ion_symbol_table::{imports:$ion_symbol_table,symbols:["b"]} $10 $11 $12',
    b"$ion_symbol_table::{symbols:[\"a\"]} $ion_symbol_table::{imports:'$ion_symbol_table',symbols:[\"b\"]} $10 $11",
    b'$ion_symbol_table::{symbols:["a"]} $ion_symbol_table::{imports:$3,symbols:["b"]} $10 $11 $12',
    b'$ion_symbol_table::{symbols:["a"]} $ion_1_0 $10', b'$ion_symbol_table::{symbols:["a"]} $ion_1_0 a $10 $2',
    b'$ion_symbol_table::{imports:[{name:"x",version:1,max_id:2}],symbols:["a"]} $10 $11 $12 $13',
    b'$ion_symbol_table::{imports:[{name:"x",version:null.int,max_id:2}]} 1', b'$ion_symbol_table::{imports:[{name:null.string,max_id:2}]} 1',
    b"$ion_symbol_table::{imports:null.symbol} 1", b'$ion_symbol_table::{imports:[{name:"x",version:1,max_id:null.int}]} 1',
    b'$ion_symbol_table::{imports:[{name:"x",version:1}]} 1', b'$ion_symbol_table::{imports:[{name:"x",version:1,max_id:-1}]} 1',
    b'$ion_symbol_table::{imports:[{name:"x",version:99999999999,max_id:1}]} 1', b'$ion_symbol_table::{imports:[{name:"x",version:1,max_id:99999999999999999999}]} 1',
    b'$ion_symbol_table::{imports:[{name:"x",version:1,max_id:9223372036854775807}],symbols:["a"]} a $10 $9223372036854775807',
    b'$ion_symbol_table::{imports:[{name:"$ion",version:1,max_id:9}],symbols:["a"]} $10', b'$ion_symbol_table::{imports:[{name:"",max_id:3}],symbols:["a"]} $10',
    b'$ion_symbol_table::{imports:[1, null, {name:"x",max_id:1}, null.struct],symbols:["a"]} $10 $11', b"$ion_symbol_table::{imports:null.list} 1",
    b"$ion_symbol_table::{imports:null} 1", b"$ion_symbol_table::{imports:[]} 1", b"$ion_symbol_table::{imports:abc} 1", b"$ion_symbol_table::{imports:1} 1",
    b'$ion_symbol_table::{symbols:[null,1,"c",null.string,"","c"]} $10 $11 $12 $13 $14 $15 $16 c', b"$ion_symbol_table::{symbols:null.list} 1",
    b"$ion_symbol_table::{symbols:null} $10", b'$ion_symbol_table::{symbols:"a"} $10', b'$ion_symbol_table::{symbols:["a"],symbols:["b"]} $10',
    b"$ion_symbol_table::{imports:[],imports:[]} 1", b'$ion_symbol_table::{symbols:["a"],foo:bar,x:[1,{y:2}]} $10', b"$ion_symbol_table::{} $10 $9",
    b"$ion_symbol_table::{ 1", b"$ion_symbol_table::{symbols:[", b'$ion_symbol_table::{symbols:["a"', b'$ion_symbol_table::{symbols:["a"]', b"$ion_symbol_table::{a:}",
    b'$ion_symbol_table::{symbols:["a" "b"]} 1', b"$ion_symbol_table::{symbols:[1,,]} 1", b'$ion_symbol_table::{imports:[{name:"x" max_id:1}]} 1',
    b'$ion_symbol_table::{$7:["a"]} $10', b'$ion_symbol_table::{\'symbols\':["a"]} $10', b'$ion_symbol_table::{"symbols":["a"]} $10', b'$ion_symbol_table::{$99:1} 1',
    b"'$ion_symbol_table'::{symbols:[\"a\"]} $10", b'$3::{symbols:["a"]} $10', b'a::$ion_symbol_table::{symbols:["a"]} 1', b'$ion_symbol_table::a::{symbols:["a"]} $10',
    b'[$ion_symbol_table::{symbols:["a"]}] 1', b'($ion_symbol_table::{symbols:["a"]}) 1', b'{a:$ion_symbol_table::{symbols:["a"]}} 1',
    b"$ion_symbol_table::[1] 2", b"$ion_symbol_table::1 2", b"$ion_symbol_table::null.struct $10", b"$ion_symbol_table::null 1",
    b'$ion_symbol_table::{symbols:["a"]} {$10:$10::$10} [a::a] a', b'$ion_symbol_table::{symbols:["name","a","a"]} name a $10 $11 $12 $4',
    b'$ion_symbol_table::{symbols:["$5"]} $10 \'$5\' $5', b'$ion_symbol_table::{symbols:["a"]} $ion_symbol_table::{imports:$ion_symbol_table} $10',
    b'$ion_symbol_table::{imports:$ion_symbol_table,symbols:["a"]} $10', b'$ion_symbol_table::{imports:[{name:"x",max_id:2}]} $ion_symbol_table::{imports:$ion_symbol_table,symbols:["a"]} $10 $11 $12',
    b"$ion_symbol_table::{imports:$ion_symbol_table::$ion_symbol_table} 1", b"$ion_symbol_table::{imports:a::$ion_symbol_table} 1",
    b'$ion_symbol_table::{imports:[{name:"x",version:1,max_id:2,name:"y"}],symbols:["a"]} $12', b'$ion_symbol_table::{imports:[{name:a,max_id:2}],symbols:["a"]} $10',
    b'$ion_symbol_table::{imports:[{name:"x",version:"1",max_id:2}],symbols:["a"]} $12', b'$ion_symbol_table::{imports:[{name:"x",version:0x1,max_id:0b10}],symbols:["a"]} $12',
    b'$ion_symbol_table::{imports:[{name:"x",max_id:2.}],symbols:["a"]} $10', b'$ion_symbol_table::{imports:[{name:"x",max_id:18446744073709551615}],symbols:["a"]} $10',
    b'$ion_symbol_table::{imports:[{name:"x",max_id:9223372036854775807},{name:"y",max_id:9223372036854775807}],symbols:["a"]} $10 a $1 $9223372036854775807',
]

# the version marker, the append marker spelled as text, a null symbols list
LST_DOCS += [
    b"$ion_1_0", b"$ion_1_0 $ion_1_0 1", b"1 $ion_1_0 2", b"a::$ion_1_0", b"$ion_1_0::a", b"$ion_1_0 ::a", b"'$ion_1_0'", b"'$ion_1_0' 1", b"[$ion_1_0]", b"($ion_1_0)",
    b"{a:$ion_1_0}", b"$ion_1_1", b"$ion_2_0 1", b"$ion_1_0x", b"$ion_1_0.a", b"$2 1", b"$ion_1_0/*c*/1", b"$ion_1_0//c", b"$ion_1_0\x0b1", b"$ion_1_0,", b"$ion_1_0]",
    b'$ion_symbol_table::{symbols:["a"]} $10 $ion_1_0 $10', b'$ion_symbol_table::{symbols:["a"]} $ion_1_0 $ion_symbol_table::{symbols:["b"]} $10',
    b'$ion_symbol_table::{symbols:["a"]} \'$ion_1_0\' $10', b'$ion_symbol_table::{symbols:["a"]} x::$ion_1_0 $10', b'$ion_symbol_table::{symbols:["a"]} $2 $10',
    b'$ion_symbol_table::{symbols:["a"]} $ion_symbol_table::{imports:$ion_symbol_table,symbols:["b"]} $ion_1_0 $10',
    b'$ion_symbol_table::{symbols:["a"]} $ion_symbol_table::{imports:"$ion_symbol_table",symbols:["b"]} $10 $11',
    b'$ion_symbol_table::{symbols:["a"]} $ion_symbol_table::{imports:\'\'\'$ion_symbol_table\'\'\',symbols:["b"]} $10 $11',
    b'$ion_symbol_table::{symbols:["a"]} $ion_symbol_table::{imports:x::\'$ion_symbol_table\',symbols:["b"]} $10 $11',
    b'$ion_symbol_table::{symbols:["a"]} $ion_symbol_table::{imports:\'$ion_symbol_tabl\',symbols:["b"]} $10 $11',
    b'$ion_symbol_table::{symbols:["a"]} $ion_symbol_table::{imports:[$ion_symbol_table],symbols:["b"]} $10 $11',
    b'$ion_symbol_table::{symbols:["$ion_symbol_table"]} $ion_symbol_table::{imports:$10,symbols:["b"]} $10 $11',
    b"$ion_symbol_table::{symbols:null.list} 1 $10", b"$ion_symbol_table::{symbols:null.list,imports:null.list} $9 $10", b'$ion_symbol_table::{symbols:null.list,symbols:["a"]} $10',
    b'$ion_symbol_table::{symbols:["a"]} $ion_symbol_table::{imports:$ion_symbol_table,symbols:null.list} $10 $11',
    b"$ion_symbol_table::{symbols:null.sexp} 1", b"$ion_symbol_table::{symbols:null.string} 1", b"$ion_symbol_table::{symbols:()} 1", b"$ion_symbol_table::{symbols:{}} 1",
]

VALID_SMALL = [b"[1, 2.5, 'a b']", b'{a:"x\\n", b:{{aGk=}}}', b"a::(b '''c''' 1e0)", b"2000-01-01T12:34:56.789Z null.int", b'{{"cl\\x41ob"}} $ion_1_0 $4',
               b'$ion_symbol_table::{symbols:["s"]} $10', b"/*c*/ 1 //d\n 'q'::[+inf]", b"(a.b + -c) 0x1F -0b1_0 1_000"]


def gen_docs_forests(ctx, n):
    rng = ctx.rng
    docs, forests = [], []
    for i in range(n):
        f = iongen.gen_forest(rng, {"depth": 3})
        pretty = i % 2 == 1
        docs.append(forest_text(f, rng, pretty))
        forests.append(f)
    return docs, forests


def run(ctx):
    rng = ctx.rng
    hx = iongen.hx

    # ---- finite tables, exhaustive -------------------------------------------------------------
    lines = ["tcls %d" % c for c in range(-2, 258)]
    for clob in (0, 1):
        for c in range(256):
            lines.append("tesc %d %s" % (clob, hx(bytes([c]) + b"0041F6a9")))
        for tail in (b"", b"x", b"x4", b"x4g", b"u004", b"u00e9", b"uD83D", b"uFFFF", b"U0001F600", b"U0011000", b"U00110000", b"UFFFFFFFF",
                     b"U7FFFFFFF", b"U80000000", b"xff", b"xFF", b"x00", b"u0000", b"\n", b"\r\n", b"\r"):
            lines.append("tesc %d %s" % (clob, hx(tail)))
    ctx.correspond("K5-text-tables", lines, nontrivial=lambda ln, m: not m.startswith("badinput"))
    # ParseDecimal / ParseTimestamp stand-ins of the model on literals (Text/TextNum.v)
    lits = [b"0", b"-0", b"1.5", b"-1.50", b"1d5", b"1D-5", b"1.5d+3", b"-0d0", b"-0.0", b"1d", b"1d+", b"1d2147483647", b"1d2147483648", b"1d-2147483648",
            b"1.5d-2147483648", b"1.55d-2147483647", b"d1", b".5", b"1.", b"1.d1", b"-", b"", b"+1", b"1_0", b"1d1_0", b"00.10", b"1d+05", b"1d-05", b"1dd", b"1.2.3"]
    lines = ["tdec " + hx(x) for x in lits]
    tss = [b"2000T", b"0001T", b"0000T", b"2000-01T", b"2000-13T", b"2000-00T", b"2000-01-01", b"2000-01-01T", b"2000-02-29", b"2001-02-29", b"1900-02-29",
           b"2000-04-31", b"2000-01-01T00:00Z", b"2000-01-01T23:59Z", b"2000-01-01T24:00Z", b"2000-01-01T00:60Z", b"2000-01-01T00:00z", b"2000-01-01T00:00+00:00",
           b"2000-01-01T00:00-00:00", b"2000-01-01T00:00+01:00", b"2000-01-01T00:00-23:59", b"2000-01-01T00:00+24:00", b"2000-01-01T00:00+00:60",
           b"2000-01-01T+01:00", b"2000-01-01T00:00:00Z", b"2000-01-01T00:00:59Z", b"2000-01-01T00:00:60Z", b"2000-01-01T00:00:00.Z", b"2000-01-01T00:00:00.0Z",
           b"2000-01-01T00:00:00.123Z", b"2000-01-01T00:00:00.12345678Z", b"2000-01-01T00:00:00.123456789Z", b"2000-01-01T00:00:00.1234567891Z",
           b"2000-01-01T00:00:00.1234567896Z", b"2000-01-01T00:00:09.9999999996Z", b"2000-01-01T00:00:59.9999999996Z", b"2000-12-31T23:59:59.9999999999Z",
           b"9999-12-31T23:59:59.9999999999Z", b"2000-01-01T00:00:19.9999999996+01:00", b"2000-01-01T00:00:00.000000000000001Z", b"2000-01-01T00:00:00.123-00:00",
           b"9999-12-31T23:59:59.999999999-23:59", b"0001-01-01T00:00:00.0+23:59", b"0001-01-01T00:00+00:01"]
    lines += ["tts " + hx(x) for x in tss]
    ctx.correspond("K5-text-literals", lines, nontrivial=lambda ln, m: not m.startswith("badinput"))

    # ---- (a) rendered forests -------------------------------------------------------------------
    docs, forests = gen_docs_forests(ctx, ctx.scale(500, 6000))
    go = nav_lines(ctx, "K5-text-forests", docs, ctx.scale(10, 10))
    n_ok = 0
    for d, f, g in zip(docs, forests, go):
        e = iongen.expected_trace(f)
        if iongen.project_trace(g) != e:
            ctx.fail("property", "C02-forest-oracle", "ttrav 0 " + hx(d),
                     "C02: real code reads '%s' but the document denotes '%s' ; input %r" % (iongen.project_trace(g)[:300], e[:300], d[:120]),
                     classify_c02(d, f))
        else:
            n_ok += 1
    ctx.count("C02-forest-oracle", len(docs), [], agree=n_ok)
    # bare tokenizer on the same documents
    lines = ["ttok " + hx(d) for d in docs[:ctx.scale(120, 2000)]] + ["ttokv " + hx(d) for d in docs[:ctx.scale(120, 2000)]]
    correspond(ctx, "K5-text-forests-tokens", lines)

    # ---- (b) malformed catalogue and truncations ------------------------------------------------------
    mdocs = list(MALFORMED)
    for v in VALID_SMALL:
        for i in range(len(v) + 1):
            mdocs.append(v[:i])
    mdocs = list(dict.fromkeys(mdocs))
    nav_lines(ctx, "K5-text-malformed", mdocs, ctx.scale(3, 10))
    lines = ["ttok " + hx(d) for d in mdocs] + ["ttokv " + hx(d) for d in mdocs]
    correspond(ctx, "K5-text-malformed-tokens", lines)

    # ---- (c) all short strings over the active alphabet ---------------------------------------------------
    strs = [b"".join(c) for n in (1, 2) for c in itertools.product(ALPHABET, repeat=n)]
    s3 = [b"".join(c) for c in itertools.product(ALPHABET, repeat=3)]
    if ctx.thorough():
        strs += s3
    else:
        strs += rng.sample(s3, 3000)
    sdocs = []
    for x in strs:
        sdocs += [x, b"[" + x + b"]", b"{a:" + x + b"}", b"(" + x + b")", x + b" 1", b"1 " + x]
    lines = ["ttrav 0 " + hx(d) for d in sdocs]
    # skip-only navigation of the same documents
    lines += ["trd 0 %s N N N N ER N ER" % hx(d) for d in sdocs]
    lines += ["trd 0 %s N SI N N SO N ER" % hx(d) for d in sdocs[1::6]]
    lines += ["ttok " + hx(d) for d in strs] + ["ttokv " + hx(d) for d in strs]
    correspond(ctx, "K5-text-short", lines)

    # ---- (d) skipping-specific documents -----------------------------------------------------------------------
    nav_lines(ctx, "K5-text-skip", SKIP_DOCS, 10)
    # ---- symbol tables ---------------------------------------------------------------------------------------------
    nav_lines(ctx, "K5-text-lst", LST_DOCS, ctx.scale(6, 10))
    # the accessors that dereference (D02) and refused calls on every document kind
    api = []
    for d in [b"null.int", b"null.int 1", b"[null.int]", b"a::null.int", b"null.bool", b"null.string", b"null.symbol", b"null.list", b"1", b"99999999999",
              b"99999999999999999999", b"-99999999999999999999", b"2147483648", b"-2147483649", b"1.0", b"a", b"[]"]:
        for ops in ("N IV", "N I6", "N BI", "N SZ", "N BO", "N ST", "N SY", "N BY", "N FL", "N DE", "N TS", "N SI N SO", "N SO", "IV", "N N IV", "N SI N IV"):
            api.append("trd 0 %s %s ER N ER" % (hx(d), ops))
    correspond(ctx, "K5-text-api", api)

    # ---- a failing io.Reader ---------------------------------------------------------------------------------------------
    idocs = [b"", b"1", b"1 ", b"0x", b"0x1", b"0b", b"-0x", b"[1,2]", b"[1,2] ", b"abc", b"abc ", b'"abc"', b"'''a'''", b"{{aGk=}}", b"{a:1}", b"a::b", b"a::",
             b"1\r", b"//c", b"/*c*/", b"null", b"null.", b"null.int", b"+inf", b"+in", b"2000-01-01T", b"2000T", b"1.5", b"1e5", b"'a'", b"(a+b)", b"[[", b"$1"]
    idocs += [v[:i] for v in VALID_SMALL[:4] for i in range(0, len(v) + 1, 3)]
    lines = ["ttrav 1 " + hx(d) for d in idocs] + ["trd 1 %s N N N ER N ER" % hx(d) for d in idocs] + \
            ["trd 1 %s N SI N N SO N ER" % hx(d) for d in idocs]
    correspond(ctx, "K5-text-ioerr", lines)


def classify_c02(doc, forest):
    return None


def classify_case(line, model_out, go_out):
    return classify_doc(doc_of(line), go_out)


def oracle(line, go_out):
    if "panic" in go_out.split(" "):
        return "C06: the real code panicked"
    return sticky_violation(go_out)
