"""C09 — symbol tables assign and resolve symbol IDs as the Ion rules prescribe."""
import itertools

from vlib import *

THEOREMS = [
    "C09_wf_new", "C09_new_fields", "C09_wf_builder", "C09_builder_fields", "C09_effective_imports",
    "C09_wf_shared_new", "C09_system_symbols", "C09_adjust", "C09_adjust_max", "C09_adjust_wf",
    "C09_text_inside_slots", "C09_slots_import", "C09_slots_cover", "C09_slots_order", "C09_slots_local",
    "C09_slots_above", "C09_max_id", "C09_find_lowest", "C09_find_complete", "C09_find_empty",
    "C09_builder_find_empty", "C09_reject", "C09_token_by_sid", "C09_token_by_text", "C09_builder_existing",
    "C09_builder_new", "C09_builder_stable", "C09_builder_stable_names", "C09_builder_locals",
    "C09_builder_history_split", "C09_max_id_overflow_refuted", "C09_find_lowest_overflow_refuted",
    "C09_find_lowest_empty_refuted", "C09_find_complete_empty_refuted",
    "C09_symbol_identifier", "C09_symbol_identifier_other", "C09_symbol_identifier_beyond",
    "C09_auto_token_sid", "C09_auto_token_out_of_range", "C09_auto_token_text",
]

U64 = 1 << 64
I63 = 1 << 63
SYSTEM = [b"$ion", b"$ion_1_0", b"$ion_symbol_table", b"name", b"version", b"imports", b"symbols", b"max_id",
          b"$ion_shared_symbol_table"]

K_EMPTY = "empty-text-not-indexed"
K_OVER = "import-maxid-sum-overflows-uint64"
K_I64 = "sid-above-int64-wraps-negative"


def hx(b):
    return "x" + bytes(b).hex()


def unhx(t):
    if not t.startswith("x"):
        raise ValueError(t)
    return bytes.fromhex(t[1:])


# ---------------------------------------------------------------------------
# request syntax (rendering and parsing)
# ---------------------------------------------------------------------------
def desc_S(name, ver, syms, adj=()):
    return ["S", hx(name), str(ver), str(len(syms))] + [hx(x) for x in syms] + [str(len(adj))] + [str(m) for m in adj]


def desc_B(name, ver, maxid, adj=()):
    return ["B", hx(name), str(ver), str(maxid), str(len(adj))] + [str(m) for m in adj]


def pq(probes, ids):
    return ["P", str(len(probes))] + [hx(p) for p in probes] + ["Q", str(len(ids))] + [str(i) for i in ids]


class Cur:
    def __init__(self, toks):
        self.t = toks
        self.i = 0

    def peek(self):
        return self.t[self.i] if self.i < len(self.t) else None

    def next(self):
        v = self.t[self.i]
        self.i += 1
        return v

    def lit(self, s):
        if self.next() != s:
            raise ValueError("expected " + s)

    def num(self):
        return int(self.next())

    def xs(self):
        n = self.num()
        return [unhx(self.next()) for _ in range(n)]

    def nums(self):
        n = self.num()
        return [self.num() for _ in range(n)]

    def done(self):
        return self.i == len(self.t)


# ---------------------------------------------------------------------------
# the Ion rules, independently: a shared table seen through an import is a row
# of max_id slots, slot j carrying the j-th declared symbol or undefined text
# ---------------------------------------------------------------------------
class Shared:
    """name, version, max_id, texts (list of bytes/None, len <= max_id; slots beyond are undefined)"""

    def __init__(self, name, ver, maxid, texts):
        self.name, self.ver, self.maxid, self.texts = name, ver, maxid, texts

    def adjusted(self, m):
        # an import with max_id m sees exactly the first m slots; missing ones have undefined text
        return Shared(self.name, self.ver, m, self.texts[:m] if m < len(self.texts) else list(self.texts))

    def slot(self, j):
        if 1 <= j <= self.maxid and j <= len(self.texts):
            return self.texts[j - 1]
        return None

    def lowest(self, t):
        for j, x in enumerate(self.texts):
            if x == t:
                return j + 1
        return None


def parse_shared(c):
    k = c.next()
    if k == "S":
        name = unhx(c.next())
        ver = c.num()
        syms = c.xs()
        sh = Shared(name, ver, len(syms), list(syms))
    elif k == "B":
        name = unhx(c.next())
        ver = c.num()
        sh = Shared(name, ver, c.num(), [])
    else:
        raise ValueError(k)
    for m in c.nums():
        sh = sh.adjusted(m)
    return sh


def parse_shareds(c):
    out = []
    while c.peek() in ("S", "B"):
        out.append(parse_shared(c))
    return out


class Space:
    """The symbol-ID space of a local table: system slots, import slots, local slots."""

    def __init__(self, imports):
        if imports and imports[0].name == b"$ion":
            # ion-go's documented substitution rule: a leading import named $ion IS the system table
            self.imports = list(imports)
        else:
            self.imports = [Shared(b"$ion", 1, 9, list(SYSTEM))] + list(imports)
        self.bases = []
        tot = 0
        for i in self.imports:
            self.bases.append(tot)
            tot += i.maxid
        self.import_total = tot
        self.locals = []

    def total(self):
        return self.import_total + len(self.locals)

    def text_of(self, sid):
        """text of slot sid, None if undefined text / no such slot"""
        if sid < 1 or sid > self.total():
            return None
        if sid > self.import_total:
            return self.locals[sid - self.import_total - 1]
        for imp, base in zip(self.imports, self.bases):
            if base < sid <= base + imp.maxid:
                return imp.slot(sid - base)
        return None

    def lowest(self, t):
        """lowest SID whose slot carries text t"""
        for imp, base in zip(self.imports, self.bases):
            j = imp.lowest(t)
            if j is not None:
                return base + j
        for j, x in enumerate(self.locals):
            if x == t:
                return self.import_total + j + 1
        return None


SPEC_IDENT = None


def spec_identifier(t):
    """$<digits> per the Ion text grammar; returns sid or None"""
    if len(t) > 1 and t[:1] == b"$" and all(48 <= ch <= 57 for ch in t[1:]):
        return int(t[1:])
    return None


# ---------------------------------------------------------------------------
# parsing the answers
# ---------------------------------------------------------------------------
def parse_tok2(c):
    a, b = c.next(), c.next()
    return (a, int(b))


def parse_dump(c):
    d = {}
    c.lit("M")
    d["max"] = c.num()
    c.lit("I")
    n = c.num()
    d["imports"] = [(unhx(c.next()), c.num(), c.num()) for _ in range(n)]
    c.lit("Y")
    d["symbols"] = c.xs()
    d["t"] = []
    while c.peek() == "t":
        c.next()
        txt = unhx(c.next())
        fbn = c.next()
        find = c.next()
        sid = c.next()
        auto = parse_tok2(c)
        d["t"].append((txt, fbn, find, sid, auto))
    d["d"] = []
    while c.peek() == "d":
        c.next()
        i = c.num()
        fbi = c.next()
        tk = parse_tok2(c)
        d["d"].append((i, fbi, tk))
    return d


def ox(t):
    return "n" if t is None else hx(t)


def judge_dump(sp, d, fails, what):
    """compare one dumped table with the ID space sp; appends (class-or-None, message)"""
    tot = sp.total()
    over = tot >= U64
    K = K_OVER if over else None

    def bad(k, msg):
        fails.append((k, "%s: %s" % (what, msg)))

    if d["max"] != tot:
        bad(K, "MaxID %d, the slots sum to %d" % (d["max"], tot))
    exp_imps = [(i.name, i.ver, i.maxid) for i in sp.imports]
    if d["imports"] != exp_imps:
        bad(None, "Imports() %r, expected %r" % (d["imports"], exp_imps))
    if d["symbols"] != sp.locals:
        bad(None, "Symbols() %r, expected %r" % (d["symbols"], sp.locals))
    for (txt, fbn, find, sid, auto) in d["t"]:
        low = sp.lowest(txt)
        ke = K_EMPTY if txt == b"" else K
        exp = "n" if low is None else str(low)
        if fbn != exp:
            bad(ke, "FindByName(%s) = %s, lowest id carrying the text is %s" % (hx(txt), fbn, exp))
        elif low is not None and not over:
            # looking that id up returns the text: judged on the FindByID answers below when probed
            pass
        expf = "n" if low is None else hx(txt)
        if find != expf:
            bad(ke, "Find(%s) = %s, expected %s" % (hx(txt), find, expf))
        exps = "-1" if low is None else str(low)
        # a SID of 2^63 or more has no int64 LocalSID: whatever the code answers is wrong
        k64 = K_I64 if (low is not None and low >= I63 and ke is None) else ke
        if sid != exps:
            bad(k64, "NewSymbolToken(%s).LocalSID = %s, expected %s" % (hx(txt), sid, exps))
        # newSymbolToken: $n goes by id, everything else by text
        n = spec_identifier(txt)
        if n is not None:
            # an ID of 2^63 or more has no int64 LocalSID: it is undefined like any ID above MaxID
            expa = ("e", 0) if (n > tot or n >= I63) else (ox(sp.text_of(n)), n)
            if auto != expa:
                bad(K, "newSymbolToken(%s) = %s, expected %s" % (hx(txt), auto, expa))
        else:
            expa = (hx(txt), -1 if low is None else low)
            if auto != expa:
                bad(k64, "newSymbolToken(%s) = %s, expected %s" % (hx(txt), auto, expa))
    for (i, fbi, tk) in d["d"]:
        if 0 <= i < U64:
            exp = ox(sp.text_of(i))
            if fbi != exp:
                bad(K, "FindByID(%d) = %s, expected %s" % (i, fbi, exp))
        if -I63 <= i < I63:
            if i < 0 or i > tot:
                expk = ("e", 0)
            else:
                expk = (ox(sp.text_of(i)), i)
            if tk != expk:
                bad(K, "NewSymbolTokenBySID(%d) = %s, expected %s" % (i, tk, expk))


def shared_dump_expect(sh):
    c = min(sh.maxid, 16)
    return [hx(sh.name), str(sh.ver), str(sh.maxid), str(c)] + [ox(sh.slot(j)) for j in range(1, c + 1)]


def judge(line, go):
    """list of (known-class or None, message): how the real code's answer departs from the Ion rules"""
    fails = []
    t = line.split(" ")
    cmd = t[0]
    g = go.split(" ")
    if g[0] in ("panic", "fatal", "timeout", "badinput", "harnesserror"):
        return [(None, "real code: " + go)]
    c = Cur(t[1:])
    if cmd == "symident":
        txt = unhx(c.next())
        n = spec_identifier(txt)
        # $<digits> and nothing else; a number that does not fit the int64 result is "not an identifier"
        # (newSymbolToken then rejects the text, the writers quote it)
        exp = "ok -1 0" if (n is None or n >= I63) else "ok %d 1" % n
        if go != exp:
            fails.append((None, "symbolIdentifier(%s) = %s, the Ion grammar gives %s" % (hx(txt), go, exp)))
        return fails
    if cmd == "sst":
        sh = parse_shared(c)
        c.lit("P")
        probes = c.xs()
        c.lit("Q")
        ids = c.nums()
        r = Cur(g[1:])
        if (unhx(r.next()), r.num()) != (sh.name, sh.ver):
            fails.append((None, "name/version changed"))
        r.lit("M")
        m = r.num()
        if m != sh.maxid:
            fails.append((None, "MaxID %d, expected %d" % (m, sh.maxid)))
        r.lit("Y")
        if r.peek() == "-":
            r.next()
        else:
            syms = r.xs()
            exp = [sh.slot(j) or b"" for j in range(1, sh.maxid + 1)]
            # Symbols() of a placeholder for a missing table is not an Ion matter (ion-go returns nil)
            if syms != exp and t[1] != "B":
                fails.append((None, "Symbols() %r, expected %r" % (syms, exp)))
        for p in probes:
            r.lit("t")
            r.next()
            fbn, find = r.next(), r.next()
            low = sh.lowest(p)
            ke = K_EMPTY if p == b"" else None
            if fbn != ("n" if low is None else str(low)):
                fails.append((ke, "sst.FindByName(%s) = %s, lowest is %s" % (hx(p), fbn, low)))
            if find != ("n" if low is None else hx(p)):
                fails.append((ke, "sst.Find(%s) = %s" % (hx(p), find)))
        for i in ids:
            r.lit("d")
            r.next()
            fbi = r.next()
            if 0 <= i < U64 and fbi != ox(sh.slot(i)):
                fails.append((None, "sst.FindByID(%d) = %s, expected %s" % (i, fbi, ox(sh.slot(i)))))
        return fails
    if cmd == "catalog":
        cat = parse_shareds(c)
        k = c.next()
        if k == "E":
            name, ver = unhx(c.next()), c.num()
            cands = [s for s in cat if s.name == name and s.ver == ver]
        elif k == "T":
            name = unhx(c.next())
            vs = [s.ver for s in cat if s.name == name]
            cands = [s for s in cat if s.name == name and s.ver == max(vs)]
        else:
            name, ver, m = unhx(c.next()), c.num(), c.num()
            if name in (b"", b"$ion"):
                cands = []
            else:
                ver = max(ver, 1)
                ex = [s for s in cat if s.name == name and s.ver == ver]
                if not ex:
                    vs = [s.ver for s in cat if s.name == name]
                    ex = [s for s in cat if s.name == name and s.ver == max(vs)]
                if m < 0:
                    ex2 = [s for s in ex if s.ver == ver]
                    if not ex2:
                        if go != "err":
                            fails.append((None, "import without max_id and without an exact match must fail, got " + go))
                        return fails
                    cands = ex2
                elif ex:
                    cands = [s.adjusted(m) for s in ex]
                else:
                    cands = [Shared(name, ver, m, [])]
        exps = ["ok " + " ".join(shared_dump_expect(s)) for s in cands] or ["ok n"]
        if go not in exps:
            fails.append((None, "catalog answer %s, expected one of %r" % (go, exps)))
        return fails
    if cmd == "lst":
        imps = parse_shareds(c)
        c.lit("L")
        sp = Space(imps)
        sp.locals = c.xs()
        r = Cur(g[1:])
        judge_dump(sp, parse_dump(r), fails, "lst")
        return fails
    if cmd == "builder":
        imps = parse_shareds(c)
        c.lit("A")
        a1 = c.xs()
        c.lit("A")
        a2 = c.xs()
        sp = Space(imps)
        r = Cur(g[1:])
        built = None
        for phase, adds in (("a", a1), ("b", a2)):
            if phase == "b":
                built = Space(imps)
                built.locals = list(sp.locals)
            for x in adds:
                r.lit(phase)
                gid, gadded = r.num(), r.next() == "1"
                low = sp.lowest(x)
                over = sp.total() + 1 >= U64
                exp = (low, False) if low is not None else (sp.total() + 1, True)
                if (gid, gadded) != exp:
                    k = K_OVER if over else (K_EMPTY if x == b"" else None)
                    fails.append((k, "Add(%s) = %r, expected %r" % (hx(x), (gid, gadded), exp)))
                    # "" is where ion-go is known to differ: keep following the real table
                    if x == b"" and gadded:
                        sp.locals.append(x)
                    elif x != b"" and low is None:
                        sp.locals.append(x)
                elif gadded:
                    sp.locals.append(x)
        judge_dump(built, parse_dump(r), fails, "Build()")
        r.lit("Z")
        judge_dump(sp, parse_dump(r), fails, "builder")
        return fails
    return []


def oracle(line, go):
    try:
        f = judge(line, go)
    except Exception as e:  # an answer that cannot even be parsed
        return "unparsable answer (%s): %s" % (e, go[:200])
    for k, msg in f:
        if k is None:
            return msg
    return f[0][1] if f else None


def classify_case(line, m, g):
    try:
        f = judge(line, g)
    except Exception:
        return None
    if f and all(k for k, _ in f):
        return f[0][0]
    return None


# ---------------------------------------------------------------------------
# generators
# ---------------------------------------------------------------------------
PROBES = [b"", b"a", b"b", b"name", b"$ion", b"c", b"$10", b"$0", b"$+4", b"$-1", b"$99", b"$9223372036854775808"]


def lists_upto(alpha, n):
    out = []
    for k in range(n + 1):
        out += [list(p) for p in itertools.product(alpha, repeat=k)]
    return out


def ids_for(descs_tot):
    return list(range(0, descs_tot + 3))


def tot_of(descs, nlocals):
    """ids to probe: computed from the request, on the spec side"""
    c = Cur([x for d in descs for x in d])
    sp = Space(parse_shareds(c))
    return sp.total() + nlocals


def lst_line(descs, locs, probes=PROBES, ids=None):
    if ids is None:
        ids = list(range(0, tot_of(descs, len(locs)) + 3)) + [-1]
    return " ".join(["lst"] + [x for d in descs for x in d] + ["L", str(len(locs))] + [hx(x) for x in locs] + pq(probes, ids))


def builder_line(descs, a1, a2, probes=PROBES, ids=None):
    if ids is None:
        ids = list(range(0, tot_of(descs, len(a1) + len(a2)) + 3))
    return " ".join(["builder"] + [x for d in descs for x in d] + ["A", str(len(a1))] + [hx(x) for x in a1] +
                    ["A", str(len(a2))] + [hx(x) for x in a2] + pq(probes, ids))


def gen_exhaustive_lst(ctx):
    lines = []
    A3 = [b"", b"a", b"b"]
    # E1: one import, symbol lists over {"",a,b} of size 0..3, no Adjust or max_id 0..5,
    #     locals over {"",a,b,name} of size 0..2
    loc2 = lists_upto([b"", b"a", b"b", b"name"], 2)
    for syms in lists_upto(A3, 3):
        for adj in [()] + [(m,) for m in range(6)]:
            for locs in loc2:
                lines.append(lst_line([desc_S(b"x", 1, syms, adj)], locs))
    for m in range(6):
        for locs in loc2:
            lines.append(lst_line([desc_B(b"x", 1, m)], locs))
    # no import at all
    for locs in lists_upto([b"", b"a", b"b", b"name"], 3):
        lines.append(lst_line([], locs))
    # E2: two imports, each from: lists over {"",a,b} of size 0..2 with no Adjust / max_id 0..3, or bogus 0..2;
    #     locals over {"",a,b} of size 0..1
    one = []
    for syms in lists_upto(A3, 2):
        for adj in [()] + [(m,) for m in range(4)]:
            one.append(("S", syms, adj))
    for m in range(3):
        one.append(("B", m))
    step2 = ctx.scale(3, 1)

    def mk(d, name):
        return desc_S(name, 1, d[1], d[2]) if d[0] == "S" else desc_B(name, 1, d[1])
    k = 0
    for d1 in one:
        for d2 in one:
            for locs in lists_upto(A3, 1):
                k += 1
                if k % step2 == 0:
                    lines.append(lst_line([mk(d1, b"x"), mk(d2, b"y")], locs))
    # E3: three imports from a set of 17, locals from 3 lists
    small = []
    for syms in ([], [b"a"], [b"a", b"b"], [b"b", b"a"], [b"a", b"a"]):
        for m in (0, 1, 3):
            small.append(("S", syms, (m,)))
    small += [("B", 0), ("B", 2)]
    step3 = ctx.scale(4, 1)
    k = 0
    for d1 in small:
        for d2 in small:
            for d3 in small:
                for locs in ([], [b"a"], [b"b", b"a"]):
                    k += 1
                    if k % step3 == 0:
                        lines.append(lst_line([mk(d1, b"x"), mk(d2, b"y"), mk(d3, b"z")], locs))
    # E4: Adjust after Adjust
    for syms in lists_upto([b"a", b"b"], 3):
        for m1 in range(5):
            for m2 in range(5):
                lines.append(lst_line([desc_S(b"x", 1, syms, (m1, m2))], [b"b"]))
    # E5: a user-supplied $ion table, first or not first
    for syms in ([], [b"q"], [b"q", b"name"], list(SYSTEM)):
        for adj in ((), (0,), (1,), (12,)):
            for locs in ([], [b"a"], [b"q", b"$ion"]):
                lines.append(lst_line([desc_S(b"$ion", 1, syms, adj)], locs))
                lines.append(lst_line([desc_S(b"x", 1, [b"a"], ()), desc_S(b"$ion", 2, syms, adj)], locs))
                lines.append(lst_line([desc_B(b"$ion", 1, 3), desc_S(b"x", 1, syms, adj)], locs))
    return lines


BIG = [0, 1, 2, 9, 10, (1 << 31) - 1, 1 << 31, 1 << 32, I63 - 10, I63 - 1, I63, I63 + 1, U64 - 19, U64 - 10, U64 - 9, U64 - 1]


def gen_random_lst(ctx, n):
    rng = ctx.rng
    pool = [b"", b"a", b"b", b"c", b"name", b"$ion", b"symbols", b"max_id", b"zz", b"\xff\x00", b"$3", b"long_symbol_text_1"]
    lines = []
    for _ in range(n):
        descs = []
        big = rng.random() < 0.3
        for i in range(rng.choice([0, 1, 1, 2, 2, 3, 4, 6])):
            ln = rng.choice([0, 1, 2, 3, 5, 8, 20, 40])
            nm = rng.choice([b"x", b"y", b"tbl", b"", b"$ion"]) if rng.random() < 0.9 else b"x"
            adj = []
            for _ in range(rng.choice([0, 1, 1, 2])):
                adj.append(rng.choice([0, 1, max(ln - 1, 0), ln, ln + 1, ln + 7, rng.randint(0, 45)] + (BIG if big else [])))
            if rng.random() < 0.8:
                descs.append(desc_S(nm, rng.randint(-1, 3), [rng.choice(pool) for _ in range(ln)], adj))
            else:
                descs.append(desc_B(nm, rng.randint(1, 3), rng.choice([0, 1, 5, 40] + (BIG if big else [])), adj))
        locs = [rng.choice(pool) for _ in range(rng.choice([0, 1, 3, 10, 40]))]
        c = Cur([x for d in descs for x in d])
        sp = Space(parse_shareds(c))
        sp.locals = locs
        tot = sp.total()
        ids = {0, 1, 9, 10, -1, -2, I63 - 1, I63, -I63, U64 - 1, U64, U64 + 5, tot % U64, (tot % U64) + 1}
        for b in sp.bases + [sp.import_total, tot]:
            for d in (-1, 0, 1, 2):
                ids.add(b + d)
                ids.add((b + d) % U64)
        if tot < 200:
            ids |= set(range(0, tot + 3))
        else:
            for _ in range(20):
                ids.add(rng.randint(0, min(tot, U64 - 1)))
        probes = pool + [b"$%d" % rng.choice(sorted(i for i in ids if i >= 0)), b"$+1", b"nope"]
        lines.append(lst_line(descs, locs, probes, sorted(ids)))
    return lines


def gen_builder(ctx):
    lines = []
    T4 = [b"", b"a", b"b", b"name"]
    cfgs = [
        [],
        [desc_S(b"x", 1, [b"a"], ())],
        [desc_S(b"x", 1, [b"b", b""], (3,))],
        [desc_B(b"x", 1, 2)],
        [desc_S(b"x", 1, [b"a", b"b"], (1,)), desc_S(b"y", 2, [b"b"], ())],
    ]
    for cfg in cfgs:
        for seq in lists_upto(T4, 4):
            for k in range(len(seq) + 1):
                lines.append(builder_line(cfg, seq[:k], seq[k:], probes=T4 + [b"c", b"$10"]))
    rng = ctx.rng
    pool = [b"", b"a", b"b", b"c", b"d", b"name", b"$ion", b"e", b"f", b"$12"]
    for _ in range(ctx.scale(400, 8000)):
        descs = []
        for i in range(rng.choice([0, 1, 2, 3])):
            ln = rng.choice([0, 1, 3, 8])
            adj = [rng.choice([0, 1, ln, ln + 2, rng.randint(0, 12)])] if rng.random() < 0.6 else []
            if rng.random() < 0.15:
                adj = [rng.choice(BIG)]
            descs.append(desc_S(rng.choice([b"x", b"y"]), 1, [rng.choice(pool) for _ in range(ln)], adj)
                         if rng.random() < 0.85 else desc_B(b"m", 1, rng.choice([0, 3] + BIG[:5])))
        seq = [rng.choice(pool) for _ in range(rng.randint(0, 40))]
        k = rng.randint(0, len(seq))
        tot = tot_of(descs, len(seq))
        ids = list(range(0, tot + 3)) if tot < 150 else sorted({0, 1, 9, 10, tot % U64, (tot + 1) % U64, tot - len(seq), I63, U64 - 1})
        lines.append(builder_line(descs, seq[:k], seq[k:], pool + [b"nope"], ids))
    return lines


def gen_sst(ctx):
    lines = []
    A3 = [b"", b"a", b"b"]
    chains = [()] + [(m,) for m in range(5)] + [(m1, m2) for m1 in range(5) for m2 in range(5)]
    for syms in lists_upto(A3, 3):
        for adj in chains:
            top = (adj[-1] if adj else len(syms)) + 2
            lines.append(" ".join(["sst"] + desc_S(b"t", 2, syms, adj) + pq(A3 + [b"c"], range(0, top + 1))))
    for m in (0, 1, 5):
        for adj in chains[:6]:
            lines.append(" ".join(["sst"] + desc_B(b"t", 2, m, adj) + pq(A3, range(0, 8))))
    rng = ctx.rng
    pool = [b"", b"a", b"b", b"c", b"dd", b"name"]
    for _ in range(ctx.scale(300, 5000)):
        ln = rng.choice([0, 1, 2, 5, 17, 40])
        adj = [rng.choice([0, 1, max(ln - 1, 0), ln, ln + 1, 63, 64, 65] + BIG) for _ in range(rng.randint(0, 3))]
        ids = sorted({0, 1, ln - 1 if ln else 0, ln, ln + 1, U64 - 1, U64} | {m for m in adj} | {m + 1 for m in adj})
        lines.append(" ".join(["sst"] + desc_S(b"t", rng.randint(-3, 9), [rng.choice(pool) for _ in range(ln)], adj) + pq(pool, ids)))
    return lines


def gen_catalog(ctx):
    lines = []
    # entries: name in {a,b}, version in {1,2,3}; the symbol text tells the entries of one list apart
    keys = [(n, v) for n in (b"a", b"b") for v in (1, 2, 3)]
    cats = [[]]
    for k in (1, 2, 3):
        cats += [list(p) for p in itertools.product(keys, repeat=k)]
    for cat in cats:
        descs = [desc_S(n, v, [b"e%d" % i, b"k"], ()) for i, (n, v) in enumerate(cat)]
        flat = [x for d in descs for x in d]
        for (n, v) in [(b"a", 1), (b"a", 2), (b"a", 3), (b"b", 2), (b"c", 1), (b"a", 0)]:
            lines.append(" ".join(["catalog"] + flat + ["E", hx(n), str(v)]))
        for n in (b"a", b"b", b"c"):
            lines.append(" ".join(["catalog"] + flat + ["T", hx(n)]))
        for n in (b"a", b"c"):
            for v in (0, 1, 2, 4):
                for m in (-1, 0, 1, 3):
                    lines.append(" ".join(["catalog"] + flat + ["R", hx(n), str(v), str(m)]))
    base = desc_S(b"a", 1, [b"p", b"q"], ()) + desc_B(b"b", 2, 4)
    for n in (b"", b"$ion", b"a", b"b", b"a/1"):
        for v in (-5, 1, 2, 2147483647):
            for m in (-7, -1, 0, 2, 5, I63 - 1):
                lines.append(" ".join(["catalog"] + base + ["R", hx(n), str(v), str(m)]))
    return lines


def gen_symident(ctx):
    lines = []
    for k in range(5):
        for p in itertools.product(b"$+-07_a", repeat=k):
            lines.append("symident " + hx(bytes(p)))
    for s_ in ["$9223372036854775807", "$9223372036854775808", "$-9223372036854775808", "$-9223372036854775809",
               "$+9223372036854775807", "$18446744073709551616", "$000000000000000000000000000000012", "$1_000", "$0x10",
               "$ 1", "$1 ", "$١", "$1e3", "$-0", "$+0", "$99999999999999999999999999", "$-", "$+", "$$1", "1", "$12345678901234567",
               "$123456789012345678", "$1234567890123456789", "$-123456789012345678"]:
        lines.append("symident " + hx(s_.encode()))
    return lines


def run(ctx):
    nt = lambda ln, m: m not in ("badinput",)
    ctx.correspond("K6-lst-exhaustive", gen_exhaustive_lst(ctx), oracle=oracle, classify=classify_case, nontrivial=nt)
    ctx.correspond("K6-lst-random", gen_random_lst(ctx, ctx.scale(2000, 40000)), oracle=oracle, classify=classify_case, nontrivial=nt)
    ctx.correspond("K6-builder", gen_builder(ctx), oracle=oracle, classify=classify_case, nontrivial=nt)
    ctx.correspond("K6-sst", gen_sst(ctx), oracle=oracle, classify=classify_case, nontrivial=nt)
    ctx.correspond("K6-catalog", gen_catalog(ctx), oracle=oracle, classify=classify_case, nontrivial=nt)
    ctx.correspond("K6-symident", gen_symident(ctx), oracle=oracle, classify=classify_case, nontrivial=nt)


LEVEL = "proof"
ASSUMPTIONS = [
    "Go == model only on the inputs sampled (the finite spaces E1..E5 / builder histories / catalog lists exhaustively)",
    "the only SharedSymbolTable implementations considered are ion-go's own sst and bogusSST (a user-written implementation of the interface is out of scope)",
    "ID arithmetic theorems assume 9 + sum of import max_ids + number of locals < 2^64; beyond it the uint64 sums wrap (known finding)",
]
EXPLANATION = (
    "Theorems over the Gallina model Sym/SymTab.v of symboltable.go / symboltoken.go / catalog.go, for ALL import lists, "
    "local lists and Add histories (induction over lists): system symbols at 1..9, import i at (offset_i, offset_i+max_id_i] "
    "padded/truncated, locals after, MaxID = sum of slots, FindByName = lowest id carrying a non-empty text and FindByID inverts it, "
    "ids above MaxID rejected, builder Add idempotent on known text and never renumbering. The model is tied to the Go code by "
    "running both on (K6-lst-exhaustive) E1: one import with symbols over {'',a,b} of size 0..3, un-adjusted or max_id 0..5, or bogus 0..5, "
    "x locals over {'',a,b,name} of size 0..2, plus no import x locals of size 0..3; E2: two imports each from 68 shapes "
    "(lists over {'',a,b} size 0..2 x {no Adjust, max_id 0..3}, bogus 0..2) x locals size 0..1 (every 3rd in quick, all in thorough); "
    "E3: three imports from 17 shapes x 3 local lists (every 4th in quick); E4: Adjust-after-Adjust (0..4)^2 over lists of size 0..3; "
    "E5: user-supplied $ion tables; every line queries every id 0..MaxID+2 and 12 probe texts; (K6-lst-random) up to 6 imports of up to 40 "
    "symbols with max_id edge values up to 2^64-1; (K6-builder) every Add sequence of length <= 4 over {'',a,b,name} at every "
    "Build split point under 5 import configurations, plus random histories up to 40 Adds; (K6-sst) every Adjust chain of length <= 2 "
    "over 0..4; (K6-catalog) every catalog of <= 3 entries over {a,b}x{1,2,3}; (K6-symident) every string of length <= 4 over $+-07_a. "
    "The oracle is an independent Python implementation of the Ion ID-space rules applied to the Go answers.")
TRUSTED_EXTRA = ["hook file ion/export_verif_symtab.go (re-exports symbolIdentifier, newSymbolToken, a bogusSST constructor and readImport under build tag verif)"]
