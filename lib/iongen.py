"""iongen — Ion data model in Python for the checks: random forests with boundary payloads,
writer call tokens, canonical observation text, an independent spec-derived binary encoder with
randomised representation choices, expected traversal traces, timestamp body codec.

A value is (annots, body): annots = list of symbol texts (bytes) ; body is a tuple:
 ('null', typecode) ('bool', b) ('int', z) ('float', bits) ('dec', coef, exp, negzero)
 ('ts', (y,mo,d,h,mi,s,ns,off,kind,prec,nfrac)) ('sym', text) ('str', bytes) ('clob', bytes) ('blob', bytes)
 ('list', [values]) ('sexp', [values]) ('struct', [(name_text, value)])
"""
import struct

TNULL, TBOOL, TINT, TFLOAT, TDEC, TTS, TSYM, TSTR, TCLOB, TBLOB, TLIST, TSEXP, TSTRUCT = range(1, 14)
SYSTEM = [b"$ion", b"$ion_1_0", b"$ion_symbol_table", b"name", b"version", b"imports", b"symbols", b"max_id",
          b"$ion_shared_symbol_table"]
NAN = 0x7FF8000000000000


def hx(b):
    return "x" + bytes(b).hex()


# ---------------------------------------------------------------------------
# generation
# ---------------------------------------------------------------------------
INT_EDGES = [0, 1, -1, 127, 128, 255, 256, -255, -256, 32767, 32768, 65535, 65536, 2 ** 31 - 1, 2 ** 31, -2 ** 31, -2 ** 31 - 1,
             2 ** 32, 2 ** 56 - 1, 2 ** 56, 2 ** 63 - 1, 2 ** 63, -2 ** 63, -2 ** 63 - 1, 2 ** 64 - 1, 2 ** 64, -2 ** 64, 2 ** 80 + 1, -(2 ** 71)]
FLOAT_EDGES = [0, 0x8000000000000000, 0x3FF0000000000000, 0xBFF0000000000000, 0x7FF0000000000000, 0xFFF0000000000000, NAN,
               0x3FF8000000000000, 0x3FB999999999999A, 0x47EFFFFFE0000000, 0x47EFFFFFF0000000, 0x380FFFFFC0000000, 0x36A0000000000000,
               0x3690000000000000, 0x0000000000000001, 0x7FEFFFFFFFFFFFFF, 0x3810000000000000, 0x380FFFFFFFFFFFFF, 0x3FF0000010000000,
               0x3FF0000020000000, 0x3FF0000030000000]
TEXT_EDGES = [b"", b"a", b"null", b"$5", b"$0", b"+", b"nan", b"true", b"foo bar", b"$ion", b"name", b"symbols", b"it's", b'q"q',
              "é".encode(), "\U0001F600".encode(), b"a\nb", b"\\", b"$ion_symbol_table", b"x" * 13, b"y" * 14, b"z" * 127, b"w" * 128]
LEN_EDGES = [0, 1, 13, 14, 15, 63, 64, 127, 128, 300]


def days_in_month(y, m):
    if m == 2:
        return 29 if (y % 4 == 0 and (y % 100 != 0 or y % 400 == 0)) else 28
    return 30 if m in (4, 6, 9, 11) else 31


def gen_ts(rng):
    prec = rng.choice([1, 2, 3, 4, 5, 6])
    y = rng.choice([1, 2, 1999, 2000, 2001, 2024, 2100, 9998, 9999, rng.randint(1, 9999)])
    mo = rng.randint(1, 12) if prec >= 2 else 1
    d = rng.choice([1, days_in_month(y, mo), rng.randint(1, days_in_month(y, mo))]) if prec >= 3 else 1
    h = mi = sec = ns = 0
    off, kind, nfrac = 0, 0, 0
    if prec >= 4:
        h, mi = rng.choice([0, 23, rng.randint(0, 23)]), rng.choice([0, 59, rng.randint(0, 59)])
        kind = rng.choice([0, 1, 2])
        if kind == 2:
            off = rng.choice([1, -1, 60, -60, 330, -480, 1439, -1439, rng.randint(-1439, 1439)])
            if off == 0:
                off = 5
    if prec >= 5:
        sec = rng.choice([0, 59, rng.randint(0, 59)])
    if prec == 6:
        nfrac = rng.randint(1, 9)
        ns = rng.choice([0, 1, rng.randint(0, 10 ** nfrac - 1)]) * 10 ** (9 - nfrac)
    # keep the UTC instant inside years 1..9999 so both representations exist
    if kind == 2 and (y <= 1 or y >= 9999):
        y = 2000
        d = min(d, days_in_month(y, mo))
    return (y, mo, d, h, mi, sec, ns, off, kind, prec, nfrac)


def gen_text(rng, symbol=False):
    r = rng.random()
    if r < 0.45:
        return rng.choice(TEXT_EDGES)
    n = rng.choice([1, 2, 3, 5, 8, rng.randint(0, 20)])
    alphabet = "abcXYZ_$019 +-/\\'\"\n\té日\U0001F600"
    return "".join(rng.choice(alphabet) for _ in range(n)).encode()


def gen_bytes(rng):
    n = rng.choice(LEN_EDGES + [rng.randint(0, 40)])
    return bytes(rng.randrange(256) for _ in range(n))


def gen_value(rng, depth, opts):
    annots = []
    if rng.random() < opts.get("p_annot", 0.25):
        annots = [gen_text(rng, True) for _ in range(rng.choice([1, 1, 2, 3]))]
    t = rng.random()
    if depth > 0 and t < opts.get("p_container", 0.3):
        k = rng.choice(["list", "sexp", "struct"])
        n = rng.choice([0, 1, 2, 3, rng.randint(0, 6)])
        if k == "struct":
            body = ("struct", [(gen_text(rng, True), gen_value(rng, depth - 1, opts)) for _ in range(n)])
        else:
            body = (k, [gen_value(rng, depth - 1, opts) for _ in range(n)])
        return (annots, body)
    k = rng.choice(["null", "tnull", "bool", "int", "int", "float", "dec", "ts", "sym", "str", "clob", "blob"])
    if k == "null":
        body = ("null", TNULL)
    elif k == "tnull":
        body = ("null", rng.randint(1, 13))
    elif k == "bool":
        body = ("bool", rng.random() < 0.5)
    elif k == "int":
        r = rng.random()
        if r < 0.5:
            body = ("int", rng.choice(INT_EDGES))
        elif r < 0.8:
            body = ("int", rng.randint(-70000, 70000))
        else:
            body = ("int", rng.getrandbits(rng.randint(1, 200)) * rng.choice([1, -1]))
    elif k == "float":
        body = ("float", rng.choice(FLOAT_EDGES) if rng.random() < 0.6 else rng.getrandbits(64))
        if (body[1] >> 52) & 0x7FF == 0x7FF and body[1] & ((1 << 52) - 1):
            body = ("float", NAN)
    elif k == "dec":
        co = rng.choice([0, 1, -1, 5, 123456789, -10 ** 20, rng.randint(-10 ** 6, 10 ** 6), rng.getrandbits(100)])
        ex = rng.choice([0, 1, -1, -3, 10, 63, 64, -64, -65, 2 ** 31 - 1, -2 ** 31 + 1, rng.randint(-300, 300)])
        nz = co == 0 and rng.random() < 0.5
        body = ("dec", co, ex, nz)
    elif k == "ts":
        body = ("ts", gen_ts(rng))
    elif k == "sym":
        body = ("sym", gen_text(rng, True))
    elif k == "str":
        body = ("str", gen_text(rng) if rng.random() < 0.7 else b"s" * rng.choice(LEN_EDGES))
    elif k == "clob":
        body = ("clob", gen_bytes(rng))
    else:
        # base64 text that contains "//" (a comment opener anywhere else), "+/" and padding of each length
        body = ("blob", rng.choice(BLOB_EDGES) if rng.random() < 0.25 else gen_bytes(rng))
    return (annots, body)


BLOB_EDGES = [b"\xff\xff\xff", b"\xff\xd8\xff\xff", b"\xff\xff\xff\xff\xff\xff\xff", b"\xfb\xff\xbf", b"\xff\xff", b"\xff", b"\x03\xff\xff\xf0"]


def writes_top_level_table(batches):
    """do these top-level values include a struct (or null.struct) whose FIRST annotation is $ion_symbol_table?  By the
    definition of Ion that is a local symbol table, not a value: it cannot be written as a top-level user value, so the
    properties about "the values written" do not quantify over it (gen_forest never produces it; call-sequence
    mutators can)"""
    for b in batches:
        for annots, body in (b or []):
            if annots and annots[0] == b"$ion_symbol_table" and (body[0] == "struct" or body == ("null", TSTRUCT)):
                return True
    return False


def gen_forest(rng, opts=None):
    opts = opts or {}
    n = rng.choice([1, 1, 2, 3, rng.randint(0, 6)])
    vs = [gen_value(rng, rng.choice([0, 1, 2, 3, opts.get("depth", 4)]), opts) for _ in range(n)]
    # a top-level struct whose first annotation is $ion_symbol_table IS a symbol table, not a user value; so is
    # $ion_symbol_table::null.struct (both readers consume it as a table reset: C10, and `not_lst_null` in Props/C01bin.v)
    return [(a[1:] if a and a[0] == b"$ion_symbol_table" and (b[0] == "struct" or b == ("null", TSTRUCT)) else a, b) for a, b in vs]


# ---------------------------------------------------------------------------
# timestamps: binary body codec (spec side) and canonical token
# ---------------------------------------------------------------------------
def days_from_civil(y, m, d):
    y -= m <= 2
    era = y // 400
    yoe = y - era * 400
    doy = (153 * (m + (-3 if m > 2 else 9)) + 2) // 5 + d - 1
    doe = yoe * 365 + yoe // 4 - yoe // 100 + doy
    return era * 146097 + doe - 719468


def civil_from_days(z):
    z += 719468
    era = z // 146097
    doe = z - era * 146097
    yoe = (doe - doe // 1460 + doe // 36524 - doe // 146096) // 365
    y = yoe + era * 400
    doy = doe - (365 * yoe + yoe // 4 - yoe // 100)
    mp = (5 * doy + 2) // 153
    d = doy - (153 * mp + 2) // 5 + 1
    m = mp + (3 if mp < 10 else -9)
    return (y + (m <= 2), m, d)


def varuint(v):
    out = [0x80 | (v & 0x7F)]
    v >>= 7
    while v > 0:
        out.insert(0, v & 0x7F)
        v >>= 7
    return out


def varint(n, negzero=False):
    mag = abs(n)
    groups = [mag & 0x7F]
    mag >>= 7
    while mag > 0:
        groups.insert(0, mag & 0x7F)
        mag >>= 7
    if groups[0] & 0x40:
        groups.insert(0, 0)
    if n < 0 or negzero:
        groups[0] |= 0x40
    groups[-1] |= 0x80
    return groups


def be_min(v):
    out = []
    while v > 0:
        out.insert(0, v & 255)
        v >>= 8
    return out


def int_field(n, negzero=False):
    if n == 0 and not negzero:
        return []
    mag = be_min(abs(n)) or [0]
    if mag[0] & 0x80:
        mag.insert(0, 0)
    if n < 0 or negzero:
        mag[0] |= 0x80
    return mag


def ts_body(ts):
    """Ion binary timestamp body for local fields ts (spec: fields are UTC, offset in minutes)."""
    y, mo, d, h, mi, s, ns, off, kind, prec, nfrac = ts
    if kind == 2:
        tot = days_from_civil(y, mo, d) * 1440 + h * 60 + mi - off
        days, rem = divmod(tot, 1440)
        y, mo, d = civil_from_days(days)
        h, mi = divmod(rem, 60)
    body = [0xC0] if kind == 0 else varint(off)
    body += varuint(y)
    if prec >= 2:
        body += varuint(mo)
    if prec >= 3:
        body += varuint(d)
    if prec >= 4:
        body += varuint(h) + varuint(mi)
    if prec >= 5:
        body += varuint(s)
    if prec == 6 and nfrac > 0:
        body += varint(-nfrac)
        co = ns // 10 ** (9 - nfrac)
        if co > 0:
            body += int_field(co)
    return body


def ts_token(ts):
    return "T" + ",".join(str(x) for x in ts)


def rd_varuint(b, i):
    v = 0
    while True:
        c = b[i]
        i += 1
        v = (v << 7) | (c & 0x7F)
        if c & 0x80:
            return v, i


def ts_from_body(b):
    """decode a binary timestamp body to local fields (used to canonicalise the model's raw T tokens)"""
    c = b[0]
    neg = bool(c & 0x40)
    v = c & 0x3F
    i = 1
    while not (c & 0x80):
        c = b[i]
        i += 1
        v = (v << 7) | (c & 0x7F)
    off = -v if neg else v
    unknown = neg and v == 0
    f = [1, 1, 1, 0, 0, 0]
    prec = 0
    k = 0
    while i < len(b) and k < 6 and prec < 5:
        f[k], i = rd_varuint(b, i)
        if k != 3:
            prec += 1
        k += 1
    ns = 0
    nfrac = 0
    if i < len(b):
        c = b[i]
        eneg = bool(c & 0x40)
        ev = c & 0x3F
        i += 1
        while not (c & 0x80):
            c = b[i]
            i += 1
            ev = (ev << 7) | (c & 0x7F)
        exp = -ev if eneg else ev
        cb = b[i:]
        co = 0
        if cb:
            co = int.from_bytes(bytes([cb[0] & 0x7F] + list(cb[1:])), "big")
            if cb[0] & 0x80:
                co = -co
        if exp <= 0:
            nfrac = -exp
            if nfrac > 0:
                prec = 6
            ns = co * 10 ** (9 - nfrac) if nfrac <= 9 else None
    y, mo, d, h, mi, s = f
    kind = 0
    if prec >= 4:
        if unknown:
            kind = 0
        elif off == 0:
            kind = 1
        else:
            kind = 2
            tot = days_from_civil(y, mo, d) * 1440 + h * 60 + mi + off
            days, rem = divmod(tot, 1440)
            y, mo, d = civil_from_days(days)
            h, mi = divmod(rem, 60)
    else:
        off = 0
    return (y, mo, d, h, mi, s, ns, off if kind == 2 else 0, kind, prec, nfrac)


# ---------------------------------------------------------------------------
# writer calls
# ---------------------------------------------------------------------------
def tok(text=None, sid=-1):
    return "tk,%s,%d" % ("-" if text is None else hx(text), sid)


def calls_of_value(v, rng, field=None, opts=None):
    opts = opts or {}
    annots, body = v
    out = []
    if field is not None:
        out += ["FN", tok(field)]
    if annots:
        if len(annots) > 1 and rng.random() < 0.5:
            out += ["ANS", str(len(annots))] + [tok(a) for a in annots]
        else:
            for a in annots:
                out += ["AN", tok(a)]
    k = body[0]
    if k == "null":
        out += ["NULL"] if body[1] == TNULL and rng.random() < 0.5 else ["NT", str(body[1])]
    elif k == "bool":
        out += ["BOOL", "1" if body[1] else "0"]
    elif k == "int":
        z = body[1]
        ch = []
        if -2 ** 63 <= z < 2 ** 63:
            ch.append("INT")
        if 0 <= z < 2 ** 64:
            ch.append("UINT")
        ch.append("BIG")
        out += [rng.choice(ch), str(z)]
    elif k == "float":
        out += ["FLOAT", str(body[1])]
    elif k == "dec":
        out += ["DEC", str(body[1]), str(body[2]), "1" if body[3] else "0"]
    elif k == "ts":
        b = ts_body(body[1])
        out += ["TS", ",".join(str(x) for x in body[1]), str(len(b)), hx(b)]
    elif k == "sym":
        # WriteSymbolFromString treats "$n" as an ID (documented), so only WriteSymbol carries such text
        if opts.get("sfs", True) and rng.random() < 0.4 and not looks_like_sid(body[1]):
            out += ["SFS", hx(body[1])]
        else:
            out += ["SYM", tok(body[1])]
    elif k == "str":
        out += ["STR", hx(body[1])]
    elif k == "clob":
        out += ["CLOB", hx(body[1])]
    elif k == "blob":
        out += ["BLOB", hx(body[1])]
    elif k in ("list", "sexp"):
        out += ["BL" if k == "list" else "BS"]
        for x in body[1]:
            out += calls_of_value(x, rng, None, opts)
        out += ["EL" if k == "list" else "ES"]
    else:
        out += ["BT"]
        for name, x in body[1]:
            out += calls_of_value(x, rng, name, opts)
        out += ["ET"]
    return out


def looks_like_sid(t):
    if len(t) > 1 and t[:1] == b"$":
        r = t[1:]
        if r[:1] in (b"+", b"-"):
            r = r[1:]
        return len(r) > 0 and r.isdigit()
    return False


def calls_of_forest(vs, rng, opts=None):
    out = []
    for v in vs:
        out += calls_of_value(v, rng, None, opts)
    return out + ["FIN"]


# ---------------------------------------------------------------------------
# canonical observation text (same syntax as Data/Ion.v show_values)
# ---------------------------------------------------------------------------
def show_sym(t):
    if isinstance(t, tuple):
        return "i%d" % t[1]
    return "t" + bytes(t).hex()


def show_value(v, ts_raw=True):
    annots, body = v
    out = ["a" + show_sym(a) for a in annots]
    k = body[0]
    if k == "null":
        out.append("n%d" % body[1])
    elif k == "bool":
        out.append("b1" if body[1] else "b0")
    elif k == "int":
        out.append("I%d" % body[1])
    elif k == "float":
        out.append("F%d" % body[1])
    elif k == "dec":
        out.append("D%de%dz%d" % (body[1], body[2], 1 if body[3] else 0))
    elif k == "ts":
        out.append(ts_token(body[1]))
    elif k == "sym":
        out.append("Y" + show_sym(body[1]))
    elif k == "str":
        out.append("S" + hx(body[1]))
    elif k == "clob":
        out.append("C" + hx(body[1]))
    elif k == "blob":
        out.append("B" + hx(body[1]))
    elif k in ("list", "sexp"):
        out.append("[" if k == "list" else "(")
        for x in body[1]:
            out += show_value(x)
        out.append("]" if k == "list" else ")")
    else:
        out.append("{")
        for name, x in body[1]:
            out.append("f" + show_sym(name))
            out += show_value(x)
        out.append("}")
    return out


def show_forest(vs):
    toks = []
    for v in vs:
        toks += show_value(v)
    return " ".join(toks)


def canon_spec_obs(text):
    """canonicalise an `sdecode` answer: raw timestamp bodies -> semantic token, NaN -> canonical,
    decimal negative zero / float formats as printed by the model"""
    out = []
    for t in text.split(" "):
        if t.startswith("T") and "," not in t:
            try:
                out.append(ts_token(ts_from_body(list(bytes.fromhex(t[1:])))))
            except Exception:
                out.append(t)
        elif t.startswith("F") and t[1:].isdigit():
            b = int(t[1:])
            if (b >> 52) & 0x7FF == 0x7FF and b & ((1 << 52) - 1):
                b = NAN
            out.append("F%d" % b)
        else:
            out.append(t)
    return " ".join(out)


# ---------------------------------------------------------------------------
# expected trace of the plain full traversal (symbols by text)
# ---------------------------------------------------------------------------
ACC = {TBOOL: 1, TINT: 1, TFLOAT: 1, TDEC: 1, TTS: 1, TSYM: 1, TSTR: 1, TCLOB: 1, TBLOB: 1}


def trace_sym(t):
    return "k" + bytes(t).hex()


def trace_value(v, field, out):
    annots, body = v
    out.append("T")
    out.append("nil" if field is None else trace_sym(field))
    out.append("a[" + "".join(trace_sym(a) + ";" for a in annots) + "]")
    k = body[0]
    ty = {"null": None, "bool": TBOOL, "int": TINT, "float": TFLOAT, "dec": TDEC, "ts": TTS, "sym": TSYM, "str": TSTR,
          "clob": TCLOB, "blob": TBLOB, "list": TLIST, "sexp": TSEXP, "struct": TSTRUCT}[k]
    if k == "null":
        out += ["y%d" % body[1], "n1"]
        return
    out += ["y%d" % ty, "n0"]
    if k == "bool":
        out.append("b1" if body[1] else "b0")
    elif k == "int":
        out.append("I%d" % body[1])
    elif k == "float":
        out.append("F%d" % body[1])
    elif k == "dec":
        out.append("D%de%dz%d" % (body[1], body[2], 1 if body[3] else 0))
    elif k == "ts":
        out.append(ts_token(body[1]))
    elif k == "sym":
        out.append(trace_sym(body[1]))
    elif k == "str":
        out.append("S" + hx(body[1]))
    elif k in ("clob", "blob"):
        out.append("B" + hx(body[1]))
    else:
        out.append("ok")
        if k == "struct":
            for name, x in body[1]:
                trace_value(x, name, out)
        else:
            for x in body[1]:
                trace_value(x, None, out)
        out += ["F", "ok"]


def expected_trace(vs):
    out = []
    for v in vs:
        trace_value(v, None, out)
    out += ["F", "e0", "F", "e0", "F", "e0"]
    return " ".join(out)


def project_trace(trace):
    """drop the symbol IDs of tokens whose text is known; canonicalise model timestamps"""
    out = []
    for t in trace.split(" "):
        if t.startswith("k") and "." in t:
            out.append(t.split(".")[0])
        elif t.startswith("a["):
            parts = [p for p in t[2:-1].split(";") if p]
            out.append("a[" + "".join((p.split(".")[0] if p.startswith("k") else p) + ";" for p in parts) + "]")
        elif t.startswith("T") and len(t) > 1 and "," not in t:
            try:
                out.append(ts_token(ts_from_body(list(bytes.fromhex(t[1:])))))
            except Exception:
                out.append(t)
        else:
            out.append(t)
    return " ".join(out)


# ---------------------------------------------------------------------------
# spec-derived binary encoder with representation choices (C03)
# ---------------------------------------------------------------------------
class Enc:
    """Encodes a forest under a symbol context (dict text->list of sids) with random legal choices:
    inline vs VarUInt lengths, padded VarUInts, leading zero bytes on magnitudes, float32 when exact,
    NOP pads, sorted structs, repeated BVMs, extra symbol table appends."""

    def __init__(self, rng, freedom=True):
        self.rng = rng
        self.free = freedom
        self.syms = list(SYSTEM)      # sid i+1 -> text

    def vu(self, v, maxpad=2):
        e = varuint(v)
        if self.free and self.rng.random() < 0.15:
            e = [0] * self.rng.randint(1, max(1, min(maxpad, 10 - len(e)))) + e if len(e) < 10 else e
        return e

    def tl(self, t, body, allow_inline=True):
        n = len(body)
        if n < 14 and allow_inline and not (self.free and self.rng.random() < 0.15):
            return [t << 4 | n] + body
        return [t << 4 | 14] + self.vu(n) + body

    def sid_of(self, text):
        ids = [i + 1 for i, s in enumerate(self.syms) if s == text]
        if not ids:
            self.syms.append(text)
            self.pending.append(text)
            return len(self.syms)
        return self.rng.choice(ids) if self.free else ids[0]

    def nop(self):
        n = self.rng.choice([0, 1, 2, 5, 13, 14, 20])
        if n < 14:
            return [n] + [self.rng.randrange(256) for _ in range(n)]
        return [0x0E] + varuint(n) + [self.rng.randrange(256) for _ in range(n)]

    def value(self, v):
        annots, body = v
        k = body[0]
        if k == "null":
            e = [{1: 0x0F, 2: 0x1F, 3: 0x2F, 4: 0x4F, 5: 0x5F, 6: 0x6F, 7: 0x7F, 8: 0x8F, 9: 0x9F, 10: 0xAF, 11: 0xBF, 12: 0xCF, 13: 0xDF}[body[1]]]
        elif k == "bool":
            e = [0x11 if body[1] else 0x10]
        elif k == "int":
            z = body[1]
            mag = be_min(abs(z))
            if self.free and self.rng.random() < 0.15 and z != 0:
                mag = [0] * self.rng.randint(1, 3) + mag
            if self.free and z == 0 and self.rng.random() < 0.2:
                mag = [0] * self.rng.randint(1, 2)
            e = self.tl(3 if z < 0 else 2, mag)
        elif k == "float":
            b = body[1]
            if b == 0 and not (self.free and self.rng.random() < 0.3):
                e = [0x40]
            else:
                f32 = None
                try:
                    f = struct.unpack(">d", struct.pack(">Q", b))[0]
                    if b == NAN:
                        f32 = struct.pack(">I", 0x7FC00000)
                    else:
                        p = struct.pack(">f", f)
                        if struct.unpack(">f", p)[0] == f and struct.pack(">d", struct.unpack(">f", p)[0]) == struct.pack(">Q", b):
                            f32 = p
                except (OverflowError, struct.error):
                    f32 = None
                if f32 is not None and self.rng.random() < 0.5:
                    e = [0x44] + list(f32)
                else:
                    e = [0x48] + list(struct.pack(">Q", b))
        elif k == "dec":
            co, ex, nz = body[1], body[2], body[3]
            if co == 0 and ex == 0 and not nz and not (self.free and self.rng.random() < 0.3):
                e = [0x50]
            else:
                cf = int_field(co, nz)
                if self.free and cf and self.rng.random() < 0.15:
                    cf = [cf[0] & 0x80, 0] + [cf[0] & 0x7F] + cf[1:]
                elif self.free and co == 0 and not nz and self.rng.random() < 0.4:
                    cf = [0] * self.rng.randint(1, 3)          # positive zero spelled out: sign bit clear, magnitude 0
                e = self.tl(5, varint(ex) + cf)
        elif k == "ts":
            e = self.tl(6, ts_body(body[1]))
        elif k == "sym":
            sid = self.sid_of(body[1])
            mag = be_min(sid)
            if self.free and self.rng.random() < 0.15:
                mag = [0] * self.rng.randint(1, 8 - len(mag)) + mag if len(mag) < 8 else mag
            e = self.tl(7, mag)
        elif k == "str":
            e = self.tl(8, list(body[1]))
        elif k == "clob":
            e = self.tl(9, list(body[1]))
        elif k == "blob":
            e = self.tl(10, list(body[1]))
        elif k in ("list", "sexp"):
            inner = []
            for x in body[1]:
                if self.free and self.rng.random() < 0.08:
                    inner += self.nop()
                inner += self.value(x)
            if self.free and self.rng.random() < 0.08:
                inner += self.nop()
            e = self.tl(11 if k == "list" else 12, inner)
        else:
            fields = [(self.sid_of(n), x) for n, x in body[1]]
            sorted_form = self.free and fields and self.rng.random() < 0.15 and \
                all(fields[i][0] <= fields[i + 1][0] for i in range(len(fields) - 1))
            inner = []
            for sid, x in fields:
                if self.free and not sorted_form and self.rng.random() < 0.08:
                    inner += self.vu(self.rng.choice([0, 4, sid])) + self.nop()
                inner += self.vu(sid) + self.value(x)
            if sorted_form:
                e = [0xD1] + self.vu(len(inner)) + inner
            elif len(inner) == 1:
                e = [0xDE] + self.vu(1) + inner           # L=1 means "sorted": use the VarUInt form
            else:
                e = self.tl(13, inner)
        if annots:
            ab = []
            for a in annots:
                ab += self.vu(self.sid_of(a))
            e = self.tl(14, self.vu(len(ab), 1) + ab + e)
        return e

    def lst_append(self, texts):
        """a local symbol table struct that appends `texts` to the current context"""
        strs = []
        for t in texts:
            strs += self.tl(8, list(t))
        only_system_before = len(self.syms) - len(texts) == len(SYSTEM)
        if self.free and self.rng.random() < 0.15:
            # a non-string entry of `symbols` still occupies a symbol ID (a slot without text)
            strs += self.rng.choice([[0x21, 0x05], [0x0F], [0x8F], [0xB0], [0x11]])
            self.syms.append(None)
        if only_system_before and self.free and self.rng.random() < 0.5:
            # nothing but the system table is in force: a replacing table says the same thing
            body = [0x87] + self.tl(11, strs)
            st = self.tl(13, body)
            return self.tl(14, [0x81, 0x83] + st)
        body = [0x86, 0x71, 0x03] + [0x87] + self.tl(11, strs)
        st = self.tl(13, body)
        return self.tl(14, [0x81, 0x83] + st)

    def stream(self, vs):
        out = [0xE0, 1, 0, 0xEA]
        if self.free and self.rng.random() < 0.1:
            out += [0xE0, 1, 0, 0xEA]
        for v in vs:
            self.pending = []
            if self.free and self.rng.random() < 0.08:
                out += self.nop()
            if self.free and self.rng.random() < 0.07:
                # a version marker in mid-stream resets the symbol context to the system table
                out += [0xE0, 1, 0, 0xEA]
                self.syms = list(SYSTEM)
            e = self.value(v)
            if self.pending:
                out += self.lst_append(self.pending)
            out += e
        return out


# ---------------------------------------------------------------------------
# the values denoted by a sequence of (successful) writer calls
# ---------------------------------------------------------------------------
class Malformed(Exception):
    pass


def split_calls(tokens):
    """group the flat token list of the line protocol into calls"""
    ar = {"FN": 1, "AN": 1, "SYM": 1, "NULL": 0, "NT": 1, "BOOL": 1, "INT": 1, "UINT": 1, "BIG": 1, "FLOAT": 1,
          "TS": 3, "SFS": 1, "STR": 1, "CLOB": 1, "BLOB": 1, "BL": 0, "EL": 0, "BS": 0, "ES": 0, "BT": 0, "ET": 0, "FIN": 0}
    out = []
    i = 0
    while i < len(tokens):
        c = tokens[i]
        if c == "ANS":
            n = int(tokens[i + 1])
            out.append(tokens[i:i + 2 + n])
            i += 2 + n
        elif c == "DEC":
            n = 1 if tokens[i + 1] == "nil" else 3
            out.append(tokens[i:i + 1 + n])
            i += 1 + n
        else:
            out.append(tokens[i:i + 1 + ar[c]])
            i += 1 + ar[c]
    return out


def tok_text(t, symtab=None):
    _, tx, sid = t.split(",")
    sid = int(sid)
    if tx != "-":
        return bytes.fromhex(tx[1:])
    return ("sid", sid)


def forest_of_calls(calls):
    """calls: list of token lists (one per call). Returns list of batches (forests).
    Raises Malformed when the calls do not denote complete values."""
    batches = []
    stack = [("top", [])]
    field = None
    annots = []

    def add(body):
        nonlocal field, annots
        kind, items = stack[-1][0], stack[-1][1]
        v = (annots, body)
        if kind == "struct":
            if field is None:
                raise Malformed("value in struct without field name")
            items.append((field, v))
        else:
            items.append(v)
        field, annots = None, []

    for c in calls:
        k = c[0]
        if k == "FN":
            if stack[-1][0] != "struct":
                raise Malformed("field name outside struct")
            field = tok_text(c[1])
        elif k == "AN":
            annots = annots + [tok_text(c[1])]
        elif k == "ANS":
            annots = annots + [tok_text(t) for t in c[2:]]
        elif k == "NULL":
            add(("null", TNULL))
        elif k == "NT":
            add(("null", int(c[1]) if int(c[1]) != 0 else TNULL))
        elif k == "BOOL":
            add(("bool", c[1] != "0"))
        elif k in ("INT", "UINT", "BIG"):
            add(("int", int(c[1])))
        elif k == "FLOAT":
            b = int(c[1])
            if (b >> 52) & 0x7FF == 0x7FF and b & ((1 << 52) - 1):
                b = NAN
            add(("float", b))
        elif k == "DEC":
            add(("dec", int(c[1]), int(c[2]), c[3] != "0"))
        elif k == "TS":
            add(("ts", tuple(int(x) for x in c[1].split(","))))
        elif k == "SYM":
            add(("sym", tok_text(c[1])))
        elif k == "SFS":
            add(("sym", bytes.fromhex(c[1][1:])))
        elif k == "STR":
            add(("str", bytes.fromhex(c[1][1:])))
        elif k == "CLOB":
            add(("clob", bytes.fromhex(c[1][1:])))
        elif k == "BLOB":
            add(("blob", bytes.fromhex(c[1][1:])))
        elif k in ("BL", "BS", "BT"):
            kind = {"BL": "list", "BS": "sexp", "BT": "struct"}[k]
            stack.append((kind, [], field, annots, stack[-1][0]))
            if stack[-2][0] == "struct" and field is None:
                raise Malformed("container in struct without field name")
            field, annots = None, []
        elif k in ("EL", "ES", "ET"):
            kind = {"EL": "list", "ES": "sexp", "ET": "struct"}[k]
            if stack[-1][0] != kind:
                raise Malformed("end of the wrong container")
            _, items, f, a, _ = stack.pop()
            field, annots = f, a
            add((kind, items))
        elif k == "FIN":
            if len(stack) != 1:
                raise Malformed("finish inside a container")
            batches.append(stack[0][1])
            stack = [("top", [])]
            field, annots = None, []
    if len(stack) != 1 or stack[0][1]:
        batches.append(None)     # values after the last Finish (not flushed) or open containers
    return batches


def show_any_sym(t):
    if isinstance(t, tuple):
        return "i%d" % t[1]
    return "t" + bytes(t).hex()
