"""Reference cursor over a value forest: the specification of Reader navigation (C08).
Tokens are the projected trace tokens of harness reader.go (symbols by text, no SIDs)."""
import iongen
from iongen import hx

TY = {"bool": 2, "int": 3, "float": 4, "dec": 5, "ts": 6, "sym": 7, "str": 8, "clob": 9, "blob": 10, "list": 11, "sexp": 12, "struct": 13}
ACCESSOR_TYPE = {"BO": (2,), "IV": (3,), "I6": (3,), "BI": (3,), "FL": (4,), "DE": (5,), "TS": (6,), "ST": (8,), "SY": (7,), "BY": (9, 10)}


class Cursor:
    def __init__(self, forest):
        self.stack = [("top", [(None, v) for v in forest], 0)]
        self.cur = None      # (field, value)

    def typ(self):
        if self.cur is None:
            return 0
        body = self.cur[1][1]
        return body[1] if body[0] == "null" else TY[body[0]]

    def isnull(self):
        return self.cur is not None and self.cur[1][1][0] == "null"

    def op(self, o):
        kind, items, idx = self.stack[-1]
        if o == "N":
            if idx < len(items):
                self.cur = items[idx]
                self.stack[-1] = (kind, items, idx + 1)
                return "T"
            self.cur = None
            return "F"
        if o == "SI":
            if self.cur is None or self.isnull() or self.typ() not in (11, 12, 13):
                return "err"
            body = self.cur[1][1]
            if body[0] == "struct":
                self.stack.append(("struct", [(n, v) for n, v in body[1]], 0))
            else:
                self.stack.append((body[0], [(None, v) for v in body[1]], 0))
            self.cur = None
            return "ok"
        if o == "SO":
            if len(self.stack) == 1:
                return "err"
            self.stack.pop()
            self.cur = None
            return "ok"
        if o == "TY":
            return "y%d" % self.typ()
        if o == "NU":
            return "n1" if self.isnull() else "n0"
        if o == "IS":
            return "s1" if kind == "struct" else "s0"
        if o == "ER":
            return "e0"
        if o == "FN":
            if self.cur is None or self.cur[0] is None:
                return "nil"
            return iongen.trace_sym(self.cur[0])
        if o == "AN":
            a = self.cur[1][0] if self.cur is not None else []
            return "a[" + "".join(iongen.trace_sym(x) + ";" for x in a) + "]"
        if o in ACCESSOR_TYPE:
            if self.typ() not in ACCESSOR_TYPE[o]:
                return "err"
            if self.isnull():
                return "nil"
            body = self.cur[1][1]
            if o == "BO":
                return "b1" if body[1] else "b0"
            if o == "BI":
                return "I%d" % body[1]
            if o == "I6":
                return "I%d" % body[1] if -2 ** 63 <= body[1] < 2 ** 63 else "err"
            if o == "IV":
                return "I%d" % body[1] if -2 ** 31 <= body[1] < 2 ** 31 else "err"
            if o == "FL":
                return "F%d" % body[1]
            if o == "DE":
                return "D%de%dz%d" % (body[1], body[2], 1 if body[3] else 0)
            if o == "TS":
                return iongen.ts_token(body[1])
            if o == "ST":
                return "S" + hx(body[1])
            if o == "SY":
                return iongen.trace_sym(body[1])
            if o == "BY":
                return "B" + hx(body[1])
        raise ValueError(o)


OPS = ["N", "SI", "SO", "TY", "NU", "IS", "ER", "FN", "AN", "BO", "IV", "I6", "BI", "FL", "DE", "TS", "ST", "SY", "BY"]


def gen_program(forest, rng, n):
    """a navigation program of about n calls: mostly sensible moves, some refused ones"""
    c = Cursor(forest)
    prog = []
    for _ in range(n):
        r = rng.random()
        if r < 0.42:
            o = "N"
        elif r < 0.57 and c.cur is not None and not c.isnull() and c.typ() in (11, 12, 13):
            o = "SI"
        elif r < 0.66 and len(c.stack) > 1:
            o = "SO"
        elif r < 0.80:
            o = rng.choice(["TY", "NU", "IS", "FN", "AN", "ER"])
        elif r < 0.92 and c.cur is not None:
            t = c.typ()
            o = {2: "BO", 3: rng.choice(["BI", "I6", "IV"]), 4: "FL", 5: "DE", 6: "TS", 7: "SY", 8: "ST", 9: "BY", 10: "BY"}.get(t, "TY")
        else:
            o = rng.choice(OPS)       # anything, including refused calls
        prog.append(o)
        c.op(o)
    return prog


def run_program(forest, prog):
    c = Cursor(forest)
    return " ".join(c.op(o) for o in prog)
