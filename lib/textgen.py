"""textgen — a spec-derived PRINTER of Ion 1.0 text with randomised spelling choices (C02).

render(forest, rng, freedom=True) -> bytes

Written from the Ion text grammar (spec + IonText.g4), not from ion-go.  At every token the
printer picks one of the spellings the grammar allows for the same data-model value:
whitespace / both comment forms between any two tokens, decimal / hex / binary integers with
underscores, e/E and d/D exponent forms with moved decimal points, short strings and
concatenated long strings with per-character escape choices and line continuations, quoted /
unquoted / operator symbols, $n for symbols without text, base64 with inner whitespace, short
and long clobs, Z vs +00:00 and the optional T of a date, trailing commas, version markers.

Corners the printer deliberately avoids because the grammar sources do not agree on them
(see the component report): a comment directly after a numeric literal, operator characters
glued to a following number, `null.` followed by a non-type, non-canonical base64 trailing bits,
raw CR inside long strings, raw control characters other than HT/VT/FF.

Forest values follow lib/iongen.py; additionally a symbol / annotation / field name may be
("sid", n): a symbol without text, printed as $n.
"""
import base64
import contextlib
import random
import re
import struct

WS = [b" ", b"\t", b"\n", b"\r", b"\r\n", b"\x0b", b"\x0c"]
WS_NO_VTFF = [b" ", b"\t", b"\n", b"\r", b"\r\n", b" ", b"\n"]     # same length: same random draws
OPCHARS = b"!#%&*+-./;<=>?@^`|~"
IDENT = re.compile(rb"[A-Za-z_$][A-Za-z_$0-9]*\Z")
SIDLIKE = re.compile(rb"\$[0-9]+\Z")
KEYWORDS = (b"null", b"true", b"false", b"nan")
TYPES = {1: b"null", 2: b"bool", 3: b"int", 4: b"float", 5: b"decimal", 6: b"timestamp", 7: b"symbol", 8: b"string",
         9: b"clob", 10: b"blob", 11: b"list", 12: b"sexp", 13: b"struct"}
NAMED = {0: b"0", 7: b"a", 8: b"b", 9: b"t", 10: b"n", 12: b"f", 13: b"r", 11: b"v", 34: b'"', 39: b"'", 63: b"?", 92: b"\\", 47: b"/"}
COMMENT_ALPHABET = ["a", "b", " ", "1", "\"", "'", "'''", "{", "}", "[", "]", "(", ")", ",", ":", "::", "\\", "/", "*", "{{", "}}",
                    "\t", "é", "\U0001F600", "$ion_1_0", "//", "/ *", "\\n", "-", "_", "null"]


class Printer:
    def __init__(self, rng, freedom=True, sid_spelling=False, ivm=0.0, repairs=(), vtff=1.0):
        self.vtff = vtff                      # probability that a document uses VT and FF as whitespace
        self.repairs = set(repairs)           # known-finding classes whose trigger spelling is replaced (classification)
        self.ws = WS_NO_VTFF if "vtff" in self.repairs else WS
        self.rng = rng
        self.free = freedom
        self.sid_spelling = sid_spelling      # spell system symbols as $1..$9 now and then
        self.ivm = ivm                        # probability of a version marker between top-level values
        self.out = bytearray()
        self.gaprng = random.Random(rng.getrandbits(64))
        self.prev = None                      # kind of the previous token: num word op delim punct
        self.last_long = False                # previous token was a long-string VALUE (would merge with another)
        self.depth_sexp = []                  # stack of container kinds
        self.features = set()

    @contextlib.contextmanager
    def scope(self):
        """the choices made inside draw from a child generator seeded by ONE draw of the current one, so that
        replacing one token's spelling (the `repairs`) leaves every other choice of the document unchanged"""
        saved, saved_gap = self.rng, self.gaprng
        self.rng = random.Random(saved.getrandbits(64))
        self.gaprng = random.Random(saved.getrandbits(64))      # whitespace/comments: independent of the spelling draws
        try:
            yield
        finally:
            self.rng, self.gaprng = saved, saved_gap

    @contextlib.contextmanager
    def gap_scope(self):
        saved = self.rng
        self.rng = self.gaprng
        try:
            yield
        finally:
            self.rng = saved

    # ---- whitespace and comments ------------------------------------------------------------
    def comment(self):
        r = self.rng
        body = "".join(r.choice(COMMENT_ALPHABET) for _ in range(r.choice([0, 1, 3, 8])))
        if r.random() < 0.5:
            self.features.add("block-comment")
            if "cmt" in self.repairs and body.startswith("/"):
                body = " " + body[1:]                     # "/*/" : the opener's star is not a closer
            return b"/*" + body.replace("*/", "* /").encode() + b"*/"
        self.features.add("line-comment")
        return b"//" + body.replace("\n", " ").replace("\r", " ").encode() + r.choice([b"\n", b"\r", b"\r\n"])

    def gap(self, required, ws_first):
        r = self.rng
        if not self.free:
            return b" " if required else b""
        x = r.random()
        if not required and x < 0.5:
            return b""
        parts = []
        n = r.choice([1, 1, 1, 2, 3])
        for i in range(n):
            if (i == 0 and ws_first) or r.random() < 0.7:
                parts.append(r.choice(self.ws))
            else:
                parts.append(self.comment())
        return b"".join(parts)

    def in_sexp(self):
        return bool(self.depth_sexp) and self.depth_sexp[-1] == "sexp"

    def tok(self, b, kind, long_string_value=False):
        prev = self.prev
        required = prev in ("num", "word", "op") and kind != "punct"
        if self.out and self.out[-1:] == b"'" and b[:1] == b"'":
            required = True                  # '' 'a' must not become '''a'
        if prev == "op" and kind == "op":
            required = True
        if kind == "op" and prev is not None:
            # an operator directly after a comment or another token is fine, but keep '/' '*' away from a '/'
            if self.out[-1:] in (b"/", b"*") or prev in ("word", "num"):
                required = True
        with self.gap_scope():
            ws_first = prev in ("num", "op") or (prev == "word" and (self.in_sexp() or self.rng.random() < 0.7))
            self.out += self.gap(required, ws_first)
        self.out += b
        self.prev = kind
        self.last_long = long_string_value

    def punct(self, b):
        self.tok(b, "punct")

    # ---- scalars ---------------------------------------------------------------------------------
    def underscores(self, digits):
        """digits: str; insert single underscores between digits"""
        if not self.free or len(digits) < 2 or self.rng.random() < 0.6:
            return digits
        out = digits[0]
        for ch in digits[1:]:
            if self.rng.random() < 0.3:
                out += "_"
                self.features.add("underscore")
            out += ch
        return out

    def mixcase(self, s):
        return "".join(c.upper() if self.rng.random() < 0.5 else c.lower() for c in s) if self.free else s

    def int_text(self, z):
        r = self.rng
        neg = z < 0
        mag = abs(z)
        form = r.choice(["dec", "dec", "hex", "bin"]) if self.free else "dec"
        if form == "bin" and mag.bit_length() > 80:
            form = "hex"
        if z == 0 and self.free and r.random() < 0.2:
            neg = True
        if form == "dec":
            body = self.underscores(str(mag))
        elif form == "hex":
            self.features.add("hex-int")
            d = "%x" % mag
            if self.free and r.random() < 0.2:
                d = "0" * r.randint(1, 3) + d
            body = "0" + r.choice("xX") + self.underscores(self.mixcase(d))
        else:
            self.features.add("bin-int")
            d = bin(mag)[2:]
            if self.free and r.random() < 0.2:
                d = "0" * r.randint(1, 3) + d
            body = "0" + r.choice("bB") + self.underscores(d)
        return (("-" if neg else "") + body).encode()

    def exp_text(self, e, letters):
        r = self.rng
        if not self.free:
            return letters[0] + str(e)
        s = str(abs(e))
        if r.random() < 0.2:
            s = "0" * r.randint(1, 3) + s
        sign = "-" if e < 0 else r.choice(["", "+"])
        if e == 0 and r.random() < 0.3:
            sign = "-"
        return r.choice(letters) + sign + s

    def place_point(self, digits, e10, letters, must_mark):
        """spell  digits * 10^e10  (digits: str without sign) with a decimal point moved by k places.
        must_mark: the exponent marker is mandatory (floats; decimals without a point)."""
        r = self.rng
        k = 0
        if self.free:
            k = r.choice([0, 0, 1, 2, len(digits), len(digits) + r.randint(0, 3), r.randint(0, len(digits))])
        dot = k > 0 or (self.free and r.random() < 0.3)
        if k == 0:
            ip, fp = digits, ""
        elif k < len(digits):
            ip, fp = digits[:-k], digits[-k:]
        else:
            ip, fp = "0", "0" * (k - len(digits)) + digits
        e = e10 + k
        txt = self.underscores(ip)
        if dot:
            txt += "." + self.underscores(fp)
        if must_mark or not dot or e != 0 or (self.free and r.random() < 0.3):
            txt += self.exp_text(e, letters)
        return txt.encode()

    def float_text(self, bits):
        r = self.rng
        if bits == 0x7FF8000000000000:
            return b"nan", "word"
        if bits == 0x7FF0000000000000:
            return b"+inf", "word"
        if bits == 0xFFF0000000000000:
            return b"-inf", "word"
        f = struct.unpack(">d", struct.pack(">Q", bits))[0]
        neg = bits >> 63 == 1
        a = abs(f)
        if a == 0:
            digits, e10 = "0", (r.randint(-400, 400) if self.free and r.random() < 0.3 else 0)
        else:
            if self.free and r.random() < 0.3:
                s = "%.*e" % (r.randint(17, 30), a)        # >= 17 significant digits always round-trip
                self.features.add("float-long-digits")
            else:
                s = repr(a)
                if "e" not in s:
                    s += "e0"
            m, e = s.split("e")
            ip, _, fp = m.partition(".")
            digits = (ip + fp).lstrip("0") or "0"
            e10 = int(e) - len(fp)
            if self.free and r.random() < 0.5:
                z = len(digits) - len(digits.rstrip("0"))   # trailing zeros may go to the exponent or stay
                if z and len(digits) > z:
                    digits, e10 = digits[:-z], e10 + z
        body = self.place_point(digits, e10, "eE", True)
        return (b"-" if neg else b"") + body, "num"

    def decimal_text(self, co, ex, nz):
        neg = co < 0 or nz
        body = self.place_point(str(abs(co)), ex, "dD", False)
        return (b"-" if neg else b"") + body

    def ts_text(self, ts):
        r = self.rng
        y, mo, d, h, mi, s, ns, off, kind, prec, nfrac = ts
        t = "%04d" % y
        if prec == 1:
            return (t + "T").encode()
        t += "-%02d" % mo
        if prec == 2:
            return (t + "T").encode()
        t += "-%02d" % d
        if prec == 3:
            return (t + ("T" if self.free and r.random() < 0.5 else "")).encode()
        t += "T%02d:%02d" % (h, mi)
        if prec >= 5:
            t += ":%02d" % s
        if prec == 6:
            t += "." + ("%0*d" % (nfrac, ns // 10 ** (9 - nfrac)))
        if kind == 0:
            t += "-00:00"
        elif kind == 1:
            t += "+00:00" if self.free and r.random() < 0.5 else "Z"
        else:
            a = abs(off)
            t += "%s%02d:%02d" % ("-" if off < 0 else "+", a // 60, a % 60)
        return t.encode()

    # ---- text ----------------------------------------------------------------------------------------
    def hexdigits(self, v, n):
        return self.mixcase("%0*x" % (n, v)).encode()

    def escape_cp(self, cp, lob):
        """a random escape spelling of one code point (byte, in a clob)"""
        r = self.rng
        opts = []
        if cp in NAMED:
            opts += ["named", "named"]
        if cp < 256:
            opts.append("x")
        if not lob:
            if cp < 0x10000:
                opts.append("u")
            else:
                opts.append("pair")
            opts.append("U")
        k = r.choice(opts)
        if k == "pair" and "d31" in self.repairs:
            k = "U"
        self.features.add("esc-" + k)
        if k == "named":
            return b"\\" + NAMED[cp]
        if k == "x":
            return b"\\x" + self.hexdigits(cp, 2)
        if k == "u":
            return b"\\u" + self.hexdigits(cp, 4)
        if k == "U":
            return b"\\U" + self.hexdigits(cp, 8)
        v = cp - 0x10000
        return b"\\u" + self.hexdigits(0xD800 + (v >> 10), 4) + b"\\u" + self.hexdigits(0xDC00 + (v & 0x3FF), 4)

    def quoted_body(self, cps, delim, lob, long_form):
        """cps: code points (bytes for a clob). Returns the text between the delimiters."""
        r = self.rng
        out = bytearray()
        p_esc = r.choice([0.0, 0.1, 0.5, 1.0]) if self.free else 0.0
        n = len(cps)
        for i, cp in enumerate(cps):
            if self.free and r.random() < 0.04:
                out += b"\\" + r.choice([b"\n", b"\r\n", b"\r"])       # line continuation: contributes nothing
                self.features.add("line-continuation")
            raw_ok = (0x20 <= cp < 0x7F or cp in (9, 11, 12) or (cp >= 0x7F and not lob)) and cp != 92
            if lob and cp >= 0x7F:
                raw_ok = cp == 0x7F
            if long_form:
                if cp == 10:
                    raw_ok = out[-2:] != b"\\\r"       # a raw LF after "\ CR" would be swallowed as a CR LF continuation
                if cp == 39:
                    # never three quotes in a row, never a quote just before the closing quotes
                    raw_ok = i != n - 1 and out[-1:] != b"'"
            elif cp == delim:
                raw_ok = False
            if raw_ok and not (r.random() < p_esc):
                if lob:
                    out.append(cp)
                else:
                    out += chr(cp).encode("utf-8")
            else:
                out += self.escape_cp(cp, lob)
        if self.free and r.random() < 0.04:
            out += b"\\" + r.choice([b"\n", b"\r\n", b"\r"])
        return bytes(out)

    def short_string(self, cps, delim=34, lob=False):
        q = bytes([delim])
        return q + self.quoted_body(cps, delim, lob, False) + q

    def long_segments(self, cps, lob):
        """list of '''...''' segments whose concatenation is cps"""
        r = self.rng
        nseg = r.choice([1, 1, 2, 3, 4]) if self.free else 1
        cuts = sorted(r.randint(0, len(cps)) for _ in range(nseg - 1))
        segs = []
        a = 0
        for c in cuts + [len(cps)]:
            segs.append(cps[a:c])
            a = c
        return [b"'''" + self.quoted_body(s, 39, lob, True) + b"'''" for s in segs]

    def emit_string(self, text, allow_long=True):
        cps = [ord(ch) for ch in text.decode("utf-8")]
        if self.free and allow_long and self.rng.random() < 0.4:
            self.features.add("long-string")
            segs = self.long_segments(cps, False)
            for i, sg in enumerate(segs):
                self.tok(sg, "delim", long_string_value=True)
            if len(segs) > 1:
                self.features.add("long-string-concat")
        else:
            self.tok(self.short_string(cps), "delim")

    def lob_ws(self):
        r = self.rng
        if not self.free or r.random() < 0.5:
            return b""
        return b"".join(r.choice(self.ws) for _ in range(r.randint(1, 3)))

    def clob_text(self, data):
        cps = list(data)
        if self.free and self.rng.random() < 0.4:
            self.features.add("long-clob")
            inner = self.lob_ws().join(self.long_segments(cps, True))
        else:
            inner = self.short_string(cps, 34, True)
        return b"{{" + self.lob_ws() + inner + self.lob_ws() + b"}}"

    def blob_text(self, data):
        b64 = base64.b64encode(bytes(data))
        out = bytearray(b"{{" + self.lob_ws())
        p = self.rng.choice([0.0, 0.0, 0.1, 0.5]) if self.free else 0.0
        for ch in b64:
            out.append(ch)
            if self.rng.random() < p:
                out += self.rng.choice(self.ws)
                self.features.add("blob-inner-ws")
        return bytes(out + self.lob_ws() + b"}}")

    # ---- symbols ------------------------------------------------------------------------------------
    def symbol_token(self, t, where):
        """where: 'value' | 'annot' | 'field'.  Returns (bytes, kind)."""
        r = self.rng
        if isinstance(t, tuple):                      # a symbol without text
            self.features.add("sid-symbol")
            return b"$%d" % t[1], "word"
        t = bytes(t)
        opts = ["quoted"]
        if IDENT.match(t) and t not in KEYWORDS and not SIDLIKE.match(t):
            opts += ["ident", "ident"]
        if where == "value" and self.in_sexp() and t and all(c in OPCHARS for c in t) and b"//" not in t and b"/*" not in t:
            opts += ["op", "op"]
        if self.sid_spelling and t in SYSTEM_SIDS and r.random() < 0.3:
            self.features.add("system-sid")
            return b"$%d" % SYSTEM_SIDS[t], "word"
        k = r.choice(opts) if self.free else opts[-1 if len(opts) > 1 else 0]
        if k == "ident":
            return t, "word"
        if k == "op" and t == b"." and "dot" in self.repairs:
            k = "quoted"
        if k == "op":
            self.features.add("operator")
            return t, "op"
        self.features.add("quoted-symbol")
        return self.short_string([ord(ch) for ch in t.decode("utf-8")], 39), "delim"

    # ---- values ------------------------------------------------------------------------------------
    def value(self, v, top=False):
        annots, body = v
        r = self.rng
        for a in annots:
            with self.scope():
                b, kind = self.symbol_token(a, "annot")
            self.tok(b, kind)
            self.punct(b"::")
        k = body[0]
        if k in ("list", "sexp", "struct"):
            self.container(k, {"list": b"[", "sexp": b"(", "struct": b"{"}[k], {"list": b"]", "sexp": b")", "struct": b"}"}[k], body[1])
            return
        with self.scope():
            self.scalar(annots, body, top)

    def scalar(self, annots, body, top):
        r = self.rng
        k = body[0]
        if k == "null":
            if body[1] == 1 and (not self.free or r.random() < 0.6):
                self.tok(b"null", "word")
            else:
                self.tok(b"null." + TYPES[body[1]], "word")
        elif k == "bool":
            self.tok(b"true" if body[1] else b"false", "word")
        elif k == "int":
            self.tok(self.int_text(body[1]), "num")
        elif k == "float":
            b, kind = self.float_text(body[1])
            self.tok(b, kind)
        elif k == "dec":
            self.tok(self.decimal_text(body[1], body[2], body[3]), "num")
        elif k == "ts":
            self.tok(self.ts_text(body[1]), "num")
        elif k == "sym":
            t = body[1]
            if top and not annots and not isinstance(t, tuple) and bytes(t) == b"$ion_1_0":
                # unquoted and unannotated at top level it would be a version marker
                self.features.add("quoted-symbol")
                self.tok(self.short_string([ord(ch) for ch in "$ion_1_0"], 39), "delim")
            else:
                b, kind = self.symbol_token(t, "value")
                self.tok(b, kind)
        elif k == "str":
            # two adjacent long strings (top level, sexp) would concatenate
            self.emit_string(body[1], allow_long=not (self.last_long and not annots))
        elif k == "clob":
            self.tok(self.clob_text(body[1]), "delim")
        elif k == "blob":
            self.tok(self.blob_text(body[1]), "delim")

    def field_name(self, name):
        with self.scope():
            r = self.rng
            as_string = not isinstance(name, tuple) and self.free and r.random() < 0.4
            if as_string and "d14" in self.repairs and SIDLIKE.match(bytes(name)):
                as_string = False
            if as_string:
                self.features.add("string-field-name")
                self.last_long = False
                self.emit_string(bytes(name))
            else:
                b, kind = self.symbol_token(name, "field")
                self.tok(b, kind)
        self.punct(b":")

    def container(self, kind, op, cl, items):
        self.tok(op, "delim")
        self.prev = "punct"
        self.depth_sexp.append(kind)
        n = len(items)
        for i, it in enumerate(items):
            if kind == "struct":
                self.field_name(it[0])
                self.value(it[1])
            else:
                self.value(it)
            if kind != "sexp":
                if i < n - 1:
                    self.punct(b",")
                elif self.free and self.rng.random() < 0.3:
                    self.features.add("trailing-comma")
                    self.punct(b",")
        self.punct(cl)
        self.depth_sexp.pop()
        self.prev = "delim"

    def document(self, forest):
        r = self.rng
        if r.random() >= self.vtff:
            self.ws = WS_NO_VTFF
        for i, v in enumerate(list(forest) + [None]):
            with self.scope():
                if self.rng.random() < (self.ivm if v is not None else self.ivm / 2) and "d15" not in self.repairs:
                    self.features.add("version-marker")
                    self.tok(b"$ion_1_0", "word")
            if v is not None:
                self.value(v, top=True)
        with self.gap_scope():
            self.out += self.gap(False, self.prev in ("num", "op", "word"))
        return bytes(self.out)


SYSTEM_SIDS = {b"$ion": 1, b"$ion_1_0": 2, b"$ion_symbol_table": 3, b"name": 4, b"version": 5, b"imports": 6, b"symbols": 7,
               b"max_id": 8, b"$ion_shared_symbol_table": 9}


REPAIRS = ("vtff", "cmt", "d14", "d15", "d31", "dot")


def render(forest, rng, freedom=True, sid_spelling=False, ivm=0.0, features=None, repairs=(), vtff=1.0):
    p = Printer(rng, freedom, sid_spelling, ivm, repairs, vtff)
    out = p.document(forest)
    if features is not None:
        features |= p.features
    return out
