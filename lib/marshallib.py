"""marshallib — Go type / Go value / Ion value descriptors for component K11 (marshal), shared by
lib/props/c16.py and c17.py.  Token syntax: coq/Drv/DrvMarshal.v.

Python shapes
  type : ('b',) ('int',k) ('f32',) ('f64',) ('s',) ('L',T) ('A',n,T) ('M',T) ('P',T) ('I',)
         ('ST',[(name:bytes, exported:bool, embedded:bool, tag:bytes, T)]) ('TS',) ('DEC',) ('BIG',) ('TIME',) ('SYM',)
  go value : ('b',bool) ('i',z) ('f',bits) ('s',bytes) ('B',bytes|None) ('L',list|None) ('A',list)
         ('M',dict|None) ('P',v|None) ('I',None|(T,v)) ('S',list) ('T',body) ('D',co,ex,nz) ('G',z) ('TM',body)
         ('Y',text|None,sid)
  ion value : (annots, body) as in iongen, symbols ('sym', bytes | ('sid', n)), timestamps ('tsb', body bytes)
"""
import struct

INTK = {"i8": (-2 ** 7, 2 ** 7 - 1), "i16": (-2 ** 15, 2 ** 15 - 1), "i32": (-2 ** 31, 2 ** 31 - 1), "i64": (-2 ** 63, 2 ** 63 - 1),
        "i": (-2 ** 63, 2 ** 63 - 1), "u8": (0, 2 ** 8 - 1), "u16": (0, 2 ** 16 - 1), "u32": (0, 2 ** 32 - 1),
        "u64": (0, 2 ** 64 - 1), "u": (0, 2 ** 64 - 1), "up": (0, 2 ** 64 - 1)}
TNULL, TBOOL, TINT, TFLOAT, TDEC, TTS, TSYM, TSTR, TCLOB, TBLOB, TLIST, TSEXP, TSTRUCT = range(1, 14)
NAN = 0x7FF8000000000001   # math.NaN(): what the text reader yields for nan


def hx(b):
    return "x" + bytes(b).hex()


# ---------------------------------------------------------------------------
# types
# ---------------------------------------------------------------------------
def ty_tokens(t):
    k = t[0]
    if k == "int":
        return [t[1]]
    if k in ("b", "f32", "f64", "s", "I", "TS", "DEC", "BIG", "TIME", "SYM"):
        return [k]
    if k in ("L", "M", "P"):
        return [k] + ty_tokens(t[1])
    if k == "A":
        return ["A", str(t[1])] + ty_tokens(t[2])
    out = ["ST", str(len(t[1]))]
    for name, ex, emb, tag, ft in t[1]:
        out += [hx(name), ("e" if ex else "u") + ("a" if emb else "n"), hx(tag)] + ty_tokens(ft)
    return out


def parse_ty(ts, i=0):
    c = ts[i]
    if c in INTK:
        return ("int", c), i + 1
    if c in ("b", "f32", "f64", "s", "I", "TS", "DEC", "BIG", "TIME", "SYM"):
        return (c,), i + 1
    if c in ("L", "M", "P"):
        e, j = parse_ty(ts, i + 1)
        return (c, e), j
    if c == "A":
        e, j = parse_ty(ts, i + 2)
        return ("A", int(ts[i + 1]), e), j
    if c == "ST":
        n = int(ts[i + 1])
        j = i + 2
        fs = []
        for _ in range(n):
            name = bytes.fromhex(ts[j][1:])
            fl = ts[j + 1]
            tag = bytes.fromhex(ts[j + 2][1:])
            ft, j = parse_ty(ts, j + 3)
            fs.append((name, fl[0] == "e", fl[1] == "a", tag, ft))
        return ("ST", fs), j
    raise ValueError("type token " + c)


STRUCT_KINDS = ("ST", "TS", "DEC", "BIG", "TIME", "SYM")


def zero(t):
    k = t[0]
    if k == "b":
        return ("b", False)
    if k == "int":
        return ("i", 0)
    if k in ("f32", "f64"):
        return ("f", 0)
    if k == "s":
        return ("s", b"")
    if k == "L":
        return ("B", None) if t[1] == ("int", "u8") else ("L", None)
    if k == "A":
        return ("A", [zero(t[2]) for _ in range(t[1])])
    if k == "M":
        return ("M", None)
    if k == "P":
        return ("P", None)
    if k == "I":
        return ("I", None)
    if k == "ST":
        return ("S", [zero(f[4]) for f in t[1]])
    if k == "TS":
        return ("T", b"")
    if k == "DEC":
        return ("D", 0, 0, False)
    if k == "BIG":
        return ("G", 0)
    if k == "TIME":
        return ("TM", b"")
    return ("Y", None, 0)


# ---------------------------------------------------------------------------
# go values
# ---------------------------------------------------------------------------
def tok_str(text, sid):
    return "tk,%s,%d" % ("-" if text is None else hx(text), sid)


def gv_tokens(g):
    k = g[0]
    if k == "b":
        return ["b1" if g[1] else "b0"]
    if k == "i":
        return ["i%d" % g[1]]
    if k == "f":
        return ["f%d" % g[1]]
    if k == "s":
        return ["s" + hx(g[1])]
    if k == "B":
        return ["Bnil"] if g[1] is None else ["B" + hx(g[1])]
    if k == "L":
        if g[1] is None:
            return ["Lnil"]
        out = ["L", str(len(g[1]))]
        for x in g[1]:
            out += gv_tokens(x)
        return out
    if k in ("A", "S"):
        out = [k, str(len(g[1]))]
        for x in g[1]:
            out += gv_tokens(x)
        return out
    if k == "M":
        if g[1] is None:
            return ["Mnil"]
        out = ["M", str(len(g[1]))]
        for key in sorted(g[1]):
            out += [hx(key)] + gv_tokens(g[1][key])
        return out
    if k == "P":
        return ["Pnil"] if g[1] is None else ["P"] + gv_tokens(g[1])
    if k == "I":
        return ["Inil"] if g[1] is None else ["I"] + ty_tokens(g[1][0]) + gv_tokens(g[1][1])
    if k == "T":
        return ["T" + bytes(g[1]).hex()]
    if k == "TM":
        return ["TM" + bytes(g[1]).hex()]
    if k == "D":
        return ["D%de%dz%d" % (g[1], g[2], 1 if g[3] else 0)]
    if k == "G":
        return ["G%d" % g[1]]
    if k == "Y":
        return ["Y", tok_str(g[1], g[2])]
    raise ValueError(k)


def parse_gv(ts, i=0):
    c = ts[i]
    if c in ("b0", "b1"):
        return ("b", c == "b1"), i + 1
    if c == "Bnil":
        return ("B", None), i + 1
    if c == "Lnil":
        return ("L", None), i + 1
    if c == "Mnil":
        return ("M", None), i + 1
    if c == "Pnil":
        return ("P", None), i + 1
    if c == "Inil":
        return ("I", None), i + 1
    if c in ("L", "A", "S"):
        n = int(ts[i + 1])
        j = i + 2
        l = []
        for _ in range(n):
            x, j = parse_gv(ts, j)
            l.append(x)
        return (c, l), j
    if c == "M":
        n = int(ts[i + 1])
        j = i + 2
        m = {}
        for _ in range(n):
            key = bytes.fromhex(ts[j][1:])
            x, j = parse_gv(ts, j + 1)
            m[key] = x
        return ("M", m), j
    if c == "P":
        x, j = parse_gv(ts, i + 1)
        return ("P", x), j
    if c == "I":
        t, j = parse_ty(ts, i + 1)
        x, j = parse_gv(ts, j)
        return ("I", (t, x)), j
    if c == "Y":
        p = ts[i + 1].split(",")
        return ("Y", None if p[1] == "-" else bytes.fromhex(p[1][1:]), int(p[2])), i + 2
    if c.startswith("TM"):
        return ("TM", bytes.fromhex(c[2:])), i + 1
    h = c[0]
    if h == "i":
        return ("i", int(c[1:])), i + 1
    if h == "f":
        return ("f", int(c[1:])), i + 1
    if h == "s":
        return ("s", bytes.fromhex(c[2:])), i + 1
    if h == "B":
        return ("B", bytes.fromhex(c[2:])), i + 1
    if h == "T":
        return ("T", bytes.fromhex(c[1:])), i + 1
    if h == "D":
        co, rest = c[1:].split("e")
        ex, nz = rest.split("z")
        return ("D", int(co), int(ex), nz != "0"), i + 1
    if h == "G":
        return ("G", int(c[1:])), i + 1
    raise ValueError("go value token " + c)


# ---------------------------------------------------------------------------
# ion values -> tokens (Data/Ion.v show_value syntax, timestamps as raw bodies)
# ---------------------------------------------------------------------------
def sym_tok(y):
    if isinstance(y, tuple):
        return "i%d" % y[1]
    return "t" + bytes(y).hex()


def iv_tokens(v):
    annots, body = v
    out = ["a" + sym_tok(a) for a in annots]
    k = body[0]
    if k == "null":
        out.append("n%d" % body[1])
    elif k == "bool":
        out.append("b1" if body[1] else "b0")
    elif k == "int":
        out.append("I%d" % body[1])
    elif k == "float":
        out.append("F%d" % body[1])
    elif k == "dec":
        out.append("D%de%dz%d" % (body[1], body[2], 1 if body[3] else 0))
    elif k == "tsb":
        out.append("T" + bytes(body[1]).hex())
    elif k == "sym":
        out.append("Y" + sym_tok(body[1]))
    elif k == "str":
        out.append("S" + hx(body[1]))
    elif k == "clob":
        out.append("C" + hx(body[1]))
    elif k == "blob":
        out.append("B" + hx(body[1]))
    elif k in ("list", "sexp"):
        out.append("[" if k == "list" else "(")
        for x in body[1]:
            out += iv_tokens(x)
        out.append("]" if k == "list" else ")")
    else:
        out.append("{")
        for name, x in body[1]:
            out.append("f" + sym_tok(name))
            out += iv_tokens(x)
        out.append("}")
    return out


def parse_iv(ts, i=0):
    annots = []
    while ts[i][0] == "a":
        annots.append(parse_sym(ts[i][1:]))
        i += 1
    c = ts[i]
    if c in ("[", "("):
        close = "]" if c == "[" else ")"
        l = []
        i += 1
        while ts[i] != close:
            x, i = parse_iv(ts, i)
            l.append(x)
        return (annots, ("list" if c == "[" else "sexp", l)), i + 1
    if c == "{":
        l = []
        i += 1
        while ts[i] != "}":
            name = parse_sym(ts[i][1:])
            x, i = parse_iv(ts, i + 1)
            l.append((name, x))
        return (annots, ("struct", l)), i + 1
    h = c[0]
    if h == "n":
        b = ("null", int(c[1:]))
    elif c in ("b0", "b1"):
        b = ("bool", c == "b1")
    elif h == "I":
        b = ("int", int(c[1:]))
    elif h == "F":
        b = ("float", int(c[1:]))
    elif h == "D":
        co, rest = c[1:].split("e")
        ex, nz = rest.split("z")
        b = ("dec", int(co), int(ex), nz != "0")
    elif h == "T":
        b = ("tsb", bytes.fromhex(c[1:]))
    elif h == "Y":
        b = ("sym", parse_sym(c[1:]))
    elif h == "S":
        b = ("str", bytes.fromhex(c[2:]))
    elif h == "C":
        b = ("clob", bytes.fromhex(c[2:]))
    elif h == "B":
        b = ("blob", bytes.fromhex(c[2:]))
    else:
        raise ValueError("ion token " + c)
    return (annots, b), i + 1


def parse_sym(d):
    if d[0] == "t":
        return bytes.fromhex(d[1:])
    return ("sid", int(d[1:]))


# ---------------------------------------------------------------------------
# an independent reading of fields.go's documented behaviour (tags, embedding, visibility)
# ---------------------------------------------------------------------------
class DupField(Exception):
    pass


def py_fields(t):
    """[(name, path, omit, hint, ann, T)] for a struct type; raises DupField on a repeated name."""
    out = []

    def visit(fs, path):
        for i, (name, ex, emb, tag, ft) in enumerate(fs):
            inner = ft[1] if ft[0] == "P" else ft
            if not (ex or (emb and inner[0] in STRUCT_KINDS)):
                continue
            if tag == b"-":
                continue
            tn, _, opts = tag.partition(b",")
            if tn == b"" and emb and inner[0] in STRUCT_KINDS:
                if inner[0] == "ST":
                    visit(inner[1], path + [i])
                elif inner[0] == "SYM":
                    visit([(b"Text", True, False, b"", ("P", ("s",))), (b"LocalSID", True, False, b"", ("int", "i64")),
                           (b"Source", True, False, b"", ("P", ("ST", [(b"Table", True, False, b"", ("s",)),
                                                                        (b"SID", True, False, b"", ("int", "i64"))])))], path + [i])
                continue
            nm = tn or name
            if any(o[0] == nm for o in out):
                raise DupField(nm)
            o = opts.split(b",")
            hint = 0
            for x in o:
                hint = {b"symbol": TSYM, b"clob": TCLOB, b"sexp": TSEXP}.get(x, hint)
            out.append((nm, path + [i], b"omitempty" in o, hint, b"annotations" in o, ft))

    if t[0] == "ST":
        visit(t[1], [])
    return out


def f32_bits_of_f64(bits):
    """float32 bit pattern of float32(x) or None on overflow (struct.pack raises)."""
    x = struct.unpack(">d", struct.pack(">Q", bits))[0]
    if x != x:
        return 0x7FC00000 | ((bits >> 63) << 31)
    try:
        return struct.unpack(">I", struct.pack(">f", x))[0]
    except OverflowError:
        return None


def f64_bits_of_f32(bits):
    x = struct.unpack(">f", struct.pack(">I", bits))[0]
    return struct.unpack(">Q", struct.pack(">d", x))[0]
