"""vlib — shared machinery of the /verif checks.

A check run = (1) Coq build + assumptions of the property's theorems,
(2) build of the extracted model and of the Go harness against /repo's
working tree, (3) correspondence runs (model vs real code on the same request
lines) and property oracles on the real code, (4) classification against
KNOWN_FINDINGS.txt, (5) evidence + verdict.
"""
import hashlib
import json
import os
import random
import re
import subprocess
import sys
import time

ROOT = os.path.dirname(os.path.dirname(os.path.abspath(__file__)))
COQ = os.path.join(ROOT, "coq")
OCAML = os.path.join(ROOT, "ocaml")
HARNESS = os.path.join(ROOT, "harness")
REPO = os.environ.get("VERIF_REPO", "/repo")
VH = os.path.join(HARNESS, "vh_cover" if os.environ.get("VERIF_COVER") else "vh")
VMODEL = os.path.join(OCAML, "_build", "default", "main.exe")
NCPU = os.cpu_count() or 4

GOENV = dict(os.environ, GOFLAGS="-mod=mod", GOPROXY="off", GOSUMDB="off",
             GOTOOLCHAIN="local", CGO_ENABLED=os.environ.get("CGO_ENABLED", "0"))

ALLOWED_AXIOMS = set()  # the development is axiom-free; anything printed is reported


def sh(cmd, cwd=None, timeout=3600, env=None, inp=None):
    p = subprocess.run(cmd, cwd=cwd, shell=isinstance(cmd, str), timeout=timeout,
                       env=env, input=inp, stdout=subprocess.PIPE, stderr=subprocess.STDOUT,
                       universal_newlines=True)
    return p.returncode, p.stdout


# ---------------------------------------------------------------------------
# builds
# ---------------------------------------------------------------------------
FORBIDDEN = re.compile(r"\b(Admitted|admit|Axiom|Axioms|Parameter|Parameters|Conjecture|"
                       r"Unset Guard Checking|bypass_check|Admit Obligations)\b")


def scan_forbidden():
    bad = []
    for d, _, fs in os.walk(COQ):
        for f in fs:
            if f.endswith(".v") and not f.startswith("Tmp_"):
                p = os.path.join(d, f)
                txt = open(p).read()
                # strip comments (non-nested is enough for our files)
                txt2 = re.sub(r"\(\*.*?\*\)", "", txt, flags=re.S)
                for m in FORBIDDEN.finditer(txt2):
                    bad.append("%s: %s" % (os.path.relpath(p, ROOT), m.group(0)))
    return bad


def build_coq(timeout=3000):
    """Full .vo build (incremental).  Returns (ok, log)."""
    if not os.path.exists(os.path.join(COQ, "Makefile")):
        rc, out = sh("coq_makefile -f _CoqProject -o Makefile", cwd=COQ)
        if rc != 0:
            return False, out
    rc, out = sh("timeout %d make -k -j%d" % (timeout, NCPU), cwd=COQ, timeout=timeout + 60)
    return rc == 0, out


def build_model():
    src = os.path.join(COQ, "vmodel.ml")
    if not os.path.exists(src):
        return False, "coq/vmodel.ml missing (extraction did not run)"
    for ext in ("ml", "mli"):
        a, b = os.path.join(COQ, "vmodel." + ext), os.path.join(OCAML, "vmodel." + ext)
        if not os.path.exists(b) or open(a).read() != open(b).read():
            open(b, "w").write(open(a).read())
    rc, out = sh("dune build ./main.exe 2>&1", cwd=OCAML, timeout=1200)
    return rc == 0 and os.path.exists(VMODEL), out


# the main package must be among the instrumented ones, or the counters are never written
COVER_FLAGS = "-cover -coverpkg=./cmd/vh,github.com/amzn/ion-go/ion"
COVER_FLAGS_CLI = "-cover -coverpkg=./ion,./cmd/ion-go"


def cover_mode():
    """VERIF_COVER=<dir>: build the Go side with coverage counters and let every harness process end by itself so that
    the counters are written to <dir> (tools/gocover.py: which statements of /repo the correspondence inputs reach)."""
    d = os.environ.get("VERIF_COVER")
    if d:
        os.environ["GOCOVERDIR"] = d
    return bool(d)


def build_harness(race=False):
    """Build vh against /repo's current working tree with the verif tag."""
    sh("cp %s/go.sum %s/go.sum" % (REPO, HARNESS))
    if REPO != "/repo":
        sh("go mod edit -replace github.com/amzn/ion-go=%s" % REPO, cwd=HARNESS, env=GOENV)
    out_bin = VH + ("_race" if race else "")
    cmd = "go build -tags verif %s %s -o %s ./cmd/vh" % ("-race" if race else "", COVER_FLAGS if cover_mode() and not race else "", out_bin)
    env = dict(GOENV)
    if race:
        env["CGO_ENABLED"] = "1"
    rc, out = sh(cmd, cwd=HARNESS, env=env, timeout=1200)
    return rc == 0, out


# ---------------------------------------------------------------------------
# proof status
# ---------------------------------------------------------------------------
def proof_status(prop_id, theorems, extra_modules=()):
    """Print Assumptions for every theorem of Props/<id>.v.
    Returns dict name -> {'ok':bool,'axioms':[...]} and the raw log."""
    res = {}
    for m in [prop_id] + list(extra_modules):
        vo = os.path.join(COQ, "Props", m + ".vo")
        if not os.path.exists(vo):
            for t in theorems:
                res[t] = {"ok": False, "axioms": [], "why": "Props/%s.vo not built" % m}
            return res, "missing " + vo
    tmp = os.path.join(COQ, "Props", "Tmp_assump_%s_%d.v" % (prop_id, os.getpid()))
    with open(tmp, "w") as f:
        f.write("From IonV Require Import Props.%s.\n" % prop_id)
        for m in extra_modules:
            f.write("From IonV Require Import Props.%s.\n" % m)
        for t in theorems:
            f.write('Goal True. idtac "@@BEGIN %s". exact I. Qed.\n' % t)
            f.write("Print Assumptions %s.\n" % t)
        f.write('Goal True. idtac "@@END". exact I. Qed.\n')
    rc, out = sh("timeout 600 coqc -Q . IonV -w -all %s" % os.path.relpath(tmp, COQ), cwd=COQ, timeout=700)
    base = tmp[:-2]
    for ext in (".v", ".vo", ".vok", ".vos", ".glob"):
        try:
            os.remove(base + ext)
        except OSError:
            pass
    try:
        os.remove(os.path.join(os.path.dirname(tmp), "." + os.path.basename(base) + ".aux"))
    except OSError:
        pass
    chunks = re.split(r"@@BEGIN (\S+)", out)
    seen = {}
    for i in range(1, len(chunks) - 1, 2):
        seen[chunks[i]] = chunks[i + 1].split("@@END")[0]
    for t in theorems:
        body = seen.get(t)
        if body is None or rc != 0 and "Error" in (body or ""):
            res[t] = {"ok": False, "axioms": [], "why": "theorem not found / coqc failed"}
            continue
        if "Closed under the global context" in body:
            res[t] = {"ok": True, "axioms": []}
        else:
            ax = re.findall(r"^(\S+)\s*:", body, flags=re.M)
            bad = [a for a in ax if a not in ALLOWED_AXIOMS]
            res[t] = {"ok": not bad, "axioms": ax}
    return res, out


# ---------------------------------------------------------------------------
# running request lines through the two sides
# ---------------------------------------------------------------------------
def _timed(fn):
    """VERIF_TIMING=1: print what each batch cost (command histogram, seconds) on stderr"""
    def wrapper(lines, *a, **k):
        if not os.environ.get("VERIF_TIMING") or not lines:
            return fn(lines, *a, **k)
        t0 = time.time()
        r = fn(lines, *a, **k)
        cmds = {}
        for ln in lines:
            c = ln.split(" ", 1)[0]
            cmds[c] = cmds.get(c, 0) + 1
        sys.stderr.write("TIMING %s %.1fs %d lines %d bytes %s\n" % (fn.__name__, time.time() - t0, len(lines), sum(len(l) for l in lines), cmds))
        return r
    wrapper.__name__ = fn.__name__
    return wrapper


@_timed
def run_model(lines, timeout=3600, line_timeout=900):
    """All lines through the extracted model (sharded over cores).  One answer per line; a line on which the model
    process dies or stalls is answered 'modelcrash ...' / 'modeltimeout' and the rest of its shard is run in a fresh
    process, so one bad line never takes other answers with it.  Each process is capped at 3 GB.  line_timeout only has
    to catch a model that does not answer at all: the slowest legitimate line (a document with 16 500 distinct symbols
    through the list-based symbol table) takes 35 s alone and several times that on a loaded machine."""
    if not lines:
        return []
    import threading
    nshard = min(NCPU, max(1, len(lines) // 200))
    shards = [lines[i::nshard] for i in range(nshard)]
    outs = [None] * nshard
    deadline = time.time() + timeout

    def start():
        # the extracted code recurses on lists: give it the stack it needs (native stack = ulimit -s)
        return subprocess.Popen(["bash", "-c", "ulimit -v 3000000; ulimit -s unlimited 2>/dev/null || ulimit -s 4000000; exec " + VMODEL],
                                stdin=subprocess.PIPE, stdout=subprocess.PIPE, stderr=subprocess.DEVNULL,
                                universal_newlines=True, env=dict(os.environ, OCAMLRUNPARAM="l=8G"), preexec_fn=os.setsid)

    def work(i):
        sl = shards[i]
        got = []
        restarts = 0
        while len(got) < len(sl):
            todo = sl[len(got):]
            p = start()
            feeder = threading.Thread(target=_feed, args=(p, todo))
            feeder.daemon = True
            feeder.start()
            n0 = len(got)
            last = [time.time()]
            stalled = [False]

            def watchdog():
                while p.poll() is None:
                    time.sleep(1)
                    if time.time() - last[0] > line_timeout or time.time() > deadline:
                        stalled[0] = True
                        _killgroup(p)
                        return
            wd = threading.Thread(target=watchdog)
            wd.daemon = True
            wd.start()
            for o in p.stdout:
                got.append(o.rstrip("\n"))
                last[0] = time.time()
                if len(got) - n0 >= len(todo):
                    break
            _killgroup(p)
            p.stdout.close()
            p.wait()
            if len(got) < len(sl):
                # the process ended before answering line len(got): that line is the one it could not do
                got.append("modeltimeout" if stalled[0] else "modelcrash died")
                restarts += 1
                if restarts > 200 or time.time() > deadline:
                    got += ["modelcrash notrun"] * (len(sl) - len(got))
        outs[i] = got

    ths = [threading.Thread(target=work, args=(i,)) for i in range(nshard)]
    for t in ths:
        t.start()
    for t in ths:
        t.join()
    res = [None] * len(lines)
    for i in range(nshard):
        for j, o in enumerate(outs[i]):
            res[i + j * nshard] = o
    return res


def _killgroup(p):
    """kill the worker and anything it started (it runs in its own process group)"""
    import signal
    try:
        os.killpg(p.pid, signal.SIGKILL)
    except Exception:
        try:
            p.kill()
        except Exception:
            pass


def _feed(p, todo):
    try:
        p.stdin.write("\n".join(todo) + "\n")
        p.stdin.close()
    except Exception:
        pass


def oracle_silent(ctx, component, line, d):
    """d is an answer of sdecode_many / tdecode_many.  True when the specification decoder gave no answer for this case
    ('?...'): that says nothing about ion-go, so it is recorded as a broken tie (never as a failing input) and the
    caller skips the case."""
    if isinstance(d, str) and d.startswith("?"):
        ctx.fail("tie", component, line[:3000], "the specification decoder gave no answer for this case (%s): the oracle is "
                 "unavailable here, nothing is concluded about the code" % d[1:80])
        return True
    return False


def model_unanswered(o):
    """the model process gave no answer for this line (crash, memory cap, stall): never a verdict about the code"""
    return o is None or o.startswith("modelcrash") or o.startswith("modeltimeout")


def _run_go_serial(lines, binary, per_case_timeout, env, retry=True):
    """Feed lines to one vh process and read the answers line by line.  A case that crashes the process is marked
    'fatal ...', a case with no answer within per_case_timeout seconds is marked 'timeout'; the process is restarted
    after it, so a bad case costs its own time only.  A 'timeout' is confirmed by running that case once more alone
    with four times the limit (a loaded machine must not turn a slow answer into a verdict)."""
    import threading
    res = []
    n = len(lines)
    cmd = ["bash", "-c", "ulimit -v %s; exec %s" % (env.get("VH_ULIMIT_KB", "6000000"), binary)]
    while len(res) < n:
        todo = lines[len(res):]
        p = subprocess.Popen(cmd, stdin=subprocess.PIPE, stdout=subprocess.PIPE, stderr=subprocess.PIPE,
                             universal_newlines=True, env=env, preexec_fn=os.setsid)
        feeder = threading.Thread(target=_feed, args=(p, todo))
        feeder.daemon = True
        feeder.start()
        errbuf = []
        et = threading.Thread(target=lambda: errbuf.append(p.stderr.read()))
        et.daemon = True
        et.start()
        last = [time.time()]
        stalled = [False]
        done = [False]

        def watchdog():
            while p.poll() is None and not done[0]:
                time.sleep(0.2)
                if time.time() - last[0] > per_case_timeout:
                    stalled[0] = True
                    _killgroup(p)
                    return
        wd = threading.Thread(target=watchdog)
        wd.daemon = True
        wd.start()
        n0 = len(res)
        for o in p.stdout:
            if not o.endswith("\n"):
                break                      # a partially written last line cannot be trusted
            res.append(o[:-1])
            last[0] = time.time()
            if len(res) - n0 >= len(todo):
                break
        done[0] = True
        if cover_mode() and len(res) - n0 >= len(todo):
            try:
                p.wait(20)               # stdin is closed: the process ends by itself and writes its counters
            except Exception:
                pass
        _killgroup(p)
        p.wait()
        et.join(2)
        if len(res) < n:
            e = errbuf[0] if errbuf else ""
            if stalled[0]:
                tag = "timeout"
                if retry:
                    again = _run_go_serial([lines[len(res)]], binary, per_case_timeout * 4, env, retry=False)
                    if again and again[0] != "timeout":
                        tag = again[0]
                res.append(tag)
            else:
                tag = "fatal"
                if "out of memory" in e or "cannot allocate" in e:
                    tag = "fatal oom"
                elif "stack overflow" in e or "stack exceeds" in e:
                    tag = "fatal stackoverflow"
                elif "DATA RACE" in e:
                    tag = "fatal race"
                res.append(tag)
    return res


@_timed
def run_go(lines, binary=None, per_case_timeout=5, extra_env=None, parallel=True):
    if not lines:
        return []
    binary = binary or VH
    env = dict(os.environ)
    env["VH_ULIMIT_KB"] = str(6000000)
    if extra_env:
        env.update(extra_env)
    nshard = min(NCPU, max(1, len(lines) // 200)) if parallel else 1
    if nshard == 1:
        return _run_go_serial(lines, binary, per_case_timeout, env)
    import threading
    shards = [lines[i::nshard] for i in range(nshard)]
    outs = [None] * nshard

    def work(i):
        outs[i] = _run_go_serial(shards[i], binary, per_case_timeout, env)

    ths = [threading.Thread(target=work, args=(i,)) for i in range(nshard)]
    for t in ths:
        t.start()
    for t in ths:
        t.join()
    res = [None] * len(lines)
    for i in range(nshard):
        for j, o in enumerate(outs[i]):
            res[i + j * nshard] = o
    return res


# ---------------------------------------------------------------------------
# run context
# ---------------------------------------------------------------------------
class Failure:
    def __init__(self, kind, component, case, detail, klass=None):
        self.kind = kind            # 'property' (failing input on the real code) | 'tie' (model/code disagree, property not shown to fail) | 'proof'
        self.component = component
        self.case = case
        self.detail = detail
        self.klass = klass          # known-finding class id, if any


class Ctx:
    def __init__(self, prop_id, tier, seed):
        self.prop = prop_id
        self.tier = tier
        self.seed = seed
        self.rng = random.Random(seed)
        self.failures = []
        self.components = {}     # name -> stats
        self.samples = []
        self.evaluations = 0
        self.distinct = set()
        self.t0 = time.time()
        self.notes = []
        self.known_hit = {}

    def thorough(self):
        return self.tier == "thorough"

    def scale(self, quick, thorough):
        return thorough if self.thorough() else quick

    def count(self, component, n, nontrivial_keys=(), sample=None, **extra):
        st = self.components.setdefault(component, {"evaluations": 0, "nontrivial": 0})
        st["evaluations"] += n
        self.evaluations += n
        before = len(self.distinct)
        for k in nontrivial_keys:
            self.distinct.add(hashlib.sha1((component + "|" + k).encode()).hexdigest()[:16])
        st["nontrivial"] += len(self.distinct) - before
        for k, v in extra.items():
            st[k] = v
        if sample is not None and len(self.samples) < 12:
            self.samples.append({"component": component, "case": sample})

    def fail(self, kind, component, case, detail, klass=None):
        self.failures.append(Failure(kind, component, case, detail, klass))

    # correspondence: same request lines through model and Go
    def correspond(self, component, lines, oracle=None, nontrivial=None, classify=None, go_env=None, canon=None):
        """oracle(line, go_out) -> None if the real code's answer satisfies the property on this
        input, else a string saying how it fails.  nontrivial(line, model_out) -> bool."""
        mo = run_model(lines)
        go = run_go(lines, extra_env=go_env)
        keys = []
        mism = 0
        hist = {}
        for ln, m, g in zip(lines, mo, go):
            if canon:
                m, g = canon(m or ""), canon(g or "")
            cls = (m or "").split(" ")[0]
            hist[cls] = hist.get(cls, 0) + 1
            if nontrivial is None or nontrivial(ln, m):
                keys.append(ln)
            why = oracle(ln, g) if oracle else None
            if m != g:
                mism += 1
            if why:
                k = classify(ln, m, g) if classify else None
                self.fail("property", component, ln, "real code: %s ; model: %s ; %s" % (g, m, why), k)
            elif m != g:
                k = classify(ln, m, g) if classify else None
                self.fail("tie", component, ln, "real code: %s ; model: %s" % (g, m), k)
        self.count(component, len(lines), keys, sample=(lines[len(lines) // 2] + " => " + str(mo[len(lines) // 2])) if lines else None,
                   mismatches=mism, model_outcomes=hist)
        return mo, go


# ---------------------------------------------------------------------------
# known findings
# ---------------------------------------------------------------------------
def load_known():
    p = os.path.join(ROOT, "KNOWN_FINDINGS.txt")
    known = {}
    if os.path.exists(p):
        for ln in open(p):
            ln = ln.strip()
            m = re.match(r"known:\s+property=(\S+)\s+class=(\S+)\s+(.*)", ln)
            if m:
                known.setdefault(m.group(1), {})[m.group(2)] = m.group(3)
    return known


# ---------------------------------------------------------------------------
# verdict + evidence
# ---------------------------------------------------------------------------
def finish(ctx, theorems, level, proofs, proof_log_ok, explanation, assumptions, trusted_base, extra_cov=None):
    known = load_known().get(ctx.prop, {})
    os.makedirs(os.path.join(ROOT, "replays"), exist_ok=True)
    os.makedirs(os.path.join(ROOT, "evidence"), exist_ok=True)
    violations = []
    known_lines = {}
    for f in ctx.failures:
        if f.klass and f.klass in known:
            known_lines.setdefault(f.klass, f)
            continue
        violations.append(f)
    obligations = len(theorems)
    discharged = sum(1 for t in theorems if proofs.get(t, {}).get("ok"))
    axioms = sorted({a for t in theorems for a in proofs.get(t, {}).get("axioms", [])})
    if discharged < obligations:
        for t in theorems:
            if not proofs.get(t, {}).get("ok"):
                violations.append(Failure("proof", "coq", t, "theorem %s of Props/%s.v no longer checks (%s)" %
                                          (t, ctx.prop, proofs.get(t, {}).get("why", "axioms: %s" % proofs.get(t, {}).get("axioms")))))
    for k, f in sorted(known_lines.items()):
        print("KNOWN-FINDING: property=%s %s %s [e.g. %s]" % (ctx.prop, k, known[k], f.case[:160]))
    rc = 0
    replay_path = None
    if violations:
        rc = 1
        prop_f = [f for f in violations if f.kind == "property"]
        first = prop_f[0] if prop_f else violations[0]
        h = hashlib.sha1((first.component + first.case).encode()).hexdigest()[:12]
        replay_path = os.path.join(ROOT, "replays", "%s-%s.json" % (ctx.prop, h))
        json.dump({"property": ctx.prop, "kind": first.kind, "component": first.component,
                   "case": first.case, "detail": first.detail,
                   "failing_input_found": bool(prop_f),
                   "all": [{"kind": f.kind, "component": f.component, "case": f.case[:2000], "detail": f.detail[:2000]}
                           for f in violations[:50]]},
                  open(replay_path, "w"), indent=1)
        tail = "" if prop_f else " no-failing-input-found"
        print("VIOLATION property=%s replay=%s%s" % (ctx.prop, replay_path, tail))
        for f in violations[:8]:
            print("  [%s/%s] %s :: %s" % (f.kind, f.component, f.case[:200], f.detail[:300]))
    cov = {
        "evaluations": ctx.evaluations,
        "distinct_nontrivial": len(ctx.distinct),
        "rule": "request lines generated per component from the seeded PRNG plus fixed boundary/corpus sets; "
                "distinct = distinct request line per component; non-trivial = the model does not answer with a "
                "parse rejection of the request (component-specific rules in 'components')",
        "samples": ctx.samples or ["(no cases)"],
        "obligations": obligations,
        "discharged": discharged,
        "checker_cmd": "make -C coq (coqc 8.16.1, full .vo) ; coqc Print Assumptions on Props/%s.v" % ctx.prop,
        "trusted_base": trusted_base + (["axioms reported by Print Assumptions: " + (", ".join(axioms) if axioms else "none (Closed under the global context)")]),
        "explanation": explanation,
        "components": ctx.components,
        "theorems": {t: proofs.get(t, {}) for t in theorems},
        "known_findings_hit": sorted(known_lines.keys()),
        "notes": ctx.notes,
    }
    if extra_cov:
        cov.update(extra_cov)
    ev = {
        "property_id": ctx.prop,
        "tier": ctx.tier,
        "seed": ctx.seed,
        "level": level,
        "coverage": cov,
        "assumptions": assumptions,
        "wall_s": round(time.time() - ctx.t0, 2),
        "violations": len(violations),
    }
    evdir = os.path.join(ROOT, "coverage", "raw") if cover_mode() else os.path.join(ROOT, "evidence")   # a coverage run is not evidence
    json.dump(ev, open(os.path.join(evdir, ctx.prop + ".json"), "w"), indent=1)
    if rc == 0:
        print("OK property=%s tier=%s evaluations=%d distinct_nontrivial=%d theorems=%d/%d wall=%.1fs" %
              (ctx.prop, ctx.tier, ctx.evaluations, len(ctx.distinct), discharged, obligations, time.time() - ctx.t0))
    return rc
