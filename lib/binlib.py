"""helpers shared by the binary-format property modules"""
from vlib import *
import iongen


def parse_bw(out):
    """'ok r1101 x<bytes> <nwrites>' -> (results, bytes_hex, nwrites) ; else None"""
    t = out.split(" ")
    if t[0] != "ok" or len(t) < 4:
        return None
    return t[1][1:], t[2], int(t[3])


def sdecode_many(hexes):
    """independent spec decoder (extracted SpecBin.sdecode) on many byte strings"""
    outs = run_model(["sdecode " + h for h in hexes])
    res = []
    for o in outs:
        if o.startswith("ok"):
            res.append(iongen.canon_spec_obs(o[3:] if len(o) > 2 else ""))
        elif o == "invalid":
            res.append(None)               # outside the binary format
        else:
            res.append("?" + o)            # no answer (see vlib.oracle_silent): never a verdict
    return res


def gen_forests(ctx, n, opts=None):
    return [iongen.gen_forest(ctx.rng, opts) for _ in range(n)]


def boundary_forests():
    """the quantifier's named boundaries, each as its own document"""
    fs = []
    for z in iongen.INT_EDGES:
        fs.append([([], ("int", z))])
    for b in iongen.FLOAT_EDGES:
        fs.append([([], ("float", b))])
    for n in [0, 1, 13, 14, 127, 128, 16383, 16384]:
        fs.append([([], ("str", b"a" * n))])
        fs.append([([], ("blob", bytes([i % 256 for i in range(n)])))])
        fs.append([([], ("clob", bytes([i % 256 for i in range(n)])))])
        fs.append([([], ("list", [([], ("int", 1))] * n))] if n <= 200 else [([], ("sym", b"s" * n))])
    for t in iongen.TEXT_EDGES:
        fs.append([([t], ("sym", t))])
        fs.append([([], ("struct", [(t, ([t], ("bool", True)))]))])
        fs.append([([], ("str", t))])
    for ty in range(1, 14):
        fs.append([([b"a"], ("null", ty)), ([], ("struct", [(b"f", ([], ("null", ty)))]))])
    # every type under an annotation and under a field
    rng = random.Random(7)
    for _ in range(40):
        v = iongen.gen_value(rng, 0, {"p_annot": 0})
        fs.append([([b"ann"], v[1]), ([], ("struct", [(b"fld", ([b"x", b"y"], v[1]))])), ([], ("list", [v])), ([], ("sexp", [v]))])
    # nested containers whose BODY length sits on every length-encoding boundary
    for L in (12, 13, 14, 15, 126, 127, 128, 129, 16382, 16383, 16384, 16385):
        for kind in ("list", "sexp", "struct"):
            pay = L - (1 if L - 1 < 14 else (2 if L - 2 < 128 else 3))      # string tag + length bytes
            if kind == "struct":
                pay -= 1                                                     # one-byte field id (system symbol)
            pay = max(pay, 0)
            inner = (kind, [([], ("str", b"q" * pay))]) if kind != "struct" else ("struct", [(b"name", ([], ("str", b"q" * pay)))])
            fs.append([([], ("list", [([], inner), ([], ("int", 1))])), ([b"name"], inner), ([], ("struct", [(b"version", ([], inner))]))])
    # floats around the float32 normal/subnormal limits with few mantissa bits
    import struct as _st
    fl = []
    for e in list(range(-160, -118)) + [127, 128, -1, 0]:
        for m in (1.0, 1.5, 1.25, 1.75, 1.0000001192092896):
            try:
                fl.append(_st.unpack(">Q", _st.pack(">d", m * 2.0 ** e))[0])
            except OverflowError:
                pass
    fs.append([([], ("float", b)) for b in fl] + [([], ("float", b | (1 << 63))) for b in fl[:40]])
    # many distinct symbols: symbol IDs beyond 127 and beyond 16383 as values, annotations and field names
    many = [("s%04d" % i).encode() for i in range(150)]
    fs.append([([], ("sym", t)) for t in many] + [([many[-1], many[130]], ("struct", [(many[140], ([many[128]], ("sym", many[149])))]))])
    big = [("t%05d" % i).encode() for i in range(16500)]
    fs.append([([], ("list", [([], ("sym", t)) for t in big]))] + [([big[-1]], ("struct", [(big[16400], ([big[16390]], ("bool", True)))]))])
    # $ion_symbol_table-annotated structs that are NOT at the top level are ordinary values
    lstlike = ([b"$ion_symbol_table"], ("struct", [(b"symbols", ([], ("list", [([], ("str", b"zzz"))])))]))
    fs.append([([], ("list", [([], ("sym", b"before")), lstlike, ([], ("sym", b"after"))])), ([], ("sym", b"tail"))])
    fs.append([([], ("struct", [(b"f", lstlike)])), ([], ("sexp", [lstlike])), ([], ("sym", b"tail2"))])
    # timestamps with every count of fractional digits
    for nf in range(1, 10):
        fs.append([([], ("ts", (2001, 2, 3, 4, 5, 6, 123456789 // 10 ** (9 - nf) * 10 ** (9 - nf), 0, 1, 6, nf))),
                   ([], ("ts", (2001, 2, 3, 4, 5, 6, 10 ** (9 - nf), 90, 2, 6, nf))), ([], ("ts", (2001, 2, 3, 4, 5, 6, 0, 0, 0, 6, nf)))])
    # one caller buffer cut into consecutive lob chunks (the harness passes lobs as sub-slices of ONE backing array, so a
    # Writer that grows or keeps-and-appends-to a caller's slice overwrites the following chunk): lobs on both sides of
    # the 64-byte "do not copy" threshold, each followed by small atoms, at top level and inside every container kind
    chunk = lambda k, n: bytes([(k * 37 + i) % 251 for i in range(n)])
    for kind in ("blob", "clob"):
        lobs = [([], (kind, chunk(k, n))) for k, n in enumerate((100, 64, 63, 200, 65, 1000, 64))]
        small = [([], ("int", 5)), ([], ("bool", True)), ([], ("str", b"zz"))]
        mixed = [x for pair in zip(lobs, small * 3) for x in pair]
        fs.append(lobs + small)
        fs.append(mixed)
        fs.append([([], ("list", mixed)), ([], ("sexp", lobs)), ([], ("struct", [(b"name", v) for v in mixed]))])
        fs.append([([b"a"], lobs[0][1]), ([b"b"], lobs[3][1]), ([], ("struct", [(b"f%d" % i, v) for i, v in enumerate(lobs)]))])
    # decimal exponents at both ends of the int32 range and at every VarInt width boundary (the scale is stored negated)
    for ex in (-2 ** 31, -2 ** 31 + 1, 2 ** 31 - 1, 2 ** 31 - 2, -64, -63, 63, 64, -8192, -8191, 8191, 8192, -2 ** 20, 2 ** 20, -2 ** 27, 2 ** 27):
        fs.append([([], ("dec", co, ex, False)) for co in (0, 1, -1, 12, 10 ** 20)] + [([], ("dec", 0, ex, True))])
    # deep nesting
    v = ([], ("int", 7))
    for i in range(60):
        v = ([], (["list", "sexp"][i % 2], [v]))
    fs.append([v])
    v = ([], ("int", 7))
    for i in range(40):
        v = ([b"n"], ("struct", [(b"k", v)]))
    fs.append([v])
    return fs


def canon_trace(t):
    """canonical form of a traversal trace for model-vs-code comparison: the model prints raw timestamp
    bodies (T<hex>), the harness prints the semantic fields"""
    return iongen.project_trace(t) if " T" in t or t.startswith("T") else t


def canon_trace_full(t):
    # keep symbol IDs (model and code must agree on them) but canonicalise timestamps
    out = []
    for x in t.split(" "):
        if x.startswith("T") and len(x) > 1 and "," not in x:
            try:
                out.append(iongen.ts_token(iongen.ts_from_body(list(bytes.fromhex(x[1:])))))
                continue
            except Exception:
                pass
        out.append(x)
    return " ".join(out)


def encode_docs(ctx, forests, freedom=True):
    return [iongen.Enc(ctx.rng, freedom).stream(f) for f in forests]
