"""helpers shared by the binary-format property modules"""
from vlib import *
import iongen


def parse_bw(out):
    """'ok r1101 x<bytes> <nwrites>' -> (results, bytes_hex, nwrites) ; else None"""
    t = out.split(" ")
    if t[0] != "ok" or len(t) < 4:
        return None
    return t[1][1:], t[2], int(t[3])


def sdecode_many(hexes):
    """independent spec decoder (extracted SpecBin.sdecode) on many byte strings"""
    outs = run_model(["sdecode " + h for h in hexes])
    res = []
    for o in outs:
        if o.startswith("ok"):
            res.append(iongen.canon_spec_obs(o[3:] if len(o) > 2 else ""))
        else:
            res.append(None)
    return res


def gen_forests(ctx, n, opts=None):
    return [iongen.gen_forest(ctx.rng, opts) for _ in range(n)]


def boundary_forests():
    """the quantifier's named boundaries, each as its own document"""
    fs = []
    for z in iongen.INT_EDGES:
        fs.append([([], ("int", z))])
    for b in iongen.FLOAT_EDGES:
        fs.append([([], ("float", b))])
    for n in [0, 1, 13, 14, 127, 128, 16383, 16384]:
        fs.append([([], ("str", b"a" * n))])
        fs.append([([], ("blob", bytes([i % 256 for i in range(n)])))])
        fs.append([([], ("clob", bytes([i % 256 for i in range(n)])))])
        fs.append([([], ("list", [([], ("int", 1))] * n))] if n <= 200 else [([], ("sym", b"s" * n))])
    for t in iongen.TEXT_EDGES:
        fs.append([([t], ("sym", t))])
        fs.append([([], ("struct", [(t, ([t], ("bool", True)))]))])
        fs.append([([], ("str", t))])
    for ty in range(1, 14):
        fs.append([([b"a"], ("null", ty)), ([], ("struct", [(b"f", ([], ("null", ty)))]))])
    # every type under an annotation and under a field
    rng = random.Random(7)
    for _ in range(40):
        v = iongen.gen_value(rng, 0, {"p_annot": 0})
        fs.append([([b"ann"], v[1]), ([], ("struct", [(b"fld", ([b"x", b"y"], v[1]))])), ([], ("list", [v])), ([], ("sexp", [v]))])
    # deep nesting
    v = ([], ("int", 7))
    for i in range(60):
        v = ([], (["list", "sexp"][i % 2], [v]))
    fs.append([v])
    v = ([], ("int", 7))
    for i in range(40):
        v = ([b"n"], ("struct", [(b"k", v)]))
    fs.append([v])
    return fs


def canon_trace(t):
    """canonical form of a traversal trace for model-vs-code comparison: the model prints raw timestamp
    bodies (T<hex>), the harness prints the semantic fields"""
    return iongen.project_trace(t) if " T" in t or t.startswith("T") else t


def canon_trace_full(t):
    # keep symbol IDs (model and code must agree on them) but canonicalise timestamps
    out = []
    for x in t.split(" "):
        if x.startswith("T") and len(x) > 1 and "," not in x:
            try:
                out.append(iongen.ts_token(iongen.ts_from_body(list(bytes.fromhex(x[1:])))))
                continue
            except Exception:
                pass
        out.append(x)
    return " ".join(out)


def encode_docs(ctx, forests, freedom=True):
    return [iongen.Enc(ctx.rng, freedom).stream(f) for f in forests]
