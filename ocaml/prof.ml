let rec pos_of_int n = if n = 1 then Vmodel.XH else if n land 1 = 0 then Vmodel.XO (pos_of_int (n lsr 1)) else Vmodel.XI (pos_of_int (n lsr 1))
let n_of_int n = if n = 0 then Vmodel.N0 else Vmodel.Npos (pos_of_int n)
let table = Array.init 256 n_of_int
let coq_of_string s = let r = ref [] in for i = String.length s - 1 downto 0 do r := table.(Char.code s.[i]) :: !r done; !r
let time name f = let t = Sys.time () in let r = f () in Printf.printf "%s %.2f\n%!" name (Sys.time () -. t); r
let () =
  let n = 20000 in
  let line = "brd 0 x" ^ "e00100ea" ^ String.concat "" (List.init n (fun _ -> "20")) ^ " TY" in
  let l = time "conv" (fun () -> coq_of_string line) in
  let toks = time "tokens" (fun () -> Vmodel.tokens l) in
  let b = List.nth toks 2 in
  let x = time "parse_xhex" (fun () -> Vmodel.parse_xhex b) in
  (match x with Some x -> ignore (time "length" (fun () -> Vmodel.length x)); ignore (time "r_init" (fun () -> Vmodel.r_init x false)) | None -> ());
  ignore (time "run_line" (fun () -> Vmodel.run_line l))
