(* main.ml — generic driver around the extracted model: one request line in,
   one response line out.  Only conversion between OCaml strings and the
   extracted [list N] happens here. *)

let rec pos_of_int (n : int) : Vmodel.positive =
  if n = 1 then Vmodel.XH
  else if n land 1 = 0 then Vmodel.XO (pos_of_int (n lsr 1))
  else Vmodel.XI (pos_of_int (n lsr 1))
let n_of_int (n : int) : Vmodel.n = if n = 0 then Vmodel.N0 else Vmodel.Npos (pos_of_int n)
let rec int_of_pos (p : Vmodel.positive) : int =
  match p with Vmodel.XH -> 1 | Vmodel.XO q -> 2 * int_of_pos q | Vmodel.XI q -> 2 * int_of_pos q + 1
let int_of_n (x : Vmodel.n) : int = match x with Vmodel.N0 -> 0 | Vmodel.Npos p -> int_of_pos p

let table = Array.init 256 n_of_int

let coq_of_string (s : string) : Vmodel.n list =
  let r = ref [] in
  for i = String.length s - 1 downto 0 do r := table.(Char.code s.[i]) :: !r done;
  !r
let string_of_coq (l : Vmodel.n list) : string =
  let b = Buffer.create 64 in
  List.iter (fun c -> Buffer.add_char b (Char.chr ((int_of_n c) land 255))) l;
  Buffer.contents b

let () =
  try
    while true do
      let line = input_line stdin in
      let out = try string_of_coq (Vmodel.run_line (coq_of_string line))
                with Stack_overflow -> "modelcrash stackoverflow"
                   | Out_of_memory -> "modelcrash outofmemory" in
      print_string out; print_char '\n'; flush stdout
    done
  with End_of_file -> flush stdout
