#!/usr/bin/env python3
"""gocover.py — which statements of /repo do the correspondence inputs reach?

The tie between the Coq models and the Go code is differential execution, so it is only as good as the inputs
(DESIGN.md §4).  This tool measures that instead of assuming it: it builds the Go harness and the ion-go binary with
Go's coverage counters (go build -cover, package ion and cmd/ion-go), runs the checks named on the command line
(default: all 20, quick tier) with VERIF_COVER set, and reports per file and per function the statements that no
request line of any check executed.  A function of a modelled file that the harness never reaches is a generator gap
(or dead code); the report is committed as coverage/GO_COVERAGE.md and coverage/go_coverage.json.

  tools/gocover.py [--tier quick|thorough] [--keep] [C01 C02 ...]
  tools/gocover.py --report-only           (re-read coverage/raw)
"""
import json
import os
import re
import subprocess
import sys

ROOT = os.path.dirname(os.path.dirname(os.path.abspath(__file__)))
REPO = os.environ.get("VERIF_REPO", "/repo")
RAW = os.path.join(ROOT, "coverage", "raw")
ENV = dict(os.environ, GOFLAGS="-mod=mod", GOPROXY="off", GOSUMDB="off", GOTOOLCHAIN="local")
ALL = ["C%02d" % i for i in range(1, 21)]


def funcs_of(path):
    """[(first line, last line, name)] of the top-level functions of a Go file (brace matching on column 0)"""
    out = []
    cur = None
    for i, ln in enumerate(open(path, errors="replace").read().split("\n"), 1):
        m = re.match(r"func\s+(\([^)]*\)\s*)?([A-Za-z0-9_]+)", ln)
        if m and cur is None:
            recv = re.sub(r"[()*]", "", (m.group(1) or "")).split()
            name = (recv[-1] + "." if recv else "") + m.group(2)
            cur = (i, name)
            if ln.rstrip().endswith("}") and "{" in ln:
                out.append((i, i, name))
                cur = None
        elif cur is not None and ln.startswith("}"):
            out.append((cur[0], i, cur[1]))
            cur = None
    return out


def report():
    # one textfmt per instrumented binary (the harness, the CLI, rebuilt variants): counter modes may differ between them
    import tempfile
    import shutil
    txt = os.path.join(ROOT, "coverage", "raw.txt")
    hashes = sorted({f.split(".")[1] for f in os.listdir(RAW) if f.startswith("covmeta.")})
    with open(txt, "w") as out:
        for h in hashes:
            d = tempfile.mkdtemp(prefix="cov_")
            for f in os.listdir(RAW):
                if h in f:
                    os.link(os.path.join(RAW, f), os.path.join(d, f))
            part = os.path.join(d, "part.txt")
            rc = subprocess.run("go tool covdata textfmt -i=%s -o %s" % (d, part), shell=True, env=ENV, cwd=REPO,
                                stdout=subprocess.PIPE, stderr=subprocess.STDOUT, universal_newlines=True)
            if rc.returncode == 0:
                out.write(open(part).read())
            else:
                print("covdata %s: %s" % (h, rc.stdout.strip()[:200]))
            shutil.rmtree(d)
    blocks = {}
    for ln in open(txt):
        m = re.match(r"(\S+):(\d+)\.(\d+),(\d+)\.(\d+) (\d+) (\d+)", ln)
        if not m:
            continue
        f = m.group(1).replace("github.com/amzn/ion-go/", "")
        key = (f, int(m.group(2)), int(m.group(3)), int(m.group(4)), int(m.group(5)))
        st, cnt = int(m.group(6)), int(m.group(7))
        b = blocks.setdefault(key, [st, 0])
        b[1] += cnt
    os.remove(txt)
    files = {}
    for (f, l0, c0, l1, c1), (st, cnt) in blocks.items():
        if "export_verif" in f or f.endswith("_test.go") or f.startswith("verifharness"):
            continue
        files.setdefault(f, []).append((l0, l1, st, cnt))
    res = {"files": {}, "total": {}}
    tot = cov = 0
    lines = ["# Go statement coverage of /repo under the correspondence inputs", "",
             "Written by tools/gocover.py (quick tier of the checks unless stated).  `never reached` lists, per function,",
             "the source lines of statements that no request line executed.", "",
             "| file | statements | reached | % |", "|---|---|---|---|"]
    detail = []
    for f in sorted(files):
        fs = funcs_of(os.path.join(REPO, f))
        st = sum(b[2] for b in files[f])
        cv = sum(b[2] for b in files[f] if b[3] > 0)
        tot += st
        cov += cv
        per = {}
        for (l0, l1, s, c) in files[f]:
            fn = next((n for (a, b, n) in fs if a <= l0 <= b), "?")
            d = per.setdefault(fn, {"statements": 0, "reached": 0, "missed_lines": []})
            d["statements"] += s
            if c > 0:
                d["reached"] += s
            else:
                d["missed_lines"].append(l0 if l0 == l1 else "%d-%d" % (l0, l1))
        res["files"][f] = {"statements": st, "reached": cv, "functions": per}
        lines.append("| %s | %d | %d | %.1f |" % (f, st, cv, 100.0 * cv / max(st, 1)))
        miss = [(fn, d) for fn, d in sorted(per.items()) if d["reached"] < d["statements"]]
        if miss:
            detail.append("\n## %s — never reached" % f)
            for fn, d in miss:
                tag = " (function never called)" if d["reached"] == 0 else ""
                detail.append("- `%s`%s: %d of %d statements missed, lines %s" % (
                    fn, tag, d["statements"] - d["reached"], d["statements"],
                    ", ".join(str(x) for x in sorted(d["missed_lines"], key=lambda x: int(str(x).split("-")[0])))))
    lines.append("| **total** | %d | %d | %.1f |" % (tot, cov, 100.0 * cov / max(tot, 1)))
    res["total"] = {"statements": tot, "reached": cov}
    os.makedirs(os.path.join(ROOT, "coverage"), exist_ok=True)
    open(os.path.join(ROOT, "coverage", "GO_COVERAGE.md"), "w").write("\n".join(lines + detail) + "\n")
    json.dump(res, open(os.path.join(ROOT, "coverage", "go_coverage.json"), "w"), indent=1, sort_keys=True)
    print("total statements %d reached %d (%.1f%%) -> coverage/GO_COVERAGE.md" % (tot, cov, 100.0 * cov / max(tot, 1)))


def main():
    args = sys.argv[1:]
    tier = "quick"
    if "--tier" in args:
        i = args.index("--tier")
        tier = args[i + 1]
        del args[i:i + 2]
    if "--report-only" in args:
        return report()
    keep = "--keep" in args
    args = [a for a in args if not a.startswith("--")]
    if not keep:
        subprocess.run("rm -rf %s" % RAW, shell=True)
    os.makedirs(RAW, exist_ok=True)
    env = dict(os.environ, VERIF_COVER=RAW)
    for p in args or ALL:
        r = subprocess.run([os.path.join(ROOT, "bin", "check"), p, "--tier", tier], env=env, cwd=ROOT,
                           stdout=subprocess.PIPE, stderr=subprocess.STDOUT, universal_newlines=True)
        print(p, r.stdout.strip().split("\n")[-1][:200])
        sys.stdout.flush()
    # the evidence files written by these runs come from instrumented binaries: regenerate them with a normal run
    report()


if __name__ == "__main__":
    main()
