#!/usr/bin/env python3
"""Regenerate MANIFEST.json from the table below (claimed properties) and properties.jsonl."""
import json, subprocess
props = [json.loads(l) for l in open('/verif/properties.jsonl')]
hook_commits = subprocess.run("git -C /repo log --format=%h --grep='^verif:'", shell=True, stdout=subprocess.PIPE, universal_newlines=True).stdout.split()
TB = "trusted: Coq 8.16.1 kernel; extraction (ExtrOcamlBasic only); OCaml/Go/Python drivers; the sampled correspondence Go≡model (finite tables exhaustive); see DESIGN.md §6"
CLAIMS = {
 "C01": ("other", "Coq theorems over the Writer and Reader models, for every well-formed value forest of any depth: the binary Writer's output decodes under the specification decoder to exactly the forest (C04_binary) and the binary Reader model's full traversal of that output is exactly the forest's trace, local symbol table included (C01bin); finite-universe text round trip (tw_tdecode_universe); K3/K2/K4/K5 tie the four models to the real Writer/Reader on the same runs; oracle: real write then real read back = the forest's trace in all three writer modes", "§7 C01"),
 "C02": ("other", "29 Coq theorems over the text reader model (Text/Spell*.v, Props/C02.v): spelling freedom as inductive relations independent of the reader (whitespace/comments, underscore/radix/exponent number forms, every escape, short and long strings, symbols, base64 with inner whitespace, clobs, timestamps) and, for ALL spellings, the reader model returns the denoted value; lifted to the full traversal of streams of nested values (c02_traverse_stream_partial: the omitted stream-level spellings are listed in DESIGN.md §9); K5 ties the reader model to the real Reader; oracle on the real code: independent Coq specification decoder SpecText.tdecode + spec-derived printer with randomised spellings, the real Reader's trace of every rendering equals the forest's", "§7 C02"),
 "C03": ("other", "Coq theorem C03bin over the reader model and the independent specification decoder: for every byte string SpecBin.sdecode accepts and that lies within the reader's stated limits (within_limits: VarUInt <= 10 octets, decimal exponent in int32, symbol UInt <= 8 octets, pad field IDs defined, timestamp bodies accepted, no top-level $ion_symbol_table::null.struct, symbol tables of the shapes listed in Props/C03bin.v), the reader model's full traversal yields exactly the values the specification denotes, for all representation freedoms (NOP pads, non-minimal VarUInts, ordered structs, annotation wrappers, several symbol tables, version markers); K2 ties the reader model to the real Reader on encodings from a spec-derived encoder with randomised representation choices plus fixed documents at each limit; oracle: the real trace equals the forest's", "§7 C03"),
 "C04": ("other", "binary: K3 correspondence of the Writer model with the real Writer + the real Writer's bytes judged by the extracted independent decoder SpecBin.sdecode; Coq theorems: every tag declares exactly the bytes buffered under it, for every reachable state of every call sequence; text: finite quoting/escape tables exhaustively + forests (K4)", "§7 C04"),
 "C05": ("other", "documented copy loop run by the real code from binary/text sources with local symbol tables into text/pretty/binary Writers; oracle: copy reads back as the source (symbols by text), binary copies accepted by the independent decoder; Coq: the loop's call sequence denotes the observed forest for any Writer; the binary Writer model resolves tokens by text", "§7 C05"),
 "C06": ("other", "Coq theorems: the binary reader model never panics, always returns within fuel linear in the input and allocates at most input + 64 KiB, for every input and every navigation program (timestamp body parser discharged); the text reader model never panics for every input and program; K2/K5 tie the models to the real readers; on the real code: hostile inputs (extreme lengths and exponents, truncations, deep nesting) through traversal, skip/step-out programs, Decoder.Decode and Unmarshal into 18 target kinds in an isolated worker; outcome classes panic/fatal/timeout/over-allocation are violations", "§7 C06"),
 "C07": ("other", "Coq theorems: an error of the binary or text reader model is permanent over all programs (C07bin_*, tr_sticky*), every text an accessor returns is valid UTF-8 (tr_utf8); K2/K5 tie the models; on the real code: valid binary documents x catalogue of spec-invalidating edits (every truncation, length edits, negative zero of every magnitude length, dangling field names, ...) judged by the independent decoder SpecBin.sdecode, catalogue of malformed texts x contexts and edits judged by SpecText.tdecode; the real Reader must end with a permanent error", "§7 C07"),
 "C08": ("other", "documents x navigation programs (incl. refused calls) against a reference cursor over the value tree; K2 ties the reader model's r_run to the real Reader on the same programs", "§7 C08"),
 "C09": ("proof", "34 Coq theorems over the Gallina model of symboltable.go/symboltoken.go/catalog.go (slot layout, lowest-id lookup, rejection above MaxID, builder stability over all Add histories; refuted variants with witnesses for uint64 overflow and the empty symbol); model tied to the Go API by exhaustive small configurations + random large ones", "§7 C09"),
 "C10": ("proof", "14 Coq theorems: the table ion-go builds from a symbol-table struct denotes the specification's context (C10_step_refines), lifted over every history prefix (C10_history), resolution (C10_resolve), imports by exact/latest/placeholder/error (C10_import), symbol tables never surface; refuted variants for D16/D17; K7 on histories x catalogs x text/binary with an independent Python oracle", "§7 C10"),
 "C11": ("proof", "14 Coq theorems over the Writer-with-imports model: imported text gets the lowest import ID and keeps it, locals are exactly the remaining texts in first-use order, the table written declares the given imports, a fixed table refuses unknown text and emits nothing; K8 + own parser, spec decoder with catalog and NewReaderCat as oracles", "§7 C11"),
 "C15": ("proof", "24 Coq theorems: day number <-> civil date inverse for all integers (era sweep + periodicity), binary write/read round trip for every well-formed timestamp, binary rejection of impossible fields, rounding to the nearest nanosecond; text round trip and literal validity by K9 + independent oracle", "§7 C15"),
 "C12": ("proof", "Coq theorems for every call sequence: no call panics (binary growing-table Writer, text Writer), a recorded error makes every later call fail unchanged, a failing call other than Finish records the error; K3/K4 with the misuse alphabet; 'final Finish nil => bytes denote the successful calls' decided by the oracle with independent decoders", "§7 C12"),
 "C13": ("proof", "Coq theorems over the Gallina model of the binary codecs (length = bytes emitted, read∘append = id, reads never wrap) for all values; model tied to the Go functions by differential execution on boundary-directed inputs", "§7 C13"),
 "C14": ("proof", "45 Coq theorems over the Gallina model of decimal.go (exact rational results of Add/Sub/Mul/Neg/Abs/Shift, Cmp/Equal/Sign vs Qcompare, Truncate closed form, text round trip, literal validity; refuted variants with witnesses); tied to the Go code by a grid + random correspondence with an independent Fraction oracle", "§7 C14"),
 "C16": ("other", "Gallina model of marshal.go/unmarshal.go/fields.go over an inductive universe of Go types; round-trip theorems on the flat sub-universe, refuted full statements with witnesses; K11 correspondence on declared and reflect-built types; oracle: round trip equality and determinism on the real code", "§7 C16"),
 "C17": ("other", "Coq theorems: integer/float/string/bytes targets store exactly the Ion value or return an error (no wrap, no truncation), scalar mismatches are errors, Decoder stream order; K11 value x target matrix; oracle: documented mapping judged independently", "§7 C17"),
 "C18": ("other", "Coq frame theorem: threads whose steps do not write the shared environment produce schedule-independent outputs; its premise is regenerated from the Go source on every run by a go/ssa write-set translator (coq/Conc/SharedWrites.v must be []); race-detector workload as support", "§7 C18"),
 "C19": ("other", "read side: chunkings (every split point, byte-at-a-time, with EOF) give the all-at-once trace; a source failing after k bytes ends in a permanent error (K13 ties the reader model's failing-source flag); write side: Coq theorem tw_prefix for the text Writer (all sequences, all budgets), binary Writer: K3 with budgets + prefix/sticky oracle and the stickiness theorems", "§7 C19"),
 "C20": ("other", "Gallina model of process.go's loop and the event writer; 14 Coq theorems for all forests (no panic, transcode, events one per value/boundary, invalid input reported); K12: the real built binary as a subprocess on generated documents x 5 formats x file/stdin", "§7 C20"),
}
PENDING = set()  # being updated to the repaired tree; re-enabled when green
for k in PENDING:
    CLAIMS.pop(k, None)
import sys, importlib
sys.path.insert(0, '/verif/lib'); sys.path.insert(0, '/verif/lib/props')
checks = []
for pid in sorted(CLAIMS):
    cat, text, ref = CLAIMS[pid]
    cat = importlib.import_module(pid.lower()).LEVEL      # the check module is the single source of the level
    checks.append({
        "property_id": pid,
        "quick_cmd": "bin/check %s --tier quick" % pid,
        "thorough_cmd": "bin/check %s --tier thorough" % pid,
        "evidence_file": "/verif/evidence/%s.json" % pid,
        "replay_cmd_template": "bin/check %s --replay {path}" % pid,
        "engine": "rocq+correspondence",
        "level_claimed": {"category": cat, "text": text, "design_ref": "DESIGN.md " + ref},
        "level_note": TB,
        "technique": "Rocq proof over hand-written Gallina model + correspondence check (extracted model vs Go)" if pid != "C18" else "Rocq proof + source-to-Coq translator (go/ssa write sets) regenerated each run",
    })
m = {"version": 1, "setup_cmd": "bin/setup",
     "hooks": {"guard": "verif", "enable": "go build -tags verif (harness/cmd/vh is built against /repo with the tag)",
               "baseline_off_cmd": "python3 /verif/tools/baseline.py", "source_commits": hook_commits, "add_only": True},
     "engines": [{"name": "rocq+correspondence", "path": "bin/check", "serves_properties": sorted(CLAIMS),
                  "kind_free_text": "Coq 8.16 theorems over hand-written Gallina models; models extracted to OCaml and compared with the Go code on generated inputs; property oracles on the real code; for C18 a translator regenerates the Coq premise from the Go source"}],
     "checks": checks,
     "notes": "work in progress: properties are added as their model, theorems and correspondence are built",
     "not_applicable": [{"property_id": p["id"], "reason": "not yet built in this revision (planned, see DESIGN.md §10)"} for p in props if p["id"] not in CLAIMS]}
json.dump(m, open('/verif/MANIFEST.json', 'w'), indent=1)
print("claimed", sorted(CLAIMS))
