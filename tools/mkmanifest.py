#!/usr/bin/env python3
"""Regenerate MANIFEST.json from the table below (claimed properties) and properties.jsonl."""
import json, subprocess
props = [json.loads(l) for l in open('/verif/properties.jsonl')]
hook_commits = subprocess.run("git -C /repo log --format=%h --grep='^verif:'", shell=True, stdout=subprocess.PIPE, universal_newlines=True).stdout.split()
TB = "trusted: Coq 8.16.1 kernel; extraction (ExtrOcamlBasic only); OCaml/Go/Python drivers; the sampled correspondence Go≡model (finite tables exhaustive); see DESIGN.md §6"
CLAIMS = {
 "C04": ("other", "binary: K3 correspondence of the Writer model with the real Writer + the real Writer's bytes judged by the extracted independent decoder SpecBin.sdecode; theorems on declared lengths = bytes emitted (Coq) ", "§7 C04"),
 "C09": ("proof", "34 Coq theorems over the Gallina model of symboltable.go/symboltoken.go/catalog.go (slot layout, lowest-id lookup, rejection above MaxID, builder stability over all Add histories; refuted variants with witnesses for uint64 overflow and the empty symbol); model tied to the Go API by exhaustive small configurations + random large ones", "§7 C09"),
 "C12": ("other", "K3 with the misuse alphabet (exhaustive short call sequences + random long ones) on binary growing/fixed-table Writers; oracle: no panic, sticky errors, bytes decode to the values of the successful calls", "§7 C12"),
 "C13": ("proof", "Coq theorems over the Gallina model of the binary codecs (length = bytes emitted, read∘append = id, reads never wrap) for all values; model tied to the Go functions by differential execution on boundary-directed inputs", "§7 C13"),
 "C14": ("proof", "31 Coq theorems over the Gallina model of decimal.go (exact rational results of Add/Sub/Mul/Neg/Abs/Shift, Cmp/Equal/Sign vs Qcompare, Truncate closed form, text round trip, literal validity; refuted variants with witnesses); tied to the Go code by a grid + random correspondence with an independent Fraction oracle", "§7 C14"),
 "C18": ("other", "Coq frame theorem: threads whose steps do not write the shared environment produce schedule-independent outputs; its premise is regenerated from the Go source on every run by a go/ssa write-set translator (coq/Conc/SharedWrites.v must be []); race-detector workload as support", "§7 C18"),
}
checks = []
for pid in sorted(CLAIMS):
    cat, text, ref = CLAIMS[pid]
    checks.append({
        "property_id": pid,
        "quick_cmd": "bin/check %s --tier quick" % pid,
        "thorough_cmd": "bin/check %s --tier thorough" % pid,
        "evidence_file": "/verif/evidence/%s.json" % pid,
        "replay_cmd_template": "bin/check %s --replay {path}" % pid,
        "engine": "rocq+correspondence",
        "level_claimed": {"category": cat, "text": text, "design_ref": "DESIGN.md " + ref},
        "level_note": TB,
        "technique": "Rocq proof over hand-written Gallina model + correspondence check (extracted model vs Go)" if pid != "C18" else "Rocq proof + source-to-Coq translator (go/ssa write sets) regenerated each run",
    })
m = {"version": 1, "setup_cmd": "bin/setup",
     "hooks": {"guard": "verif", "enable": "go build -tags verif (harness/cmd/vh is built against /repo with the tag)",
               "baseline_off_cmd": "python3 /verif/tools/baseline.py", "source_commits": hook_commits, "add_only": True},
     "engines": [{"name": "rocq+correspondence", "path": "bin/check", "serves_properties": sorted(CLAIMS),
                  "kind_free_text": "Coq 8.16 theorems over hand-written Gallina models; models extracted to OCaml and compared with the Go code on generated inputs; property oracles on the real code; for C18 a translator regenerates the Coq premise from the Go source"}],
     "checks": checks,
     "notes": "work in progress: properties are added as their model, theorems and correspondence are built",
     "not_applicable": [{"property_id": p["id"], "reason": "not yet built in this revision (planned, see DESIGN.md §10)"} for p in props if p["id"] not in CLAIMS]}
json.dump(m, open('/verif/MANIFEST.json', 'w'), indent=1)
print("claimed", sorted(CLAIMS))
