#!/usr/bin/env python3
"""seeded.py — confirm a seeded defect and run the checks against it.

  seeded.py confirm <src_dir> <id>     src_dir has patch.diff, demo_test.go, meta.json (from a sub-agent)
      In a scratch worktree outside /repo and /verif: the patch applies, the module builds, the baseline
      test suite still passes, the demonstration fails with the patch and passes without it.
      On success the files are copied to /verif/seeded/<id>/ with the commands run recorded in meta.json.
  seeded.py run <id> [check ids...]    apply /verif/seeded/<id>/patch.diff to /repo, run the quick checks
      (default: the property named in meta.json), undo the patch, record the outcome in meta.json.
"""
import json
import os
import shutil
import subprocess
import sys
import tempfile

ENV = dict(os.environ, GOFLAGS="-mod=mod", GOPROXY="off", GOSUMDB="off", GOTOOLCHAIN="local")
SEEDED = "/verif/seeded"


def sh(cmd, cwd=None, env=None, timeout=3600):
    p = subprocess.run(cmd, shell=True, cwd=cwd, env=env or ENV, stdout=subprocess.PIPE, stderr=subprocess.STDOUT,
                       universal_newlines=True, timeout=timeout)
    return p.returncode, p.stdout


def confirm(src, mid):
    ran = []
    wt = tempfile.mkdtemp(prefix="seedwt_", dir="/tmp")
    os.rmdir(wt)
    rc, out = sh("git -C /repo worktree add -f %s HEAD" % wt)
    ok = True
    try:
        demo = open(os.path.join(src, "demo_test.go")).read()
        pkg_main = "package main" in demo.split("\n", 30)[0:30].__str__()
        pkgdir = "cmd/ion-go" if demo.lstrip().split("\n")[0].strip() == "package main" or "\npackage main" in demo[:2000] else "ion"
        demo_path = os.path.join(wt, pkgdir, "zz_demo_test.go")
        run_demo = "go test -vet=off -count=1 -run 'TestDemo|Test.*Demo|TestSeeded' ./ion"
        meta = json.load(open(os.path.join(src, "meta.json")))
        # 1. demo passes on the clean tree
        shutil.copy(os.path.join(src, "demo_test.go"), demo_path)
        rc0, o0 = sh("go test -vet=off -count=1 -run 'Demo|Seeded' ./%s" % pkgdir, cwd=wt)
        ran.append("clean tree: demo rc=%d" % rc0)
        if rc0 != 0 or "no tests to run" in o0:
            ok = False
            ran.append("demo does not pass on the clean tree (or matches no test): " + o0[-400:])
        os.remove(demo_path)
        # 2. patch applies, builds, baseline unchanged
        rc1, o1 = sh("git apply %s" % os.path.join(src, "patch.diff"), cwd=wt)
        ran.append("git apply rc=%d" % rc1)
        if rc1 != 0:
            ok = False
            ran.append(o1[-300:])
        rc2, o2 = sh("go build ./... && go vet ./ion", cwd=wt)
        ran.append("go build+vet rc=%d" % rc2)
        rc3, o3 = sh("VERIF_REPO=%s python3 /verif/tools/baseline.py" % wt)
        ran.append("baseline with patch: " + o3.strip().split("\n")[0])
        if rc2 != 0 or rc3 != 0:
            ok = False
        # 3. demo fails with the patch
        shutil.copy(os.path.join(src, "demo_test.go"), demo_path)
        rc4, o4 = sh("go test -vet=off -count=1 -run 'Demo|Seeded' ./%s" % pkgdir, cwd=wt)
        ran.append("patched tree: demo rc=%d" % rc4)
        if rc4 == 0:
            ok = False
            ran.append("demo does not fail with the patch")
        if ok:
            dst = os.path.join(SEEDED, mid)
            os.makedirs(dst, exist_ok=True)
            if os.path.abspath(src) != os.path.abspath(dst):
                shutil.copy(os.path.join(src, "patch.diff"), dst)
                shutil.copy(os.path.join(src, "demo_test.go"), dst)
            rc9, head = sh("git -C /repo rev-parse --short HEAD")
            meta["confirmed_at"] = head.strip()
            meta["confirmed"] = ran
            meta["demo_cmd"] = "cp demo_test.go <tree>/%s/zz_demo_test.go && cd <tree> && go test -vet=off -count=1 -run 'Demo|Seeded' ./%s" % (pkgdir, pkgdir)
            json.dump(meta, open(os.path.join(dst, "meta.json"), "w"), indent=1)
    finally:
        sh("git -C /repo worktree remove --force %s" % wt)
    print(("CONFIRMED " if ok else "REJECTED ") + mid)
    for r in ran:
        print("   ", r)
    return ok


def run(mid, checks):
    dst = os.path.join(SEEDED, mid)
    meta = json.load(open(os.path.join(dst, "meta.json")))
    checks = checks or [meta["property"]]
    rc, out = sh("git -C /repo status --short")
    if out.strip():
        print("refusing: /repo working tree not clean:\n" + out)
        return
    rc, out = sh("git -C /repo apply %s" % os.path.join(dst, "patch.diff"))
    res = {}
    try:
        if rc != 0:
            print("patch does not apply to /repo HEAD: " + out[-300:])
            res = {"error": "patch does not apply"}
        else:
            for c in checks:
                rc, o = sh("timeout 1500 /verif/bin/check %s --tier quick" % c, cwd="/verif", env=os.environ)
                v = [l for l in o.split("\n") if l.startswith("VIOLATION")]
                first = [l for l in o.split("\n") if l.startswith("  [")][:2]
                res[c] = {"exit": rc, "violation": v[:1], "first": [f[:300] for f in first]}
                print(c, "exit", rc, (v[:1] or ["(no violation line)"])[0][:200])
                for f in first:
                    print("     ", f[:260])
    finally:
        sh("git -C /repo checkout -- .")
        sh("git -C /repo status --short")
    meta.setdefault("checks_run", {}).update(res)
    json.dump(meta, open(os.path.join(dst, "meta.json"), "w"), indent=1)


def runwt(mid, checks, copy="/work/s/verif"):
    """the same as run, but without touching /repo or /verif: the patch is applied in a scratch worktree and the checks
    run from a synchronised copy of /verif with VERIF_REPO pointing at that worktree (lib/vlib.py honours it), so that
    seeded changes can be screened while other work uses /repo.  Recorded in meta.json under checks_run_wt."""
    dst = os.path.join(SEEDED, mid)
    meta = json.load(open(os.path.join(dst, "meta.json")))
    checks = checks or [meta["property"]]
    os.makedirs(os.path.dirname(copy), exist_ok=True)
    sh("rsync -a --exclude .git --exclude evidence --exclude replays --exclude coverage /verif/ %s/" % copy)
    os.makedirs(os.path.join(copy, "evidence"), exist_ok=True)
    wt = tempfile.mkdtemp(prefix="seedrun_", dir="/tmp")
    os.rmdir(wt)
    sh("git -C /repo worktree add -f --detach %s HEAD" % wt)
    res = {}
    try:
        rc, out = sh("git apply %s" % os.path.join(dst, "patch.diff"), cwd=wt)
        if rc != 0:
            print("patch does not apply: " + out[-300:])
            res = {"error": "patch does not apply"}
        else:
            for c in checks:
                rc, o = sh("timeout 1800 %s/bin/check %s --tier quick" % (copy, c), cwd=copy, env=dict(os.environ, VERIF_REPO=wt))
                v = [l for l in o.split("\n") if l.startswith("VIOLATION")]
                first = [l for l in o.split("\n") if l.startswith("  [")][:2]
                res[c] = {"exit": rc, "violation": v[:1], "first": [f[:300] for f in first]}
                print(mid, c, "exit", rc, (v[:1] or ["(no violation line)"])[0][:200])
                for f in first:
                    print("     ", f[:260])
                sys.stdout.flush()
    finally:
        sh("git -C /repo worktree remove --force %s" % wt)
    meta.setdefault("checks_run_wt", {}).update(res)
    json.dump(meta, open(os.path.join(dst, "meta.json"), "w"), indent=1)


if __name__ == "__main__":
    if sys.argv[1] == "confirm":
        sys.exit(0 if confirm(sys.argv[2], sys.argv[3]) else 1)
    elif sys.argv[1] == "reconfirm":
        # the same confirmation against /repo's current HEAD, for a change already stored under /verif/seeded
        sys.exit(0 if confirm(os.path.join(SEEDED, sys.argv[2]), sys.argv[2]) else 1)
    elif sys.argv[1] == "runwt":
        runwt(sys.argv[2], sys.argv[3:])
    elif sys.argv[1] == "run":
        run(sys.argv[2], sys.argv[3:])
