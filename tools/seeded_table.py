#!/usr/bin/env python3
"""seeded_table.py — print the markdown table of DESIGN.md §13 from seeded/*/meta.json (what each run recorded)."""
import glob
import json
import os
import re

rows = []
for d in sorted(glob.glob("/verif/seeded/*/")):
    mid = os.path.basename(d.rstrip("/"))
    m = json.load(open(d + "meta.json"))
    summ = re.split(r"(?<=[.;])\s", m.get("summary", "").strip())[0][:170].replace("|", "/")
    cr = m.get("checks_run") or m.get("checks_run_wt", {})     # round 2 was run in a scratch worktree (seeded.py runwt)
    cells = []
    for c in sorted(cr):
        r = cr[c]
        if not isinstance(r, dict):
            continue
        if r.get("exit") == 1 and r.get("violation"):
            v = r["violation"][0]
            kind = "tie only (no-failing-input-found)" if v.rstrip().endswith("no-failing-input-found") else "caught, replay"
            comp = ""
            if r.get("first"):
                mm = re.search(r"\[(\w+)\]\s+(\S+)", r["first"][0])
                comp = " (%s %s)" % (mm.group(1), mm.group(2)) if mm else ""
            cells.append("%s: %s%s" % (c, kind, comp))
        elif r.get("exit") == 0:
            cells.append("%s: **missed**" % c)
        else:
            cells.append("%s: exit %s" % (c, r.get("exit")))
    rows.append("| %s | %s | %s | %s |" % (mid, ", ".join(os.path.basename(f) for f in m.get("files", [])), summ, "; ".join(cells) or "not run"))
print("| id | files | change | outcome of `bin/check` (quick tier) |")
print("|---|---|---|---|")
print("\n".join(rows))
