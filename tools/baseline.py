#!/usr/bin/env python3
"""Run the repository's test suite (guard off unless --tags given) and compare with BASELINE.json's stable_pass."""
import json, os, subprocess, sys
tags = []
if len(sys.argv) > 2 and sys.argv[1] == "--tags":
    tags = ["-tags", sys.argv[2]]
repo = os.environ.get("VERIF_REPO", "/repo")
env = dict(os.environ, GOFLAGS="-mod=mod", GOPROXY="off", GOSUMDB="off", GOTOOLCHAIN="local")
p = subprocess.run(["go", "test"] + tags + ["-json", "-vet=off", "-count=1", "-timeout", "25m", "./..."],
                   cwd=repo, env=env, stdout=subprocess.PIPE, stderr=subprocess.STDOUT, universal_newlines=True)
passed = set()
for ln in p.stdout.split("\n"):
    try:
        ev = json.loads(ln)
    except Exception:
        continue
    if ev.get("Action") == "pass" and ev.get("Test"):
        passed.add("%s::%s" % (ev["Package"], ev["Test"]))
base = json.load(open("/root/.vp/BASELINE.json"))
want = set(base["stable_pass"])
missing = sorted(want - passed)
print("baseline stable_pass=%d passed_now=%d missing=%d" % (len(want), len(passed & want), len(missing)))
for m in missing[:40]:
    print("  MISSING", m)
sys.exit(1 if missing else 0)
