#!/bin/bash
# merge_agent.sh <name>: copy the NEW files of /work/<name>/verif and /work/<name>/repo into /verif and /repo
n=$1
cd /work/$n/verif
git ls-files --others --exclude-standard | grep -v '^evidence/' | grep -v '^replays/' | while read f; do
  mkdir -p "/verif/$(dirname "$f")"
  if [ -e "/verif/$f" ]; then echo "EXISTS /verif/$f (skipped)"; else cp "$f" "/verif/$f"; echo "+ $f"; fi
done
cd /work/$n/repo
git ls-files --others --exclude-standard | while read f; do
  mkdir -p "/repo/$(dirname "$f")"
  if [ -e "/repo/$f" ]; then echo "EXISTS /repo/$f (skipped)"; else cp "$f" "/repo/$f"; echo "+ repo:$f"; fi
done
