(* C01text.v — C01, TEXT half: "writing a forest with the text Writer and reading the output back with the text
   reader gives the forest", as a theorem connecting the two MODELS (Text/TextWriter.v, Text/TextReader.v) for
   EVERY well-formed forest (any nesting depth, unbounded integers, arbitrary strings / symbols / clobs / blobs,
   annotations, field names) — by induction, where Text/TextRoundtripP.v had a finite universe by vm_compute.

   Statements only; the proofs are in Text/WriteSpell{Out,Scalar,Tree,Stream}.v, the vocabulary in Text/WriteSpell.v:
   [wt_stream F quiet vs] the bytes of the forest in compact mode, [tvs F vs] the forest as the text reader presents
   it (tokens resolved under the system symbol table), [wf_top] the forests covered.

   Scope: compact mode (TextWriterPretty is not covered), a Writer without shared symbol tables on a sink that
   never fails (the failing sink is C12/C19's business), canonical call sequence [calls_of_stream].
   Hypotheses, all in [wf_top] (Text/WriteSpell.v, with the reason at each clause):
   - strings and symbol texts are valid UTF-8 byte strings (the Writer copies bytes >= 128 unchanged: invalid
     UTF-8 goes out as invalid UTF-8, which the reader rejects, tr_utf8 / C07);
   - symbols without text are $0..$9 (what the system table resolves; under LSys the reader refuses any other $n);
   - type codes of typed nulls are 1..13;
   - the text of every finite float / decimal / timestamp PRESENT IN THE FOREST, which is an input of the Writer
     model ([formats]), is a literal of the grammar that denotes the value ([float_fmt_ok], [dec_fmt_ok], [ts_fmt_ok]);
     nan, +inf, -inf, 0e0 and -0e0 are written by the Writer itself and are covered without hypothesis;
   - at top level, no struct / null.struct whose first annotation reads as $ion_symbol_table (it IS a local symbol
     table, not a value; also omitted by c02_traverse_stream_partial).
   What is NOT excluded although c02_traverse_stream_partial omits it: the Writer never emits operators, long strings,
   comments or a bare $ion_1_0 (it quotes '$ion_1_0'), so those omissions do not restrict the forests. *)
From Coq Require Import String List NArith ZArith Bool Lia.
From IonV Require Import Base.Wire Base.Utf8 Data.Ion Num.Float Num.Decimal Bin.BinWriter Bin.BitStream Bin.BinReader
  Text.TextOut Text.TextWriter Text.TextRoundtrip Text.Tokenizer Text.Skipper Text.TextReader Text.TextNum Text.SpecText
  Text.SpellBase Text.SpellWs Text.SpellNum Text.SpellTs Text.SpellStream Text.SpellTree Text.SpellTreeEx
  Text.WriteSpell Text.WriteSpellOut Text.WriteSpellScalar Text.WriteSpellTree Text.WriteSpellStream.
Import ListNotations.
Open Scope N_scope.

(* 1. the Writer model: every call of the canonical sequence returns nil and the bytes are [wt_stream] *)
Theorem C01text_writer_output : forall F quiet vs, Forall (wf_value F) vs ->
  exists w oks, tw_drive F (new_text_writer None false quiet) (calls_of_stream vs) = Ok (w, oks) /\
                forallb (fun b => b) oks = true /\ sink_bytes (tw_out w) = wt_stream F quiet vs.
Proof. exact forest_written. Qed.
Print Assumptions C01text_writer_output.

(* 2. one value, in any container context, with any pending annotations: its text has no CR and is a spelling of
   the value ([tspell]) whose follow condition holds in front of `,` `]` ` ` `)` `}` LF and the end of the output *)
Theorem C01text_value_spells : forall F v, wf_value F v -> forall pa, Forall wf_sym pa ->
  no_cr (wt F pa v) /\
  forall ctx, (ctx = [] -> top_ok_ann pa v) ->
  exists fol, fol_ok fol /\ tspell PD PT LSys ctx (wt F pa v) fol (tv F pa v).
Proof. exact value_spells. Qed.
Print Assumptions C01text_value_spells.

(* 3. the whole output is a spelling of the forest *)
Theorem C01text_stream_spells : forall F quiet vs, Forall (wf_top F) vs ->
  tops_spell PD PT LSys (wt_stream F quiet vs) (tvs F vs) /\ no_cr (wt_stream F quiet vs).
Proof. exact stream_spells. Qed.
Print Assumptions C01text_stream_spells.

(* 4. HEADLINE: write, then read.  For every formats oracle and every well-formed forest the Writer model accepts
   every call, and the reader model's full traversal of the bytes written (Next / FieldName / Annotations / Type /
   IsNull / accessor or StepIn..StepOut, then F e0 F e0 F e0) is exactly the trace of the forest. *)
Theorem C01text_write_then_read : forall F quiet vs, Forall (wf_top F) vs ->
  exists w oks, tw_drive F (new_text_writer None false quiet) (calls_of_stream vs) = Ok (w, oks) /\
                forallb (fun b => b) oks = true /\
                sink_bytes (tw_out w) = wt_stream F quiet vs /\
                tops_spell PD PT LSys (sink_bytes (tw_out w)) (tvs F vs) /\
                x_traverse PD PT (sink_bytes (tw_out w)) false = ttrace (tvs F vs).
Proof. exact write_then_read. Qed.
Print Assumptions C01text_write_then_read.

(* the zeros need no hypothesis on the oracle *)
Theorem C01text_float_zero : forall F, float_fmt_ok F 0 /\ float_fmt_ok F (2 ^ 63).
Proof. exact float_zero_ok. Qed.
Print Assumptions C01text_float_zero.

(* ---- the hypotheses are satisfiable by a non-trivial object -------------------------------------------------------- *)
(* an oracle: strconv.FormatFloat of 1.0; Decimal.String as modelled in Num/Decimal.v ([dec_format]); the text of one
   timestamp (2024-02-29T23:59+05:30, binary body 02 CA 0F E8 82 9D 92 9D) *)
Definition cv (d : Ion.dec) : Decimal.dec :=
  {| d_n := d_coef d; d_scale := (- d_exp d)%Z; Decimal.d_negzero := Ion.d_negzero d |}.
Definition ex_ts_body : list N := [2; 202; 15; 232; 130; 157; 146; 157].
Definition ex_formats : formats :=
  {| fmt_float := fun bits => if bits =? 4607182418800017408 then s "1e+00" else s "?";
     fmt_dec := fun d => dec_format (cv d);
     fmt_ts := fun _ body => if list_eqb body ex_ts_body then ts_text (TsMinute 2024 2 29 23 59 (OffPlus 5 30)) else [] |}.
Definition sy (x : string) : symv := SymText (s x).
Definition ex_forest : list value :=
  [ VAnn [sy "a b"; sy "name"]
      (VStruct [ (sy "x y", VString (s "a""b\c" ++ [10; 9; 195; 169; 39]));
                 (sy "$7", VInt 123456789012345678901234567890);
                 (sy "null", VInt (-9223372036854775809));
                 (sy "k", VList [VSymbol (sy "$7"); VSymbol (sy "nan"); VSymbol (SymSid 4); VSymbol (sy "$ion_1_0");
                                 VBlob [1; 2; 3; 4]; VClob [0; 255; 34]; VSexp []; VStruct []]) ]);
    VSexp [ VFloat 4607182418800017408; VFloat 9221120237041090561; VFloat 9218868437227405312; VFloat 18442240474082181120;
            VFloat (2 ^ 63); VDecimal {| d_coef := -12345; d_exp := -3; Ion.d_negzero := false |};
            VDecimal {| d_coef := 0; d_exp := -3; Ion.d_negzero := true |}; VTimestamp ex_ts_body;
            VAnn [SymSid 3] (VNull 13); VBool true; VSymbol (sy "+") ];
    VAnn [sy "$ion_symbol_table"] (VList [VAnn [sy "$ion_symbol_table"] (VStruct [])]);
    VSymbol (sy "$ion_1_0") ].

Example C01text_ex_wf : Forall (wf_top ex_formats) ex_forest.
Proof.
  repeat (apply Forall_cons || apply Forall_nil); (split; [|cbn; try exact I; reflexivity]); cbn [wf_value wf_scalar wf_sym].
  - split; [repeat (constructor; [cbn; split; [repeat constructor|reflexivity]|]); constructor|].
    repeat split; try reflexivity; try lia; try (repeat constructor; fail).
  - repeat split; try reflexivity; try lia; try (repeat constructor; fail).
    + right; right.
      exists {| n_neg := false; n_iw := [49]; n_ip := [49]; n_dot := false; n_fw := []; n_fp := []; n_exp := Some (101, [43], [48]) |}.
      split; [|split; reflexivity]. split; [|split; reflexivity]. unfold num_wf; cbn.
      split; [apply usd; [reflexivity|constructor]|]. split; [right; discriminate|]. split; [split; reflexivity|].
      split; [now left|]. split; [right; now left|]. split; [discriminate|repeat constructor].
    + right; right. exact (proj2 (float_zero_ok ex_formats)).
    + exists {| n_neg := true; n_iw := s "12"; n_ip := s "12"; n_dot := true; n_fw := s "345"; n_fp := s "345"; n_exp := None |}.
      split; [|split; reflexivity]. split; [|split; reflexivity]. unfold num_wf; cbn.
      split; [apply usd; [reflexivity|repeat constructor]|]. split; [right; discriminate|].
      split; [right; apply usd; [reflexivity|repeat constructor]|exact I].
    + exists {| n_neg := true; n_iw := [48]; n_ip := [48]; n_dot := false; n_fw := []; n_fp := []; n_exp := Some (100, [45], [51]) |}.
      split; [|split; reflexivity]. split; [|split; reflexivity]. unfold num_wf; cbn.
      split; [apply usd; [reflexivity|constructor]|]. split; [now left|]. split; [split; reflexivity|].
      split; [right; right; now left|]. split; [right; now right|]. split; [discriminate|repeat constructor].
    + exists (TsMinute 2024 2 29 23 59 (OffPlus 5 30)). repeat split; reflexivity.
    + constructor; [cbn; lia|constructor].
  - repeat split; try reflexivity; repeat (constructor; [cbn; split; [repeat constructor|reflexivity]|]); constructor.
  - split; [repeat constructor|reflexivity].
Qed.

(* the bytes written, the trace read back, and the specification decoder's reading of the same bytes *)
Example C01text_ex_bytes :
  SpellStream.show_str (wt_stream ex_formats false ex_forest) =
  ("'a b'::name::{'x y':""a\""b\\c\n\t" ++ String (Ascii.ascii_of_N 195) (String (Ascii.ascii_of_N 169) "") ++
   "'"",'$7':123456789012345678901234567890,'null':-9223372036854775809,k:['$7','nan',$4,'$ion_1_0',{{AQIDBA==}},{{""\0\xFF\""""}},(),{}]}" ++
   String (Ascii.ascii_of_N 10) "" ++
   "(1e+0 nan +inf -inf -0e+0 -12.345 -0d-3 2024-02-29T23:59+05:30 $3::null.struct true '+')" ++ String (Ascii.ascii_of_N 10) "" ++
   "$ion_symbol_table::[$ion_symbol_table::{}]" ++ String (Ascii.ascii_of_N 10) "" ++ "'$ion_1_0'" ++ String (Ascii.ascii_of_N 10) "")%string.
Proof. vm_compute. reflexivity. Qed.
Example C01text_ex_roundtrip :
  exists w oks, tw_drive ex_formats (new_text_writer None false false) (calls_of_stream ex_forest) = Ok (w, oks) /\
                forallb (fun b => b) oks = true /\
                x_traverse PD PT (sink_bytes (tw_out w)) false = ttrace (tvs ex_formats ex_forest).
Proof.
  destruct (write_then_read ex_formats false ex_forest C01text_ex_wf) as (w & oks & E & Hok & _ & _ & Ht). eauto.
Qed.
(* the trace: annotations and field names as reader tokens (text.sid: the bare system symbol `name` carries ID 4,
   `$4` and `$3` are resolved to name / $ion_symbol_table), NaN canonical, finite floats as the literal handed to
   strconv.ParseFloat, the timestamp as the fields parsed *)
Example C01text_ex_trace :
  SpellStream.show_str (join_sp (ttrace (tvs ex_formats ex_forest))) =
  "T nil a[k612062.-1;k6e616d65.4;] y13 n0 ok T k782079.-1 a[] y8 n0 Sx6122625c630a09c3a927 T k2437.-1 a[] y3 n0 I123456789012345678901234567890 T k6e756c6c.-1 a[] y3 n0 I-9223372036854775809 T k6b.-1 a[] y11 n0 ok T nil a[] y7 n0 k2437.-1 T nil a[] y7 n0 k6e616e.-1 T nil a[] y7 n0 k6e616d65.4 T nil a[] y7 n0 k24696f6e5f315f30.-1 T nil a[] y10 n0 Bx01020304 T nil a[] y9 n0 Bx00ff22 T nil a[] y12 n0 ok F ok T nil a[] y13 n0 ok F ok F ok F ok T nil a[] y12 n0 ok T nil a[] y4 n0 Ftext31652b30 T nil a[] y4 n0 F9221120237041090560 T nil a[] y4 n0 F9218868437227405312 T nil a[] y4 n0 F18442240474082181120 T nil a[] y4 n0 Ftext2d30652b30 T nil a[] y5 n0 D-12345e-3z0 T nil a[] y5 n0 D0e-3z1 T nil a[] y6 n0 T2024,2,29,23,59,0,0,330,2,4,0 T nil a[k24696f6e5f73796d626f6c5f7461626c65.3;] y13 n1 T nil a[] y2 n0 b1 T nil a[] y7 n0 k2b.-1 F ok T nil a[k24696f6e5f73796d626f6c5f7461626c65.3;] y11 n0 ok T nil a[k24696f6e5f73796d626f6c5f7461626c65.3;] y13 n0 ok F ok F ok T nil a[] y7 n0 k24696f6e5f315f30.-1 F e0 F e0 F e0"%string.
Proof. vm_compute. reflexivity. Qed.
(* cross-check with the independent specification decoder: the same bytes denote the forest (with $4 / $3 resolved
   to their texts and the NaN payload dropped, as the specification says) *)
Example C01text_ex_spec :
  option_map (fun v => SpellStream.show_str (show_values v)) (tdecode (wt_stream ex_formats false ex_forest)) =
  Some "at612062 at6e616d65 { ft782079 Sx6122625c630a09c3a927 ft2437 I123456789012345678901234567890 ft6e756c6c I-9223372036854775809 ft6b [ Yt2437 Yt6e616e Yt6e616d65 Yt24696f6e5f315f30 Bx01020304 Cx00ff22 ( ) { } ] } ( F4607182418800017408 F9221120237041090560 F9218868437227405312 F18442240474082181120 F9223372036854775808 D-12345e-3z0 D0e-3z1 T02ca0fe8829d929d at24696f6e5f73796d626f6c5f7461626c65 n13 b1 Yt2b ) at24696f6e5f73796d626f6c5f7461626c65 [ at24696f6e5f73796d626f6c5f7461626c65 { } ] Yt24696f6e5f315f30"%string.
Proof. vm_compute. reflexivity. Qed.
