(* C16 — Marshal then Unmarshal returns an equal Go value.
   Statements only; every proof is [exact <lemma>]. *)
From Coq Require Import String List NArith ZArith.
From IonV Require Import Base.Wire Data.Ion Num.Float Bin.BinWriter
  Go.GoTypes Go.Fields Go.Encode Go.Decode Go.MarshalSpec Go.MarshalP Go.DecodeSafeP Go.RoundtripP.
Import ListNotations.
Open Scope N_scope.

(* T16.1 — flat kinds (bool, the 11 integer kinds, float64, string, []byte incl. nil):
   decode_to t (value_of (encode t v)) = Ok v *)
Theorem C16_flat_roundtrip : forall t g, flat_ty t = true -> has_type g t = true -> roundtrip t g = Ok g.
Proof. exact roundtrip_flat. Qed.
Theorem C16_int_all_widths : forall k z, in_range k z = true -> roundtrip (TyInt k) (GInt z) = Ok (GInt z).
Proof. exact roundtrip_int. Qed.
Theorem C16_uint64_roundtrip : forall z, in_range U64 z = true -> roundtrip (TyInt U64) (GInt z) = Ok (GInt z).
Proof. exact (roundtrip_int U64). Qed.
Theorem C16_string_roundtrip : forall x, roundtrip TyString (GString x) = Ok (GString x).
Proof. intro x. exact (roundtrip_flat TyString (GString x) eq_refl eq_refl). Qed.
Theorem C16_bytes_roundtrip : forall b, forallb byte_ok b = true ->
  roundtrip (TySlice (TyInt U8)) (GBytes (Some b)) = Ok (GBytes (Some b)).
Proof. intros b H. exact (roundtrip_flat (TySlice (TyInt U8)) (GBytes (Some b)) eq_refl H). Qed.
Theorem C16_bool_roundtrip : forall b, roundtrip TyBool (GBool b) = Ok (GBool b).
Proof. intro b. exact (roundtrip_flat TyBool (GBool b) eq_refl eq_refl). Qed.
Theorem C16_float64_roundtrip : forall b, b < 2 ^ 64 -> roundtrip TyF64 (GFloat b) = Ok (GFloat b).
Proof. intros b H. apply (roundtrip_flat TyF64 (GFloat b) eq_refl). apply N.ltb_lt. exact H. Qed.

(* T16.2 — through a non-nil pointer (a pointer to a nil []byte collapses to a nil pointer) *)
Theorem C16_pointer_roundtrip : forall t g, flat_ty t = true -> has_type g t = true -> g <> GBytes None ->
  roundtrip (TyPtr t) (GPtr (Some g)) = Ok (GPtr (Some g)).
Proof. exact roundtrip_pointer. Qed.

(* T16.3 — determinism of MarshalText on maps: the calls depend on the sorted key list only, and
   sort_keys does sort (whatever order the Go map iteration delivered the distinct keys in) *)
Theorem C16_sorted_keys_deterministic : forall f e m h,
  encode_f (S f) true (TyMap e) (GMap (Some m)) false h = enc_map (encode_f f true) false e (sort_keys m) h.
Proof. exact encode_map_uses_sorted_keys. Qed.
Theorem C16_sort_keys_sorted : forall (l : list (text * gval)),
  NoDup (map fst l) -> keys_sorted (map fst (sort_keys l)) = true.
Proof. exact (@sort_keys_sorted gval). Qed.

(* T16.4 — the round-trip universe (Go/MarshalSpec.v rty): bool, the 11 integer kinds, float64, string, []byte,
   big.Int, Decimal, Timestamp; slices, arrays, string-keyed maps of them; pointers to the non-nullable ones;
   structs whose fields are exported, not embedded and renamed by a plain tag (distinct names) — nested to any
   depth.  For EVERY value of EVERY such type: Unmarshal (Marshal v) = v. *)
Theorem C16_roundtrip_rty : forall t g, rty t = true -> has_type g t = true -> roundtrip t g = Ok g.
Proof. exact roundtrip_rty. Qed.
(* the two halves.  RTe t (Go/RoundtripP.v): for every value g of t and enough fuel, encode_f yields calls cs
   and cs parses (pvalue, whatever follows) to exactly [ion_of t g]; then decoding the image gives g *)
Theorem C16_marshal_denotes_ion_of : forall t, rty t = true -> RTe t.
Proof. exact encode_ion_of. Qed.
Theorem C16_unmarshal_inverts_ion_of : forall t, rty t = true ->
  forall g f, has_type g t = true -> (ty_depth t < f)%nat -> decto f t (zero t) false (ion_of t g) = Ok g.
Proof. exact decode_ion_of. Qed.

(* T16.5 — shapes that were refuted before the fixes *)
Theorem C16_empty_slice_roundtrip :
  roundtrip (TySlice (TyInt IInt)) (GSlice (Some [])) = Ok (GSlice (Some [])).
Proof. exact roundtrip_empty_slice. Qed.
Theorem C16_bigint_roundtrip : forall z, roundtrip TyBigInt (GBigInt z) = Ok (GBigInt z).
Proof. exact roundtrip_bigint. Qed.
Theorem C16_decimal_value_roundtrip : forall d, roundtrip TyDecimal (GDecimal d) = Ok (GDecimal d).
Proof. exact roundtrip_decimal_value. Qed.
Theorem C16_annotation_only_struct_is_error :
  encode true ann_only_struct (GStruct [GSlice None]) TNoType = Err.
Proof. exact annotation_only_struct_is_error. Qed.

(* T16.6 — over ALL types the statement stays false (null is null): a pointer to a nil slice comes back nil *)
Theorem C16_roundtrip_all_refuted_nested_nil : ~ C16_roundtrip_all_stmt.
Proof. exact roundtrip_all_refuted_nested_nil. Qed.

(* non-vacuity *)
Example C16_ex1 : roundtrip (TyInt I64) (GInt (-9223372036854775808)) = Ok (GInt (-9223372036854775808)).
Proof. vm_compute. reflexivity. Qed.
Example C16_ex2 : roundtrip (TySlice (TyInt IInt)) (GSlice (Some [GInt 1; GInt 2])) = Ok (GSlice (Some [GInt 1; GInt 2])).
Proof. vm_compute. reflexivity. Qed.
Definition C16_ex_type : gty :=
  TyStruct (FCons (s "Name"%string) true false (s "name"%string) TyString
           (FCons (s "Tags"%string) true false [] (TyMap (TySlice (TyInt U16)))
           (FCons (s "Next"%string) true false (s "next"%string)
                  (TyPtr (TyStruct (FCons (s "B"%string) true false [] (TySlice (TyInt U8))
                                   (FCons (s "A"%string) true false [] (TyArray 2 TyBigInt) FNil)))) FNil))).
Example C16_ex4 : rty C16_ex_type = true.
Proof. reflexivity. Qed.
Example C16_ex5 : forall g, has_type g C16_ex_type = true -> roundtrip C16_ex_type g = Ok g.
Proof. intros g H. exact (roundtrip_rty C16_ex_type g eq_refl H). Qed.
Example C16_ex3 : encode true (TyMap (TyInt IInt)) (GMap (Some [(s "b"%string, GInt 2); (s "a"%string, GInt 1)])) TNoType =
  Ok [CBeginStruct; CFieldName (tok_text (s "a"%string)); CInt 1; CFieldName (tok_text (s "b"%string)); CInt 2; CEndStruct].
Proof. vm_compute. reflexivity. Qed.
