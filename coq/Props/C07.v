(* C07 — malformed input ends in an error, and the error is permanent.
   Binary reader: Props/C07bin.v; text reader: Props/C07text.v.  Statements re-exported. *)
From IonV Require Export Props.C07bin Props.C07text.
