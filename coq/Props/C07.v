(* C07 — malformed input ends in an error, and the error is permanent.
   The text reader's statements live in Props/C07text.v (re-exported); the binary reader's in
   Props/C07bin.v when present.  Statements only. *)
From IonV Require Export Props.C07text.
