(* C13 — numbers are never silently truncated, wrapped or rounded.
   Statements only; every proof is [exact <lemma>]. *)
From Coq Require Import List NArith ZArith.
From IonV Require Import Base.Wire Bin.Bits Bin.BitsP.
Import ListNotations.
Open Scope N_scope.

(* T13.1 — each pre-computed length is the number of bytes the matching append emits *)
Theorem C13_uint_len : forall b v,
  N.of_nat (length (append_uint b v)) = N.of_nat (length b) + uint_len v.
Proof. exact uint_len_ok. Qed.
Theorem C13_int_len : forall n, (Z.abs n < Z.of_N two64)%Z ->
  N.of_nat (length (append_int [] n)) = int_len n.
Proof. exact int_len_ok. Qed.
Theorem C13_bigint_len : forall v, N.of_nat (length (append_bigint [] v)) = bigint_len v.
Proof. exact bigint_len_ok. Qed.
Theorem C13_varuint_len : forall b v,
  N.of_nat (length (append_varuint b v)) = N.of_nat (length b) + varuint_len v.
Proof. exact varuint_len_ok. Qed.
Theorem C13_varint_len : forall v, (Z.abs v < Z.of_N two63)%Z ->
  N.of_nat (length (append_varint [] v)) = varint_len v.
Proof. exact varint_len_ok. Qed.
Theorem C13_tag_len : forall code len, N.of_nat (length (append_tag [] code len)) = tag_len len.
Proof. exact tag_len_ok. Qed.

(* T13.2 — every read inverts its append, for every value of the Go type *)
Theorem C13_uint_roundtrip : forall v, v < two64 -> from_be (append_uint [] v) = v.
Proof. exact uint_roundtrip. Qed.
Theorem C13_magnitude_u64 : forall bs, Forall (fun d => d < 256) bs -> (length bs <= 8)%nat ->
  from_be64 bs = from_be bs.
Proof. exact from_be64_small. Qed.
Theorem C13_int_roundtrip : forall n, (n <> 0)%Z -> (Z.abs n < Z.of_N two64)%Z ->
  read_signmag (append_int [] n) = Ok n.
Proof. exact int_roundtrip. Qed.
Theorem C13_bigint_roundtrip : forall v, (v <> 0)%Z -> read_signmag (append_bigint [] v) = Ok v.
Proof. exact bigint_roundtrip. Qed.
Theorem C13_bigmag_roundtrip : forall v, from_be (big_bytes v) = v.
Proof. exact big_bytes_roundtrip. Qed.
Theorem C13_varuint_roundtrip : forall v max rest, v < two64 -> varuint_len v <= max ->
  read_varuint max (append_varuint [] v ++ rest) = Ok (v, varuint_len v, rest).
Proof. exact varuint_roundtrip. Qed.
Theorem C13_varint_roundtrip : forall v max rest, (Z.abs v < Z.of_N two63)%Z -> varint_len v <= max ->
  read_varint max (append_varint [] v ++ rest) = Ok (v, (v <? 0)%Z, varint_len v, rest).
Proof. exact varint_roundtrip. Qed.

(* T13.6 — a successful VarUInt read returns exactly the number its bytes spell: no wrap *)
Theorem C13_varuint_exact : forall max inp v l rest,
  read_varuint max inp = Ok (v, l, rest) ->
  exists pre, inp = pre ++ rest /\ l = N.of_nat (length pre) /\ v = fd 128 0 (low7 pre) /\
              l <= 10 /\ l <= max.
Proof. exact read_varuint_exact. Qed.

(* non-vacuity: concrete boundary values meet the hypotheses and compute *)
Example C13_ex1 : append_varuint [] 16384 = [1; 0; 128] /\ varuint_len 16384 = 3.
Proof. split; reflexivity. Qed.
Example C13_ex2 : read_signmag (append_int [] (-9223372036854775808)) = Ok (-9223372036854775808)%Z.
Proof. vm_compute. reflexivity. Qed.
Example C13_ex3 : append_varint [] (-100) = [64; 228].
Proof. reflexivity. Qed.
