(* C13enc — the integer accessor clauses of C13 composed with "how the value got there".
   Props/C13acc.v proves what IntSize / IntValue / Int64Value / BigIntValue answer on the STORED value;
   here the stored value is the one Next produces from an encoding (binary) or a spelling (text) of the Ion
   integer z, and the answers are stated in terms of z.
   Tokens as in C13acc: "T" Next returned true, "z<k>" IntSize (1 Int32, 2 Int64, 3 BigInt), "I<decimal>" a value,
   "err" a returned error.  Statements only; every proof is [exact <lemma>] (Examples: [vm_compute]). *)
From Coq Require Import String List NArith ZArith Bool.
From IonV Require Import Base.Wire Bin.Bits Data.Ion Num.Float Bin.BitStream Bin.BinReader Bin.BinReaderTs Bin.BinReaderTsP
  Bin.SpecBin Bin.SpecLim Bin.RoundTripBin Bin.BitEvalP Bin.ReaderTraceP Bin.SpecAgreeP Bin.SpecAgreeTravP Bin.SpecAgreeContP Bin.AccessorsP Bin.AccessorsEncP
  Text.Tokenizer Text.TextReader Text.TextNum Text.SpellBase Text.SpellWs Text.SpellNum Text.SpellSymVal Text.SpellStream
  Text.Skipper Text.SpellRead Text.SpellStream2 Text.SpellTree2 Text.SkipSpellNav Text.AccessorsTP Text.AccessorsSpellP.
Import ListNotations.
Open Scope N_scope.

(* ================= binary ================= *)
Definition iops : list rop := [ONext; OIntSize; OInt; OInt64; OBigInt].
Definition erun (neg : bool) (lenb : option (list N)) (body : list N) : list (list N) :=
  snd (r_run ts_ok_default (r_init (bvm ++ int_enc neg lenb body) false) iops []).
Definition toks (l : list string) : list (list N) := map s l.
Definition zsz (neg : bool) (body : list N) : Z * N := (int_of neg body, size_by_bytes neg body).
(* the encodings: tag 0x2L (positive) / 0x3L (negative); L < 14 inline ([lenb = None]) or L = 14 and a VarUInt
   length [ds] ([lenb = Some ds], any spelling of the length the reader's limit G1 accepts: at most ten octets);
   [body] is the big-endian magnitude with any number of leading zero bytes; negative zero is not an encoding.
   [int_of neg body] is the Ion integer, [size_by_bytes neg body] the IntSize code by magnitude byte count. *)

(* every such encoding is read by the specification decoder as the int [int_of neg body] *)
Theorem C13enc_bin_spec_reads : forall ts f ctx neg lenb body rest, int_enc_ok neg lenb body rest ->
  sl_value ts (S f) ctx (int_enc neg lenb body ++ rest) = Some (Some (VInt (int_of neg body)), rest).
Proof. exact AccessorsEncP.int_enc_spec. Qed.

(* HEADLINE (binary), top level right after the version marker, under the system table: Next positions the reader
   on an int and the four accessors answer: IntSize by byte count, IntValue = z iff z fits int32 else an error,
   Int64Value = z iff z fits int64 else an error, BigIntValue = z *)
Theorem C13enc_bin_int_top : forall ts, (forall bs, ts bs <> Panic /\ ts bs <> OutOfFuel) ->
  forall neg lenb body rest, int_enc_ok neg lenb body rest -> AccessorsP.BY rest ->
  4 + N.of_nat (length (int_enc neg lenb body ++ rest)) < two63 ->
  exists r1, r_op ts (r_init (bvm ++ int_enc neg lenb body ++ rest) false) ONext = (r1, Some [84]) /\ r_type r1 = TInt /\
    r_field r1 = None /\ r_annots r1 = [] /\
    r_op ts r1 OIntSize = (r1, Some (122 :: dec_of_N (size_by_bytes neg body))) /\
    r_op ts r1 OInt = (r1, Some (if fits32 (int_of neg body) then 73 :: dec_of_Z (int_of neg body) else t_err)) /\
    r_op ts r1 OInt64 = (r1, Some (if fits64 (int_of neg body) then 73 :: dec_of_Z (int_of neg body) else t_err)) /\
    r_op ts r1 OBigInt = (r1, Some (73 :: dec_of_Z (int_of neg body))).
Proof. exact AccessorsEncP.enc_int_top_exact. Qed.

(* IntSize by byte count: never smaller than the minimal width of z; the minimal width up to eight magnitude bytes
   with the top bit clear; BigInt beyond (leading zero bytes count: the known over-approximation of C13acc) *)
Theorem C13enc_bin_size_never_small : forall neg body, AccessorsP.BY body ->
  min_size (int_of neg body) <= size_by_bytes neg body <= 3.
Proof. exact AccessorsEncP.size_by_bytes_sound. Qed.
Theorem C13enc_bin_size_exact : forall neg body, AccessorsP.BY body ->
  (length body < 8)%nat \/ (length body = 8%nat /\ hd 0 body < 128) -> size_by_bytes neg body = min_size (int_of neg body).
Proof. exact AccessorsEncP.size_by_bytes_small. Qed.
Theorem C13enc_bin_size_big : forall neg body,
  (8 < length body)%nat \/ (length body = 8%nat /\ 128 <= hd 0 body) -> size_by_bytes neg body = 3.
Proof. exact AccessorsEncP.size_by_bytes_big. Qed.

(* the same for an int ANYWHERE a value may stand (any container depth [stk], after any field name [fld] and any
   annotations [an], under any symbol table [tab]): [PRE3] is the reader in the middle of Next, about to read the value *)
Theorem C13enc_bin_int : forall ts, (forall bs, ts bs <> Panic /\ ts bs <> OutOfFuel) ->
  forall tot tab r neg lenb body rest outer stk fld an, tot < two63 ->
  int_enc_ok neg lenb body rest -> AccessorsP.BY rest ->
  PRE3 ts tot (r_next_inner ts) tab r (int_enc neg lenb body ++ rest) outer stk fld an ->
  exists r1, r_op ts r ONext = (r1, Some [84]) /\ r_type r1 = TInt /\ r_field r1 = fld /\ r_annots r1 = an /\
    r_op ts r1 OIntSize = (r1, Some (122 :: dec_of_N (size_by_bytes neg body))) /\
    r_op ts r1 OInt = (r1, Some (if fits32 (int_of neg body) then 73 :: dec_of_Z (int_of neg body) else t_err)) /\
    r_op ts r1 OInt64 = (r1, Some (if fits64 (int_of neg body) then 73 :: dec_of_Z (int_of neg body) else t_err)) /\
    r_op ts r1 OBigInt = (r1, Some (73 :: dec_of_Z (int_of neg body))).
Proof. exact AccessorsEncP.enc_int_anywhere. Qed.

(* positions the traversal lemmas of C03 reach: [RS] (Bin/ReaderTraceP.v) is the reader after any Next / StepIn / StepOut
   of a traversal; the int is the next value at top level, in a list or in an s-expression ... *)
Theorem C13enc_bin_int_after : forall ts, (forall bs, ts bs <> Panic /\ ts bs <> OutOfFuel) ->
  forall tot tab r neg lenb body rest outer stk, tot < two63 ->
  RS tot tab r (int_enc neg lenb body ++ rest) outer stk -> b_ioerr (r_bits r) = false -> sav stk = bssBeforeValue ->
  int_enc_ok neg lenb body rest -> AccessorsP.BY rest ->
  exists r1, r_op ts r ONext = (r1, Some [84]) /\ r_type r1 = TInt /\ r_field r1 = None /\ r_annots r1 = [] /\
             int_answers_exact ts r1 neg body.
Proof. exact AccessorsEncP.enc_int_after. Qed.
(* ... or the value of the next field of a struct, after the field name [sid] *)
Theorem C13enc_bin_int_field : forall ts, (forall bs, ts bs <> Panic /\ ts bs <> OutOfFuel) ->
  forall tot tab ctx r l' sid y neg lenb body rest outer c e stk, tot < two63 -> TC tab ctx ->
  RS tot tab r l' outer ((c, e) :: stk) -> b_ioerr (r_bits r) = false -> sav ((c, e) :: stk) = bssBeforeFieldID ->
  AccessorsP.BY l' -> lim_varuint l' = Some (sid, int_enc neg lenb body ++ rest) -> resolve_sid ctx sid = Some y ->
  int_enc_ok neg lenb body rest -> AccessorsP.BY rest ->
  exists r1, r_op ts r ONext = (r1, Some [84]) /\ r_type r1 = TInt /\ r_field r1 = Some (tok_of_sym y sid) /\
             r_annots r1 = [] /\ int_answers_exact ts r1 neg body.
Proof. exact AccessorsEncP.enc_int_field. Qed.
Example C13enc_bin_int_answers_unfold : forall ts r1 neg body, int_answers_exact ts r1 neg body =
  (r_op ts r1 OIntSize = (r1, Some (122 :: dec_of_N (size_by_bytes neg body))) /\
   r_op ts r1 OInt = (r1, Some (if fits32 (int_of neg body) then 73 :: dec_of_Z (int_of neg body) else t_err)) /\
   r_op ts r1 OInt64 = (r1, Some (if fits64 (int_of neg body) then 73 :: dec_of_Z (int_of neg body) else t_err)) /\
   r_op ts r1 OBigInt = (r1, Some (73 :: dec_of_Z (int_of neg body)))).
Proof. reflexivity. Qed.

(* ... and for ANY byte sequence the (restricted) specification decoder reads as the int z, not only the family above;
   IntSize is then known up to the byte-count over-approximation *)
Theorem C13enc_bin_int_spec_top : forall ts, (forall bs, ts bs <> Panic /\ ts bs <> OutOfFuel) ->
  forall f tag r0 z rest', AccessorsP.BY (tag :: r0) -> 4 + N.of_nat (length (tag :: r0)) < two63 ->
  sl_value ts (S f) system_ctx (tag :: r0) = Some (Some (VInt z), rest') ->
  exists r1, r_op ts (r_init (bvm ++ tag :: r0) false) ONext = (r1, Some [84]) /\ r_type r1 = TInt /\
    r_field r1 = None /\ r_annots r1 = [] /\
    (exists sz, r_op ts r1 OIntSize = (r1, Some (122 :: dec_of_N sz)) /\ min_size z <= sz <= 3 /\
                (sz = min_size z \/ (sz = 3 /\ fits64 z = true))) /\
    r_op ts r1 OInt = (r1, Some (if fits32 z then 73 :: dec_of_Z z else t_err)) /\
    r_op ts r1 OInt64 = (r1, Some (if fits64 z then 73 :: dec_of_Z z else t_err)) /\
    r_op ts r1 OBigInt = (r1, Some (73 :: dec_of_Z z)).
Proof. exact AccessorsEncP.enc_int_top. Qed.
Theorem C13enc_bin_int_spec : forall ts, (forall bs, ts bs <> Panic /\ ts bs <> OutOfFuel) ->
  forall tot tab ctx r f tag r0 z rest' outer stk fld an, tot < two63 -> TC tab ctx ->
  SpecAgreeContP.BY (tag :: r0) -> sl_value ts (S f) ctx (tag :: r0) = Some (Some (VInt z), rest') ->
  PRE3 ts tot (r_next_inner ts) tab r (tag :: r0) outer stk fld an -> AI r ->
  exists r1, r_op ts r ONext = (r1, Some [84]) /\ r_type r1 = TInt /\ r_field r1 = fld /\ r_annots r1 = an /\
    (exists sz, r_op ts r1 OIntSize = (r1, Some (122 :: dec_of_N sz)) /\ min_size z <= sz <= 3 /\
                (sz = min_size z \/ (sz = 3 /\ fits64 z = true))) /\
    r_op ts r1 OInt = (r1, Some (if fits32 z then 73 :: dec_of_Z z else t_err)) /\
    r_op ts r1 OInt64 = (r1, Some (if fits64 z then 73 :: dec_of_Z z else t_err)) /\
    r_op ts r1 OBigInt = (r1, Some (73 :: dec_of_Z z)).
Proof. exact AccessorsEncP.enc_int_step. Qed.

(* the two usual spellings of the length are accepted: inline (by definition, fewer than 14 bytes) and the minimal
   VarUInt the Writer emits, for every magnitude however long *)
Theorem C13enc_bin_ok_inline : forall neg body rest, AccessorsP.BY body -> (neg = true -> from_be body <> 0) ->
  (length body < 14)%nat -> int_enc_ok neg None body rest.
Proof. exact AccessorsEncP.int_enc_ok_inline. Qed.
Theorem C13enc_bin_ok_minimal_varuint : forall neg body rest, AccessorsP.BY body -> (neg = true -> from_be body <> 0) ->
  N.of_nat (length body) < two64 -> int_enc_ok neg (Some (append_varuint [] (N.of_nat (length body)))) body rest.
Proof. exact AccessorsEncP.int_enc_ok_minimal. Qed.
(* the hypotheses are satisfiable *)
Example C13enc_bin_ts_ok : forall bs, ts_ok_default bs <> Panic /\ ts_ok_default bs <> OutOfFuel.
Proof. exact ts_ok_default_total. Qed.
Example C13enc_bin_ok_five_nine : int_enc_ok false None [0; 0; 0; 0; 0; 0; 0; 0; 0; 5] [15].
Proof. exact AccessorsEncP.int_enc_ok_five_nine. Qed.
Example C13enc_bin_ok_min64_long : int_enc_ok true (Some [0; 136]) [128; 0; 0; 0; 0; 0; 0; 0] [].
Proof. exact AccessorsEncP.int_enc_ok_min64_long. Qed.

(* [PRE3] holds of the fresh reader in front of the first value after the version marker (so the _top theorems are
   instances of the general ones); deeper positions are reached by the traversal lemmas of C03 (Bin/SpecAgreeContP.v:
   to3 after RS_PRE2, field3 after a field name, the annotation wrapper) *)
Example C13enc_bin_PRE3_start : forall ts body, 4 + N.of_nat (length body) < two63 ->
  PRE3 ts (4 + N.of_nat (length body)) (r_next_inner ts) LSys (r_init (bvm ++ body) false) body [] [] None [].
Proof. exact AccessorsEncP.start_PRE3. Qed.
(* a nested position by computation: { name: $4::[ -2^63 ] } -- struct 0xDE 0x8E, field 4, annotation wrapper, list *)
Example C13enc_bin_ex_nested :
  snd (r_run ts_ok_default (r_init (bvm ++ [222; 142; 132; 236; 129; 132; 185] ++ int_enc true None [128; 0; 0; 0; 0; 0; 0; 0]) false)
         [ONext; OStepIn; ONext; OStepIn; ONext; OIntSize; OInt; OInt64; OBigInt] []) =
  toks ["T"; "ok"; "T"; "ok"; "T"; "z3"; "err"; "I-9223372036854775808"; "I-9223372036854775808"]%string.
Proof. vm_compute. reflexivity. Qed.

(* boundary examples: the model on the encodings of the family, by computation *)

Example C13enc_bin_ex_max32 : zsz false [127; 255; 255; 255] = (2147483647%Z, 1) /\
  erun false None [127; 255; 255; 255] = toks ["T"; "z1"; "I2147483647"; "I2147483647"; "I2147483647"]%string.
Proof. vm_compute. split; reflexivity. Qed.
Example C13enc_bin_ex_2p31 : zsz false [128; 0; 0; 0] = (2147483648%Z, 2) /\
  erun false None [128; 0; 0; 0] = toks ["T"; "z2"; "err"; "I2147483648"; "I2147483648"]%string.
Proof. vm_compute. split; reflexivity. Qed.
Example C13enc_bin_ex_min32m1 : zsz true [128; 0; 0; 1] = ((-2147483649)%Z, 2) /\
  erun true None [128; 0; 0; 1] = toks ["T"; "z2"; "err"; "I-2147483649"; "I-2147483649"]%string.
Proof. vm_compute. split; reflexivity. Qed.
Example C13enc_bin_ex_max64 : zsz false [127; 255; 255; 255; 255; 255; 255; 255] = (9223372036854775807%Z, 2) /\
  erun false None [127; 255; 255; 255; 255; 255; 255; 255] = toks ["T"; "z2"; "err"; "I9223372036854775807"; "I9223372036854775807"]%string.
Proof. vm_compute. split; reflexivity. Qed.
Example C13enc_bin_ex_2p63 : zsz false [128; 0; 0; 0; 0; 0; 0; 0] = (9223372036854775808%Z, 3) /\
  erun false None [128; 0; 0; 0; 0; 0; 0; 0] = toks ["T"; "z3"; "err"; "err"; "I9223372036854775808"]%string.
Proof. vm_compute. split; reflexivity. Qed.
(* -2^63: eight magnitude bytes with the top bit set, so BigInt although it fits an int64; Int64Value still returns it *)
Example C13enc_bin_ex_min64 : zsz true [128; 0; 0; 0; 0; 0; 0; 0] = ((-9223372036854775808)%Z, 3) /\
  erun true None [128; 0; 0; 0; 0; 0; 0; 0] = toks ["T"; "z3"; "err"; "I-9223372036854775808"; "I-9223372036854775808"]%string /\
  erun true (Some [0; 136]) [128; 0; 0; 0; 0; 0; 0; 0] = toks ["T"; "z3"; "err"; "I-9223372036854775808"; "I-9223372036854775808"]%string.
Proof. vm_compute. repeat split; reflexivity. Qed.
Example C13enc_bin_ex_min64m1 : zsz true [128; 0; 0; 0; 0; 0; 0; 1] = ((-9223372036854775809)%Z, 3) /\
  erun true None [128; 0; 0; 0; 0; 0; 0; 1] = toks ["T"; "z3"; "err"; "err"; "I-9223372036854775809"]%string.
Proof. vm_compute. split; reflexivity. Qed.
(* five: one byte, with two leading zero bytes, with nine leading zero bytes (inline and VarUInt length) *)
Example C13enc_bin_ex_five : zsz false [5] = (5%Z, 1) /\ zsz false [0; 0; 5] = (5%Z, 1) /\
  zsz false [0; 0; 0; 0; 0; 0; 0; 0; 0; 5] = (5%Z, 3) /\
  erun false None [5] = toks ["T"; "z1"; "I5"; "I5"; "I5"]%string /\
  erun false None [0; 0; 5] = toks ["T"; "z1"; "I5"; "I5"; "I5"]%string /\
  erun false None [0; 0; 0; 0; 0; 0; 0; 0; 0; 5] = toks ["T"; "z3"; "I5"; "I5"; "I5"]%string /\
  erun false (Some [138]) [0; 0; 0; 0; 0; 0; 0; 0; 0; 5] = toks ["T"; "z3"; "I5"; "I5"; "I5"]%string.
Proof. vm_compute. repeat split; reflexivity. Qed.

(* ================= text ================= *)
(* HEADLINE (text): the first value of a stream, after any whitespace / comments [w0] and under any annotations;
   [aval_spells] (Text/SpellStream.v, the relation of C02) says [text] spells annotations [anns] and a literal of type
   int with value [mk_int z]; the literal may be decimal, 0x, 0b, with underscores, with a sign.  IntSize is exact. *)
Theorem C13enc_text_int_top : forall pd pt inp w0 text fol anns z wn rest,
  norm inp = w0 ++ text ++ wn ++ rest -> ws_run w0 ->
  aval_spells pd pt LSys [] [] text fol anns TInt (XInt (SpellNum.mk_int z)) ->
  ws_run wn -> fol wn rest -> ws_stop (zs rest) = true -> dcolon (zs rest) = false ->
  exists x1, x_op_res pd pt (x_init inp false) ONext = (x1, Ok [84]) /\ x_type x1 = TInt /\ x_field x1 = None /\
    x_annots x1 = anns /\
    x_op_res pd pt x1 OIntSize = (x1, Ok (122 :: dec_of_N (AccessorsTP.min_size z))) /\
    x_op_res pd pt x1 OInt = (x1, Ok (if in_int32 z then 73 :: dec_of_Z z else t_err)) /\
    x_op_res pd pt x1 OInt64 = (x1, Ok (if in_int64 z then 73 :: dec_of_Z z else t_err)) /\
    x_op_res pd pt x1 OBigInt = (x1, Ok (73 :: dec_of_Z z)).
Proof. exact AccessorsSpellP.spelled_int_top. Qed.
(* the same ANYWHERE a value may stand: inside the containers [ctx], after the separator [pre] (nothing, a comma, a field
   name and a colon), under any symbol table; [nextable] (Text/SpellTree2.v) is the reader about to run the loop of Next
   in front of the text: every state the tree traversal of C02 reaches (nextable_at_rest, nextable_settled) *)
Theorem C13enc_text_int : forall pd pt lst ctx text fol anns z pre st fld n wb x wn rest,
  aval_spells2 pd pt lst ctx [] text fol anns TInt (XInt (SpellNum.mk_int z)) ->
  sep_spells2 lst ctx st pre fld n -> ws_run wb -> (pre = [] -> wb = []) ->
  nextable pd pt lst x st ctx (pre ++ wb ++ text ++ wn ++ rest) -> no_cr (pre ++ wb ++ text ++ wn) -> ws_run wn ->
  fol wn rest -> rest_ok ctx rest ->
  exists x1, x_op_res pd pt x ONext = (x1, Ok [84]) /\ x_type x1 = TInt /\ x_field x1 = fld /\
             x_annots x1 = anns /\ x_ctx x1 = ctx /\ int_answers_t pd pt x1 z.
Proof. exact AccessorsSpellP.spelled_int_anywhere. Qed.
(* ... in particular from every state "at rest" the tree traversal of C02 leaves the reader in (after a Next, a StepIn or
   a StepOut; [settled]: the tokenizer stands in front of the remaining text) *)
Theorem C13enc_text_int_at_rest : forall pd pt lst ctx text fol anns z pre fld n wb x S0 k u st0 fld0 ann0 ty0 v0 wn rest,
  aval_spells2 pd pt lst ctx [] text fol anns TInt (XInt (SpellNum.mk_int z)) ->
  xok x -> xabs x = mkax S0 k u st0 ctx false false lst fld0 ann0 ty0 v0 -> st0 <> trsDone ->
  settled S0 k u (pre ++ wb ++ text ++ wn ++ rest) ->
  sep_spells2 lst ctx (loop_state u st0 ctx) pre fld n -> ws_run wb -> (pre = [] -> wb = []) ->
  no_cr (pre ++ wb ++ text ++ wn) -> ws_run wn -> fol wn rest -> rest_ok ctx rest ->
  exists x1, x_op_res pd pt x ONext = (x1, Ok [84]) /\ x_type x1 = TInt /\ x_field x1 = fld /\
             x_annots x1 = anns /\ x_ctx x1 = ctx /\ int_answers_t pd pt x1 z.
Proof. exact AccessorsSpellP.spelled_int_at_rest. Qed.
(* the int literals and the integers they denote *)
Theorem C13enc_text_spells_dec : forall pd pt lst ctx ann neg dw p, us_digits is_dec_b dw p -> no_lead0 p ->
  aval_spells2 pd pt lst ctx ann (sign_bytes neg ++ dw) f_term ann TInt (XInt (SpellNum.mk_int (sgn neg (digits_value 10 p)))).
Proof. exact AccessorsSpellP.dec_int_spells2. Qed.
Theorem C13enc_text_spells_radix : forall pd pt lst ctx ann (hex : bool) neg m dw p,
  (if hex then (m = 120 \/ m = 88) /\ us_digits is_hex_b dw p else (m = 98 \/ m = 66) /\ us_digits is_bin_b dw p) ->
  aval_spells2 pd pt lst ctx ann (sign_bytes neg ++ 48 :: m :: dw) f_term ann TInt
               (XInt (SpellNum.mk_int (sgn neg (digits_value (if hex then 16 else 2) p)))).
Proof. exact AccessorsSpellP.radix_int_spells2. Qed.
(* the first value of a stream, with the spelling made explicit: decimal digits (underscores between digits, no leading zero) ... *)
Theorem C13enc_text_int_top_dec : forall pd pt inp w0 neg dw p wn rest,
  norm inp = w0 ++ (sign_bytes neg ++ dw) ++ wn ++ rest -> ws_run w0 ->
  us_digits is_dec_b dw p -> no_lead0 p ->
  ws_run wn -> f_term wn rest -> ws_stop (zs rest) = true -> dcolon (zs rest) = false ->
  exists x1, x_op_res pd pt (x_init inp false) ONext = (x1, Ok [84]) /\ x_type x1 = TInt /\ x_field x1 = None /\
    x_annots x1 = [] /\ int_answers_t pd pt x1 (sgn neg (digits_value 10 p)).
Proof. exact AccessorsSpellP.spelled_int_top_dec. Qed.
(* ... and 0x / 0X hexadecimal, 0b / 0B binary digits *)
Theorem C13enc_text_int_top_radix : forall pd pt inp w0 (hex : bool) neg m dw p wn rest,
  norm inp = w0 ++ (sign_bytes neg ++ 48 :: m :: dw) ++ wn ++ rest -> ws_run w0 ->
  (if hex then (m = 120 \/ m = 88) /\ us_digits is_hex_b dw p else (m = 98 \/ m = 66) /\ us_digits is_bin_b dw p) ->
  ws_run wn -> f_term wn rest -> ws_stop (zs rest) = true -> dcolon (zs rest) = false ->
  exists x1, x_op_res pd pt (x_init inp false) ONext = (x1, Ok [84]) /\ x_type x1 = TInt /\ x_field x1 = None /\
    x_annots x1 = [] /\ int_answers_t pd pt x1 (sgn neg (digits_value (if hex then 16 else 2) p)).
Proof. exact AccessorsSpellP.spelled_int_top_radix. Qed.
Example C13enc_text_int_answers_unfold : forall pd pt x z, int_answers_t pd pt x z =
  (x_op_res pd pt x OIntSize = (x, Ok (122 :: dec_of_N (AccessorsTP.min_size z))) /\
   x_op_res pd pt x OInt = (x, Ok (if in_int32 z then 73 :: dec_of_Z z else t_err)) /\
   x_op_res pd pt x OInt64 = (x, Ok (if in_int64 z then 73 :: dec_of_Z z else t_err)) /\
   x_op_res pd pt x OBigInt = (x, Ok (73 :: dec_of_Z z))).
Proof. reflexivity. Qed.
(* the hypotheses are satisfiable *)
Example C13enc_text_hyps :
  let inp := s "/*c*/ -0x8000_0000_0000_0000 " in
  norm inp = s "/*c*/ " ++ (sign_bytes true ++ 48 :: 120 :: s "8000_0000_0000_0000") ++ s " " ++ [] /\ ws_run (s "/*c*/ ") /\
  us_digits is_hex_b (s "8000_0000_0000_0000") (s "8000000000000000") /\
  ws_run (s " ") /\ f_term (s " ") [] /\ ws_stop (zs []) = true /\ dcolon (zs []) = false /\
  sgn true (digits_value 16 (s "8000000000000000")) = (-9223372036854775808)%Z.
Proof. exact AccessorsSpellP.spelled_example_hyps. Qed.

(* boundary examples: the model on spellings, by computation *)
Definition trun (t : string) : list (list N) :=
  snd (x_run parse_decimal_text parse_ts_text (x_init (s t) false) iops []).
Example C13enc_text_ex_max32 : trun "2_147_483_647" = toks ["T"; "z1"; "I2147483647"; "I2147483647"; "I2147483647"]%string.
Proof. vm_compute. reflexivity. Qed.
Example C13enc_text_ex_2p31 : trun "0x8000_0000" = toks ["T"; "z2"; "err"; "I2147483648"; "I2147483648"]%string.
Proof. vm_compute. reflexivity. Qed.
Example C13enc_text_ex_min32m1 : trun "-2147483649" = toks ["T"; "z2"; "err"; "I-2147483649"; "I-2147483649"]%string.
Proof. vm_compute. reflexivity. Qed.
Example C13enc_text_ex_max64 : trun "0x7fff_ffff_ffff_ffff" = toks ["T"; "z2"; "err"; "I9223372036854775807"; "I9223372036854775807"]%string.
Proof. vm_compute. reflexivity. Qed.
Example C13enc_text_ex_2p63 : trun "0x8000000000000000" = toks ["T"; "z3"; "err"; "err"; "I9223372036854775808"]%string.
Proof. vm_compute. reflexivity. Qed.
(* -2^63 as "-0b1" followed by 63 zeros: Int64, the smallest width (text is exact where binary answers BigInt) *)
Example C13enc_text_ex_min64_bin : trun "-0b1000000000000000000000000000000000000000000000000000000000000000" =
  toks ["T"; "z2"; "err"; "I-9223372036854775808"; "I-9223372036854775808"]%string.
Proof. vm_compute. reflexivity. Qed.
Example C13enc_text_ex_min64m1 : trun "-9223372036854775809" = toks ["T"; "z3"; "err"; "err"; "I-9223372036854775809"]%string.
Proof. vm_compute. reflexivity. Qed.
Example C13enc_text_ex_five_padded : trun "a::0x000000000000000000_05" = toks ["T"; "z1"; "I5"; "I5"; "I5"]%string.
Proof. vm_compute. reflexivity. Qed.
(* a nested position by computation *)
Example C13enc_text_ex_nested :
  snd (x_run parse_decimal_text parse_ts_text (x_init (s "{a: [1, b::-0x8000_0000_0000_0000]}") false)
         [ONext; OStepIn; ONext; OStepIn; ONext; ONext; OIntSize; OInt; OInt64; OBigInt] []) =
  toks ["T"; "ok"; "T"; "ok"; "T"; "T"; "z2"; "err"; "I-9223372036854775808"; "I-9223372036854775808"]%string.
Proof. vm_compute. reflexivity. Qed.
