(* C10 — symbols in a stream resolve against the symbol table in force at that point.
   Statements only; every proof is [exact <lemma>].

   Vocabulary.
     Sym/LstSpec.v (SPECIFICATION, from the Ion rules): a context [ctx] is the list of slots in force
       (slot i = SID i+1, None = no text); [spec_step c cur item] for a version marker or a local table
       (imports = Append | List of declarations, symbols); [import_slots] = exact (name, version) match
       trimmed/padded to max_id (absent: the table's own length), else max_id required: latest version
       trimmed/padded, else placeholders; [item_of_struct] reads an item off the value tree of a
       symbol-table struct; [spec_history] folds a stream's version markers and tables; [resolve].
     Sym/LstRead.v (MODEL): readLocalSymbolTable(r, cat) over the Reader interface, instantiated for the
       binary and the text reader models; Sym/CtxHistory.v: the same reading on the VALUE TREE of the struct
       ([impl_step]: field order, a second imports/symbols field is an error, malformed fields and typed nulls
       ignored), [impl_history], and the abstraction [slots_of] of an ion-go table (imports adjusted to their
       max_id, then locals) to a context; [spec_cat] = the catalog's tables as slot lists.
     regular_table fs: every field (of the struct and of its import structs) has text; at most one imports and one
       symbols field, at most one name/version/max_id per import; version within int32 and max_id within int64;
       and fs avoids the four deviations of ion-go witnessed in [C10_step_deviations]:
       non-string entries of symbols (D16), imports given as the symbol $ion_symbol_table without SID 3 (D28),
       symbols:null.list, a field without text. *)
From Coq Require Import List NArith ZArith String Lia.
From IonV Require Import Base.Wire Sym.SymTab Sym.SymTabP Data.Ion Sym.LstSpec Sym.LstRead Sym.CtxHistory
  Sym.CtxHistoryP Bin.BitStream Bin.BinReader Sym.LstReadP.
Import ListNotations.
Open Scope N_scope.

(* one table: the table ion-go installs denotes the context the rules prescribe (or both reject it) *)
Theorem C10_step_refines : forall cat cur fs, wf_cat cat -> cur_ok cur -> regular_table fs ->
  res_map slots_of (impl_step cat cur fs) = spec_struct (spec_cat cat) (slots_of_cur cur) fs.
Proof. exact ctx_step_refines. Qed.
(* ... and the invariant of the current table is kept *)
Theorem C10_step_invariant : forall cat cur fs, wf_cat cat -> cur_ok cur -> regular_table fs ->
  match impl_step cat cur fs with
  | Ok t => spec_struct (spec_cat cat) (slots_of_cur cur) fs = Ok (slots_of t) /\ cur_ok (Some t)
  | Err => spec_struct (spec_cat cat) (slots_of_cur cur) fs = Err
  | _ => False
  end.
Proof. exact ctx_step_refines_m. Qed.

(* histories: after ANY prefix of the stream's version markers / replacing tables / appending tables, the context
   in force is the specification's context of that prefix *)
Theorem C10_history : forall cat hs n, wf_cat cat -> regular_history hs ->
  res_map slots_of_cur (impl_history cat None (firstn n hs))
  = spec_history (spec_cat cat) LstSpec.system_ctx (firstn n hs).
Proof. exact history_prefix_refines. Qed.
Theorem C10_history_from : forall cat, wf_cat cat -> forall hs cur, cur_ok cur -> regular_history hs ->
  res_map slots_of_cur (impl_history cat cur hs) = spec_history (spec_cat cat) (slots_of_cur cur) hs.
Proof. exact history_refines. Qed.

(* every symbol ID (binary SID, text $n) resolves against that context: text, no text, or an error above the
   maximum; [lst_wf] = the declared sizes sum to less than 2^64 *)
Theorem C10_resolve : forall t sid, lst_wf t -> impl_resolve (Some t) sid = resolve (slots_of t) sid.
Proof. exact resolve_refines. Qed.
Theorem C10_resolve_system : forall sid, impl_resolve None sid = resolve LstSpec.system_ctx sid.
Proof. exact resolve_refines_system. Qed.
Theorem C10_step_wf : forall cat cur fs t, wf_cat cat -> cur_ok cur -> regular_table fs ->
  impl_step cat cur fs = Ok t -> sum_max (l_imports t) + lenN (l_syms t) < two64 -> lst_wf t.
Proof. exact impl_step_wf. Qed.

(* imports: exact match, else latest, else placeholders, else error *)
Theorem C10_import : forall cat name ver maxid, wf_cat cat ->
  match resolve_import cat name ver maxid with
  | Ok None => import_slots (spec_cat cat) (decl_of_g name ver maxid) = Ok []
  | Ok (Some x) => import_slots (spec_cat cat) (decl_of_g name ver maxid) = Ok (shared_slots x)
                   /\ sh_wf x /\ text_eqb (sh_name x) ion_name = false
  | Err => import_slots (spec_cat cat) (decl_of_g name ver maxid) = Err
  | _ => False
  end.
Proof. exact import_refines. Qed.

(* top-level symbol-table structs never surface: the reader's raw step does not report a value on them *)
Theorem C10_never_surface : forall ts_ok cat fuel st b u,
  b_next (r_bits (fst st)) = (b, Ok u) -> b_code b = bcStruct -> r_ctx_peek (fst st) = 0 ->
  BinReader.is_ion_symbol_table (r_annots (fst st)) = true ->
  snd (r_next_raw_cat ts_ok cat fuel st) <> Ok true.
Proof. exact never_surface_raw_cat. Qed.
Theorem C10_never_surface_nocat : forall ts_ok api_next fuel r b u,
  b_next (r_bits r) = (b, Ok u) -> b_code b = bcStruct -> r_ctx_peek r = 0 ->
  BinReader.is_ion_symbol_table (r_annots r) = true ->
  snd (r_next_raw ts_ok api_next fuel r) <> Ok true.
Proof. exact never_surface_raw. Qed.

(* ---- full-strength statements that are false of the code ------------------------------------------------ *)
Theorem C10_step_refines_any_struct_refuted : ~ step_refines_any_struct.
Proof. exact step_refines_any_struct_refuted. Qed.
Theorem C10_step_deviations :
  res_map slots_of (impl_step None None dev_nonstring) = Ok (LstSpec.system_ctx ++ [Some []]) /\
  spec_struct [] LstSpec.system_ctx dev_nonstring = Ok (LstSpec.system_ctx ++ [None]) /\
  res_map slots_of (impl_step None (Some dev_cur) dev_quoted)
    = Ok (LstSpec.system_ctx ++ (if fix_append_text then [Some [97]; Some [98]] else [Some [98]])) /\
  spec_struct [] (slots_of dev_cur) dev_quoted = Ok (LstSpec.system_ctx ++ [Some [97]; Some [98]]) /\
  res_map slots_of (impl_step None None dev_null_list) = (if fix_null_list then Ok LstSpec.system_ctx else Err) /\
  spec_struct [] LstSpec.system_ctx dev_null_list = Ok LstSpec.system_ctx /\
  res_map slots_of (impl_step None None dev_notext) = Err /\
  spec_struct [] LstSpec.system_ctx dev_notext = Ok (LstSpec.system_ctx ++ [Some [97]]).
Proof. exact step_deviations. Qed.
Theorem C10_resolve_overflow_refuted : ~ resolve_any_size.
Proof. exact resolve_overflow_refuted. Qed.
Theorem C10_duplicates_agree :
  impl_step None None [(ftok "symbols" 7, TvList []); (ftok "symbols" 7, TvList [])] = Err /\
  spec_struct [] LstSpec.system_ctx [(ftok "symbols" 7, TvList []); (ftok "symbols" 7, TvList [])] = Err /\
  impl_step None None [(ftok "imports" 6, TvList []); (ftok "imports" 6, TvList [])] = Err /\
  spec_struct [] LstSpec.system_ctx [(ftok "imports" 6, TvList []); (ftok "imports" 6, TvList [])] = Err.
Proof. exact duplicates_agree. Qed.

(* ---- non-vacuity ------------------------------------------------------------------------------------------ *)
(* catalog {A v1 [a1,a2], A v2 [a1,a2,a3]}; the stream
     $ion_symbol_table::{imports:[{name:"A",version:1,max_id:3},{name:"A",version:3,max_id:2},{name:"C",version:1,max_id:1}],symbols:["x"]}
     $ion_symbol_table::{imports:$ion_symbol_table,symbols:["y"]}   $ion_1_0 (binary)   $ion_symbol_table::{symbols:["z"]} *)
Definition ex_cat : option catalog :=
  Some [Sst (sst_new [65] 1 [[97; 49]; [97; 50]]); Sst (sst_new [65] 2 [[97; 49]; [97; 50]; [97; 51]])].
Definition ex_imp (name : SymTab.text) (ver maxid : Z) : tval :=
  TvStruct [(ftok "name" 4, TvString name); (ftok "version" 5, TvInt ver); (ftok "max_id" 8, TvInt maxid)].
Definition ex_hist : list hitem :=
  [ HTable [(ftok "imports" 6, TvList [ex_imp [65] 1 3; ex_imp [65] 3 2; ex_imp [67] 1 1]);
            (ftok "symbols" 7, TvList [TvString [120]])];
    HTable [(ftok "imports" 6, TvSymbol (ftok "$ion_symbol_table" 3)); (ftok "symbols" 7, TvList [TvString [121]])];
    HIvm;
    HTable [(ftok "symbols" 7, TvList [TvString [122]])] ].
Example C10_ex_hyps : wf_cat ex_cat /\ regular_history ex_hist.
Proof.
  split.
  - split; [repeat constructor; apply sst_wf_new | reflexivity].
  - repeat constructor; cbn; lia.
Qed.
Example C10_ex_contexts :
  map (fun n => spec_history (spec_cat ex_cat) LstSpec.system_ctx (firstn n ex_hist)) [1; 2; 3; 4]%nat =
  [ Ok (LstSpec.system_ctx ++ [Some [97; 49]; Some [97; 50]; None; Some [97; 49]; Some [97; 50]; None; Some [120]]);
    Ok (LstSpec.system_ctx ++ [Some [97; 49]; Some [97; 50]; None; Some [97; 49]; Some [97; 50]; None; Some [120]; Some [121]]);
    Ok LstSpec.system_ctx;
    Ok (LstSpec.system_ctx ++ [Some [122]]) ]
  /\ map (fun n => res_map slots_of_cur (impl_history ex_cat None (firstn n ex_hist))) [1; 2; 3; 4]%nat =
     map (fun n => spec_history (spec_cat ex_cat) LstSpec.system_ctx (firstn n ex_hist)) [1; 2; 3; 4]%nat.
Proof. vm_compute. split; reflexivity. Qed.
Example C10_ex_resolve :
  match impl_history ex_cat None (firstn 2 ex_hist) with
  | Ok (Some t) => lst_wf t /\ map (impl_resolve (Some t)) [0; 10; 12; 16; 17; 18] =
                   [Ok None; Ok (Some [97; 49]); Ok None; Ok (Some [120]); Ok (Some [121]); Err]
  | _ => False
  end.
Proof.
  vm_compute impl_history. split; [|vm_compute; reflexivity].
  unfold lst_wf. cbn [l_imports l_offsets l_maximp l_syms]. repeat split.
  - discriminate.
  - repeat (apply Forall_cons; [cbn [sh_wf]; try exact I; unfold sst_wf; cbn; lia|]). apply Forall_nil.
Qed.
