(* C05e2e_text.v — C05 END TO END on the models, binary reader -> copy loop -> compact text Writer -> text reader.
   PARTIAL: (a) proved for the observation [obs_of_values vs] (symbol tokens by text, sid -1) only: that the text Writer
   model ignores the symbol ID of a known-text token (the analogue of C05_binary_writer_by_text) is not proved here, no example is given (a vm_compute example through the text Writer did not finish in the time available); (b) compact mode only (pretty: C01text2's theorems are not composed);
   (c) text -> binary and text -> text are not composed (the text reader reports a float as the literal handed to
   strconv.ParseFloat and a timestamp as its fields: turning them into the Writer's arguments needs models of
   ParseFloat / Timestamp construction).
   Hypotheses carried: those of C05_binary_to_binary, and [Forall (WriteSpell.wf_top F) vs], the premise of
   C01text_write_then_read (F: the texts strconv.FormatFloat / Decimal.String / Timestamp.String produce, an input of the
   text Writer model, must be literals denoting the values; symbols without text only $0..$9; no top-level
   $ion_symbol_table::{..}).  Conclusion: no error report; the bytes are a spelling of the forest ([tops_spell]) and the
   text reader model's full traversal of them is the trace of the forest.  Statements only. *)
From Coq Require Import String List NArith ZArith Bool.
From IonV Require Import Base.Wire Base.Utf8 Bin.Bits Data.Ion Num.Float Bin.BinWriter Bin.BitStream Bin.BinReader Bin.SpecBin
  Bin.RoundTripBin Bin.SpecLim Bin.BinReaderTs
  Text.TextOut Text.TextWriter Text.TextRoundtrip Text.Tokenizer Text.Skipper Text.TextReader Text.TextNum Text.SpecText
  Text.SpellBase Text.SpellStream Text.SpellTree Text.WriteSpell Text.WriteSpellStream
  Cli.Process Cli.ProcessP Cli.CopyLoop Cli.CopyLoopP Cli.CopyLoopTextP Cli.CopyLoopText2P Props.C05e2e.
Import ListNotations.
Open Scope N_scope.

Theorem C05_binary_to_text_partial : forall F quiet ts src vs,
  (forall bs, ts bs <> Panic /\ ts bs <> OutOfFuel) -> sdecode src = Some vs -> within_limits ts src ->
  Forall (fun c => c < 256) src -> N.of_nat (length src) < two63 ->
  RoundTripBin.wf_values vs -> Forall (WriteSpell.wf_top F) vs ->
  map proj_tok (fst (traverse ts src false)) = map proj_tok (obs_trace (obs_of_values vs)) /\
  exists w, process_fixed (tw_step F) (new_text_writer None false quiet) (obs_of_values vs) =
              Ok {| oc_w := w; oc_calls := fst (calls_upto_forest (obs_of_values vs)) ++ [CFinish]; oc_reports := [] |} /\
            sink_bytes (tw_out w) = wt_stream F quiet vs /\
            tops_spell PD PT LSys (sink_bytes (tw_out w)) (tvs F vs) /\
            x_traverse PD PT (sink_bytes (tw_out w)) false = ttrace (tvs F vs).
Proof. exact copy_binary_to_text. Qed.

(* the text Writer model driven the way the copy loop drives it: WriteAnnotations with all annotations and WriteInt for
   an int64 behave as one WriteAnnotation per annotation and WriteBigInt *)
Theorem C05_text_writer_call_shapes : forall F cs w, drive (tw_step F) w cs = drive (tw_step F) w (expand cs).
Proof. exact drive_expand. Qed.

Print Assumptions C05_binary_to_text_partial.
Print Assumptions C05_text_writer_call_shapes.
