(* C17e — the C17 headline assembled from Props/C17b.v (never panics, every type), Props/C17c.v (soundness of
   [represents] on rty2) and Props/C17d.v ([bad]: a rejected leaf at a visited position, every type):
   faithful or error on rty2, and every error clause of the property text with conclusion  = Err.
   Statements only; every proof is [exact <lemma>] (Go/DecodeC17P.v). *)
From Coq Require Import String List NArith ZArith.
From IonV Require Import Base.Wire Data.Ion Num.Float Go.GoTypes Go.Fields Go.Decode Go.MarshalSpec Go.MarshalSpec2
  Go.MarshalP Go.DecodeSafeP Go.DecodeSafe2P Go.DecodeSpec2 Go.DecodeFaithful2P Go.DecodeBad Go.DecodeBadP Go.DecodeC17P
  Props.C17b.
Import ListNotations.
Open Scope N_scope.

(* T17e.1 — the property on the wider universe rty2 (float32, time.Time, interface{}, omitempty / symbol / clob / sexp
   options, unexported and "-" fields, nested to any depth): Unmarshal into a zero value stores a Go value that
   represents the Ion value under the documented mapping ([represents], Go/DecodeSpec2.v), or returns an error; no
   third outcome.  faithful_out t v r := match r with Ok g => represents t g v | Err => True | _ => False end. *)
Theorem C17_faithful_or_error_rty2 : forall t v, rty2 t = true -> wfv v = true -> faithful_out t v (decode_to t v).
Proof. exact faithful_or_error_rty2. Qed.
(* an Ion value that no Go value of the type represents is an error *)
Theorem C17_no_representative_is_error : forall t v, rty2 t = true -> wfv v = true ->
  (forall g, ~ represents t g v) -> decode_to t v = Err.
Proof. exact no_representative_is_err. Qed.

(* T17e.2 — on EVERY target type: an outcome that is not a success is the error *)
Theorem C17_not_ok_is_error : forall t v, wfv v = true -> (forall g, decode_to t v <> Ok g) -> decode_to t v = Err.
Proof. exact not_ok_is_err. Qed.

(* T17e.3 — the error clauses at ANY depth, ANY target type: [bad arr t v] (Go/DecodeBad.v, computable) says that on the
   way through slices, arrays (arr = true: the first n elements), maps, pointers and struct fields the decoder meets an
   int outside the range of its integer kind, a float32 overflow, a symbol without text into a string or a class
   mismatch: the whole Unmarshal is an error — never a wrapped, truncated or zeroed element *)
Theorem C17_bad_is_error : forall arr t v, wfv v = true -> bad arr t v = true -> decode_to t v = Err.
Proof. exact bad_is_err. Qed.

(* T17e.4 — C17_int_no_wrap inside every container, for each of the 11 integer kinds *)
Theorem C17_int_no_wrap_in_slice : forall k z pre post, (z < ik_min k \/ ik_max k < z)%Z ->
  wfv (VList (pre ++ VInt z :: post)) = true -> decode_to (TySlice (TyInt k)) (VList (pre ++ VInt z :: post)) = Err.
Proof. exact int_out_of_range_in_slice_err. Qed.
Theorem C17_int_no_wrap_in_array : forall k z n pre post, (z < ik_min k \/ ik_max k < z)%Z ->
  (length pre < N.to_nat n)%nat -> wfv (VList (pre ++ VInt z :: post)) = true ->
  decode_to (TyArray n (TyInt k)) (VList (pre ++ VInt z :: post)) = Err.
Proof. exact int_out_of_range_in_array_err. Qed.
Theorem C17_int_no_wrap_in_map : forall k z key pre post, (z < ik_min k \/ ik_max k < z)%Z ->
  wfv (VStruct (pre ++ (SymText key, VInt z) :: post)) = true ->
  decode_to (TyMap (TyInt k)) (VStruct (pre ++ (SymText key, VInt z) :: post)) = Err.
Proof. exact int_out_of_range_in_map_err. Qed.
Theorem C17_int_no_wrap_under_ptr : forall k z, (z < ik_min k \/ ik_max k < z)%Z ->
  decode_to (TyPtr (TyInt k)) (VInt z) = Err.
Proof. exact int_out_of_range_under_ptr_err. Qed.
Theorem C17_int_no_wrap_in_struct_field : forall k z fs fields key fl i ex pre post,
  (z < ik_min k \/ ik_max k < z)%Z ->
  fields_for (TyStruct fs) = Ok fields -> find_field_by fields key = Some fl -> f_path fl = [i] ->
  nth_field fs i = Some (TyInt k, ex) ->
  wfv (VStruct (pre ++ (SymText key, VInt z) :: post)) = true ->
  decode_to (TyStruct fs) (VStruct (pre ++ (SymText key, VInt z) :: post)) = Err.
Proof. exact int_out_of_range_in_struct_field_err. Qed.

(* T17e.5 — the unstorable leaves of the spec (unstorable t x: int out of range / float32 overflow / symbol without text
   / class mismatch), at the top and inside each container of rty2, annotated and sexp forms included *)
Theorem C17_unstorable_is_error : forall t v, rty2 t = true -> wfv v = true -> unstorable t v -> decode_to t v = Err.
Proof. exact unstorable_is_err. Qed.
Theorem C17_slice_elem_unstorable_is_error : forall e v l x, rty2 e = true -> wfv v = true ->
  body_of v = VList l \/ body_of v = VSexp l -> In x l -> unstorable e x -> decode_to (TySlice e) v = Err.
Proof. exact slice_elem_unstorable_is_err. Qed.
Theorem C17_array_elem_unstorable_is_error : forall n e v l i x, rty2 e = true -> wfv v = true ->
  body_of v = VList l \/ body_of v = VSexp l -> nth_error l i = Some x -> (i < N.to_nat n)%nat ->
  unstorable e x -> decode_to (TyArray n e) v = Err.
Proof. exact array_elem_unstorable_is_err. Qed.
Theorem C17_map_value_unstorable_is_error : forall e v fl k x, rty2 e = true -> wfv v = true ->
  body_of v = VStruct fl -> In (SymText k, x) fl -> unstorable e x -> decode_to (TyMap e) v = Err.
Proof. exact map_value_unstorable_is_err. Qed.
Theorem C17_ptr_target_unstorable_is_error : forall e v, rty2 (TyPtr e) = true -> wfv v = true ->
  is_null v = false -> unstorable e v -> decode_to (TyPtr e) v = Err.
Proof. exact ptr_target_unstorable_is_err. Qed.
Theorem C17_struct_field_unstorable_is_error : forall fs v fl i ex tag ty x, rty2 (TyStruct fs) = true -> wfv v = true ->
  body_of v = VStruct fl -> field_decl fs i = Some (ex, tag, ty) -> skipped ex tag = false ->
  ion_for (fields2 fs 0) i fl = [x] -> unstorable ty x -> decode_to (TyStruct fs) v = Err.
Proof. exact struct_field_unstorable_is_err. Qed.

(* ---- non-vacuity -------------------------------------------------------------------------------------------------- *)
(* the type ex_all of Props/C17b.v (embedded pointer, embedded struct, interface{}, map of pointers to arrays, SymbolToken,
   time.Time, annotations) is far outside rty2; an int8 out of range three containers down, at an index the array does
   visit, makes the whole Unmarshal an error ... *)
Definition deep (x : value) : value :=
  VAnn [SymText (s "tag")] (VStruct [(SymText (s "id"), VInt 7); (SymText (s "m"), VStruct [(SymText (s "k"), x)])]).
Example C17e_ex_deep_int : rty2 ex_all = false /\ bad true ex_all (deep (VList [VInt 1; VInt 128])) = true /\
  decode_to ex_all (deep (VList [VInt 1; VInt 128])) = Err.
Proof.
  split; [reflexivity|]. split; [vm_compute; reflexivity|].
  exact (C17_bad_is_error true ex_all (deep (VList [VInt 1; VInt 128])) eq_refl eq_refl).
Qed.
(* ... while beyond the array length it is skipped (the documented truncation of arrays) *)
Example C17e_ex_deep_skipped : bad true ex_all (deep (VList [VInt 1; VInt 2; VInt 128])) = false /\
  exists g, decode_to ex_all (deep (VList [VInt 1; VInt 2; VInt 128])) = Ok g.
Proof. split; [vm_compute; reflexivity|]. eexists. vm_compute. reflexivity. Qed.
(* a class mismatch, a symbol without text and an out-of-range int64 at depth *)
Example C17e_ex_deep_mismatch : decode_to ex_all (deep (VString (s "x"))) = Err.
Proof. exact (C17_bad_is_error true ex_all (deep (VString (s "x"))) eq_refl eq_refl). Qed.
(* a field matched case-insensitively; [bad] does not follow promoted fields (paths of two steps): not claimed *)
Example C17e_ex_when_mismatch :
  decode_to ex_all (VStruct [(SymText (s "when"), VInt 5)]) = Err /\
  bad false ex_all (VStruct [(SymText (s "ID"), VInt 9223372036854775808)]) = false /\
  decode_to ex_all (VStruct [(SymText (s "ID"), VInt 9223372036854775808)]) = Err.
Proof.
  split; [exact (C17_bad_is_error false ex_all (VStruct [(SymText (s "when"), VInt 5)]) eq_refl eq_refl)|].
  split; vm_compute; reflexivity.
Qed.
Example C17e_ex_f32_sid :
  decode_to (TyMap (TySlice (TyPtr TyF32))) (VStruct [(SymText (s "a"), VSexp [VNull 4; VFloat 5183643170566569985])]) = Err /\
  decode_to (TyArray 2 (TyMap TyString)) (VList [VStruct []; VStruct [(SymText (s "a"), VSymbol (SymSid 10))]]) = Err.
Proof. split; [apply (C17_bad_is_error false)|apply (C17_bad_is_error true)]; reflexivity. Qed.
Example C17e_ex_int_kinds :
  decode_to (TySlice (TyInt U8)) (VList [VInt 0; VInt 256]) = Err /\
  decode_to (TyArray 3 (TyInt I16)) (VList [VInt 0; VInt (-32769)]) = Err /\
  decode_to (TyMap (TyInt U64)) (VStruct [(SymText (s "a"), VInt (-1))]) = Err /\
  decode_to (TyPtr (TyInt UPtr)) (VInt 18446744073709551616) = Err.
Proof.
  split; [|split; [|split]].
  - exact (C17_int_no_wrap_in_slice U8 256 [VInt 0] [] (or_intror eq_refl) eq_refl).
  - exact (C17_int_no_wrap_in_array I16 (-32769) 3 [VInt 0] [] (or_introl eq_refl) (le_S _ _ (le_n 2)) eq_refl).
  - exact (C17_int_no_wrap_in_map U64 (-1) (s "a") [] [] (or_introl eq_refl) eq_refl).
  - exact (C17_int_no_wrap_under_ptr UPtr 18446744073709551616 (or_intror eq_refl)).
Qed.
(* faithful or error on the running example of Props/C17c.v *)
Example C17e_ex_faithful : forall v, wfv v = true -> faithful_out c17c_T v (decode_to c17c_T v).
Proof. intros v H. exact (C17_faithful_or_error_rty2 c17c_T v eq_refl H). Qed.
