(* C06text — the termination half of C06 for the text reader model: the fuelled loops of the tokenizer,
   the skipper and the reader never run out of the fuel the model gives them ([t_rem] + 2), on any
   input and from any state.  Statements only; proofs in Text/FuelP.v (tokenizer, skipper), Text/FuelRP.v (reader) and
   Text/FuelLP.v (local symbol tables). *)
From Coq Require Import String List NArith ZArith Bool.
From IonV Require Import Base.Wire Bin.Bits Data.Ion Num.Float Bin.BitStream Bin.BinReader Text.Tokenizer Text.Skipper Text.TextReader Text.TextNum
  Text.TokenizerP Text.FuelP Text.FuelRP Text.FuelLP.
Import ListNotations.

(* ---- tokenizer and skipper: every operation, from every state (any bytes, any push-back buffer) ---------- *)
(* tokenizer.Next (including skipValue over an unfinished value of any kind): never out of fuel, gives no
   character back, and a token other than EOF / the ones whose first character is pushed back costs one *)
Theorem C06text_tokenizer_next : forall t,
  match t_next t with
  | Ok (_, t') => (t_rem t' + tok_cost (t_token t') <= t_rem t)%nat
  | OutOfFuel => False
  | _ => True
  end.
Proof. exact next_cost. Qed.
Theorem C06text_tokenizer_read_value : forall tok t, t_read_value tok t <> OutOfFuel.
Proof. exact (fun tok t => wp_not_oof _ _ _ (read_value_spec tok t)). Qed.
Theorem C06text_tokenizer_read_number : forall t, t_read_number t <> OutOfFuel.
Proof. exact (fun t => wp_not_oof _ _ _ (read_number_spec t)). Qed.
Theorem C06text_tokenizer_lobs : forall t,
  t_read_blob t <> OutOfFuel /\ t_read_short_clob t <> OutOfFuel /\ t_read_long_clob t <> OutOfFuel.
Proof.
  exact (fun t => conj (wp_not_oof _ _ _ (read_blob_spec t))
                  (conj (wp_not_oof _ _ _ (read_short_clob_spec t)) (wp_not_oof _ _ _ (read_long_clob_spec' t)))).
Qed.
Theorem C06text_tokenizer_finish_value : forall t, t_finish_value t <> OutOfFuel.
Proof. exact (fun t => wp_not_oof _ _ _ (finish_value_spec t)). Qed.
Theorem C06text_skip_value : forall t, t_skip_value t <> OutOfFuel.
Proof. exact (fun t => wp_not_oof _ _ _ (skip_value_spec t)). Qed.
Theorem C06text_tokenizer_misc : forall t,
  t_skip_double_colon t <> OutOfFuel /\ t_skip_dot t <> OutOfFuel /\ t_skip_lob_ws t <> OutOfFuel.
Proof.
  exact (fun t => conj (wp_not_oof _ _ _ (t_skip_double_colon_spec t))
                  (conj (wp_not_oof _ _ _ (skip_dot_spec t)) (wp_not_oof _ _ _ (skip_lob_ws_spec t)))).
Qed.

(* ---- reader --------------------------------------------------------------------------------------------- *)
Section Any.
Variable pd : list N -> res dec.
Variable pt : list N -> res (list N).
Hypothesis pd_nof : forall l, pd l <> OutOfFuel.
Hypothesis pt_nof : forall l, pt l <> OutOfFuel.

(* StepIn and StepOut (which skips the rest of the container) *)
Theorem C06text_step_in_out : forall x, snd (x_step_in x) <> OutOfFuel /\ snd (x_step_out x) <> OutOfFuel.
Proof. exact (fun x => conj (step_in_nof x) (step_out_nof x)). Qed.

(* Next as the reader of a local symbol table drives it (annotations, field names, every kind of value, the
   version marker; inside a symbol table it is never at the top level): from ANY reader state it never runs out
   of fuel; a Next that delivers a value gives no character back, leaves the context stack alone and, outside
   an s-expression, has consumed at least one character *)
Theorem C06text_next_inner : forall x,
  match x_next_inner pd pt x with
  | (x', Ok b) => next_post_x x b x'
  | (_, OutOfFuel) => False
  | _ => True
  end.
Proof. exact (next_inner_spec pd pt pd_nof pt_nof). Qed.

(* readLocalSymbolTable driven through the reader's own Next (imports, symbols, nested lists and structs), with fuel
   above the characters left: never out of fuel, gives no character back, context stack restored *)
Theorem C06text_read_local_symbol_table : forall fuel x, x_type x = TStruct -> (xrem x < fuel)%nat ->
  match read_local_symbol_table (x_next_inner pd pt) fuel x with
  | (x', Ok _) => (xrem x' <= xrem x)%nat /\ x_ctx x' = x_ctx x
  | (_, OutOfFuel) => False
  | _ => True
  end.
Proof. exact (read_local_symbol_table_spec pd pt pd_nof pt_nof). Qed.

(* Next, from ANY reader state: never out of fuel (annotations, version markers and local symbol tables consumed in
   its loop at top level included) *)
Theorem C06text_next : forall x,
  match x_next pd pt x with
  | (x', Ok b) => next_post_x x b x'
  | (_, OutOfFuel) => False
  | _ => True
  end.
Proof. exact (next_never_oof pd pt pd_nof pt_nof). Qed.

(* every API call (Next, StepIn, StepOut, every accessor) from ANY reader state returns or panics: it never runs out
   of fuel (and the model never answers Err at this level) *)
Theorem C06text_op_any_state : forall x o,
  match x_op_res pd pt x o with (_, Ok _) => True | (_, Panic) => True | _ => False end.
Proof. exact (op_never_oof pd pt pd_nof pt_nof). Qed.

(* the full statement, as tr_no_panic is stated: for no input (any bytes, failing io.Reader or not) and no program
   does the trace contain "outoffuel" *)
Theorem C06text_never_out_of_fuel : forall inp ioerr p,
  ~ In (s "outoffuel") (snd (x_run pd pt (x_init inp ioerr) p [])).
Proof. exact (run_never_oof pd pt pd_nof pt_nof). Qed.
End Any.

(* the driver's parsers satisfy the hypotheses *)
Theorem C06text_parsers_total : (forall l, parse_decimal_text l <> OutOfFuel) /\ (forall l, parse_ts_text l <> OutOfFuel).
Proof. exact (conj parse_decimal_text_nof parse_ts_text_nof). Qed.
(* the model as the driver instantiates it *)
Theorem C06text_never_out_of_fuel_text : forall inp ioerr p,
  ~ In (s "outoffuel") (snd (x_run parse_decimal_text parse_ts_text (x_init inp ioerr) p [])).
Proof. exact (run_never_oof parse_decimal_text parse_ts_text parse_decimal_text_nof parse_ts_text_nof). Qed.

(* ---- truncated inputs answer an error, not OutOfFuel ----------------------------------------------------------- *)
Definition full_run (inp : string) : list (list N) :=
  snd (x_run parse_decimal_text parse_ts_text (x_init (s inp) false)
         [ONext; OErr; OStepIn; ONext; OErr; ONext; OErr; OStepOut; ONext; OErr] []).
Definition no_oof (l : list (list N)) : bool := negb (existsb (list_eqb (s "outoffuel")) l).
Definition err_seen (l : list (list N)) : bool := existsb (list_eqb [101; 49]%N) l.
Definition dq : string := String (Ascii.ascii_of_nat 34) EmptyString.
Definition bsl : string := String (Ascii.ascii_of_nat 92) EmptyString.
Example trunc_lob : no_oof (full_run ("{{" ++ dq)) && err_seen (full_run ("{{" ++ dq)) = true.
Proof. vm_compute. reflexivity. Qed.
Example trunc_long_clob : no_oof (full_run "{{'''abc''' '''de") && err_seen (full_run "{{'''abc''' '''de") = true.
Proof. vm_compute. reflexivity. Qed.
Example trunc_long_string : no_oof (full_run "'''a") && err_seen (full_run "'''a") = true.
Proof. vm_compute. reflexivity. Qed.
Example trunc_escape : no_oof (full_run (dq ++ "a" ++ bsl)) && err_seen (full_run (dq ++ "a" ++ bsl)) = true.
Proof. vm_compute. reflexivity. Qed.
Example trunc_comment : no_oof (full_run "/* x") && err_seen (full_run "/* x") = true.
Proof. vm_compute. reflexivity. Qed.
Example trunc_lists : no_oof (full_run "[[[[") && err_seen (full_run "[[[[") = true.
Proof. vm_compute. reflexivity. Qed.
Example trunc_annots : no_oof (full_run "a::b::") && err_seen (full_run "a::b::") = true.
Proof. vm_compute. reflexivity. Qed.
Example trunc_lst : no_oof (full_run "$ion_symbol_table::{symbols:[") && err_seen (full_run "$ion_symbol_table::{symbols:[") = true.
Proof. vm_compute. reflexivity. Qed.
(* a complete local symbol table read through the reader's own calls, then a value using it *)
Example lst_ok :
  full_run ("$ion_symbol_table::{symbols:[" ++ dq ++ "a" ++ dq ++ "," ++ dq ++ "b" ++ dq ++ "]} $10 $11") <> [] /\
  no_oof (full_run ("$ion_symbol_table::{symbols:[" ++ dq ++ "a" ++ dq ++ "," ++ dq ++ "b" ++ dq ++ "]} $10 $11")) = true.
Proof. split; [vm_compute; discriminate|vm_compute; reflexivity]. Qed.

Print Assumptions C06text_tokenizer_next.
Print Assumptions C06text_next_inner.
Print Assumptions C06text_never_out_of_fuel.
Print Assumptions C06text_never_out_of_fuel_text.
Print Assumptions C06text_op_any_state.
Print Assumptions C06text_read_local_symbol_table.
Print Assumptions C06text_next.
Print Assumptions C06text_step_in_out.
Print Assumptions C06text_parsers_total.
