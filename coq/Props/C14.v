(* C14 — decimal arithmetic is exact and decimal text round-trips with precision.
   Statements only; every proof is [exact <lemma>] (or a closed computation for the
   concrete witnesses).  [dec_val d] = d_n d * 10^(- d_scale d) in Q; coefficients are
   unbounded; [dec_i32 d] says the scale is an int32 (true of every Go value). *)
From Coq Require Import List NArith ZArith QArith Qabs Lia String.
From IonV Require Import Base.Wire Num.Decimal Num.DecimalP.
Import ListNotations.
Open Scope string_scope.
Open Scope Z_scope.

(* ---- T14.1  Add, Sub, Mul, Neg, Abs, ShiftL, ShiftR are exact ------------------------- *)
Theorem C14_add_exact : forall a b, exists r, add a b = Ok r /\ dec_val r == dec_val a + dec_val b /\
  d_scale r = Z.max (d_scale a) (d_scale b) /\ d_negzero r = false.
Proof. exact add_exact. Qed.
Theorem C14_sub_exact : forall a b, exists r, sub a b = Ok r /\ dec_val r == dec_val a - dec_val b /\
  d_scale r = Z.max (d_scale a) (d_scale b) /\ d_negzero r = false.
Proof. exact sub_exact. Qed.
Theorem C14_mul_exact : forall a b r, mul a b = Ok r ->
  dec_val r == dec_val a * dec_val b /\ d_n r = d_n a * d_n b /\
  d_scale r = d_scale a + d_scale b /\ d_negzero r = false.
Proof. exact mul_exact. Qed.
Theorem C14_mul_panics_iff : forall a b,
  mul a b = Panic <-> ~ (min_i32 <= d_scale a + d_scale b <= max_i32).
Proof. exact mul_panics_iff. Qed.
Theorem C14_mul_total : forall a b, mul a b = Panic \/ exists r, mul a b = Ok r.
Proof. exact mul_total. Qed.
Theorem C14_neg_exact : forall d,
  dec_val (neg d) == - dec_val d /\ d_scale (neg d) = d_scale d /\ d_negzero (neg d) = false.
Proof. exact neg_exact. Qed.
Theorem C14_abs_exact : forall d,
  dec_val (abs d) == Qabs (dec_val d) /\ d_scale (abs d) = d_scale d /\ d_negzero (abs d) = false.
Proof. exact abs_exact. Qed.
(* shift : any Go int (int64) *)
Theorem C14_shiftl_exact : forall d k r, dec_i32 d -> - two63z <= k < two63z -> shiftl d k = Ok r ->
  dec_val r == dec_val d * ten ^ k /\ d_n r = d_n d /\ d_scale r = d_scale d - k /\ d_negzero r = false.
Proof. exact shiftl_exact. Qed.
Theorem C14_shiftr_exact : forall d k r, dec_i32 d -> - two63z <= k < two63z -> shiftr d k = Ok r ->
  dec_val r == dec_val d * ten ^ (- k) /\ d_n r = d_n d /\ d_scale r = d_scale d + k /\ d_negzero r = false.
Proof. exact shiftr_exact. Qed.
Theorem C14_shiftl_panics_iff : forall d k, dec_i32 d -> - two63z <= k < two63z ->
  (shiftl d k = Panic <-> ~ (min_i32 <= d_scale d - k <= max_i32)).
Proof. exact shiftl_panics_iff. Qed.
Theorem C14_shiftr_panics_iff : forall d k, dec_i32 d -> - two63z <= k < two63z ->
  (shiftr d k = Panic <-> ~ (min_i32 <= d_scale d + k <= max_i32)).
Proof. exact shiftr_panics_iff. Qed.

(* ---- T14.2  Cmp, Equal, Sign agree with the order of Q (and never panic) ---------------- *)
Theorem C14_cmp_exact : forall a b, cmp a b = Ok (cmp_code (dec_val a ?= dec_val b)%Q).
Proof. exact cmp_exact. Qed.
Theorem C14_equal_exact : forall a b, exists e, equal a b = Ok e /\ (e = true <-> dec_val a == dec_val b).
Proof. exact equal_exact. Qed.
Theorem C14_sign_exact : forall d, sign d = cmp_code (dec_val d ?= 0)%Q.
Proof. exact sign_exact. Qed.

(* ---- T14.3  Truncate cuts toward zero to p significant digits ------------------------------
   ndigits n = number of decimal digits of |n|; a Go string is shorter than 2^63-1 bytes. *)
Theorem C14_ndigits_spec : forall z, z <> 0 -> 10 ^ (ndigits z - 1) <= Z.abs z < 10 ^ ndigits z.
Proof. exact ndigits_spec. Qed.
Theorem C14_truncate_nonpos : forall d p, p <= 0 -> truncate d p = Panic.
Proof. exact truncate_nonpos. Qed.
Theorem C14_truncate_spec : forall d p, 0 < p < two63z -> ndigits (d_n d) < two63z - 1 ->
  truncate d p =
    let L := ndigits (d_n d) in
    if L <=? p then Ok d
    else if d_scale d - (L - p) <? min_i32 then Panic
    else Ok (mk (Z.quot (d_n d) (10 ^ (L - p))) (wrap32 (d_scale d - (L - p)))).
Proof. exact truncate_spec. Qed.
Theorem C14_truncate_value : forall d p r, 0 < p < two63z -> ndigits (d_n d) < two63z - 1 -> dec_i32 d ->
  ndigits (d_n d) > p -> truncate d p = Ok r ->
  let k := ndigits (d_n d) - p in
  dec_val r == inject_Z (Z.quot (d_n d) (10 ^ k)) * ten ^ (k - d_scale d) /\ d_negzero r = false.
Proof. exact truncate_value. Qed.
(* Z.quot by 10^k drops k digits toward zero; what is kept has exactly p digits *)
Theorem C14_quot_is_cut : forall n k, 0 <= k ->
  let q := Z.quot n (10 ^ k) in
  Z.abs (n - q * 10 ^ k) < 10 ^ k /\ 0 <= (n - q * 10 ^ k) * n /\ Z.abs (q * 10 ^ k) <= Z.abs n.
Proof. exact quot_is_cut. Qed.
Theorem C14_quot_digits : forall n p, n <> 0 -> 0 < p < ndigits n ->
  10 ^ (p - 1) <= Z.abs (Z.quot n (10 ^ (ndigits n - p))) < 10 ^ p.
Proof. exact quot_digits. Qed.

(* ---- T14.4  ParseDecimal (String d) = d : coefficient, exponent and negative-zero flag ------ *)
Theorem C14_zstr_roundtrip : forall z, set_string (zstr z) = Some z.
Proof. exact scan_zstr. Qed.

(* Invariant of the Go type: the scale is an int32 and the negative-zero flag is only set on a
   zero coefficient.  NewDecimal (the only way to set the flag) establishes it for every
   argument, ParseDecimal and every operation keep it. *)
Theorem C14_new_decimal_wf : forall n e nz, dec_wf (new_decimal n e nz).
Proof. exact new_decimal_wf. Qed.
Theorem C14_parse_wf : forall inp d, dec_parse inp = Ok d -> dec_wf d.
Proof. exact dec_parse_wf. Qed.
Theorem C14_add_wf : forall a b r, dec_i32 a -> dec_i32 b -> add a b = Ok r -> dec_wf r.
Proof. exact add_wf. Qed.
Theorem C14_sub_wf : forall a b r, dec_i32 a -> dec_i32 b -> sub a b = Ok r -> dec_wf r.
Proof. exact sub_wf. Qed.
Theorem C14_mul_wf : forall a b r, mul a b = Ok r -> dec_wf r.
Proof. exact mul_wf. Qed.
Theorem C14_neg_wf : forall d, dec_i32 d -> dec_wf (neg d).
Proof. exact neg_wf. Qed.
Theorem C14_abs_wf : forall d, dec_i32 d -> dec_wf (abs d).
Proof. exact abs_wf. Qed.
Theorem C14_shiftl_wf : forall d k r, shiftl d k = Ok r -> dec_wf r.
Proof. exact shiftl_wf. Qed.
Theorem C14_shiftr_wf : forall d k r, shiftr d k = Ok r -> dec_wf r.
Proof. exact shiftr_wf. Qed.
Theorem C14_truncate_wf : forall d p r, dec_wf d -> truncate d p = Ok r -> dec_wf r.
Proof. exact truncate_wf. Qed.

(* full strength: every decimal NewDecimal can build — any coefficient, any int32 exponent
   (the model wraps the negation like Go, so MinInt32 is included), any flag argument *)
Theorem C14_text_roundtrip : forall n e nz,
  dec_parse (dec_format (new_decimal n e nz)) = Ok (new_decimal n e nz).
Proof. exact text_roundtrip_new. Qed.
(* the same for every value of the type that satisfies its invariant *)
Theorem C14_text_roundtrip_wf : forall d, dec_wf d -> dec_parse (dec_format d) = Ok d.
Proof. exact text_roundtrip. Qed.

(* ---- T14.5  String() always prints an Ion decimal literal --------------------------------- *)
Theorem C14_format_is_literal : forall d, dec_i32 d -> is_decimal_literal (dec_format d) = true.
Proof. exact format_is_literal. Qed.

(* ---- T14.6  the public (coefficient, exponent) view: NewDecimal / CoEx ----------------------
   All arithmetic reads scale s as exponent -s; NewDecimal and CoEx negate in int32. *)
Definition C14_exponent_view_all : Prop :=
  forall n e nz, min_i32 <= e <= max_i32 -> d_scale (new_decimal n e nz) = - e.
Theorem C14_exponent_view_refuted : ~ C14_exponent_view_all.
Proof.
  intros H. specialize (H 1 min_i32 false).
  assert (X : min_i32 <= min_i32 <= max_i32) by (unfold min_i32, max_i32; lia).
  specialize (H X). vm_compute in H. discriminate.
Qed.
Theorem C14_exponent_view_except_known : forall n e nz, min_i32 < e <= max_i32 ->
  dec_val (new_decimal n e nz) == inject_Z n * ten ^ e /\ coex_exp (new_decimal n e nz) = e.
Proof. exact new_decimal_val. Qed.
Theorem C14_coex_new_decimal : forall n e nz, min_i32 <= e <= max_i32 -> coex_exp (new_decimal n e nz) = e.
Proof. exact coex_new_decimal. Qed.

(* Mul seen through CoEx: exponents add — full strength is false at scale MinInt32 *)
Definition C14_mul_coex_all : Prop :=
  forall a b r, dec_i32 a -> dec_i32 b -> mul a b = Ok r ->
  d_n r = d_n a * d_n b /\ coex_exp r = coex_exp a + coex_exp b.
Definition w_a : dec := new_decimal 1 max_i32 false.   (* 1d2147483647 *)
Definition w_b : dec := new_decimal 1 1 false.         (* 1d1 *)
Theorem C14_mul_coex_refuted : ~ C14_mul_coex_all.
Proof.
  intros H.
  assert (Xa : dec_i32 w_a) by (unfold dec_i32, min_i32, max_i32; vm_compute; split; discriminate).
  assert (Xb : dec_i32 w_b) by (unfold dec_i32, min_i32, max_i32; vm_compute; split; discriminate).
  destruct (H w_a w_b (mk 1 min_i32) Xa Xb ltac:(vm_compute; reflexivity)) as [_ E].
  vm_compute in E. discriminate.
Qed.
Theorem C14_mul_coex_except_known : forall a b r,
  min_i32 < d_scale a <= max_i32 -> min_i32 < d_scale b <= max_i32 ->
  mul a b = Ok r -> d_scale r <> min_i32 ->
  d_n r = d_n a * d_n b /\ coex_exp r = coex_exp a + coex_exp b.
Proof. exact mul_coex. Qed.

(* ParseDecimal on text that String() never prints: the written exponent e is read as an int64, the
   fraction length is subtracted in int64, and the ONLY range condition is that the result -- the
   exponent of the value -- fits int32, on both sides and with or without a fraction part
   (0.5d2147483648 is 5d2147483647).  A written exponent beyond int64 is an error. *)
Theorem C14_parse_exponent_exact : forall ip fp e, plain ip -> Forall (fun x => is_dD x = false) fp ->
  - two63z <= e < two63z -> zlen fp < two63z - two31 ->
  dec_parse (ip ++ c_dot :: fp ++ c_d :: zstr e) =
  if in_i32 (e - zlen fp) then parsed (ip ++ fp) (e - zlen fp) else Err.
Proof. exact parse_exponent_exact. Qed.
Theorem C14_parse_exponent_exact_nofrac : forall ip e, plain ip -> - two63z <= e < two63z ->
  dec_parse (ip ++ c_d :: zstr e) = if in_i32 e then parsed ip e else Err.
Proof. exact parse_exponent_exact_nofrac. Qed.
Theorem C14_parse_exponent_over64 : forall m e, Forall (fun x => is_dD x = false) m ->
  ~ (- two63z <= e < two63z) -> dec_parse (m ++ c_d :: zstr e) = Err.
Proof. exact parse_exponent_over64. Qed.
Theorem C14_parsed_exponent : forall str e d, parsed str e = Ok d -> min_i32 < e <= max_i32 -> coex_exp d = e.
Proof. exact parsed_exponent. Qed.
Theorem C14_parse_exponent_rejected :
  dec_parse (s "0.1d-2147483648") = Err /\ dec_parse (s "1.00d-2147483647") = Err /\
  dec_parse (s "1.5d2147483647") = Ok (new_decimal 15 2147483646 false) /\
  dec_parse (s "1d2147483648") = Err /\ dec_parse (s "1d-2147483649") = Err /\
  dec_parse (s "0.5d2147483649") = Err /\ dec_parse (s "1d9223372036854775808") = Err /\
  dec_parse (s "0.5d9223372036854775808") = Err /\ dec_parse (s "0.5d-9223372036854775808") = Err.
Proof. vm_compute. repeat split. Qed.
(* the written exponent is beyond int32, the exponent of the value is not: accepted (both ends of the range) *)
Theorem C14_parse_exponent_value_range :
  dec_parse (s "0.5d2147483648") = Ok (new_decimal 5 2147483647 false) /\
  dec_parse (s "0.00d2147483649") = Ok (new_decimal 0 2147483647 false) /\
  dec_parse (s "1d2147483647") = Ok (new_decimal 1 2147483647 false) /\
  dec_parse (s "1d-2147483648") = Ok (new_decimal 1 (-2147483648) false) /\
  dec_parse (s "1.5d-2147483647") = Ok (new_decimal 15 (-2147483648) false) /\
  coex_exp (new_decimal 5 2147483647 false) = 2147483647.
Proof. vm_compute. repeat split. Qed.

(* ---- non-vacuity: concrete objects meet the hypotheses and compute ---------------------------- *)
Example C14_ex_add : add (new_decimal 15 (-1) false) (new_decimal 2 3 false) = Ok (new_decimal 20015 (-1) false).
Proof. vm_compute. reflexivity. Qed.
Example C14_ex_cmp : cmp (new_decimal 10 (-1) false) (new_decimal 1 0 false) = Ok 0.
Proof. vm_compute. reflexivity. Qed.
Example C14_ex_trunc : truncate (new_decimal (-19) 0 false) 1 = Ok (new_decimal (-1) 1 false).
Proof. vm_compute. reflexivity. Qed.
Example C14_ex_trunc_wrap : truncate (new_decimal (-123456) 5 false) (two63z - 1) = Ok (new_decimal (-123456) 5 false).
Proof. vm_compute. reflexivity. Qed.
Example C14_ex_fmt1 : dec_format (new_decimal 15 (-2) false) = s "1.5d-1" /\ dec_format (new_decimal (-15) (-1) false) = s "-1.5"
  /\ dec_format (new_decimal 0 (-3) true) = s "-0d-3" /\ dec_format (new_decimal 5 min_i32 false) = s "5d-2147483648".
Proof. vm_compute. repeat split. Qed.
Example C14_ex_wf : dec_wf (new_decimal 0 (-3) true) /\ dec_wf (new_decimal 5 min_i32 false).
Proof. unfold dec_wf, dec_i32, min_i32, max_i32. vm_compute. repeat split; intros; try discriminate; reflexivity. Qed.
Example C14_ex_flag : new_decimal 5 0 true = new_decimal 5 0 false /\ dec_format (new_decimal 5 0 true) = s "5."
  /\ d_negzero (new_decimal 0 0 true) = true.
Proof. vm_compute. repeat split. Qed.
Example C14_ex_rt : dec_parse (dec_format (new_decimal (-123456789) (-4) false)) = Ok (new_decimal (-123456789) (-4) false).
Proof. vm_compute. reflexivity. Qed.
Example C14_ex_lit : is_decimal_literal (s "1_000.000_1d+07") = true /\ is_decimal_literal (s "01.") = false
  /\ is_decimal_literal (s "1") = false /\ is_decimal_literal (s "1._0") = false /\ is_decimal_literal (s "-0.") = true
  /\ is_decimal_literal (s "+1.") = false /\ is_decimal_literal (s ".5") = false /\ is_decimal_literal (s "1e5") = false.
Proof. vm_compute. repeat split. Qed.
