(* C17d — the ERROR clauses of C17 at any depth inside containers: "an integer that does not fit the target width
   or sign, a float that overflows float32, a symbol without text into a string and any type mismatch are
   errors, never wrapped, truncated or zeroed results", proved directly on the model of decodeTo
   (Go/Decode.v) for every fuel, every current content of the target and both read-only flags; and the end
   of a Decoder stream.  Statements only; every proof is [exact <lemma>] (Go/DecodeBadP.v).
   [bad arr t v] (Go/DecodeBad.v): decoding v into a target of type t meets, at a position that the decoder
   visits, a leaf it must reject. *)
From Coq Require Import String List NArith ZArith Bool.
From IonV Require Import Base.Wire Data.Ion Num.Float Go.GoTypes Go.Fields Go.Decode Go.MarshalSpec
  Go.MarshalSpec2 Go.DecodeBad Go.DecodeBadP.
Import ListNotations.
Open Scope N_scope.

(* T17d.1 — the master theorem.  Lists into arrays not counted (arr = false): EVERY current content, even
   ill-typed *)
Theorem C17d_bad_never_ok : forall t v, bad false t v = true ->
  forall f cur ro g, decto f t cur ro v <> Ok g.
Proof. exact bad_never_ok. Qed.
(* lists into arrays counted: the arrays of the current content have their declared length (an array target
   visits only as many elements as it has: see C17d_ex_array_skip / C17d_ex_array_illtyped) *)
Theorem C17d_bad_never_ok_shaped : forall t v, bad true t v = true ->
  forall f cur ro g, shaped t cur = true -> decto f t cur ro v <> Ok g.
Proof. exact bad_never_ok_shaped. Qed.
(* counting lists into arrays only adds bad positions: [bad true] is the wider notion *)
Theorem C17d_bad_arr_mono : forall t v, bad false t v = true -> bad true t v = true.
Proof. exact bad_arr_mono. Qed.
(* Unmarshal into a zero value *)
Theorem C17d_bad_unmarshal_not_ok : forall arr t v, bad arr t v = true -> forall g, decode_to t v <> Ok g.
Proof. exact bad_decode_to. Qed.
(* the outcome is the error as soon as Panic and OutOfFuel are excluded ... *)
Theorem C17d_not_ok_not_panic_is_err : forall (r : res gval),
  (forall g, r <> Ok g) -> r <> Panic -> r <> OutOfFuel -> r = Err.
Proof. exact not_ok_not_panic_is_err. Qed.
Theorem C17d_bad_unmarshal_is_err : forall arr t v, bad arr t v = true ->
  decode_to t v <> Panic -> decode_to t v <> OutOfFuel -> decode_to t v = Err.
Proof. exact bad_decode_to_err. Qed.
(* ... which C17_plain_unmarshal_safe does on the plain universe *)
Theorem C17d_bad_plain_is_err : forall arr t v,
  pty t = true -> wfv v = true -> bad arr t v = true -> decode_to t v = Err.
Proof. exact bad_plain_is_err. Qed.

(* T17d.2 — the leaves *)
Theorem C17d_int_out_of_range_anywhere : forall arr k z,
  (z < ik_min k \/ ik_max k < z)%Z -> bad arr (TyInt k) (VInt z) = true.
Proof. exact int_out_of_range_anywhere. Qed.
Theorem C17d_f32_overflow_anywhere : forall arr b, overflow_f32 b = true -> bad arr TyF32 (VFloat b) = true.
Proof. exact f32_overflow_anywhere. Qed.
Theorem C17d_symbol_without_text_anywhere : forall arr n, bad arr TyString (VSymbol (SymSid n)) = true.
Proof. exact symbol_without_text_anywhere. Qed.
Theorem C17d_mismatch_anywhere : forall arr t v,
  match body_of v with VNull _ | VAnn _ _ => False | _ => True end ->
  (leaf_bad t (body_of v) = true \/
   (exists e, t = TySlice e /\ match body_of v with VList _ | VSexp _ | VClob _ | VBlob _ => False | _ => True end) \/
   (exists n e, t = TyArray n e /\ match body_of v with VList _ | VSexp _ | VClob _ | VBlob _ => False | _ => True end) \/
   (exists e, (t = TySlice e \/ exists n, t = TyArray n e) /\ is_u8 e = false /\
              match body_of v with VClob _ | VBlob _ => True | _ => False end) \/
   (exists e, t = TyMap e /\ match body_of v with VStruct _ => False | _ => True end)) ->
  bad arr t v = true.
Proof. exact mismatch_anywhere. Qed.

(* T17d.3 — a bad position makes every enclosing container value bad *)
Theorem C17d_bad_in_slice : forall arr e x pre post, bad arr e x = true ->
  bad arr (TySlice e) (VList (pre ++ x :: post)) = true /\ bad arr (TySlice e) (VSexp (pre ++ x :: post)) = true.
Proof. exact bad_in_slice. Qed.
Theorem C17d_bad_in_array : forall e x n pre post, (length pre < N.to_nat n)%nat -> bad true e x = true ->
  bad true (TyArray n e) (VList (pre ++ x :: post)) = true /\ bad true (TyArray n e) (VSexp (pre ++ x :: post)) = true.
Proof. exact bad_in_array. Qed.
Theorem C17d_bad_in_map : forall arr e k x pre post, bad arr e x = true ->
  bad arr (TyMap e) (VStruct (pre ++ (SymText k, x) :: post)) = true.
Proof. exact bad_in_map. Qed.
Theorem C17d_bad_under_ptr : forall arr e v, bad arr e v = true -> bad arr (TyPtr e) v = true.
Proof. exact bad_under_ptr. Qed.
Theorem C17d_bad_annotated : forall arr t a v,
  bad arr t v = true -> (forall a' x, v <> VAnn a' x) -> bad arr t (VAnn a v) = true.
Proof. exact bad_annotated. Qed.
Theorem C17d_bad_in_struct_field : forall arr fs fields k fl i ft ex x pre post,
  fields_for (TyStruct fs) = Ok fields -> find_field_by fields k = Some fl -> f_path fl = [i] ->
  nth_field fs i = Some (ft, ex) -> bad arr ft x = true ->
  bad arr (TyStruct fs) (VStruct (pre ++ (SymText k, x) :: post)) = true.
Proof. exact bad_in_struct_field. Qed.
(* ... on the struct types of the round-trip universe rty2 (exported, non-embedded, no `annotations` field,
   distinct names): fieldsFor is the fields2 view *)
Theorem C17d_bad_in_struct_field2 : forall arr fs k fl i ft ex x pre post,
  rfs2 fs 0 = true -> distinct (names2 fs 0) = true ->
  find_field_by (fields2 fs 0) k = Some fl -> f_path fl = [i] ->
  nth_field fs i = Some (ft, ex) -> bad arr ft x = true ->
  bad arr (TyStruct fs) (VStruct (pre ++ (SymText k, x) :: post)) = true.
Proof. exact bad_in_struct_field2. Qed.

(* T17d.4 — [shaped]: every zero value and every well-typed value; decodeTo keeps it *)
Theorem C17d_shaped_zero : forall t, shaped t (zero t) = true.
Proof. exact shaped_zero. Qed.
Theorem C17d_has_type_shaped : forall t g, has_type g t = true -> shaped t g = true.
Proof. exact has_type_shaped. Qed.
Theorem C17d_decto_shaped : forall f t cur ro v g,
  shaped t cur = true -> decto f t cur ro v = Ok g -> shaped t g = true.
Proof. exact decto_shaped. Qed.
Theorem C17d_bad_never_ok_typed : forall t v, bad true t v = true ->
  forall f cur ro g, has_type cur t = true -> decto f t cur ro v <> Ok g.
Proof. exact bad_never_ok_typed. Qed.

(* T17d.5 — C17_int_no_wrap inside each container, for any current content and for Unmarshal *)
Theorem C17d_int_out_of_range_in_slice : forall k z, (z < ik_min k \/ ik_max k < z)%Z ->
  forall pre post f cur ro g, decto f (TySlice (TyInt k)) cur ro (VList (pre ++ VInt z :: post)) <> Ok g.
Proof. exact int_out_of_range_in_slice. Qed.
Theorem C17d_int_out_of_range_in_slice_unmarshal : forall k z, (z < ik_min k \/ ik_max k < z)%Z ->
  forall pre post g, decode_to (TySlice (TyInt k)) (VList (pre ++ VInt z :: post)) <> Ok g.
Proof. exact int_out_of_range_in_slice_unmarshal. Qed.
Theorem C17d_int_out_of_range_in_array : forall k z, (z < ik_min k \/ ik_max k < z)%Z ->
  forall n pre post f o ro g, (length pre < N.to_nat n)%nat -> length o = N.to_nat n ->
  decto f (TyArray n (TyInt k)) (GArr o) ro (VList (pre ++ VInt z :: post)) <> Ok g.
Proof. exact int_out_of_range_in_array. Qed.
Theorem C17d_int_out_of_range_in_array_unmarshal : forall k z, (z < ik_min k \/ ik_max k < z)%Z ->
  forall n pre post g, (length pre < N.to_nat n)%nat ->
  decode_to (TyArray n (TyInt k)) (VList (pre ++ VInt z :: post)) <> Ok g.
Proof. exact int_out_of_range_in_array_unmarshal. Qed.
Theorem C17d_int_out_of_range_in_map : forall k z, (z < ik_min k \/ ik_max k < z)%Z ->
  forall key pre post f cur ro g,
  decto f (TyMap (TyInt k)) cur ro (VStruct (pre ++ (SymText key, VInt z) :: post)) <> Ok g.
Proof. exact int_out_of_range_in_map. Qed.
Theorem C17d_int_out_of_range_in_map_unmarshal : forall k z, (z < ik_min k \/ ik_max k < z)%Z ->
  forall key pre post g, decode_to (TyMap (TyInt k)) (VStruct (pre ++ (SymText key, VInt z) :: post)) <> Ok g.
Proof. exact int_out_of_range_in_map_unmarshal. Qed.
Theorem C17d_int_out_of_range_under_ptr : forall k z, (z < ik_min k \/ ik_max k < z)%Z ->
  forall f cur ro g, decto f (TyPtr (TyInt k)) cur ro (VInt z) <> Ok g.
Proof. exact int_out_of_range_under_ptr. Qed.
Theorem C17d_int_out_of_range_under_ptr_unmarshal : forall k z, (z < ik_min k \/ ik_max k < z)%Z ->
  forall g, decode_to (TyPtr (TyInt k)) (VInt z) <> Ok g.
Proof. exact int_out_of_range_under_ptr_unmarshal. Qed.
Theorem C17d_int_out_of_range_in_struct_field : forall k z, (z < ik_min k \/ ik_max k < z)%Z ->
  forall fs fields key fl i ex pre post f cur ro g,
  fields_for (TyStruct fs) = Ok fields -> find_field_by fields key = Some fl -> f_path fl = [i] ->
  nth_field fs i = Some (TyInt k, ex) ->
  decto f (TyStruct fs) cur ro (VStruct (pre ++ (SymText key, VInt z) :: post)) <> Ok g.
Proof. exact int_out_of_range_in_struct_field. Qed.
Theorem C17d_int_out_of_range_in_struct_field_unmarshal : forall k z, (z < ik_min k \/ ik_max k < z)%Z ->
  forall fs fields key fl i ex pre post g,
  fields_for (TyStruct fs) = Ok fields -> find_field_by fields key = Some fl -> f_path fl = [i] ->
  nth_field fs i = Some (TyInt k, ex) ->
  decode_to (TyStruct fs) (VStruct (pre ++ (SymText key, VInt z) :: post)) <> Ok g.
Proof. exact int_out_of_range_in_struct_field_unmarshal. Qed.

(* T17d.6 — part (3): a Decoder reading a stream returns the values in order and then ErrNoInput (None), on
   every further call (C17_decoder_stream_order does not model the end marker) *)
Theorem C17_decoder_stream_then_no_input : forall vs n i, (i < n)%nat ->
  nth_error (decoder_calls vs n) i = Some (option_map decode_any (nth_error vs i)).
Proof. exact decoder_calls_spec. Qed.
Theorem C17_decoder_calls_length : forall vs n, length (decoder_calls vs n) = n.
Proof. exact decoder_calls_length. Qed.

(* ---- non-vacuity ----------------------------------------------------------------------------------------- *)
Definition ex_map_ty : gty := TyMap (TySlice (TyInt U16)).
Definition ex_map_val : value := VStruct [(SymText (s "a"%string), VList [VInt 1; VInt 65536])].
Example C17d_ex_map : bad false ex_map_ty ex_map_val = true /\ decode_to ex_map_ty ex_map_val = Err /\
  decode_to ex_map_ty (VStruct [(SymText (s "a"%string), VList [VInt 1; VInt 65535])]) =
    Ok (GMap (Some [(s "a"%string, GSlice (Some [GInt 1; GInt 65535]))])).
Proof. vm_compute. repeat split; reflexivity. Qed.
Example C17d_ex_map_master : forall f cur ro g, decto f ex_map_ty cur ro ex_map_val <> Ok g.
Proof. apply C17d_bad_never_ok. vm_compute. reflexivity. Qed.

(* a struct with a tagged field holding *[]int8; the second field is unexported, the Ion field name matches the
   tag case-insensitively *)
Definition ex_struct_ty : gty :=
  TyStruct (FCons (s "hidden"%string) false false [] TyBool
           (FCons (s "Vals"%string) true false (s "vals,omitempty"%string) (TyPtr (TySlice (TyInt I8))) FNil)).
Definition ex_struct_val (z : Z) : value :=
  VStruct [(SymText (s "other"%string), VBool true); (SymText (s "VALS"%string), VList [VInt 127; VInt z])].
Example C17d_ex_struct : bad false ex_struct_ty (ex_struct_val 128) = true /\
  decode_to ex_struct_ty (ex_struct_val 128) = Err /\
  decode_to ex_struct_ty (ex_struct_val (-128)) =
    Ok (GStruct [GBool false; GPtr (Some (GSlice (Some [GInt 127; GInt (-128)])))]).
Proof. vm_compute. repeat split; reflexivity. Qed.
Example C17d_ex_struct_prepopulated : forall f ro g,
  decto f ex_struct_ty (GStruct [GBool true; GPtr (Some (GSlice (Some [GInt 5; GInt 6; GInt 7])))]) ro
        (ex_struct_val 128) <> Ok g.
Proof. intros f ro g. apply C17d_bad_never_ok. vm_compute. reflexivity. Qed.
Example C17d_ex_struct_unmarshal_not_ok : forall g, decode_to ex_struct_ty (ex_struct_val 128) <> Ok g.
Proof. apply (C17d_bad_unmarshal_not_ok false). vm_compute. reflexivity. Qed.
Definition ex_int_fields : gfields := FCons (s "N"%string) true false (s "n"%string) (TyInt U8) FNil.
Definition ex_int_fld : field := fld (s "N"%string) (s "n"%string) (TyInt U8) 0.
Example C17d_ex_int_field : forall f cur ro g,
  decto f (TyStruct ex_int_fields) cur ro (VStruct ([] ++ (SymText (s "n"%string), VInt 256) :: [])) <> Ok g.
Proof.
  intros f cur ro g.
  refine (C17d_int_out_of_range_in_struct_field U8 256 (or_intror eq_refl) ex_int_fields [ex_int_fld] (s "n"%string) ex_int_fld
            0%nat true [] [] f cur ro g _ _ _ _).
  - vm_compute. reflexivity.
  - vm_compute. reflexivity.
  - reflexivity.
  - reflexivity.
Qed.

(* arrays: an out-of-range element BEYOND the array length is skipped by decodeSliceTo and the value decodes Ok;
   within the length it is an error; an (ill-typed) empty array value in a [2]int8 target visits nothing, which
   is why lists into arrays are counted only for [shaped] current contents *)
Example C17d_ex_array_skip :
  decode_to (TyArray 2 (TyInt I8)) (VList [VInt 1; VInt 2; VInt 1000]) = Ok (GArr [GInt 1; GInt 2]) /\
  bad true (TyArray 2 (TyInt I8)) (VList [VInt 1; VInt 2; VInt 1000]) = false /\
  bad true (TyArray 2 (TyInt I8)) (VList [VInt 1; VInt 1000]) = true /\
  decode_to (TyArray 2 (TyInt I8)) (VList [VInt 1; VInt 1000]) = Err.
Proof. vm_compute. repeat split; reflexivity. Qed.
Example C17d_ex_array_illtyped :
  decto 5 (TyArray 2 (TyInt I8)) (GArr []) false (VList [VInt 1; VInt 1000]) = Ok (GArr []) /\
  shaped (TyArray 2 (TyInt I8)) (GArr []) = false.
Proof. vm_compute. split; reflexivity. Qed.
(* an array inside a struct field named twice: the second decode starts from the result of the first *)
Definition ex_arr_struct : gty := TyStruct (FCons (s "A"%string) true false [] (TyArray 2 (TyInt U8)) FNil).
Definition ex_arr_val : value :=
  VStruct [(SymText (s "A"%string), VList [VInt 1]); (SymText (s "a"%string), VList [VInt 7; VInt 256])].
Example C17d_ex_array_in_struct : bad true ex_arr_struct ex_arr_val = true /\ decode_to ex_arr_struct ex_arr_val = Err.
Proof. vm_compute. split; reflexivity. Qed.
Example C17d_ex_array_in_struct_master : forall f ro g, decto f ex_arr_struct (zero ex_arr_struct) ro ex_arr_val <> Ok g.
Proof. intros f ro g. apply C17d_bad_never_ok_shaped; vm_compute; reflexivity. Qed.

(* float32 overflow under a pointer in a slice; symbol without text in a map; mismatches *)
Example C17d_ex_f32 : bad false (TySlice (TyPtr TyF32)) (VSexp [VFloat 0; VAnn [SymText (s "x"%string)] (VFloat 5183643170566569985)]) = true /\
  decode_to (TySlice (TyPtr TyF32)) (VSexp [VFloat 0; VAnn [SymText (s "x"%string)] (VFloat 5183643170566569985)]) = Err.
Proof. vm_compute. split; reflexivity. Qed.
Example C17d_ex_symbol : bad false (TyMap TyString) (VStruct [(SymText (s "k"%string), VSymbol (SymSid 10))]) = true /\
  decode_to (TyMap TyString) (VStruct [(SymText (s "k"%string), VSymbol (SymSid 10))]) = Err /\
  (* a field whose NAME has no text is skipped: not bad *)
  bad false (TyMap TyString) (VStruct [(SymSid 10, VSymbol (SymSid 10))]) = false /\
  decode_to (TyMap TyString) (VStruct [(SymSid 10, VSymbol (SymSid 10))]) = Ok (GMap (Some [])).
Proof. vm_compute. repeat split; reflexivity. Qed.
Example C17d_ex_mismatch :
  bad false (TySlice (TyMap TyBool)) (VList [VStruct [(SymText (s "k"%string), VList [])]]) = true /\
  decode_to (TySlice (TyMap TyBool)) (VList [VStruct [(SymText (s "k"%string), VList [])]]) = Err /\
  bad false (TyPtr (TySlice (TyInt I32))) (VBlob [1; 2]) = true /\
  decode_to (TyPtr (TySlice (TyInt I32))) (VBlob [1; 2]) = Err /\
  bad false (TySlice (TyInt I64)) (VList [VInt 1; VString (s "2"%string)]) = true /\
  decode_to (TySlice (TyInt I64)) (VList [VInt 1; VString (s "2"%string)]) = Err /\
  (* interface{} accepts everything, a null is the zero value *)
  bad true (TySlice TyIface) (VList [VInt 1; VString (s "2"%string)]) = false /\
  bad true (TySlice (TyInt I8)) (VList [VNull 2]) = false /\
  decode_to (TySlice (TyInt I8)) (VList [VNull 2]) = Ok (GSlice (Some [GInt 0])).
Proof. vm_compute. repeat split; reflexivity. Qed.
Example C17d_ex_plain : decode_to ex_map_ty ex_map_val = Err.
Proof. apply (C17d_bad_plain_is_err false); vm_compute; reflexivity. Qed.
Example C17d_ex_decoder :
  decoder_calls [VInt 1; VBool true] 4 =
  [Some (decode_any (VInt 1)); Some (decode_any (VBool true)); None; None].
Proof. reflexivity. Qed.
