(* C15 (text half) — every well-formed timestamp is formatted as a valid Ion timestamp literal and is
   recovered unchanged by parsing that literal.
   Statements only; every proof is [exact <lemma>] (lemmas in Num/TimestampT.v).

   The quantifier is [wf_ts] of Num/Timestamp.v, the same as in C15_binary_roundtrip: local year 1..9999,
   one of the six precisions, offset a whole number of minutes strictly within a day, kind and offset
   in agreement (known non-zero offset / UTC / unknown "-00:00"), 0..9 fraction digits with the
   nanoseconds a multiple of 10^(9-digits) (trailing zeros included), nanosecond precision exactly when
   there is at least one fraction digit.

   [ts_format] is the model of Timestamp.String, [ts_parse c] of ParseTimestamp ([patched] = the tree with
   fix_ts_textround etc. applied, which is what the repository now contains; [pinned] = the tree as found).
   The round trip holds of EVERY configuration.  The only place where the configuration matters is a
   fraction of exactly nine digits, which the parser sends through roundFractionalSeconds: integer rounding
   in the patched code, strconv.ParseFloat and "%.9f" in the pinned code (exact there as well, because a
   value below ten seconds with nine decimals is far inside float64's 53 bits: Num/TimestampT.f64_fmt9_exact).

   "Valid literal" is stated three ways, all independent of the parser model:
   * [C15_text_valid_literal]: the text is a spelling [ts_text sh] of Text/SpellTs.v (written from the Ion
     text grammar) within the ranges [ts_ok] of the grammar and the calendar, and the eleven numbers the
     spelling denotes ([SpellTs.ts_fields]: civil fields, nanoseconds, offset minutes, offset kind, precision,
     fraction digits) are those of the timestamp;
   * [C15_text_spec_accepts]: the specification decoder SpecText.p_timestamp accepts exactly that text
     wherever a number may end;
   * [C15_text_grammar]: the boolean grammar [is_ts_literal] of Num/Timestamp.v accepts it. *)
From Coq Require Import List NArith ZArith String.
From IonV Require Import Base.Wire Num.Calendar Num.Timestamp Num.TimestampP Num.TimestampR Num.TimestampT.
From IonV Require Text.SpecText Text.SpellTs.
Import ListNotations.
Open Scope Z_scope.

(* T15.7 — text: every well-formed timestamp is read back unchanged (instant, offset and kind, precision,
   number of fraction digits: the whole record) *)
Theorem C15_text_roundtrip : forall t, wf_ts t -> ts_parse patched (ts_format t) = Ok t.
Proof. exact text_roundtrip. Qed.
Theorem C15_text_roundtrip_cfg : forall c t, wf_ts t -> ts_parse c (ts_format t) = Ok t.
Proof. exact text_roundtrip_cfg. Qed.

(* T15.8 — text: what is formatted is a valid Ion timestamp literal that denotes the timestamp's fields *)
Theorem C15_text_valid_literal : forall t, wf_ts t ->
  exists sh, SpellTs.ts_ok sh = true /\ SpellTs.ts_text sh = ts_format t /\ SpellTs.ts_fields sh = ts_fields t.
Proof. exact text_valid_literal. Qed.
Theorem C15_text_spec_accepts : forall t rest, wf_ts t -> SpecText.num_end rest = true ->
  exists v, SpecText.p_timestamp (ts_format t ++ rest) = Some (v, rest).
Proof. exact spec_accepts_format_ex. Qed.
Theorem C15_text_grammar : forall t, wf_ts t -> is_ts_literal (ts_format t) = true.
Proof. exact format_is_literal. Qed.

(* outside the quantifier (remark): nanosecond precision with zero fraction digits prints as second precision *)
Theorem C15_text_nano_zero_digits : forall tm k, ts_format (mkTs tm PNano k 0) = ts_format (mkTs tm PSecond k 0).
Proof. exact format_nano0. Qed.

(* non-vacuity: 9999-12-31T23:59:59.999999990-23:59 (nine digits, trailing zero, UTC instant in year 10000)
   and 2000-03-01T00:00-00:00 (unknown offset) are well-formed; so are ex_ts1..3 of C15.v *)
Example C15_text_ex_wf4 : wf_ts ex_ts4. Proof. exact ex_ts4_wf. Qed.
Example C15_text_ex_wf5 : wf_ts ex_ts5. Proof. exact ex_ts5_wf. Qed.
Example C15_text_ex_wf1 : wf_ts ex_ts1. Proof. exact ex_ts1_wf. Qed.
Example C15_text_ex_strings :
  ts_format ex_ts4 = bytes_of_string "9999-12-31T23:59:59.999999990-23:59" /\
  ts_format ex_ts5 = bytes_of_string "2000-03-01T00:00-00:00".
Proof. exact ex_ts45_text. Qed.

Print Assumptions C15_text_roundtrip.
Print Assumptions C15_text_roundtrip_cfg.
Print Assumptions C15_text_valid_literal.
Print Assumptions C15_text_spec_accepts.
Print Assumptions C15_text_grammar.
Print Assumptions C15_text_nano_zero_digits.
