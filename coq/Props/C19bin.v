(* C19 — I/O failures are reported (write side), binary Writer.  Statements only; proofs in
   Bin/BinWriterP2.v.  The io.Writer is the model's sink: it accepts [k] writes and then fails
   every write ([None]: never fails). *)
From Coq Require Import List NArith ZArith Bool.
From IonV Require Import Base.Wire Data.Ion Bin.BinWriter Bin.BinWriterP Bin.BinWriterP2.
Import ListNotations.

(* every call sequence, every budget: the writes accepted before the io.Writer starts failing are a
   prefix (chunk by chunk) of the writes of the fault-free run *)
Theorem C19_binary_prefix_chunks : forall (budget : option nat) (cs : list wcall) w1 r1 w2 r2,
  drive_results (new_writer budget) cs = Ok (w1, r1) ->
  drive_results (new_writer None) cs = Ok (w2, r2) ->
  is_prefix (sk_writes (w_out w1)) (sk_writes (w_out w2)).
Proof. exact bw_fault_prefix. Qed.

(* the same on bytes *)
Theorem C19_binary_prefix : forall (k : nat) (cs : list wcall) w1 r1 w2 r2,
  drive_results (new_writer (Some k)) cs = Ok (w1, r1) ->
  drive_results (new_writer None) cs = Ok (w2, r2) ->
  exists tl, sink_bytes (w_out w2) = sink_bytes (w_out w1) ++ tl.
Proof. exact bw_fault_prefix_bytes. Qed.

(* both runs always exist (no call panics), so the statement is never vacuous *)
Theorem C19_binary_prefix_total : forall (budget : option nat) (cs : list wcall), exists w1 r1 w2 r2,
  drive_results (new_writer budget) cs = Ok (w1, r1) /\ drive_results (new_writer None) cs = Ok (w2, r2) /\
  is_prefix (sk_writes (w_out w1)) (sk_writes (w_out w2)) /\
  is_prefix (sink_bytes (w_out w1)) (sink_bytes (w_out w2)).
Proof. exact bw_fault_prefix_total. Qed.

(* the fixed-table writer (NewBinaryWriterLST), which writes straight through at top level *)
Theorem C19_binary_prefix_lst : forall (budget : option nat) (locals : list text) (cs : list wcall) w1 r1 w2 r2,
  drive_results (new_writer_lst budget locals) cs = Ok (w1, r1) ->
  drive_results (new_writer_lst None locals) cs = Ok (w2, r2) ->
  is_prefix (sk_writes (w_out w1)) (sk_writes (w_out w2)).
Proof. exact bw_fault_prefix_lst. Qed.

(* from any state: the run over the same state with a never-failing io.Writer *)
Theorem C19_binary_prefix_from : forall w (cs : list wcall) w1 r1 w2 r2,
  drive_results w cs = Ok (w1, r1) -> drive_results (unl w) cs = Ok (w2, r2) ->
  is_prefix (sk_writes (w_out w1)) (sk_writes (w_out w2)).
Proof. exact bw_fault_prefix_from. Qed.

(* no refused write goes unreported: if every call returned nil, nothing was refused — the output
   and the per-call results are those of the fault-free run *)
Theorem C19_binary_fault_reported : forall (budget : option nat) (cs : list wcall) w1 r1 w2 r2,
  drive_results (new_writer budget) cs = Ok (w1, r1) ->
  drive_results (new_writer None) cs = Ok (w2, r2) ->
  forallb (fun b => b) r1 = true ->
  sk_writes (w_out w1) = sk_writes (w_out w2) /\ sink_bytes (w_out w1) = sink_bytes (w_out w2) /\ r1 = r2.
Proof. exact bw_fault_reported. Qed.

(* a budget smaller than the number of writes of the fault-free run makes some call fail *)
Theorem C19_binary_fault_detected : forall (k : nat) (cs : list wcall) w1 r1 w2 r2,
  drive_results (new_writer (Some k)) cs = Ok (w1, r1) ->
  drive_results (new_writer None) cs = Ok (w2, r2) ->
  (k < length (sk_writes (w_out w2)))%nat -> exists i, nth i r1 true = false.
Proof. exact bw_fault_detected. Qed.

(* the io.Writer is never handed back more than it accepted *)
Theorem C19_binary_budget_respected : forall (k : nat) (cs : list wcall) w1 r1,
  drive_results (new_writer (Some k)) cs = Ok (w1, r1) -> (length (sk_writes (w_out w1)) <= k)%nat.
Proof. exact bw_budget_respected. Qed.

(* every call only appends to what the io.Writer accepted *)
Theorem C19_binary_append_only : forall w c w' ok,
  wstep w c = Ok (w', ok) -> is_prefix (sk_writes (w_out w)) (sk_writes (w_out w')).
Proof. exact wstep_appends. Qed.

(* the step-level simulation behind the above: over the failing and the never-failing io.Writer a call
   either does the same thing, or a write has just been refused: the call answers an error, the budget
   is exhausted, and what was accepted is a prefix of the other side's *)
Theorem C19_binary_step_simulation : forall w c, sim_res (wstep w c) (wstep (unl w) c).
Proof. exact wstep_sim. Qed.

(* non-vacuity: 1 "hi" Finish 2 Finish with an io.Writer that fails after two writes: the version
   marker and the int get out, the string is refused, Finish reports it and every later call fails *)
Example C19bin_ex : exists w1 w2,
  drive_results (new_writer (Some 2%nat)) [CInt 1; CString [104; 105]; CFinish; CInt 2; CFinish]
    = Ok (w1, [true; true; false; false; false]) /\
  drive_results (new_writer None) [CInt 1; CString [104; 105]; CFinish; CInt 2; CFinish]
    = Ok (w2, [true; true; true; true; true]) /\
  sink_bytes (w_out w1) = [224; 1; 0; 234; 33; 1]%N /\
  sink_bytes (w_out w2) = [224; 1; 0; 234; 33; 1; 130; 104; 105; 224; 1; 0; 234; 33; 2]%N /\
  w_err w1 = true.
Proof.
  eexists _, _. split; [vm_compute; reflexivity|]. split; [vm_compute; reflexivity|].
  split; [vm_compute; reflexivity|]. split; vm_compute; reflexivity.
Qed.

(* the hypothesis of [C19_binary_fault_reported] is satisfiable with a finite budget *)
Example C19bin_ex_enough : exists w1,
  drive_results (new_writer (Some 3%nat)) [CInt 1; CString [104; 105]; CFinish] = Ok (w1, [true; true; true]) /\
  sink_bytes (w_out w1) = [224; 1; 0; 234; 33; 1; 130; 104; 105]%N.
Proof. eexists. split; vm_compute; reflexivity. Qed.

(* a refused write is recorded: if the output falls short of the fault-free output then some call
   returned an error and the writer is in its (sticky) error state *)
Theorem C19_binary_fault_recorded : forall (budget : option nat) (cs : list wcall) w1 r1 w2 r2,
  drive_results (new_writer budget) cs = Ok (w1, r1) ->
  drive_results (new_writer None) cs = Ok (w2, r2) ->
  sk_writes (w_out w1) <> sk_writes (w_out w2) -> w_err w1 = true /\ In false r1.
Proof. exact bw_fault_recorded. Qed.
