(* C11 — binary writers with shared or fixed tables emit resolvable, minimal symbols.
   Statements only; every proof is [exact <lemma>].

   Vocabulary (Bin/BinWriterSh.v, Bin/BinWriterShP.v, Sym/SymTab.v):
     new_writer_sh budget sts            NewBinaryWriter(out, sts...): the machine of Bin/BinWriter.v next to the
                                         symbol-table builder over sts (builder_new sts; Add = builder_add)
     new_writer_lst_sh budget imps locs  NewBinaryWriterLST(out, NewLocalSymbolTable(imps, locs))
     resolve_from_table_sh x t           resolveFromSymbolTable: the only place where text becomes a symbol ID
     import_id b t                       the ID under which text t is found in b's imports (first import, first slot)
     first_use imp seen xs               the texts of xs that are neither imported nor seen before, in order
     lst_calls_sh t                      lst.WriteTo(w) as Writer calls;  declared_imports = the (name, version, max_id)
                                         structs of its imports list
     pres / reach                        the machine's table after any calls is the builder after some Add history *)
From Coq Require Import List NArith ZArith String.
From IonV Require Import Base.Wire Sym.SymTab Sym.SymTabP Bin.Bits Data.Ion Bin.BinWriter Bin.BinWriterSh
  Bin.BinWriterShP Sym.LstSpec Sym.CtxHistory Bin.SpecBin Bin.SpecBinCat.
Import ListNotations.
Open Scope N_scope.

(* (b) text found in an import is written with its import ID; that ID is an import slot, carries the text, is the
   lowest ID carrying it, and never changes while the writer runs *)
Theorem C11_shared_import_id : forall x t id, sw_fixed x = false -> import_id (sw_tab x) t = Some id ->
  resolve_from_table_sh x t = (x, id, true).
Proof. exact shared_import_id. Qed.
Theorem C11_shared_import_id_lowest : forall b t id, lst_wf b -> t <> [] -> import_id b t = Some id ->
  1 <= id <= sum_max (l_imports b) /\ SymTab.lst_find_by_id b id = Some t /\
  forall id', id' < id -> SymTab.lst_find_by_id b id' <> Some t.
Proof. exact import_id_lowest. Qed.
Theorem C11_shared_import_id_stable : forall b xs t, import_id (adds_state b xs) t = import_id b t.
Proof. exact import_id_stable. Qed.

(* (c) over every Add history: the locals are exactly the texts not found in the imports, in first-use order,
   without duplicates *)
Theorem C11_shared_locals : forall sts xs, sum_max (effective_imports sts) < two64 ->
  let b0 := builder_new sts in
  l_syms (adds_state b0 xs) = first_use (in_imports b0) [] xs /\
  NoDup (l_syms (adds_state b0 xs)) /\
  forall t, In t (l_syms (adds_state b0 xs)) -> in_imports b0 t = false /\ In t xs.
Proof. exact shared_locals. Qed.

(* the machine: whatever calls are made (values, containers, Finish, failing sinks), the table it holds is the
   builder over the given tables after some history of Adds — so (b) and (c) apply to every ID it writes *)
Theorem C11_shared_reachable : forall sts budget cs x' oks,
  drive_sh (new_writer_sh budget sts) cs [] = Ok (x', oks) ->
  sw_fixed x' = false /\ exists xs, sw_tab x' = adds_state (builder_new sts) xs.
Proof. exact shared_reachable. Qed.

(* (a) the table written at Finish declares exactly the given tables, in order, with name, version and max_id *)
Theorem C11_shared_declares : forall sts xs, user_ion sts = false -> sum_max (effective_imports sts) < two64 ->
  sts <> [] ->
  declared_imports (lst_calls_sh (adds_state (builder_new sts) xs)) =
  map (fun i => (sh_name i, sh_ver i, sh_max i)) sts.
Proof. exact shared_declares. Qed.

(* fixed tables: text outside the table makes the call fail, records the error, emits nothing *)
Theorem C11_fixed_refuses : forall run x k t, sw_fixed x = true -> w_err (sw_w x) = false ->
  tk_text k = Some t -> lst_find_by_name (sw_tab x) t = None ->
  step_sh run x (CSymbol k) = Ok (serr x true, false).
Proof. exact fixed_refuses_symbol. Qed.
Theorem C11_fixed_refuses_string : forall run x t, sw_fixed x = true -> w_err (sw_w x) = false ->
  BinWriter.symbol_identifier t = None -> lst_find_by_name (sw_tab x) t = None ->
  step_sh run x (CSymbolFromString t) = Ok (serr x true, false).
Proof. exact fixed_refuses_symbol_string. Qed.
Theorem C11_fixed_refuses_token : forall x k t, sw_fixed x = true -> tk_text k = Some t ->
  lst_find_by_name (sw_tab x) t = None -> id_of_tok_sh x k = None.
Proof. exact fixed_refuses_token. Qed.
Theorem C11_fixed_nothing_emitted : forall x e,
  w_out (sw_w (serr x e)) = w_out (sw_w x) /\ w_bufs (sw_w (serr x e)) = w_bufs (sw_w x)
  /\ sw_tab (serr x e) = sw_tab x /\ w_err (sw_w (serr x e)) = e.
Proof. exact serr_out. Qed.
Theorem C11_sticky : forall run x c, w_err (sw_w x) = true -> step_sh run x c = Ok (x, false).
Proof. exact sh_sticky. Qed.

(* fixed tables: text in the table is written with the table's ID = the lowest ID carrying it; no other ID is ever
   derived from a token's text *)
Theorem C11_fixed_id : forall x t id, sw_fixed x = true -> lst_find_by_name (sw_tab x) t = Some id ->
  resolve_from_table_sh x t = (x, id, true).
Proof. exact fixed_id. Qed.
Theorem C11_fixed_id_lowest : forall x t id, lst_wf (sw_tab x) -> t <> [] ->
  lst_find_by_name (sw_tab x) t = Some id ->
  1 <= id <= SymTab.lst_max_id (sw_tab x) /\ SymTab.lst_find_by_id (sw_tab x) id = Some t /\
  forall id', id' < id -> SymTab.lst_find_by_id (sw_tab x) id' <> Some t.
Proof. exact fixed_id_lowest. Qed.
Theorem C11_fixed_token_id : forall x k t x' id, sw_fixed x = true -> tk_text k = Some t ->
  id_of_tok_sh x k = Some (x', id) -> x' = x /\ lst_find_by_name (sw_tab x) t = Some id.
Proof. exact fixed_token_id. Qed.

(* ---- non-vacuity and (d) on an example: the output is decoded by the specification decoder with the same
   tables in its catalog ------------------------------------------------------------------------------------- *)
Definition ex_sts : list shared :=
  [ Sst (sst_new [65] 1 [[97; 49]; [97; 50]; [97; 49]]);                       (* A v1: a1 a2 a1 *)
    Sst (sst_adjust (sst_new [66] 2 [[97; 49]; []; [99]]) 5) ].                (* B v2: a1 "" c, max_id 5 *)
Definition ex_calls : list wcall :=
  [ CSymbol (tok_text [97; 49]); CSymbol (tok_text [99]); CSymbol (tok_text [122]);
    CAnnotation (tok_text [122]); CSymbol (tok_text [121]); CBeginStruct; CFieldName (tok_text [110; 97; 109; 101]);
    CSymbol (tok_text [97; 50]); CEndStruct; CFinish ].
Definition ex_out : list N :=
  match drive_sh (new_writer_sh None ex_sts) ex_calls [] with
  | Ok (x, _) => sink_bytes (w_out (sw_w x))
  | _ => []
  end.
Example C11_ex_run :
  match drive_sh (new_writer_sh None ex_sts) ex_calls [] with
  | Ok (x, oks) => oks = repeat true 10 /\ l_syms (sw_tab x) = [[122]; [121]]
                   /\ declared_imports (lst_calls_sh (sw_tab x)) = [([65], 1%Z, 3); ([66], 2%Z, 5)]
  | _ => False
  end.
Proof. vm_compute. repeat split; reflexivity. Qed.
Example C11_ex_decodes :
  sdecode_cat (spec_cat (Some ex_sts)) ex_out =
  Some [ VSymbol (SymText [97; 49]); VSymbol (SymText [99]); VSymbol (SymText [122]);
         VAnn [SymText [122]] (VSymbol (SymText [121]));
         VStruct [(SymText [110; 97; 109; 101], VSymbol (SymText [97; 50]))] ].
Proof. vm_compute. reflexivity. Qed.
(* the same bytes without the catalog: the imported texts are lost, which is what the imports declare *)
Example C11_ex_decodes_nocat :
  sdecode_cat [] ex_out =
  Some [ VSymbol (SymSid 10); VSymbol (SymSid 15); VSymbol (SymText [122]);
         VAnn [SymText [122]] (VSymbol (SymText [121]));
         VStruct [(SymText [110; 97; 109; 101], VSymbol (SymSid 11))] ].
Proof. vm_compute. reflexivity. Qed.
Example C11_ex_fixed :
  let x := new_writer_lst_sh None ex_sts [[120]] in
  lst_find_by_name (sw_tab x) [122] = None /\ lst_find_by_name (sw_tab x) [120] = Some 18 /\
  lst_find_by_name (sw_tab x) [97; 49] = Some 10 /\ lst_wf (sw_tab x).
Proof.
  cbv zeta. split; [vm_compute; reflexivity|]. split; [vm_compute; reflexivity|].
  split; [vm_compute; reflexivity|]. cbn [new_writer_lst_sh sw_tab].
  apply lst_wf_new; [|vm_compute; reflexivity].
  repeat constructor; [apply sst_wf_new | apply sst_wf_adjust, sst_wf_new].
Qed.
