(* C08 (binary reader) — skipping a value is the same as reading it, and StepOut lands on the
   container's end offset whatever was or was not read inside.
   Statements only; every proof is [exact <lemma>]. *)
From Coq Require Import String List NArith ZArith Bool.
From IonV Require Import Base.Wire Bin.Bits Data.Ion Bin.BitStream Bin.BitStreamP Bin.BitStreamNextP Bin.BitStreamSkipP.
Import ListNotations.
Open Scope N_scope.

(* SkipValue on a value consumes exactly its body and finishes the value ... *)
Theorem C08bin_skip_takes_value : forall b b' u, avail_ok b -> b_pos b < two64 -> b_state b = bssOnValue ->
  b_skip_value b = (b', Ok u) -> took_value b b'.
Proof. exact skip_took. Qed.
(* ... and so does every typed read that succeeds ... *)
Theorem C08bin_read_int : forall b, avail_ok b -> b_pos b < two64 ->
  forall b' v, b_read_int b = (b', Ok v) -> took_value b b'.
Proof. exact read_int_took. Qed.
Theorem C08bin_read_float : forall b, avail_ok b -> b_pos b < two64 ->
  forall b' v, b_read_float b = (b', Ok v) -> took_value b b'.
Proof. exact read_float_took. Qed.
Theorem C08bin_read_decimal : forall b, avail_ok b -> b_pos b < two64 ->
  forall b' v, b_len b < two64 -> b_read_decimal b = (b', Ok v) -> took_value b b'.
Proof. exact read_decimal_took. Qed.
Theorem C08bin_read_timestamp : forall b, avail_ok b -> b_pos b < two64 ->
  forall ts b' v, b_read_timestamp b ts = (b', Ok v) -> took_value b b'.
Proof. exact read_timestamp_took. Qed.
Theorem C08bin_read_symbol : forall b, avail_ok b -> b_pos b < two64 ->
  forall b' v, b_read_symbol_id b = (b', Ok v) -> took_value b b'.
Proof. exact read_symbol_took. Qed.
Theorem C08bin_read_string : forall b, avail_ok b -> b_pos b < two64 ->
  forall b' v, b_read_string b = (b', Ok v) -> took_value b b'.
Proof. exact read_string_took. Qed.
Theorem C08bin_read_bytes : forall b, avail_ok b -> b_pos b < two64 ->
  forall b' v, b_read_bytes b = (b', Ok v) -> took_value b b'.
Proof. exact read_bytes_took. Qed.
(* ... hence both leave the same remaining input, position, stack, state and cleared current value *)
Theorem C08bin_skip_equals_read : forall b b1 b2,
  took_value b b1 -> took_value b b2 -> same_cursor b1 b2.
Proof. exact took_same. Qed.

(* every successful operation from a state satisfying the invariant is a step of [inside]:
   it re-establishes the invariant and advances input and position together, within the container *)
Theorem C08bin_next_is_step : forall b, binv b -> ospec b (b_next b) (fun b' _ => npost b b').
Proof. exact b_next_spec. Qed.
Theorem C08bin_step_out_is_step : forall b c e rest, binv b -> b_stack b = (c, e) :: rest ->
  ospec b (b_step_out b)
        (fun b' _ => opost b b' /\ quiet b' /\ b_stack b' = rest /\ b_avail b' <= b_avail b /\ b_pos b' = e).
Proof. exact b_step_out_spec. Qed.

Theorem C08bin_next_stays_inside : forall base b b1 b2 u, inside base b b1 -> binv b1 ->
  (exists pre, b_stack b1 = pre ++ base) -> b_next b1 = (b2, Ok u) ->
  inside base b b2 /\ binv b2 /\ b_stack b2 = b_stack b1.
Proof. exact inside_next. Qed.
Theorem C08bin_skip_stays_inside : forall base b b1 b2 u, inside base b b1 -> binv b1 ->
  (exists pre, b_stack b1 = pre ++ base) -> b_skip_value b1 = (b2, Ok u) ->
  inside base b b2 /\ binv b2 /\ b_stack b2 = b_stack b1.
Proof. exact inside_skip. Qed.
(* every typed read satisfies [vpost] (C06bin_bitstream_int ...), hence: *)
Theorem C08bin_read_stays_inside : forall base b b1 b2, inside base b b1 ->
  (exists pre, b_stack b1 = pre ++ base) -> vpost b1 b2 ->
  inside base b b2 /\ binv b2 /\ b_stack b2 = b_stack b1.
Proof. exact inside_value. Qed.
Theorem C08bin_step_in_stays_inside : forall base b b1 b2 u, inside base b b1 -> binv b1 ->
  (exists pre, b_stack b1 = pre ++ base) -> b_state b1 = bssOnValue -> is_container_code (b_code b1) ->
  b_step_in b1 = (b2, Ok u) ->
  inside base b b2 /\ binv b2 /\ b_stack b2 = (b_code b1, b_pos b1 + b_len b1) :: b_stack b1.
Proof. exact inside_step_in. Qed.
Theorem C08bin_inner_step_out_stays_inside : forall base b b1 b2 u x pre, inside base b b1 -> binv b1 ->
  b_stack b1 = (x :: pre) ++ base -> b_step_out b1 = (b2, Ok u) ->
  inside base b b2 /\ binv b2 /\ b_stack b2 = pre ++ base.
Proof. exact inside_step_out. Qed.

(* StepOut after ANY successful operations that stay inside the container (c, e) lands on e, and the
   remaining input is the original input with exactly the container's remaining bytes dropped *)
Theorem C08bin_step_out_lands : forall c e rest b b' b'' u, binv b -> b_stack b = (c, e) :: rest ->
  inside ((c, e) :: rest) b b' -> b_stack b' = (c, e) :: rest -> b_step_out b' = (b'', Ok u) ->
  b_pos b'' = e /\ b_stack b'' = rest /\ b_in b'' = skipn (N.to_nat (e - b_pos b)) (b_in b) /\
  b_avail b'' = b_avail b - (e - b_pos b).
Proof. exact step_out_lands. Qed.
(* position determines the remaining input: inside a container every reachable state is the start
   state advanced by (pos' - pos) bytes, without wrap *)
Theorem C08bin_position_determines_input : forall c e rest b b', binv b ->
  (exists pre, b_stack b = pre ++ (c, e) :: rest) -> inside ((c, e) :: rest) b b' ->
  binv b' /\ exists K, moved K b b' /\ b_pos b' = b_pos b + K /\ b_pos b' <= e.
Proof. exact inside_pos. Qed.

(* the hypotheses are satisfiable: E0 01 00 EA B3 21 05 20: step into the list, stand on the int 5 *)
Definition c08_on_int : bstate :=
  let b0 := b_init [224; 1; 0; 234; 179; 33; 5; 32] false in
  let b1 := fst (b_read_bvm (fst (b_next b0))) in
  fst (b_next (fst (b_step_in (fst (b_next b1))))).
Example C08bin_witness :
  b_state c08_on_int = bssOnValue /\ b_code c08_on_int = bcInt /\ b_stack c08_on_int = [(bcList, 8)] /\
  snd (b_read_int c08_on_int) = Ok (I64 5) /\ snd (b_skip_value c08_on_int) = Ok tt /\
  b_pos (fst (b_read_int c08_on_int)) = 7 /\ b_pos (fst (b_skip_value c08_on_int)) = 7 /\
  b_pos (fst (b_step_out c08_on_int)) = 8 /\ b_in (fst (b_step_out c08_on_int)) = [].
Proof. vm_compute. repeat split; reflexivity. Qed.
