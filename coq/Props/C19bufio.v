(* C19 (read side) — results do not depend on I/O chunking, and an I/O failure is reported.
   ion-go's Readers touch their input only through bufio.Reader's ReadByte, Peek, Discard and io.ReadFull (checked on
   the source by lib/props/c19.py on every run).  Base/Bufio.v models those operations over a source that delivers the
   bytes in arbitrary chunks and then returns its final error, alone or together with the last chunk; the theorems say
   that ANY client program (a strategy tree over the four operations — the binary reader, the tokenizer, anything)
   observes exactly what it observes on the unchunked byte string, for every chunk schedule and buffer size, and that a
   failing source is never mistaken for the end of the input.  Statements only. *)
From Coq Require Import List NArith Arith Bool.
From IonV Require Import Base.Bufio Base.BufioP.
Import ListNotations.

(* every operation returns what the chunk-free specification returns on the remaining bytes *)
Theorem C19_bufio_op_refines : forall bsize, 1 <= bsize -> forall o b r b',
  Inv bsize b -> do_op bsize o b = (r, b') -> (r, abs b') = spec_op bsize o (abs b) /\ Inv bsize b'.
Proof. exact do_op_spec. Qed.
Print Assumptions C19_bufio_op_refines.

(* any client, any two chunkings of the same bytes with the same final error: the same result *)
Theorem C19_bufio_chunk_independent : forall bsize, 1 <= bsize -> forall R (c : client R) s1 s2,
  s_rest s1 = s_rest s2 -> s_fin s1 = s_fin s2 ->
  fst (run bsize c (new_breader s1)) = fst (run bsize c (new_breader s2)).
Proof. intros bsize H R. exact (@chunk_independent bsize H R). Qed.
Print Assumptions C19_bufio_chunk_independent.

Theorem C19_bufio_chunk_independent_ops : forall bsize, 1 <= bsize -> forall os s1 s2,
  s_rest s1 = s_rest s2 -> s_fin s1 = s_fin s2 ->
  run_ops bsize os (new_breader s1) = run_ops bsize os (new_breader s2).
Proof. exact chunk_independent_ops. Qed.
Print Assumptions C19_bufio_chunk_independent_ops.

(* the source failed: no operation of any program reports a clean or unexpected END of input ... *)
Theorem C19_bufio_failure_never_eof : forall bsize, 1 <= bsize -> forall os s,
  s_fin s = FFail -> forallb (fun r => negb (says_eof r)) (run_ops bsize os (new_breader s)) = true.
Proof. intros bsize H os s Hf. apply failure_never_looks_like_eof; [exact H|apply inv_new|exact Hf]. Qed.
Print Assumptions C19_bufio_failure_never_eof.

(* ... and an operation that runs out of bytes reports the failure *)
Theorem C19_bufio_failure_reported : forall bsize, 1 <= bsize -> forall o b r b',
  Inv bsize b -> s_fin (b_src b) = FFail -> do_op bsize o b = (r, b') ->
  short bsize o (length (b_buf b ++ s_rest (b_src b))) = true -> reports r EFail.
Proof. exact failure_is_reported. Qed.
Print Assumptions C19_bufio_failure_reported.

(* non-vacuity: two chunkings of ten bytes, a failure arriving with the last chunk; a program that peeks beyond the
   data, discards, reads a block across the chunk boundary and hits the failure *)
Definition ex_ops : list op := [OPeek 3; OReadByte; ODiscard 2; OReadFull 4; OPeek 4; OReadFull 6; OReadByte].
Definition ex_src (sched : list nat) (w : bool) : source := mkSource [1; 2; 3; 4; 5; 6; 7; 8; 9; 10]%N sched FFail w.
Example C19_bufio_ex :
  run_ops 4 ex_ops (new_breader (ex_src [0; 0; 2; 0] true)) = run_ops 4 ex_ops (new_breader (ex_src [] false)) /\
  run_ops 4 ex_ops (new_breader (ex_src [6] true)) =
  [ResBytes [1; 2; 3]%N None; ResByte (RB 1%N); ResCount 2 None; ResBytes [4; 5; 6; 7]%N None;
   ResBytes [8; 9; 10]%N (Some EFail); ResBytes [8; 9; 10]%N (Some EFail); ResByte (RBErr EFail)].
Proof. vm_compute. split; reflexivity. Qed.

(* ---- the binary reader model as a client of the buffered reader -------------------------------------------------- *)
(* Bin/BitStream.v reaches its input only through b_read, b_readN, b_skip and b_peek.  For a concrete bufio.Reader
   model [br] over ANY chunk schedule that is in step with the reader model's remaining input, each primitive's
   result is determined by what [br] answers, and the two stay in step: the binary reader model is a deterministic
   client of the bufio layer, so C19_bufio_chunk_independent applies to everything it does, and its failing-source
   flag is the abstraction of an io.Reader that fails after the bytes. *)
From IonV Require Import Base.Wire Bin.Bits Bin.BitStream Bin.BitStreamP Bin.BitStreamIO.

Theorem C19_binreader_input_init : forall (bsz : nat) s inp (ioerr : bool),
  s_rest s = inp -> s_fin s = (if ioerr then FFail else FEof) -> in_step bsz (new_breader s) (b_init inp ioerr).
Proof. exact in_step_init. Qed.
Print Assumptions C19_binreader_input_init.

Theorem C19_binreader_read_byte : forall bsz : nat, (1 <= bsz)%nat -> forall br b, in_step bsz br b ->
  let '(r, br') := do_op bsz OReadByte br in
  snd (b_read b) = (match r with ResByte (RB c) => Ok (Some c) | ResByte (RBErr EEof) => Ok None | _ => Err end) /\
  in_step bsz br' (fst (b_read b)).
Proof. exact sim_read. Qed.
Print Assumptions C19_binreader_read_byte.

Theorem C19_binreader_read_full : forall bsz : nat, (1 <= bsz)%nat -> forall br b n, in_step bsz br b -> avail_ok b ->
  let '(r, br') := do_op bsz (OReadFull (N.to_nat n)) br in
  snd (b_readN b n) = (match r with ResBytes d None => Ok d | _ => Err end) /\
  in_step bsz br' (fst (b_readN b n)).
Proof. exact sim_readN. Qed.
Print Assumptions C19_binreader_read_full.

Theorem C19_binreader_discard : forall bsz : nat, (1 <= bsz)%nat -> forall br b n, in_step bsz br b -> avail_ok b -> (n < two63)%N ->
  let '(r, br') := do_op bsz (ODiscard (N.to_nat n)) br in
  snd (b_skip b n) = (match r with ResCount _ None => Ok tt | _ => Err end) /\
  in_step bsz br' (fst (b_skip b n)).
Proof. exact sim_skip. Qed.
Print Assumptions C19_binreader_discard.

Theorem C19_binreader_peek : forall bsz : nat, (1 <= bsz)%nat -> forall br b k, in_step bsz br b -> (S (N.to_nat k) <= bsz)%nat ->
  let '(r, br') := do_op bsz (OPeek (S (N.to_nat k))) br in
  b_peek b k = (match r with
                | ResBytes d None => match nth_error d (N.to_nat k) with Some c => Ok c | None => Err end
                | _ => Err end) /\
  in_step bsz br' b.
Proof. exact sim_peek. Qed.
Print Assumptions C19_binreader_peek.

(* non-vacuity: a reader model over eleven bytes and a buffered reader over the same bytes cut 1+2+3+… are in step,
   and stay so after ReadByte *)
Example C19_binreader_ex :
  let s := mkSource [224; 1; 0; 234; 33; 5; 33; 6; 33; 7; 15]%N [0; 1; 2]%nat FEof true in
  let b := b_init [224; 1; 0; 234; 33; 5; 33; 6; 33; 7; 15]%N false in
  abs (new_breader s) = flat_of b /\
  fst (do_op 4%nat OReadByte (new_breader s)) = ResByte (RB 224%N) /\ snd (b_read b) = Ok (Some 224%N) /\
  abs (snd (do_op 4%nat OReadByte (new_breader s))) = flat_of (fst (b_read b)).
Proof. vm_compute. repeat split; reflexivity. Qed.

(* ---- the text tokenizer model as a client of the buffered reader -------------------------------------------------- *)
(* Text/Tokenizer.v reaches its input in one place, t_read (ReadByte; after CR a Peek(1) and, on LF, one more ReadByte).
   That program, written as a client of the bufio model, computes exactly t_read's character on the remaining input —
   so every character the tokenizer model obtains (CR LF straddling a chunk or a buffer fill included) is independent
   of the chunking, and a failing source is the model's I/O error. *)
From IonV Require Import Text.Tokenizer Text.TokenizerIO.

Theorem C19_tokenizer_read_is_client : forall bsize : nat, (1 <= bsize)%nat -> forall t br,
  t_buf t = [] -> Inv bsize br -> abs br = tflat_of t ->
  fst (run bsize read_client br) = fst (t_read_in t).
Proof. exact read_client_bufio. Qed.
Print Assumptions C19_tokenizer_read_is_client.

Theorem C19_tokenizer_read_chunk_independent : forall bsize : nat, (1 <= bsize)%nat -> forall s1 s2,
  s_rest s1 = s_rest s2 -> s_fin s1 = s_fin s2 ->
  fst (run bsize read_client (new_breader s1)) = fst (run bsize read_client (new_breader s2)).
Proof. exact read_chunk_independent. Qed.
Print Assumptions C19_tokenizer_read_chunk_independent.

Example C19_tokenizer_crlf_ex :
  let inp := [97; 98; 99; 13; 10; 100]%N in
  let br := new_breader (mkSource inp [3; 0; 0]%nat FEof false) in
  let br3 := snd (run 4%nat (Do (ODiscard 3%nat) (fun _ => Done tt)) br) in
  fst (run 4%nat read_client br3) = Some (Zpos 10) /\ abs (snd (run 4%nat read_client br3)) = mkFlat [100]%N FEof.
Proof. exact read_client_crlf_ex. Qed.
