(* C05e2e.v — C05 END TO END on the models: reader model -> copy loop -> writer model -> specification decoder.
   "For every document the Reader accepts ... the documented copy loop (field name, annotations, then value,
   recursing into containers) into a ... binary Writer produces a stream that denotes the same values.  Symbols are
   carried by their text whenever the source knows it, so the result does not depend on the symbol IDs the source used."

   Composition of  C03bin (Props/C03bin.v: the binary reader model's full traversal of every byte string the
   specification decoder accepts, within limits, is the trace of the denoted values), C05_copy_loop_values
   (Props/C05.v: the copy loop [process_fixed] of Cli/Process.v over an observed forest) and C04_binary_int64
   (Props/C04bin.v: the binary Writer model's output for the canonical calls decodes to the values).

   HOW THE READER'S OBSERVATION ENTERS.  The copy loop consumes an observed forest ([oval]: what Next / FieldName /
   Annotations / Type / IsNull / the accessors return); the reader theorems speak of the printed trace of the full
   traversal.  [obs_trace obs] (Cli/CopyLoop.v) prints an observed forest exactly as the traversal prints what it
   is given, symbol tokens as k<hex text>.<sid> / u.<sid>.  C03bin determines the reader's trace up to the symbol IDs
   of known-text tokens ([proj_tok]); accordingly
     (1) the reader's trace IS, up to [proj_tok], the printing of [obs_of_values vs] (tokens {text, sid -1}), and
     (2) the conclusion is proved for EVERY observation [obs] that equals [obs_of_values vs] up to the symbol IDs of
         known-text tokens ([map norm_oval obs = obs_of_values vs]) — whatever IDs the source used; each such [obs]
         prints, up to [proj_tok], to the reader's trace.
   NOT PROVED (the one informal step): that an observed forest whose printing is the reader's trace token for token
   is such an [obs] (injectivity of the printers dec_of_Z / hex_of_bytes / show_dec); the example below exhibits the
   exact equation [fst (traverse ..) = obs_trace obs] on a document.

   HYPOTHESES CARRIED, beyond those of C03bin (total timestamp oracle, sdecode accepts, within_limits, octets,
   length < 2^63):  [wf_values vs] (Bin/RoundTripBin.v), the premise of C04_binary:
     - every symbol (value, field name, annotation) has KNOWN text, valid UTF-8   (a token with only an ID is written
       back as that ID, under the Writer's own table: not the same value; the property text says "whenever the source
       knows it");
     - strings are valid UTF-8 (sdecode guarantees it; not re-derived here), null type codes 1..13, decimals with an int32
       exponent and -0 only with coefficient 0, floats 64-bit with the canonical NaN (the reader reports the canonical
       NaN, [canon_float]; the Writer writes it: C04_binary_nan), annotation lists non-empty and not nested;
     - no top-level value is a struct annotated first with $ion_symbol_table (written back it IS a symbol table);
   and the output shorter than 2^63 octets for the final decoding.
   Statements only; proofs in Cli/CopyLoopP.v. *)
From Coq Require Import String List NArith ZArith Bool.
From IonV Require Import Base.Wire Base.Utf8 Bin.Bits Data.Ion Num.Float Bin.BitStream Bin.BinReader Bin.BinWriter Bin.BinWriterP
  Bin.SpecBin Bin.RoundTripBin Bin.SpecLim Bin.BinReaderTs Cli.Process Cli.ProcessP Cli.CopyLoop Cli.CopyLoopP.
Import ListNotations.
Open Scope N_scope.

(* ---- binary -> binary ------------------------------------------------------------------------------------------- *)
Theorem C05_binary_to_binary : forall ts src vs,
  (forall bs, ts bs <> Panic /\ ts bs <> OutOfFuel) -> sdecode src = Some vs -> within_limits ts src ->
  Forall (fun c => c < 256) src -> N.of_nat (length src) < two63 -> wf_values vs ->
  (* READ: the reader model reports vs *)
  map proj_tok (fst (traverse ts src false)) = map proj_tok (obs_trace (obs_of_values vs)) /\
  (* COPY and WRITE: for every observation that differs from it only in the symbol IDs of known-text tokens *)
  forall obs, map norm_oval obs = obs_of_values vs ->
    map proj_tok (obs_trace obs) = map proj_tok (fst (traverse ts src false)) /\
    exists w, process_fixed bin_step (new_writer None) obs =
                Ok {| oc_w := w; oc_calls := fst (calls_upto_forest obs) ++ [CFinish]; oc_reports := [] |} /\
              sink_bytes (w_out w) = enc_forest vs /\
              (N.of_nat (length (enc_forest vs)) < two63 -> sdecode (sink_bytes (w_out w)) = Some vs).
Proof. exact copy_binary_to_binary. Qed.

(* the WRITE half alone, for an observation obtained from any reader: no error report, the bytes do not depend on
   the symbol IDs of the observation ([enc_forest vs] is a function of the values), they decode to the values, and
   the calls issued denote the observation *)
Theorem C05_copy_to_binary : forall vs obs, wf_values vs -> map norm_oval obs = obs_of_values vs ->
  exists w, process_fixed bin_step (new_writer None) obs =
              Ok {| oc_w := w; oc_calls := fst (calls_upto_forest obs) ++ [CFinish]; oc_reports := [] |} /\
            values_of_calls (fst (calls_upto_forest obs) ++ [CFinish]) = Some (map value_of obs) /\
            sink_bytes (w_out w) = enc_forest vs /\
            (N.of_nat (length (enc_forest vs)) < two63 -> sdecode (sink_bytes (w_out w)) = Some vs).
Proof. exact copy_to_binary_writer. Qed.

(* "the result does not depend on the symbol IDs the source used", for the binary Writer model driven the way the
   copy loop drives it (stop at the first error): the run on a call sequence and the run on the same calls with every
   known-text token stripped of its symbol ID agree on every result and end in states that differ at most in the
   symbol IDs of pending known-text tokens (same bytes, same symbol table) *)
Theorem C05_binary_writer_by_text : forall cs w1 w2, wnorm w1 = wnorm w2 ->
  match drive bin_step w1 cs, drive bin_step w2 (map norm_call cs) with
  | Ok (a, ok1), Ok (b, ok2) => ok1 = ok2 /\ wnorm a = wnorm b
  | Err, Err | Panic, Panic | OutOfFuel, OutOfFuel => True
  | _, _ => False
  end.
Proof. exact drive_sim. Qed.

(* the observation of a forest of values is a fixed point of the normalisation, so (2) is not vacuous *)
Theorem C05_obs_of_values_normal : forall vs, map norm_oval (obs_of_values vs) = obs_of_values vs.
Proof. exact norm_obs_of_values. Qed.

(* ---- example: a local symbol table (with an unused first entry, so the source's IDs are not the Writer's), an
   annotation, a struct, nested lists, a symbol value; foo::{bar:[1,[true,"hi"]],name:bar} foo ---------------------- *)
Definition ex_src : list N :=
  [224; 1; 0; 234;
   238; 144; 129; 131; 221; 135; 187; 130; 122; 122; 131; 102; 111; 111; 131; 98; 97; 114;
   238; 143; 129; 139; 220; 140; 183; 33; 1; 180; 17; 130; 104; 105; 132; 113; 12;
   113; 11].
Definition tk (x : string) (n : Z) : tok := {| tk_text := Some (s x); tk_sid := n |}.
(* what the reader reports: foo is $11 and bar is $12 in the source *)
Definition ex_obs : list oval :=
  [OCont None [tk "foo" 11] KStruct
     [OCont (Some (tk "bar" 12)) [] KList
        [OScalar None [] (SInt (I64 1)); OCont None [] KList [OScalar None [] (SBool true); OScalar None [] (SString (s "hi"))]];
      OScalar (Some (tk "name" 4)) [] (SSymbol (tk "bar" 12))];
   OScalar None [] (SSymbol (tk "foo" 11))].
Definition ex_vs : list value :=
  [VAnn [SymText (s "foo")] (VStruct [(SymText (s "bar"), VList [VInt 1; VList [VBool true; VString (s "hi")]]);
                                        (SymText (s "name"), VSymbol (SymText (s "bar")))]);
   VSymbol (SymText (s "foo"))].
(* the Writer's table is [foo; bar]: foo is $10, bar is $11 *)
Definition ex_out : list N :=
  [224; 1; 0; 234; 237; 129; 131; 218; 135; 184; 131; 102; 111; 111; 131; 98; 97; 114;
   238; 143; 129; 138; 220; 139; 183; 33; 1; 180; 17; 130; 104; 105; 132; 113; 11; 113; 10].

Example C05_binary_to_binary_ex :
  sdecode ex_src = Some ex_vs /\
  fst (traverse ts_ok_default ex_src false) = obs_trace ex_obs /\          (* the reader model reports ex_obs, IDs included *)
  map norm_oval ex_obs = obs_of_values ex_vs /\
  copy_to_binary ex_obs = Some (ex_out, []) /\                             (* reader model -> copy loop -> writer model *)
  sdecode ex_out = Some ex_vs /\ ex_out <> ex_src.                         (* -> specification decoder *)
Proof. repeat split; try (vm_compute; reflexivity). vm_compute. discriminate. Qed.
Example C05_binary_to_binary_ex_premises :
  within_limits ts_ok_default ex_src /\ wf_values ex_vs /\ Forall (fun c => c < 256) ex_src.
Proof.
  assert (Hs : forall t, utf8_valid t = true -> wf_sym (SymText t)) by (intros t H; exists t; auto).
  split; [vm_compute; discriminate|]. split.
  - repeat constructor; try discriminate; try (apply Hs; reflexivity); try reflexivity; try exact I.
  - repeat constructor.
Qed.

Print Assumptions C05_binary_to_binary.
Print Assumptions C05_copy_to_binary.
Print Assumptions C05_binary_writer_by_text.
Print Assumptions C05_obs_of_values_normal.
